(** Reader.v — a scannerless reader that mirrors the Lark grammar of
    wal/reader.py (LALR + contextual lexer) by trying, at each parser
    position, the terminals the lexer would try, in its order (DESIGN
    Appendix F).  Result: the expression, a ParseError, or "outside the model"
    (non-ASCII text other than the section sign, unmodelled string escapes,
    huge float literals, fuel). (C10 C11) *)
From WalModel Require Export Printer.

Inductive rres (A : Type) : Type :=
  | ROk (a : A) (rest : string)
  | RErr                              (* ParseError *)
  | RUnm.                             (* outside the model *)
Arguments ROk {A}. Arguments RErr {A}. Arguments RUnm {A}.

Definition aZ := ascii_Z.
Definition is_ws (c : ascii) : bool :=
  let n := aZ c in (n =? 32) || (n =? 9) || (n =? 12) || (n =? 13) || (n =? 10).
Definition is_nl (c : ascii) : bool := aZ c =? 10.
Definition is_word (c : ascii) : bool := is_alpha c || is_digit c || (aZ c =? 95).
Definition is_sym_first (c : ascii) : bool := is_alpha c || (aZ c =? 95) || (aZ c =? 46).
(* = $ * / > : . - _ ? % ^ ! \ ~ + < > | ,  and \w   (the section sign is handled as the byte pair C2 A7) *)
Definition is_sym_rest (c : ascii) : bool :=
  is_word c ||
  let n := aZ c in
  (n =? 61) || (n =? 36) || (n =? 42) || (n =? 47) || (n =? 62) || (n =? 58) || (n =? 46) || (n =? 45) ||
  (n =? 63) || (n =? 37) || (n =? 94) || (n =? 33) || (n =? 92) || (n =? 126) || (n =? 43) || (n =? 60) ||
  (n =? 124) || (n =? 44).
Definition is_hex (c : ascii) : bool :=
  is_digit c || let n := aZ c in ((97 <=? n) && (n <=? 102)) || ((65 <=? n) && (n <=? 70)).
Definition is_bin (c : ascii) : bool := let n := aZ c in (n =? 48) || (n =? 49).
Definition is_octal (c : ascii) : bool := let n := aZ c in (48 <=? n) && (n <=? 55).

(** text is modelled when it is ASCII apart from the section sign *)
Fixpoint modelled_text (s : string) : bool :=
  match s with
  | EmptyString => true
  | String c r =>
      if aZ c <? 128 then modelled_text r
      else match r with
           | String d r' => (aZ c =? 194) && (aZ d =? 167) && modelled_text r'
           | EmptyString => false
           end
  end.

(** longest prefix of symbol-rest characters *)
Fixpoint span_sym (s : string) : string * string :=
  match s with
  | String c r =>
      if is_sym_rest c then let '(a, b) := span_sym r in (String c a, b)
      else if aZ c =? 194 then
        match r with
        | String d r' => if aZ d =? 167 then let '(a, b) := span_sym r' in (String c (String d a), b)
                         else (EmptyString, s)
        | EmptyString => (EmptyString, s)
        end
      else (EmptyString, s)
  | EmptyString => (EmptyString, EmptyString)
  end.

Fixpoint span_p (p : ascii -> bool) (s : string) : string * string :=
  match s with
  | String c r => if p c then let '(a, b) := span_p p r in (String c a, b) else (EmptyString, s)
  | EmptyString => (EmptyString, EmptyString)
  end.

Fixpoint skip_line (s : string) : string :=
  match s with
  | String c r => if is_nl c then s else skip_line r
  | EmptyString => EmptyString
  end.

(** _INTER* : white space and ;-comments *)
Fixpoint skip_inter (fuel : nat) (s : string) : string :=
  match fuel with
  | O => s
  | S f =>
      match s with
      | String c r =>
          if is_ws c then skip_inter f r
          else if aZ c =? 59 then skip_inter f (skip_line r)
          else s
      | EmptyString => EmptyString
      end
  end.
Definition inter (s : string) : string := skip_inter (S (String.length s)) s.

(** * atoms *)
Definition sym_or_op (text : string) : val :=
  if String.eqb text "true" then VBool true
  else if String.eqb text "false" then VBool false
  else match op_of_name text with Some o => VOp o | None => VSym text None end.

(** string literal: the token is the shortest text from the opening quote to a quote
    preceded by an even number of backslashes, without a newline; then Python's
    literal_eval.  [lex_string s] = (raw body, rest) for s just after the opening quote *)
Fixpoint lex_string (s : string) : option (string * string) :=
  match s with
  | EmptyString => None
  | String c r =>
      if is_nl c then None
      else if aZ c =? 34 then Some (EmptyString, r)
      else if aZ c =? 92 then
        match r with
        | String d r' =>
            if is_nl d then None
            else match lex_string r' with
                 | Some (body, rest) => Some (String c (String d body), rest)
                 | None => None
                 end
        | EmptyString => None
        end
      else match lex_string r with
           | Some (body, rest) => Some (String c body, rest)
           | None => None
           end
  end.

Inductive unesc := UOk (s : string) | UErr | UUnm.

Fixpoint unescape (fuel : nat) (s : string) : unesc :=
  match fuel with
  | O => UUnm
  | S f =>
      match s with
      | EmptyString => UOk EmptyString
      | String c r =>
          if aZ c =? 92 then
            match r with
            | EmptyString => UErr
            | String d r' =>
                let n := aZ d in
                let k (x : Z) (rest : string) :=
                  match unescape f rest with UOk t => UOk (String (ascii_of_N (Z.to_N x)) t) | e => e end in
                if n =? 110 then k 10 r'
                else if n =? 116 then k 9 r'
                else if n =? 92 then k 92 r'
                else if n =? 34 then k 34 r'
                else if n =? 39 then k 39 r'
                else if n =? 114 then k 13 r'
                else if n =? 97 then k 7 r'
                else if n =? 98 then k 8 r'
                else if n =? 102 then k 12 r'
                else if n =? 118 then k 11 r'
                else if n =? 120 then
                  match r' with
                  | String h1 (String h2 r'') =>
                      match digit_val h1, digit_val h2 with
                      | Some a, Some b =>
                          if (a <? 16) && (b <? 16) then
                            if a * 16 + b <? 128 then k (a * 16 + b) r'' else UUnm
                          else UErr
                      | _, _ => UErr
                      end
                  | _ => UErr
                  end
                else if is_octal d then
                  let '(ds, rest) :=
                    match r' with
                    | String o2 r2 =>
                        if is_octal o2 then
                          match r2 with
                          | String o3 r3 => if is_octal o3 then (String d (String o2 (String o3 "")), r3)
                                            else (String d (String o2 ""), r2)
                          | EmptyString => (String d (String o2 ""), r2)
                          end
                        else (String d "", r')
                    | EmptyString => (String d "", r')
                    end in
                  match digits_val 8 ds with
                  | Some v => if v <? 128 then k v rest else UUnm
                  | None => UErr
                  end
                else if (n =? 78) || (n =? 117) || (n =? 85) || (n =? 10) then UUnm
                else (* unknown escape: Python keeps the backslash *)
                  match unescape f r' with UOk t => UOk (String c (String d t)) | e => e end
            end
          else match unescape f r with UOk t => UOk (String c t) | e => e end
      end
  end.

(** decimal text -> binary64, correctly rounded, for mantissas below 2^53 and at most 22 fractional digits *)
Definition float_of_decimal (neg : bool) (ip fp : string) : option spec_float :=
  match digits_val 10 (ip ++ fp) with
  | Some m =>
      let k := slen fp in
      if (m <? 9007199254740992) && (k <=? 22) then
        let mag := if m =? 0 then S754_zero false else f_div (f_of_Z m) (f_of_Z (10 ^ k)) in
        Some (if neg then SFopp mag else mag)
      else None
  | None => None
  end.

Definition split_sign (s : string) : bool * bool * string :=     (* (has sign, negative, rest) *)
  match s with
  | String c r => if aZ c =? 45 then (true, true, r) else if aZ c =? 43 then (true, false, r) else (false, false, s)
  | EmptyString => (false, false, s)
  end.

(** number terminals in lexer order: bin (priority 2), float, hex, dec *)
Definition lex_number (s : string) : option (rres val) :=
  let try_bin :=
    match s with
    | String "0"%char (String "b"%char r) =>
        let '(ds, rest) := span_p is_bin r in
        match digits_val 2 ds with Some z => Some (ROk (VInt z) rest) | None => None end
    | _ => None
    end in
  match try_bin with
  | Some r => Some r
  | None =>
      let '(_, neg, body) := split_sign s in
      let '(ip, r1) := span_p is_digit body in
      match ip with
      | EmptyString => None
      | _ =>
          match r1 with
          | String "."%char r2 =>
              let '(fp, rest) := span_p is_digit r2 in
              Some (match float_of_decimal neg ip fp with
                    | Some f => ROk (VFloat f) rest
                    | None => RUnm
                    end)
          | _ =>
              let try_hex :=
                match s with
                | String "0"%char (String "x"%char r) =>
                    let '(ds, rest) := span_p is_hex r in
                    match digits_val 16 ds with Some z => Some (ROk (VInt z) rest) | None => None end
                | _ => None
                end in
              match try_hex with
              | Some r => Some r
              | None =>
                  if 4000 <? slen ip then Some RUnm
                  else match digits_val 10 ip with
                       | Some z => Some (ROk (VInt (if neg then - z else z)) r1)
                       | None => None
                       end
              end
          end
      end
  end.

Definition is_pyspace_re (c : ascii) : bool := is_pyspace c.

(** base_symbol without keyword conversion: symbol text or escaped identifier *)
Definition lex_base (s : string) : option (string * string) :=
  match s with
  | String c r =>
      if is_sym_first c then let '(a, b) := span_sym r in Some (String c a, b)
      else if aZ c =? 92 then
        let '(a, b) := span_p (fun x => negb (is_pyspace_re x)) r in
        match a with EmptyString => None | _ => Some (String c a, b) end
      else None
  | EmptyString => None
  end.

Definition closer (c : ascii) : option ascii :=
  let n := aZ c in
  if n =? 40 then Some ")"%char else if n =? 91 then Some "]"%char else if n =? 123 then Some "}"%char else None.

Definition two_char_ops : list string := ["**"; "&&"; "||"; "!="; ">="; "<="].
Definition one_char_ops : list string := ["!"; "="; "<"; "-"; ">"; "+"; "/"; "*"].

Fixpoint first_prefix (l : list string) (s : string) : option (string * string) :=
  match l with
  | [] => None
  | p :: r => if sprefix p s then Some (p, sdrop (String.length p) s) else first_prefix r s
  end.

(** * the grammar *)
Fixpoint p_sexpr (n : nat) (s : string) {struct n} : rres val :=
  match n with
  | O => RUnm
  | S f =>
      match p_strict f (inter s) with
      | ROk a r1 =>
          match r1 with
          | String "@"%char r2 =>
              match p_strict f r2 with
              | ROk b r3 => ROk (WL [VOp OReval; a; b]) (inter r3)
              | e => e
              end
          | _ => ROk a (inter r1)
          end
      | e => e
      end
  end
with p_strict (n : nat) (s : string) {struct n} : rres val :=
  match n with
  | O => RUnm
  | S f =>
      match p_primary f s with
      | ROk a r => p_postfix f a r
      | e => e
      end
  end
with p_postfix (n : nat) (a : val) (s : string) {struct n} : rres val :=
  match n with
  | O => RUnm
  | S f =>
      match s with
      | String "["%char r =>
          match p_sexpr f r with
          | ROk i r1 =>
              match r1 with
              | String "]"%char r2 => p_postfix f (WL [VOp OSlice; a; i]) r2
              | String ":"%char r2 =>
                  match p_sexpr f r2 with
                  | ROk j r3 =>
                      match r3 with
                      | String "]"%char r4 => p_postfix f (WL [VOp OSlice; a; i; j]) r4
                      | _ => RErr
                      end
                  | e => e
                  end
              | _ => RErr
              end
          | e => e
          end
      | _ => ROk a s
      end
  end
with p_primary (n : nat) (s : string) {struct n} : rres val :=
  match n with
  | O => RUnm
  | S f =>
      match s with
      | EmptyString => RErr
      | String c r =>
          if is_sym_first c then
            let '(a, rest) := span_sym r in ROk (sym_or_op (String c a)) rest
          else if aZ c =? 34 then
            match lex_string r with
            | None => RErr
            | Some (body, rest) =>
                match unescape (S (String.length body)) body with
                | UOk t => ROk (VStr t) rest
                | UErr => RErr
                | UUnm => RUnm
                end
            end
          else
            match lex_number s with
            | Some res => res
            | None =>
                if aZ c =? 92 then
                  match lex_base s with
                  | Some (nm, rest) => ROk (VSym nm None) rest
                  | None => RErr
                  end
                else if sprefix ",@" s then
                  match p_sexpr f (sdrop 2 s) with ROk v rest => ROk (VUnqS v) rest | e => e end
                else
                  match first_prefix two_char_ops s with
                  | Some (o, rest) => match op_of_name o with Some x => ROk (VOp x) rest | None => RErr end
                  | None =>
                      if aZ c =? 96 then
                        match p_sexpr f r with ROk v rest => ROk (WL [VOp OQuasiquote; v]) rest | e => e end
                      else if aZ c =? 44 then
                        match p_sexpr f r with ROk v rest => ROk (VUnq v) rest | e => e end
                      else if aZ c =? 39 then
                        match p_sexpr f r with ROk v rest => ROk (WL [VOp OQuote; v]) rest | e => e end
                      else if aZ c =? 35 then
                        match lex_base r with
                        | Some (nm, rest) =>
                            if String.eqb nm "t" then ROk (VBool true) rest
                            else if String.eqb nm "f" then ROk (VBool false) rest
                            else ROk (WL [VOp OResolveGroup; VSym nm None]) rest
                        | None => RErr
                        end
                      else if aZ c =? 126 then
                        match lex_base r with
                        | Some (nm, rest) => ROk (WL [VOp OResolveScope; VSym nm None]) rest
                        | None => RErr
                        end
                      else
                        match closer c with
                        | Some cl =>
                            match r with
                            | String d r' =>
                                if Ascii.eqb d cl then ROk (WL []) r'
                                else p_list f cl r []
                            | EmptyString => RErr
                            end
                        | None =>
                            match first_prefix one_char_ops s with
                            | Some (o, rest) => match op_of_name o with Some x => ROk (VOp x) rest | None => RErr end
                            | None => RErr
                            end
                        end
                  end
            end
      end
  end
with p_list (n : nat) (cl : ascii) (s : string) (acc : list val) {struct n} : rres val :=
  match n with
  | O => RUnm
  | S f =>
      match p_sexpr f s with
      | ROk v rest =>
          match rest with
          | String d r' =>
              if Ascii.eqb d cl then ROk (WL (rev (v :: acc))) r'
              else p_list f cl rest (v :: acc)
          | EmptyString => RErr
          end
      | e => e
      end
  end.

Definition reader_fuel (s : string) : nat := (4 * String.length s + 40)%nat.

(** read_wal_sexpr: one expression covering the whole text *)
Definition read_sexpr (s : string) : rres val :=
  if negb (modelled_text s) then RUnm else
  match p_sexpr (reader_fuel s) s with
  | ROk v EmptyString => ROk v EmptyString
  | ROk _ _ => RErr
  | e => e
  end.

(** read_wal_sexprs: optional shebang line, then white space only or a sequence of expressions *)
Definition skip_shebang (s : string) : string :=
  (* the terminal allows leading white space (\s*#![^\n]+\n) but the lexer takes white space at the start as an
     _INTER token first, so only a text that begins with #! has its first line skipped *)
  match s with
  | String "#"%char (String "!"%char r) =>
      let line := skip_line r in
      match r, line with
      | String c _, String _ after => if is_nl c then s else after
      | _, _ => s
      end
  | _ => s
  end.

Fixpoint p_seq (n : nat) (fuel : nat) (s : string) (acc : list val) : rres (list val) :=
  match n with
  | O => RUnm
  | S k =>
      match s with
      | EmptyString => ROk (rev acc) EmptyString
      | _ =>
          match p_sexpr fuel s with
          | ROk v rest => p_seq k fuel rest (v :: acc)
          | RErr => RErr
          | RUnm => RUnm
          end
      end
  end.

Definition read_sexprs (s : string) : rres (list val) :=
  if negb (modelled_text s) then RUnm else
  match s with
  | EmptyString => RErr
  | _ =>
      let s1 := skip_shebang s in
      if String.eqb (inter s1) "" then ROk [] EmptyString
      else p_seq (S (String.length s1)) (reader_fuel s1) s1 []
  end.
