(** Eval.v — the evaluator (wal/eval.py), the operator implementations
    (wal/implementation/*.py) and the macro-expansion pass (wal/passes.py
    expand), as coded.  Open recursion: every operator is a non-recursive
    definition over [ev] (the evaluator at lower fuel) and [ex] (expand at
    lower fuel); [eval (S f) = eval_body f (eval f) (expand f)]. *)
From WalModel Require Export State Passes.

Section Ops.
  Variable loopfuel : nat.                          (* bound for Python-level loops *)
  Variable ev : val -> M val.                       (* seval.eval *)
  Variable ex : val -> option nat -> M val.         (* passes.expand(seval, e, parent) *)

  Definition eval_args (args : list val) : M (list val) := mapM ev args.

  Definition last_or_index_error (l : list val) : M val :=
    match last_opt l with Some v => ret v | None => fail EOther end.

  Definition arg0 (args : list val) : M val :=
    match args with a :: _ => ret a | [] => fail EOther end.

  Definition printable (v : val) : M string :=
    fun st =>
      let fix arr (depth : nat) (r : nat) : option string :=
        match depth with
        | O => None
        | S d =>
            match nth_error (st_arrays st) r with
            | None => None
            | Some items =>
                let parts := map (fun kv =>
                    match wal_str (arr d) (snd kv) with
                    | Some s => Some ("(" ++ String (ch 34) (fst kv ++ String (ch 34) (" " ++ s ++ ")")))
                    | None => None
                    end) items in
                match map_opt (fun x => x) parts with
                | Some ps => Some ("{" ++ sjoin " " ps ++ "}")
                | None => None
                end
            end
        end in
      match wal_str (arr 8%nat) v with
      | Some s => Ok s st
      | None => Unm "wal_str"
      end.

  (** * eval.py *)
  Definition contains_m (name : string) : M bool :=
    st <- get_st ;;
    match cont_contains (st_cont st) name with
    | Some b => ret b
    | None =>
        if (c_ntraces (st_cont st) =? 1) && negb (has_sep name)
        then fail EOther else fail EEval
    end.

  Definition replace_trace (t : trace) : M unit :=
    modify (fun st => upd_cont st (with_traces (st_cont st)
                                      (aset (tr_tid t) t (c_traces (st_cont st))))).

  (** VirtualSignal.value: cache keyed by the current index (two samples can carry the same timestamp; the caches
      are dropped when the sampling changes) *)
  Definition virtual_value (tid name : string) : M val :=
    st <- get_st ;;
    match alookup tid (c_traces (st_cont st)) with
    | None => fail EOther
    | Some t =>
        match alookup name (tr_virt t) with
        | None => fail EOther
        | Some vs =>
            let ts := tr_index t in
                let fix find (l : list (Z * val)) :=
                  match l with
                  | [] => None
                  | (k, v) :: r => if k =? ts then Some v else find r
                  end in
                match find (vs_cache vs) with
                | Some v => ret v
                | None =>
                    vals <- eval_args (vs_body vs) ;;
                    v <- last_or_index_error vals ;;
                    st2 <- get_st ;;
                    match alookup tid (c_traces (st_cont st2)) with
                    | None => fail EOther
                    | Some t2 =>
                        match alookup name (tr_virt t2) with
                        | None => fail EOther
                        | Some vs2 =>
                            replace_trace (set_virt t2 (aset name
                                (mkVsig (vs_body vs2) (vs_cache vs2 +++ [(ts, v)])) (tr_virt t2))) ;;;
                            ret v
                        end
                    end
                end
        end
    end.

  Definition signal_value_m (name scope : string) : M val :=
    st <- get_st ;;
    match cont_signal_value (st_cont st) name scope with
    | (SVal v, _) => ret v
    | (SVirtual n, Some t) => virtual_value (tr_tid t) n
    | (SVirtual _, None) => fail EOther
    | (SErr e, _) => fail e
    | (SUnmodelled, _) => unm "special signal"
    end.

  Definition eval_symbol (n : string) (steps : option nat) : M val :=
    st <- get_st ;;
    let name := match alookup n (st_aliases st) with Some a => a | None => n end in
    match steps with
    | Some k =>
        match hop st (st_cur st) k with
        | Some fid => env_read fid n
        | None => fail EOther
        end
    | None =>
        b <- contains_m name ;;
        if b then signal_value_m name (st_scope st)
        else env_read (st_cur st) name
    end.

  Definition eval_closure (clos : val) (args : list val) : M val :=
    match clos with
    | VClos cenv params body _ =>
        st <- get_st ;;
        let save := st_cur st in
        fid <- new_frame (Some cenv) ;;
        match params with
        | VSym p _ =>
            vs <- eval_args args ;;
            env_define fid p (PL vs)
        | VList true ps =>
            assert (Nat.eqb (List.length ps) (List.length args)) ;;;
            (fix go (ps args : list val) : M unit :=
               match ps, args with
               | p :: pr, a :: ar =>
                   v <- ev a ;;
                   match p with
                   | VSym pn _ => env_define fid pn v ;;; go pr ar
                   | _ => fail EOther
                   end
               | _, _ => ret tt
               end) ps args
        | _ => fail EEval
        end ;;;
        modify (fun s => upd_cur s fid) ;;;
        r <- ev body ;;
        modify (fun s => upd_cur s save) ;;;
        ret r
    | _ => fail EOther
    end.

  (** * implementation/core.py *)
  Definition op_not (args : list val) : M val :=
    vs <- eval_args args ;;
    assert (negb (Nat.eqb (List.length vs) 0)) ;;;
    assert (forallb is_int_val vs) ;;;
    st <- get_st ;;
    ret (VBool (negb (existsb (truthy st) vs))).

  Fixpoint all_eq_first (x : val) (l : list val) : option bool :=
    match l with
    | [] => Some true
    | y :: r => match py_eq y x with
                | Some true => all_eq_first x r
                | Some false => Some false
                | None => None
                end
    end.

  Definition op_eq (neg : bool) (args : list val) : M val :=
    vs <- eval_args args ;;
    assert (1 <? zlen vs) ;;;
    match vs with
    | x :: _ =>
        match all_eq_first x vs with
        | Some b => ret (VBool (if neg then negb b else b))
        | None => unm "equality on closures/arrays"
        end
    | [] => fail EEval
    end.

  Definition op_cmp (test : comparison -> bool) (args : list val) : M val :=
    assert (Nat.eqb (List.length args) 2) ;;;
    vs <- eval_args args ;;
    assert (forallb is_num_val vs) ;;;
    match vs with
    | [a; b] =>
        match as_num a, as_num b with
        | Some x, Some y =>
            match num_cmp x y with
            | Some c => ret (VBool (test c))
            | None => match x, y with
                      | NFloat _, NFloat _ => ret (VBool false)
                      | _, _ => unm "huge int vs float"
                      end
            end
        | _, _ => fail EEval
        end
    | _ => fail EEval
    end.

  Fixpoint and_loop (args : list val) : M val :=
    match args with
    | [] => ret (VBool true)
    | a :: r => v <- ev a ;; st <- get_st ;;
                if truthy st v then and_loop r else ret (VBool false)
    end.
  Definition op_and (args : list val) : M val :=
    assert (negb (Nat.eqb (List.length args) 0)) ;;; and_loop args.

  Fixpoint or_loop (args : list val) : M val :=
    match args with
    | [] => ret (VBool false)
    | a :: r => v <- ev a ;; st <- get_st ;;
                if truthy st v then ret (VBool true) else or_loop r
    end.
  Definition op_or (args : list val) : M val :=
    assert (negb (Nat.eqb (List.length args) 0)) ;;; or_loop args.

  Definition op_let (args : list val) : M val :=
    a0 <- arg0 args ;;
    match a0 with
    | VList true pairs =>
        st <- get_st ;;
        let save := st_cur st in
        fid <- new_frame (Some save) ;;
        modify (fun s => upd_cur s fid) ;;;
        (fix go (ps : list val) : M unit :=
           match ps with
           | [] => ret tt
           | p :: r =>
               match p with
               | VList true items =>
                   match items with
                   | [] => fail EOther
                   | k :: _ =>
                       match k with
                       | VSym kn _ =>
                           assert (Nat.eqb (List.length items) 2) ;;;
                           match items with
                           | [_; e] => v <- ev e ;; env_define fid kn v ;;; go r
                           | _ => fail EEval
                           end
                       | _ => fail EEval
                       end
                   end
               | _ => fail EEval
               end
           end) pairs ;;;
        vs <- eval_args (tl args) ;;
        r <- last_or_index_error vs ;;
        modify (fun s => upd_cur s save) ;;;
        ret r
    | _ => fail EEval
    end.

  Definition op_set (args : list val) : M val :=
    assert (negb (Nat.eqb (List.length args) 0)) ;;;
    (fix go (l : list val) (last : val) : M val :=
       match l with
       | [] => ret last
       | a :: r =>
           match a with
           | VList true [k; e] =>
               match k with
               | VSym kn steps =>
                   v <- ev e ;;
                   st <- get_st ;;
                   match steps with
                   | Some n =>
                       match hop st (st_cur st) n with
                       | None => fail EOther
                       | Some fid =>
                           match get_frame st fid with
                           | Some f =>
                               match f_binds f with
                               | [] => fail EEval          (* empty dict is falsy *)
                               | _ => frame_store fid kn v
                               end
                           | None => fail EOther
                           end
                       end
                   | None =>
                       match lookup_frame st (st_cur st) kn with
                       | Some fid => frame_store fid kn v
                       | None => fail EEval
                       end
                   end ;;;
                   go r v
               | _ => fail EEval
               end
           | VList true [] => fail EEval
           | VList true _ => fail EEval
           | _ => fail EEval
           end
       end) args VNone.

  Definition op_define (args : list val) : M val :=
    assert (Nat.eqb (List.length args) 2) ;;;
    match args with
    | [VSym kn _; e] =>
        v <- ev e ;; st <- get_st ;; env_define (st_cur st) kn v ;;; ret v
    | _ => fail EEval
    end.

  Definition to_text (v : val) : M string :=
    match v with VStr s => ret s | _ => printable v end.

  Definition op_print (args : list val) : M val :=
    vs <- eval_args args ;;
    ss <- mapM to_text vs ;;
    emit (sconcat ss ++ String (ch 10) "") ;;; ret VNone.

  (** printf: %d %s %% only *)
  Definition printf_arg_s (v : val) : M string :=
    match v with
    | VStr s => ret s
    | VList _ _ | VArr _ | VOp _ | VUnq _ | VUnqS _ | VMacro _ _ _ | VClos _ _ _ _ | VSym _ _ => printable v
    | _ => match py_str_atom v with Some s => ret s | None => unm "printf %s" end
    end.

  Fixpoint printf_go (fuel : nat) (fmt : string) (vs : list val) : M string :=
    match fuel with
    | O => unm "printf"
    | S f =>
        match fmt with
        | EmptyString => match vs with [] => ret "" | _ => fail EOther end
        | String c r =>
            if Ascii.eqb c "%"%char then
              match r with
              | String d r2 =>
                  if Ascii.eqb d "%"%char then s <- printf_go f r2 vs ;; ret (String "%"%char s)
                  else if Ascii.eqb d "d"%char then
                    match vs with
                    | v :: vr =>
                        match v with
                        | VFloat _ => unm "printf %d float"
                        | _ => match int_of v with
                               | Some z => s <- printf_go f r2 vr ;; ret (dec_of_Z z ++ s)
                               | None => fail EOther
                               end
                        end
                    | [] => fail EOther
                    end
                  else if Ascii.eqb d "s"%char then
                    match vs with
                    | v :: vr => a <- printf_arg_s v ;; s <- printf_go f r2 vr ;; ret (a ++ s)
                    | [] => fail EOther
                    end
                  else unm "printf conversion"
              | EmptyString => fail EOther
              end
            else s <- printf_go f r vs ;; ret (String c s)
        end
    end.

  Definition op_printf (args : list val) : M val :=
    assert (negb (Nat.eqb (List.length args) 0)) ;;;
    match args with
    | a :: r =>
        fv <- ev a ;;
        match fv with
        | VStr fmt =>
            vs <- eval_args r ;;
            s <- printf_go (S (String.length fmt)) fmt vs ;;
            emit s ;;; ret VNone
        | _ => fail EOther
        end
    | [] => fail EEval
    end.

  Definition op_if (args : list val) : M val :=
    assert (Nat.eqb (List.length args) 2 || Nat.eqb (List.length args) 3) ;;;
    match args with
    | c :: t :: r =>
        v <- ev c ;; st <- get_st ;;
        if truthy st v then ev t
        else match r with [e] => ev e | _ => ret VNone end
    | _ => fail EEval
    end.

  (** str(x[0]) of a case clause, for the duplicate-key test *)
  Definition case_key_str (k : val) : option string :=
    match k with
    | VOp o => Some ("Operator." ++ op_name o)
    | _ => py_str_atom k
    end.

  Definition op_case (args : list val) : M val :=
    assert (negb (Nat.eqb (List.length args) 0)) ;;;
    match args with
    | kf :: clauses =>
        keyform <- ev kf ;;
        (* str(x[0]) for every clause *)
        keys <- mapM (fun c => match c with
                               | VList _ (k :: _) =>
                                   match case_key_str k with
                                   | Some s => ret s
                                   | None => unm "case key"
                                   end
                               | VList _ [] => fail EOther
                               | _ => fail EOther
                               end) clauses ;;
        require (Nat.eqb (List.length (dedup_str keys [])) (List.length clauses)) EOther ;;;
        (fix go (cs : list val) (default : option (list val)) : M val :=
           match cs with
           | [] => match default with
                   | Some body => vs <- eval_args body ;; last_or_index_error vs
                   | None => ret VNone
                   end
           | c :: r =>
               match c with
               | VList _ (k :: body) =>
                   match py_eq keyform k with
                   | None => unm "case equality"
                   | Some true => vs <- eval_args body ;; last_or_index_error vs
                   | Some false =>
                       match k with
                       | VSym "default" _ => go r (Some body)
                       | _ => go r default
                       end
                   end
               | _ => fail EOther
               end
           end) clauses None
    | [] => fail EEval
    end.

  Definition op_do (args : list val) : M val :=
    match args with
    | [] => ret VNone
    | _ => vs <- eval_args args ;; last_or_index_error vs
    end.

  Fixpoint while_loop (n : nat) (c : val) (body : list val) (last : val) : M val :=
    match n with
    | O => fun _ => Fuel
    | S k =>
        v <- ev c ;; st <- get_st ;;
        if truthy st v then
          vs <- eval_args body ;; r <- last_or_index_error vs ;; while_loop k c body r
        else ret last
    end.
  Definition op_while (args : list val) : M val :=
    assert (2 <=? zlen args) ;;;
    match args with
    | c :: body => while_loop loopfuel c body VNone
    | [] => fail EEval
    end.

  Definition op_alias (args : list val) : M val :=
    assert (negb (Nat.eqb (List.length args) 0)) ;;;
    assert (Nat.eqb (List.length args) 2) ;;;
    match args with
    | [VSym a _; e] =>
        v <- ev e ;;
        match v with
        | VStr s => modify (fun st => upd_aliases st (aset a s (st_aliases st))) ;;; ret VNone
        | VSym s _ => modify (fun st => upd_aliases st (aset a s (st_aliases st))) ;;; ret VNone
        | _ => fail EEval
        end
    | _ => fail EEval
    end.

  Definition op_unalias (args : list val) : M val :=
    assert (negb (Nat.eqb (List.length args) 0)) ;;;
    (fix go (l : list val) : M val :=
       match l with
       | [] => ret VNone
       | VSym a _ :: r =>
           st <- get_st ;;
           assert (amem a (st_aliases st)) ;;;
           modify (fun s => upd_aliases s (adel a (st_aliases s))) ;;; go r
       | _ => fail EEval
       end) args.

  Definition op_quote (args : list val) : M val :=
    assert (Nat.eqb (List.length args) 1) ;;; arg0 args.

  (** quasiquote: recursion over the quoted tree; [fuel] bounds nesting *)
  Fixpoint unquote_go (fuel : nat) (e : val) : M val :=
    match fuel with
    | O => fun _ => Fuel
    | S f =>
        match e with
        | VList true ((_ :: _) as l) =>
            (fix go (l : list val) (acc : list val) : M val :=
               match l with
               | [] => ret (WL acc)
               | x :: r =>
                   match x with
                   | VUnq c => c' <- unquote_go f c ;; v <- ev c' ;; go r (acc +++ [v])
                   | VUnqS c =>
                       c' <- unquote_go f c ;; v <- ev c' ;;
                       match v with
                       | VList _ items => go r (acc +++ items)
                       | VStr _ | VArr _ => unm "splice of non-list iterable"
                       | _ => fail EOther
                       end
                   | _ => x' <- unquote_go f x ;; go r (acc +++ [x'])
                   end
               end) l []
        | _ => ret e
        end
    end.

  Definition op_quasiquote (args : list val) : M val :=
    assert (Nat.eqb (List.length args) 1) ;;;
    a <- arg0 args ;; unquote_go loopfuel a.

  Definition run_passes (e : val) (parent : option nat) (start : list string) : M val :=
    expanded <- ex e parent ;;
    match resolve start (optimize expanded) with
    | RsOk r => ret r
    | RsErr er => fail er
    end.

  Definition op_eval (args : list val) : M val :=
    assert (Nat.eqb (List.length args) 1) ;;;
    a <- arg0 args ;;
    v <- ev a ;;
    r <- run_passes v (Some global_id) [] ;;
    ev r.

  Definition is_sym (v : val) : bool := match v with VSym _ _ => true | _ => false end.

  Definition op_fn (args : list val) : M val :=
    assert (2 <=? zlen args) ;;;
    match args with
    | p :: ((n :: _) as body) =>
        match p with
        | VList _ ps => assert (forallb is_sym ps)
        | VSym _ _ => ret tt
        | _ => fail EEval
        end ;;;
        st <- get_st ;;
        let name := match n with VSym s _ => s | VStr s => s | _ => "lambda" end in
        ret (VClos (st_cur st) p (WL (VOp ODo :: body)) name)
    | _ => fail EEval
    end.

  Definition op_defmacro (args : list val) : M val :=
    assert (3 <=? zlen args) ;;;
    match args with
    | VSym name _ :: params :: ((b0 :: _) as body) =>
        assert (match b0 with
                | VSym _ _ | VInt _ | VBool _ | VStr _ | VFloat _ | VList true _ => true
                | _ => false
                end) ;;;
        body' <- mapM (fun b => ex b None) body ;;
        st <- get_st ;;
        env_define (st_cur st) name (VMacro name params (WL (VOp ODo :: body'))) ;;;
        ret VNone
    | _ => fail EEval
    end.

  Definition op_macroexpand (args : list val) : M val :=
    assert (Nat.eqb (List.length args) 1) ;;;
    a <- arg0 args ;;
    v <- ev a ;;
    st <- get_st ;;
    e <- ex v (Some (st_cur st)) ;;
    ret (optimize e).

  Definition op_gensym (args : list val) : M val :=
    st <- get_st ;;
    let n := st_gensym st + 1 in
    modify (fun s => upd_gensym s n) ;;;
    ret (VSym ("$" ++ dec_of_Z n) (Some O)).

  Definition op_get (args : list val) : M val :=
    assert (Nat.eqb (List.length args) 1) ;;;
    vs <- eval_args args ;;
    match vs with
    | [VStr s] =>
        (* Symbol(s) carries the default tuple line_info: an assertion failing on the
           symbol itself makes print_error raise a TypeError instead of WalEvalError *)
        fun st => match ev (VSym s None) st with
                  | Er EEval st' => Er EOther st'
                  | r => r
                  end
    | [VSym n st] => ev (VSym n st)
    | _ => ret VNone
    end.

  Fixpoint all_in_range (ts : list (string * trace)) (off : Z) : bool :=
    match ts with
    | [] => true
    | (_, t) :: r =>
        if (tr_max t <? tr_index t + off) || (tr_index t + off <? 0) then false
        else all_in_range r off
    end.

  Definition step_all_m (n : Z) : M (list string) :=
    st <- get_st ;;
    match cont_step (st_cont st) n None with
    | Some (c, ended) => modify (fun s => upd_cont s c) ;;; ret ended
    | None => fail EEval
    end.

  Definition restore_m : M unit :=
    st <- get_st ;;
    match cont_restore (st_cont st) with
    | Some c => modify (fun s => upd_cont s c)
    | None => fail EOther
    end.

  Definition op_reval (args : list val) : M val :=
    assert (Nat.eqb (List.length args) 2) ;;;
    match args with
    | [e; o] =>
        assert (match e with
                | VSym _ _ | VInt _ | VBool _ | VStr _ | VList _ _ | VFloat _ => true
                | _ => false
                end) ;;;
        ov <- ev o ;;
        match int_of ov with
        | None => fail EEval
        | Some off =>
            st <- get_st ;;
            if all_in_range (c_traces (st_cont st)) off then
              modify (fun s => upd_cont s (cont_store (st_cont s))) ;;;
              step_all_m off ;;;
              r <- ev e ;;
              restore_m ;;;
              ret r
            else ret (VBool false)
        end
    | _ => fail EEval
    end.

  Definition name_of (v : val) : option string :=
    match v with VStr s => Some s | VSym n _ => Some n | _ => None end.

  Definition set_scope_cs (s : string) : M unit :=
    modify (fun st => upd_scope st s) ;;; write_global "CS" (VStr s).

  Definition op_in_scope (args : list val) : M val :=
    assert (Nat.eqb (List.length args) 2) ;;;
    match args with
    | [s; e] =>
        st <- get_st ;;
        let prev := st_scope st in
        v <- ev s ;;
        match name_of v with
        | None => fail EEval
        | Some name =>
            set_scope_cs name ;;;
            r <- ev e ;;
            set_scope_cs prev ;;;
            ret r
        end
    | _ => fail EEval
    end.

  Definition op_all_scopes (args : list val) : M val :=
    assert (negb (Nat.eqb (List.length args) 0)) ;;;
    match args with
    | body :: _ =>
        assert (match body with
                | VSym _ _ | VInt _ | VBool _ | VStr _ | VList _ _ | VFloat _ => true
                | _ => false
                end) ;;;
        st <- get_st ;;
        let prev_scope := st_scope st in
        prev_cs <- read_global "CS" ;;
        rs <- mapM (fun sc => set_scope_cs sc ;;; ev body) (cont_scopes (st_cont st)) ;;
        modify (fun s => upd_scope s prev_scope) ;;;
        write_global "CS" prev_cs ;;;
        ret (PL rs)
    | _ => fail EEval
    end.

  Definition cs_text : M string :=
    v <- read_global "CS" ;;
    match v with VStr s => ret s | _ => unm "CS rebound to a non-string" end.

  Definition alias_of (st : state) (n : string) : string :=
    match alookup n (st_aliases st) with Some a => a | None => n end.

  Definition read_named_signal (name : string) : M val :=
    b <- contains_m name ;;
    assert b ;;;
    signal_value_m name "".

  Definition op_resolve_scope (args : list val) : M val :=
    assert (Nat.eqb (List.length args) 1) ;;;
    match args with
    | [VSym n _] =>
        st <- get_st ;;
        let n' := alias_of st n in
        cs <- cs_text ;;
        let name := if smem cs (cont_scopes (st_cont st)) then cs ++ "." ++ n' else cs ++ n' in
        read_named_signal name
    | _ => fail EEval
    end.

  Definition op_set_scope (args : list val) : M val :=
    assert (negb (Nat.eqb (List.length args) 0)) ;;;
    match args with
    | VSym n _ :: _ =>
        st <- get_st ;;
        assert (smem n (cont_scopes (st_cont st))) ;;;
        set_scope_cs n ;;; ret VNone
    | _ => fail EEval
    end.

  Definition op_unset_scope (args : list val) : M val :=
    assert (Nat.eqb (List.length args) 0) ;;;
    set_scope_cs "" ;;; ret VNone.

  (** groups: suffixes matched as literal text *)
  Definition no_dot_backslash (s : string) : bool :=
    negb (String.eqb s "") &&
    sall (fun c => negb (Ascii.eqb c "."%char) && negb (Ascii.eqb c (ch 92))) s.

  Definition strip_suffix (suf s : string) : option string :=
    if ssuffix suf s then Some (stake (String.length s - String.length suf) s) else None.

  Definition op_groups (args : list val) : M val :=
    assert (negb (Nat.eqb (List.length args) 0)) ;;;
    raw <- mapM (fun a => match a with
                          | VList true _ =>
                              v <- ev a ;;
                              match v with VStr s => ret s | _ => unm "groups: non-string suffix" end
                          | VSym n _ => ret n
                          | VStr s => ret s
                          | _ => fail EOther
                          end) args ;;
    st <- get_st ;;
    let sufs := map (alias_of st) raw in
    cs <- read_global "CS" ;;
    st1 <- get_st ;;
    match sufs with
    | [] => fail EEval
    | s0 :: posts =>
        if String.eqb s0 "" then unm "groups: empty suffix" else
        let cand (sig : string) : option string :=
          match strip_suffix s0 sig with
          | None => None
          | Some pre =>
              if truthy st1 cs then
                match cs with
                | VStr c =>
                    if sprefix (c ++ ".") pre &&
                       no_dot_backslash (sdrop (String.length c + 1) pre)
                    then Some pre else None
                | _ => None
                end
              else if scontains_char (ch 10) pre then None else Some pre
          end in
        match cs with
        | VStr _ =>
            let pres := flat_map (fun sig => match cand sig with Some p => [p] | None => [] end)
                                 (cont_signals (st_cont st1)) in
            oks <- mapM (fun pre =>
                     bs <- mapM (fun post => contains_m (pre ++ post)) posts ;;
                     ret (if forallb (fun b => b) bs then [pre] else [])) pres ;;
            ret (PL (map VStr (isort sltb (dedup_str (List.concat oks) []))))
        | _ => unm "groups: CS rebound"
        end
    end.

  Definition op_in_group (args : list val) : M val :=
    assert (2 <=? zlen args) ;;;
    match args with
    | g :: body =>
        st <- get_st ;;
        let prev_group := st_group st in
        let prev_scope := st_scope st in
        v <- ev g ;;
        match name_of v with
        | None => fail EEval
        | Some name =>
            modify (fun s => upd_group s name) ;;;
            write_global "CG" (VStr name) ;;;
            let i := srfind "."%char name in
            let sc := if i =? -1 then prev_scope else stake (Z.to_nat (i + 1)) name in
            set_scope_cs sc ;;;
            vs <- eval_args body ;;
            modify (fun s => upd_group (upd_scope s prev_scope) prev_group) ;;;
            write_global "CG" (VStr prev_group) ;;;
            write_global "CS" (VStr prev_scope) ;;;
            last_or_index_error vs
        end
    | [] => fail EEval
    end.

  Definition op_in_groups (args : list val) : M val :=
    assert (2 <=? zlen args) ;;;
    match args with
    | g :: body =>
        gs <- ev g ;;
        match gs with
        | VList _ groups =>
            (fix go (l : list val) (last : val) : M val :=
               match l with
               | [] => ret last
               | x :: r => v <- op_in_group (x :: body) ;; go r v
               end) groups VNone
        | _ => fail EEval
        end
    | [] => fail EEval
    end.

  Definition op_resolve_group (args : list val) : M val :=
    assert (Nat.eqb (List.length args) 1) ;;;
    match args with
    | [VSym n _] =>
        st <- get_st ;;
        read_named_signal (st_group st ++ alias_of st n)
    | _ => fail EEval
    end.

  Definition chars_of (s : string) : list val :=
    map (fun c => VStr (String c EmptyString)) (list_of_string s).

  Definition op_slice (args : list val) : M val :=
    assert ((1 <? zlen args) && (zlen args <? 4)) ;;;
    vs <- eval_args args ;;
    match vs with
    | x :: rest =>
        match x with
        | VInt _ | VBool _ =>
            match int_of x, rest with
            | Some z, [i] =>
                match int_of i with
                | Some iz => match slice1 z iz with Some r => ret (VInt r) | None => fail EOther end
                | None => fail EEval
                end
            | Some z, [u; l] =>
                match int_of u with
                | None => fail EEval
                | Some uz =>
                    match int_of l with
                    | None => fail EEval
                    | Some lz => match slice2 z uz lz with Some r => ret (VInt r) | None => fail EOther end
                    end
                end
            | _, _ => fail EEval
            end
        | VList w l =>
            match rest with
            | [i] =>
                match int_of i with
                | Some iz => of_opt (py_index_list l iz) EOther
                | None => fail EEval
                end
            | [u; lo] =>
                match int_of u with
                | None => fail EEval
                | Some uz =>
                    match int_of lo with
                    | None => fail EEval
                    | Some lz => ret (VList w (py_slice_list l uz lz))
                    end
                end
            | _ => fail EEval
            end
        | VStr s =>
            match rest with
            | [i] =>
                match int_of i with
                | Some iz => of_opt (py_index_list (chars_of s) iz) EOther
                | None => fail EEval
                end
            | [u; lo] =>
                match int_of u with
                | None => fail EEval
                | Some uz =>
                    match int_of lo with
                    | None => fail EEval
                    | Some lz => ret (VStr (string_of_list (py_slice_list (list_of_string s) uz lz)))
                    end
                end
            | _ => fail EEval
            end
        | _ => fail EEval
        end
    | [] => fail EEval
    end.

  Definition op_loaded_traces (args : list val) : M val :=
    assert (Nat.eqb (List.length args) 0) ;;;
    st <- get_st ;;
    ret (PL (map (fun p => VStr (fst p)) (c_traces (st_cont st)))).

  Definition op_exit (args : list val) : M val :=
    assert (zlen args <? 2) ;;;
    match args with
    | [] => fail (EExit 0)
    | a :: _ =>
        v <- ev a ;;
        match int_of v with
        | Some z => fail (EExit z)
        | None => fail EEval
        end
    end.

  (** * implementation/math.py, bitwise.py *)
  Definition is_list_val (v : val) : bool := match v with VList _ _ => true | _ => false end.
  Definition is_str_val (v : val) : bool := match v with VStr _ => true | _ => false end.

  (** str(x) inside ''.join(map(str, evaluated)) *)
  Definition py_str (v : val) : M string :=
    match v with
    | VOp _ | VList _ _ | VArr _ | VClos _ _ _ _ | VMacro _ _ _ | VUnq _ | VUnqS _ => unm "str() of object"
    | _ => match py_str_atom v with Some s => ret s | None => unm "str(float)" end
    end.

  Definition num_add (a b : num) : option num :=
    match a, b with
    | NInt x, NInt y => Some (NInt (x + y))
    | NInt x, NFloat g => if small_int x then Some (NFloat (f_add (f_of_Z x) g)) else None
    | NFloat f, NInt y => if small_int y then Some (NFloat (f_add f (f_of_Z y))) else None
    | NFloat f, NFloat g => Some (NFloat (f_add f g))
    end.
  Definition num_sub (a b : num) : option num :=
    match a, b with
    | NInt x, NInt y => Some (NInt (x - y))
    | NInt x, NFloat g => if small_int x then Some (NFloat (f_sub (f_of_Z x) g)) else None
    | NFloat f, NInt y => if small_int y then Some (NFloat (f_sub f (f_of_Z y))) else None
    | NFloat f, NFloat g => Some (NFloat (f_sub f g))
    end.
  Definition num_mul (a b : num) : option num :=
    match a, b with
    | NInt x, NInt y => Some (NInt (x * y))
    | NInt x, NFloat g => if small_int x then Some (NFloat (f_mul (f_of_Z x) g)) else None
    | NFloat f, NInt y => if small_int y then Some (NFloat (f_mul f (f_of_Z y))) else None
    | NFloat f, NFloat g => Some (NFloat (f_mul f g))
    end.
  Definition val_of_num (n : num) : val :=
    match n with NInt z => VInt z | NFloat f => VFloat f end.
  Definition count_floats (vs : list val) : nat :=
    List.length (filter (fun v => match v with VFloat _ => true | _ => false end) vs).

  Fixpoint fold_num (f : num -> num -> option num) (acc : num) (l : list num) : option num :=
    match l with
    | [] => Some acc
    | x :: r => match f acc x with Some a => fold_num f a r | None => None end
    end.

  (** sum(values): ints exactly; floats only while Python's compensated
      summation provably equals plain left-to-right addition (<= 2 floats) *)
  Definition py_sum (vs : list val) : M val :=
    match map_opt as_num vs with
    | None => fail EOther                                   (* TypeError *)
    | Some ns =>
        if Nat.leb 3 (count_floats vs) then unm "float sum of 3+"
        else match fold_num num_add (NInt 0) ns with
             | Some r => ret (val_of_num r)
             | None => unm "huge int + float"
             end
    end.

  Definition op_add (args : list val) : M val :=
    vs <- eval_args args ;;
    if existsb is_list_val vs then
      ret (PL (flat_map (fun v => match v with VList _ l => l | _ => [v] end) vs))
    else if existsb is_str_val vs then
      ss <- mapM py_str vs ;; ret (VStr (sconcat ss))
    else py_sum vs.

  Definition op_sub (args : list val) : M val :=
    vs <- eval_args args ;;
    assert (forallb is_num_val vs) ;;;
    match map_opt as_num vs with
    | Some [x] =>
        match x with
        | NInt z => ret (VInt (- z))
        | NFloat f => ret (VFloat (SFopp f))
        end
    | Some (x :: r) =>
        match fold_num num_sub x r with
        | Some n => ret (val_of_num n)
        | None => unm "huge int - float"
        end
    | Some [] => fail EOther
    | None => fail EEval
    end.

  Definition op_mul (args : list val) : M val :=
    vs <- eval_args args ;;
    assert (forallb is_num_val vs) ;;;
    assert (1 <? zlen vs) ;;;
    match map_opt as_num vs with
    | Some (x :: r) =>
        match fold_num num_mul x r with
        | Some n => ret (val_of_num n)
        | None => unm "huge int * float"
        end
    | _ => fail EEval
    end.

  Definition to_float_small (n : num) : option spec_float :=
    match n with
    | NInt z => if small_int z then Some (f_of_Z z) else None
    | NFloat f => Some f
    end.

  Definition op_div (args : list val) : M val :=
    vs <- eval_args args ;;
    assert (forallb is_num_val vs) ;;;
    assert (Nat.eqb (List.length vs) 2) ;;;
    match map_opt as_num vs with
    | Some [a; b] =>
        assert (match b with NInt z => negb (z =? 0) | NFloat f => negb (f_is_zero f) end) ;;;
        match to_float_small a, to_float_small b with
        | Some x, Some y => ret (VFloat (f_div x y))
        | _, _ => unm "division of huge ints"
        end
    | _ => fail EEval
    end.

  Definition op_exp (args : list val) : M val :=
    vs <- eval_args args ;;
    assert (forallb is_num_val vs) ;;;
    assert (Nat.eqb (List.length vs) 2) ;;;
    match vs with
    | [a; b] =>
        match int_of a, int_of b with
        | Some x, Some y => if 0 <=? y then ret (VInt (z_pow x y)) else unm "negative exponent"
        | _, _ => unm "float exponentiation"
        end
    | _ => fail EEval
    end.

  Definition op_mod (args : list val) : M val :=
    assert (Nat.eqb (List.length args) 2) ;;;
    vs <- eval_args args ;;
    assert (forallb is_num_val vs) ;;;
    match vs with
    | [a; b] =>
        match int_of a, int_of b with
        | Some x, Some y => if y =? 0 then fail EOther else ret (VInt (x mod y))
        | _, _ => unm "float mod"
        end
    | _ => fail EEval
    end.

  Definition is_bool_val (v : val) : bool := match v with VBool _ => true | _ => false end.

  Definition op_bitwise (f : Z -> Z -> Z) (args : list val) : M val :=
    vs <- eval_args args ;;
    assert (forallb is_int_val vs) ;;;
    match vs with
    | [] => fail EOther
    | [x] => ret x
    | x :: r =>
        match int_of x, map_opt int_of r with
        | Some z, Some zs =>
            (* Python: bool op bool is a bool, anything else an int *)
            let res := fold_left f zs z in
            ret (if forallb is_bool_val vs then VBool (negb (res =? 0)) else VInt res)
        | _, _ => fail EEval
        end
    end.

  (** * implementation/types.py *)
  Definition op_is_defined (args : list val) : M val :=
    assert (Nat.eqb (List.length args) 1) ;;;
    a <- arg0 args ;; v <- ev a ;;
    match v with
    | VSym n _ =>
        st <- get_st ;;
        ret (VBool (match lookup_frame st (st_cur st) n with Some _ => true | None => false end))
    | _ => fail EEval
    end.

  Definition op_all_pred (p : val -> bool) (args : list val) : M val :=
    vs <- eval_args args ;; ret (VBool (forallb p vs)).

  Definition op_convert_bin (args : list val) : M val :=
    assert (Nat.eqb (List.length args) 1 || Nat.eqb (List.length args) 2) ;;;
    vs <- eval_args args ;;
    match vs with
    | v :: r =>
        let w := match r with [x] => x | _ => VInt 0 end in
        match int_of v with
        | None => fail EEval
        | Some z =>
            match int_of w with
            | None => fail EEval
            | Some wz => if wz <? 0 then unm "negative width" else ret (VStr (convert_bin z wz))
            end
        end
    | [] => fail EEval
    end.

  Definition of_int_parse (p : int_parse) : M val :=
    match p with
    | IntOk z => ret (VInt z)
    | IntBad => fail EOther
    | IntUnmodelled => unm "int() extras"
    end.

  Definition op_string_to_int (args : list val) : M val :=
    assert (Nat.eqb (List.length args) 1 || Nat.eqb (List.length args) 2) ;;;
    match args with
    | a :: r =>
        v <- ev a ;;
        match v with
        | VStr s =>
            match r with
            | [] => of_int_parse (py_int 10 s)
            | b :: _ =>
                match int_of b with
                | Some base =>
                    assert ((base =? 2) || (base =? 8) || (base =? 10) || (base =? 16)) ;;;
                    of_int_parse (py_int base s)
                | None => fail EEval
                end
            end
        | _ => fail EEval
        end
    | [] => fail EEval
    end.

  Definition op_bits_to_sint (args : list val) : M val :=
    assert (Nat.eqb (List.length args) 1) ;;;
    a <- arg0 args ;; v <- ev a ;;
    match v with
    | VStr s => match bits_to_sint s with
                | Some p => of_int_parse p
                | None => fail EOther
                end
    | _ => fail EEval
    end.

  Definition op_symbol_to_string (args : list val) : M val :=
    assert (Nat.eqb (List.length args) 1) ;;;
    a <- arg0 args ;; v <- ev a ;;
    match v with VSym n _ => ret (VStr n) | _ => fail EEval end.

  Definition op_string_to_symbol (args : list val) : M val :=
    assert (Nat.eqb (List.length args) 1) ;;;
    a <- arg0 args ;; v <- ev a ;;
    match v with VStr s => ret (VSym s None) | _ => fail EEval end.

  Definition op_int_to_string (args : list val) : M val :=
    assert (Nat.eqb (List.length args) 1) ;;;
    a <- arg0 args ;; v <- ev a ;;
    match v with
    | VInt z => ret (VStr (dec_of_Z z))
    | VBool b => ret (VStr (if b then "True" else "False"))
    | _ => fail EEval
    end.

  (** * implementation/list.py *)
  Definition op_list (args : list val) : M val :=
    vs <- eval_args args ;; ret (WL vs).

  Definition eval_list1 (args : list val) : M (bool * list val) :=
    assert (Nat.eqb (List.length args) 1) ;;;
    a <- arg0 args ;; v <- ev a ;;
    match v with VList w l => ret (w, l) | _ => fail EEval end.

  Definition op_first (args : list val) : M val :=
    wl <- eval_list1 args ;;
    match snd wl with x :: _ => ret x | [] => fail EEval end.
  Definition op_second (args : list val) : M val :=
    wl <- eval_list1 args ;;
    match snd wl with _ :: x :: _ => ret x | _ => fail EEval end.
  Definition op_last (args : list val) : M val :=
    wl <- eval_list1 args ;;
    match last_opt (snd wl) with Some x => ret x | None => fail EEval end.
  Definition op_rest (args : list val) : M val :=
    wl <- eval_list1 args ;;
    match snd wl with
    | _ :: ((_ :: _) as r) => ret (VList (fst wl) r)
    | _ => ret (PL [])
    end.

  Fixpoint py_in (x : val) (l : list val) : option bool :=
    match l with
    | [] => Some false
    | y :: r => match py_eq y x with
                | Some true => Some true
                | Some false => py_in x r
                | None => None
                end
    end.

  Definition key_text (v : val) : M string :=
    match v with
    | VSym n _ => ret n
    | _ => py_str v
    end.

  Definition op_in (args : list val) : M val :=
    assert (2 <=? zlen args) ;;;
    vs <- eval_args args ;;
    match last_opt vs with
    | Some (VList _ l) =>
        (fix go (cs : list val) : M val :=
           match cs with
           | [] => ret (VBool true)
           | c :: r => match py_in c l with
                       | Some true => go r
                       | Some false => ret (VBool false)
                       | None => unm "in: identity comparison"
                       end
           end) (removelast vs)
    | Some (VArr r) =>
        ks <- mapM key_text (removelast vs) ;;
        d <- get_array r ;;
        ret (VBool (amem (sjoin "-" ks) d))
    | _ => fail EEval
    end.

  Definition quoted (v : val) : val := WL [VOp OQuote; v].
  Definition quoted_pl (v : val) : val := PL [VOp OQuote; v].

  Definition op_map (args : list val) : M val :=
    assert (Nat.eqb (List.length args) 2) ;;;
    match args with
    | [f; l] =>
        lv <- ev l ;;
        match lv with
        | VList _ items =>
            match f with
            | VOp o => rs <- mapM (fun el => ev (WL [VOp o; quoted el])) items ;; ret (PL rs)
            | _ =>
                fv <- ev f ;;
                match fv with
                | VClos _ _ _ _ =>
                    rs <- mapM (fun el => eval_closure fv [quoted_pl el]) items ;; ret (PL rs)
                | _ => fail EEval
                end
            end
        | _ => fail EEval
        end
    | _ => fail EEval
    end.

  Definition is_plain_int (v : val) : bool := match v with VInt _ => true | _ => false end.

  Definition op_maxmin (is_max : bool) (args : list val) : M val :=
    wl <- eval_list1 args ;;
    match snd wl with
    | [] => fail EOther
    | x :: r =>
        if forallb is_plain_int (x :: r) then
          match map_opt int_of (x :: r) with
          | Some (z :: zs) =>
              ret (VInt (fold_left (fun a b => if is_max then Z.max a b else Z.min a b) zs z))
          | _ => fail EOther
          end
        else if forallb is_str_val (x :: r) then
          match x with
          | VStr s0 =>
              ret (VStr (fold_left (fun a b =>
                   match b with
                   | VStr t => if is_max then (if sltb a t then t else a) else (if sltb t a then t else a)
                   | _ => a
                   end) r s0))
          | _ => fail EOther
          end
        else unm "max/min on mixed values"
    end.

  Definition op_average (args : list val) : M val :=
    wl <- eval_list1 args ;;
    s <- py_sum (snd wl) ;;
    match snd wl with
    | [] => fail EOther
    | _ =>
        match as_num s with
        | Some n =>
            match to_float_small n with
            | Some f => ret (VFloat (f_div f (f_of_Z (zlen (snd wl)))))
            | None => unm "average of huge ints"
            end
        | None => fail EOther
        end
    end.

  Definition op_zip (args : list val) : M val :=
    assert (Nat.eqb (List.length args) 2) ;;;
    vs <- eval_args args ;;
    match vs with
    | [VList _ a; VList _ b] => ret (PL (map (fun p => PL [fst p; snd p]) (combine a b)))
    | [VStr _; _] | [_; VStr _] | [VArr _; _] | [_; VArr _] => unm "zip of non-list iterable"
    | _ => fail EOther
    end.

  Definition op_length (args : list val) : M val :=
    assert (Nat.eqb (List.length args) 1) ;;;
    a <- arg0 args ;; v <- ev a ;;
    match v with
    | VList _ l => ret (VInt (zlen l))
    | VStr s => ret (VInt (slen s))
    | VArr r => d <- get_array r ;; ret (VInt (zlen d))
    | _ => fail EEval
    end.

  Definition op_fold (args : list val) : M val :=
    assert (Nat.eqb (List.length args) 3) ;;;
    match args with
    | [f; a; l] =>
        acc0 <- ev a ;;
        lv <- ev l ;;
        match lv with
        | VList _ items =>
            match f with
            | VOp o =>
                (fix go (l : list val) (acc : val) : M val :=
                   match l with
                   | [] => ret acc
                   | el :: r => acc' <- ev (WL [VOp o; quoted acc; quoted el]) ;; go r acc'
                   end) items acc0
            | _ =>
                fv <- ev f ;;
                match fv with
                | VClos _ _ _ _ =>
                    (fix go (l : list val) (acc : val) : M val :=
                       match l with
                       | [] => ret acc
                       | el :: r => acc' <- eval_closure fv [quoted acc; quoted el] ;; go r acc'
                       end) items acc0
                | _ => fail EEval
                end
            end
        | _ => fail EEval
        end
    | _ => fail EEval
    end.

  (** list(range(a[,b[,step]])) *)
  Fixpoint range_up (n : nat) (cur stop step : Z) : list Z :=
    match n with
    | O => []
    | S k => if (0 <? step) && (cur <? stop) || (step <? 0) && (stop <? cur)
             then cur :: range_up k (cur + step) stop step else []
    end.
  Definition py_range (start stop step : Z) : list Z :=
    let count := if 0 <? step then (stop - start + step - 1) / step
                 else (start - stop + (- step) - 1) / (- step) in
    range_up (Z.to_nat count) start stop step.

  Definition op_range (args : list val) : M val :=
    assert ((1 <=? zlen args) && (zlen args <=? 3)) ;;;
    vs <- eval_args args ;;
    assert (forallb is_int_val vs) ;;;
    match map_opt int_of vs with
    | Some [b] => ret (PL (map VInt (py_range 0 b 1)))
    | Some [a; b] => ret (PL (map VInt (py_range a b 1)))
    | Some [a; b; s] => if s =? 0 then fail EOther else ret (PL (map VInt (py_range a b s)))
    | _ => fail EEval
    end.

  (** * implementation/array.py *)
  Definition array_key (v : val) : M string :=
    match v with
    | VSym n _ => ret n
    | VInt z => ret (dec_of_Z z)
    | VBool b => ret (if b then "True" else "False")
    | VStr s => ret s
    | _ => fail EEval
    end.

  Definition op_array (args : list val) : M val :=
    (fix go (l : list val) (d : list (string * val)) : M val :=
       match l with
       | [] => new_array d
       | a :: r =>
           match a with
           | VList _ items =>
               assert (Nat.eqb (List.length items) 2) ;;;
               match items with
               | [k; e] =>
                   kv <- ev k ;; key <- array_key kv ;;
                   v <- ev e ;;
                   go r (aset key v d)
               | _ => fail EEval
               end
           | VStr _ => unm "array: string pair"
           | _ => fail EOther
           end
       end) args [].

  Definition eval_array (a : val) : M nat :=
    v <- ev a ;; match v with VArr r => ret r | _ => fail EEval end.

  Definition op_seta (args : list val) : M val :=
    assert (Nat.eqb (List.length args) 3) ;;;
    match args with
    | [a; k; e] =>
        r <- eval_array a ;;
        kv <- ev k ;; key <- array_key kv ;;
        v <- ev e ;;
        d <- get_array r ;;
        put_array r (aset key v d) ;;; ret (VArr r)
    | _ => fail EEval
    end.

  Definition op_geta (args : list val) : M val :=
    assert (Nat.eqb (List.length args) 2) ;;;
    match args with
    | [a; k] =>
        r <- eval_array a ;;
        kv <- ev k ;; key <- array_key kv ;;
        d <- get_array r ;;
        match alookup key d with Some v => ret v | None => fail EEval end
    | _ => fail EEval
    end.

  Definition op_dela (args : list val) : M val :=
    assert (Nat.eqb (List.length args) 2) ;;;
    match args with
    | [a; k] =>
        r <- eval_array a ;;
        kv <- ev k ;; key <- array_key kv ;;
        d <- get_array r ;;
        assert (amem key d) ;;;
        put_array r (adel key d) ;;; ret (VArr r)
    | _ => fail EEval
    end.

  Definition op_mapa (args : list val) : M val :=
    assert (Nat.eqb (List.length args) 2) ;;;
    match args with
    | [f; a] =>
        fv <- ev f ;;
        match fv with
        | VClos _ _ _ _ =>
            r <- eval_array a ;;
            d <- get_array r ;;
            rs <- mapM (fun kv => eval_closure fv [quoted_pl (VStr (fst kv)); quoted_pl (snd kv)]) d ;;
            ret (PL rs)
        | _ => fail EEval
        end
    | _ => fail EEval
    end.

  (** * implementation/wal.py *)
  Definition file_ext (path : string) : string :=
    (* pathlib suffix of the final component: text from the last '.' (if not leading) *)
    let base := match rev (ssplit_char "/"%char path) with b :: _ => b | [] => path end in
    let i := srfind "."%char base in
    if i <=? 0 then "" else sdrop (Z.to_nat i) base.

  Definition load_m (file : string) (tid : option string) : M unit :=
    st <- get_st ;;
    let c := st_cont st in
    let tid' := match tid with
                | Some t => t
                | None => "t" ++ dec_of_Z (zlen (c_traces c))
                end in
    assert (negb (amem tid' (c_traces c))) ;;;
    let ext := file_ext file in
    if String.eqb ext ".vcd" || String.eqb ext ".csv" then
      match alookup file (st_fs st) with
      | None => fail EOther                                  (* FileNotFoundError *)
      | Some ent =>
          let parsed := match ent with
                        | FVcd text => if String.eqb ext ".vcd" then vcd_parse tid' file text
                                       else csv_parse tid' file text
                        | FCsv text => if String.eqb ext ".csv" then csv_parse tid' file text
                                       else vcd_parse tid' file text
                        end in
          match parsed with
          | POk t => modify (fun s => upd_cont s (cont_add (st_cont s) tid' t))
          | PErr e => fail e
          | PUnmodelled => unm "trace text outside the parser model"
          end
      end
    else if String.eqb ext ".fst" then unm "fst"
    else
      emit ("File extension " ++ String (ch 34) (ext ++ String (ch 34) (" not supported." ++ String (ch 10) "")))
    .

  Definition op_load (args : list val) : M val :=
    assert (Nat.eqb (List.length args) 1 || Nat.eqb (List.length args) 2) ;;;
    match args with
    | f :: r =>
        fv <- ev f ;;
        tid <- match r with
               | [t] => tv <- ev t ;;
                        match name_of tv with Some s => ret (Some s) | None => fail EEval end
               | _ => ret None
               end ;;
        match name_of fv with
        | Some file => load_m file tid ;;; ret VNone
        | None => fail EEval
        end
    | [] => fail EEval
    end.

  Definition op_unload (args : list val) : M val :=
    assert (Nat.eqb (List.length args) 1) ;;;
    a <- arg0 args ;; v <- ev a ;;
    match name_of v with
    | Some tid => modify (fun s => upd_cont s (cont_unload (st_cont s) tid)) ;;; ret VNone
    | None => fail EEval
    end.

  Definition step_tid (tid : val) (n : Z) : M (list string) :=
    match name_of tid with
    | Some id =>
        st <- get_st ;;
        match cont_step (st_cont st) n (Some id) with
        | Some (c, ended) => modify (fun s => upd_cont s c) ;;; ret ended
        | None => fail EEval
        end
    | None => fail EOther
    end.

  Definition op_step (args : list val) : M val :=
    st <- get_st ;;
    assert (negb (Nat.eqb (List.length (c_traces (st_cont st))) 0)) ;;;
    match args with
    | [] => e <- step_all_m 1 ;; ret (VBool (Nat.eqb (List.length e) 0))
    | [a] =>
        v <- ev a ;;
        match int_of v with
        | Some n => e <- step_all_m n ;; ret (VBool (Nat.eqb (List.length e) 0))
        | None => e <- step_tid a 1 ;; ret (VBool (Nat.eqb (List.length e) 0))
        end
    | _ =>
        match last_opt args with
        | Some l =>
            v <- ev l ;;
            match int_of v with
            | Some n =>
                es <- mapM (fun tid => step_tid tid n) (removelast args) ;;
                ret (VBool (Nat.eqb (List.length (filter (fun e => negb (Nat.eqb (List.length e) 0)) es)) 0))
            | None => fail EEval
            end
        | None => fail EEval
        end
    end.

  Definition op_is_signal (args : list val) : M val :=
    assert (Nat.eqb (List.length args) 1) ;;;
    a <- arg0 args ;; v <- ev a ;;
    match name_of v with
    | Some n => b <- contains_m n ;; ret (VBool b)
    | None => fail EEval
    end.

  (** * implementation/special.py *)
  Definition set_trace_index (tid : string) (i : Z) : M unit :=
    st <- get_st ;;
    match alookup tid (c_traces (st_cont st)) with
    | Some t => replace_trace (set_index t i)
    | None => fail EOther
    end.

  Definition trace_of (tid : string) : M trace :=
    st <- get_st ;;
    of_opt (alookup tid (c_traces (st_cont st))) EOther.

  (** find: per trace, walk from the current index to the end *)
  Fixpoint find_walk (n : nat) (tid : string) (c : val) (acc : list Z) : M (list Z) :=
    match n with
    | O => fun _ => Fuel
    | S k =>
        v <- ev c ;; st <- get_st ;;
        t <- trace_of tid ;;
        let acc' := if truthy st v then acc +++ [tr_index t] else acc in
        let '(t', ended) := trace_step t 1 in
        match ended with
        | Some _ => ret acc'
        | None => replace_trace t' ;;; find_walk k tid c acc'
        end
    end.

  Definition op_find (args : list val) : M val :=
    assert (Nat.eqb (List.length args) 1) ;;;
    c <- arg0 args ;;
    st <- get_st ;;
    founds <- mapM (fun p =>
                 let tid := fst p in
                 t <- trace_of tid ;;
                 let start := tr_index t in
                 r <- find_walk loopfuel tid c [] ;;
                 set_trace_index tid start ;;;
                 ret r) (c_traces (st_cont st)) ;;
    ret (PL (map VInt (isort Z.ltb (dedup_Z (List.concat founds) [])))).

  Definition restore_saved (saved : list (string * Z)) : M unit :=
    (* for trace in traces.values(): trace.index = prev_indices[trace.tid] *)
    st <- get_st ;;
    (fix go (ts : list (string * trace)) : M unit :=
       match ts with
       | [] => ret tt
       | (tid, _) :: r =>
           match alookup tid saved with
           | Some i => set_trace_index tid i ;;; go r
           | None => fail EOther
           end
       end) (c_traces (st_cont st)).

  Definition indices_val (st : state) : val :=
    match cont_indices (st_cont st) with
    | [(_, i)] => VInt i
    | l => VNone   (* several traces: a tid->index dict; represented by the caller *)
    end.

  Fixpoint scan_loop (n : nat) (c : val) (hit : M unit) : M unit :=
    match n with
    | O => fun _ => Fuel
    | S k =>
        v <- ev c ;; st <- get_st ;;
        (if truthy st v then hit else ret tt) ;;;
        ended <- step_all_m 1 ;;
        match ended with
        | [] => scan_loop k c hit
        | _ => ret tt
        end
    end.

  (** find/g and whenever share the lock-step walk; the hits are accumulated
      in an explicit accumulator threaded through the state-passing loop *)
  Fixpoint findg_loop (n : nat) (c : val) (acc : list val) : M (list val) :=
    match n with
    | O => fun _ => Fuel
    | S k =>
        v <- ev c ;; st <- get_st ;;
        acc' <- (if truthy st v then
                   match cont_indices (st_cont st) with
                   | [(_, i)] => ret (acc +++ [VInt i])
                   | l => d <- new_array (map (fun p => (fst p, VInt (snd p))) l) ;; ret (acc +++ [d])
                   end
                 else ret acc) ;;
        ended <- step_all_m 1 ;;
        match ended with
        | [] => findg_loop k c acc'
        | _ => ret acc'
        end
    end.

  Definition op_find_g (args : list val) : M val :=
    assert (Nat.eqb (List.length args) 1) ;;;
    c <- arg0 args ;;
    st <- get_st ;;
    let saved := cont_indices (st_cont st) in
    hits <- findg_loop loopfuel c [] ;;
    restore_saved saved ;;;
    ret (PL hits).

  Fixpoint whenever_loop (n : nat) (c : val) (body : list val) (last : val) : M val :=
    match n with
    | O => fun _ => Fuel
    | S k =>
        v <- ev c ;; st <- get_st ;;
        last' <- (if truthy st v then vs <- eval_args body ;; last_or_index_error vs else ret last) ;;
        ended <- step_all_m 1 ;;
        match ended with
        | [] => whenever_loop k c body last'
        | _ => ret last'
        end
    end.

  Definition op_whenever (args : list val) : M val :=
    assert (2 <=? zlen args) ;;;
    match args with
    | c :: body =>
        st <- get_st ;;
        let saved := cont_indices (st_cont st) in
        r <- whenever_loop loopfuel c body VNone ;;
        restore_saved saved ;;;
        ret r
    | [] => fail EEval
    end.

  Definition op_signal_width (args : list val) : M val :=
    assert (Nat.eqb (List.length args) 1) ;;;
    a <- arg0 args ;; v <- ev a ;;
    match name_of v with
    | None => fail EEval
    | Some n =>
        b <- contains_m n ;;
        assert b ;;;
        st <- get_st ;;
        match cont_signal_width (st_cont st) n with
        | Some (Some w) => ret (VInt w)
        | Some None => fail EOther
        | None => fail EEval
        end
    end.

  Definition sample_trace (tid : string) (idx : list Z) : M unit :=
    t <- trace_of tid ;;
    if existsb (fun i => i <? 0) idx then unm "sample-at: negative index"
    else match trace_sample t idx with
         | Some t' => replace_trace t'
         | None => fail EOther
         end.

  Definition op_sample_at (args : list val) : M val :=
    assert (Nat.eqb (List.length args) 1 || Nat.eqb (List.length args) 2) ;;;
    match args with
    | l :: r =>
        lv <- ev l ;;
        match lv with
        | VList _ items =>
            assert (forallb is_int_val items) ;;;
            match map_opt int_of items with
            | Some idx =>
                match r with
                | [VSym tid _] => sample_trace tid idx ;;; ret VNone
                | [_] => fail EEval
                | _ =>
                    st <- get_st ;;
                    mapM (fun p => sample_trace (fst p) idx) (c_traces (st_cont st)) ;;; ret VNone
                end
            | None => fail EEval
            end
        | _ => fail EEval
        end
    | [] => fail EEval
    end.

  Definition op_trim_trace (args : list val) : M val :=
    assert (Nat.eqb (List.length args) 2) ;;;
    match args with
    | [a; b] =>
        tv <- ev a ;;
        mv <- ev b ;;
        match name_of tv with
        | None => fail EEval
        | Some tid =>
            match int_of mv with
            | None => fail EEval
            | Some m =>
                t <- trace_of tid ;;
                let t' := trace_trim t m in
                replace_trace t' ;;; ret (VInt (tr_max t'))
            end
        end
    | _ => fail EEval
    end.

  (** * implementation/virtual.py *)
  Fixpoint defsig_rewrite (scope group : string) (e : val) : val :=
    match e with
    | VList true l =>
        match l with
        | [VOp OResolveScope; VSym n _] => VSym (scope ++ n) None
        | [VOp OResolveGroup; VSym n _] => VSym (group ++ n) None
        | _ => WL (map (defsig_rewrite scope group) l)
        end
    | _ => e
    end.

  Definition op_defsig (args : list val) : M val :=
    assert (1 <? zlen args) ;;;
    cs <- read_global "CS" ;;
    cg <- read_global "CG" ;;
    match cs, cg, args with
    | VStr scope_name, VStr group, VSym n _ :: body =>
        let scope0 := if String.eqb scope_name "" then "" else scope_name ++ "." in
        let scope := if String.eqb group "" then scope0 else "" in
        let name := scope ++ group ++ n in
        let body' := map (defsig_rewrite scope group) body in
        st <- get_st ;;
        let c := st_cont st in
        if c_ntraces c =? 1 then
          match c_traces c with
          | (_, t) :: _ =>
              replace_trace (set_virt t (aset name (mkVsig body' []) (tr_virt t))) ;;; ret VNone
          | [] => fail EOther
          end
        else if 1 <? c_ntraces c then
          match ssplit_first "^"%char name with
          | None => fail EOther                               (* name.index: ValueError *)
          | Some (tid, _) =>
              match alookup tid (c_traces c) with
              | None => fail EEval
              | Some t =>
                  (* the signal is registered under the full name, tid included *)
                  replace_trace (set_virt t (aset name (mkVsig body' []) (tr_virt t))) ;;; ret VNone
              end
          end
        else
          match ssplit_first "^"%char name with
          | None => fail EOther
          | Some (tid, _) =>
              match alookup tid (c_traces c) with
              | None => fail EEval
              | Some t => replace_trace (set_virt t (aset name (mkVsig body' []) (tr_virt t))) ;;; ret VNone
              end
          end
    | VStr _, VStr _, _ => fail EOther
    | _, _, _ => unm "CS/CG rebound"
    end.

  (** * dispatch *)
  Definition dispatch (o : op) (args : list val) : M val :=
    match o with
    | ONot => op_not args
    | OEq => op_eq false args
    | ONeq => op_eq true args
    | OGt => op_cmp (fun c => match c with Gt => true | _ => false end) args
    | OLt => op_cmp (fun c => match c with Lt => true | _ => false end) args
    | OGe => op_cmp (fun c => match c with Lt => false | _ => true end) args
    | OLe => op_cmp (fun c => match c with Gt => false | _ => true end) args
    | OAnd => op_and args
    | OOr => op_or args
    | OLet => op_let args
    | ODefine => op_define args
    | OSet => op_set args
    | OPrint => op_print args
    | OPrintf => op_printf args
    | OIf => op_if args
    | OCase => op_case args
    | ODo => op_do args
    | OWhile => op_while args
    | OAlias => op_alias args
    | OUnalias => op_unalias args
    | OQuote => op_quote args
    | OQuasiquote => op_quasiquote args
    | OUnquote => fail EEval
    | OEval => op_eval args
    | ODefmacro => op_defmacro args
    | OMacroexpand => op_macroexpand args
    | OGensym => op_gensym args
    | OFn => op_fn args
    | OGet => op_get args
    | OReval => op_reval args
    | OInScope => op_in_scope args
    | OResolveScope => op_resolve_scope args
    | OAllScopes => op_all_scopes args
    | OSetScope => op_set_scope args
    | OUnsetScope => op_unset_scope args
    | OGroups => op_groups args
    | OInGroup => op_in_group args
    | OInGroups => op_in_groups args
    | OResolveGroup => op_resolve_group args
    | OSlice => op_slice args
    | OLoadedTraces => op_loaded_traces args
    | OExit => op_exit args
    | OAdd => op_add args
    | OSub => op_sub args
    | OMul => op_mul args
    | ODiv => op_div args
    | OExp => op_exp args
    | OMod => op_mod args
    | OBor => op_bitwise Z.lor args
    | OBand => op_bitwise Z.land args
    | OBxor => op_bitwise Z.lxor args
    | ODefinedP => op_is_defined args
    | OAtomP => op_all_pred (fun v => match v with
                                      | VOp _ | VSym _ _ | VStr _ | VInt _ | VBool _ => true
                                      | _ => false end) args
    | OSymbolP => op_all_pred is_sym args
    | OStringP => op_all_pred is_str_val args
    | OIntP => op_all_pred is_int_val args
    | OListP => op_all_pred is_list_val args
    | OConvertBin => op_convert_bin args
    | OStringToInt => op_string_to_int args
    | OBitsToSint => op_bits_to_sint args
    | OStringToSymbol => op_string_to_symbol args
    | OSymbolToString => op_symbol_to_string args
    | OIntToString => op_int_to_string args
    | OList => op_list args
    | OFirst => op_first args
    | OSecond => op_second args
    | OLast => op_last args
    | ORest => op_rest args
    | OIn => op_in args
    | OMap => op_map args
    | OMax => op_maxmin true args
    | OMin => op_maxmin false args
    | OAverage => op_average args
    | OZip => op_zip args
    | OLength => op_length args
    | OFold => op_fold args
    | ORange => op_range args
    | OArray => op_array args
    | OSeta => op_seta args
    | OGeta => op_geta args
    | ODela => op_dela args
    | OMapa => op_mapa args
    | OLoad => op_load args
    | OUnload => op_unload args
    | OStep => op_step args
    | OSignalP => op_is_signal args
    | OFind => op_find args
    | OFindG => op_find_g args
    | OWhenever => op_whenever args
    | OSignalWidth => op_signal_width args
    | OSampleAt => op_sample_at args
    | OTrimTrace => op_trim_trace args
    | ODefsig => op_defsig args
    | ORepl | ORequire | OEvalFile | OFloor | OCeil | ORound | OParse | OCall | OImport
    | OType | OFoldSignal | ONewTrace | ODumpTrace => unm ("operator " ++ op_name o)
    end.

  (** * eval.py SEval.eval *)
  Definition eval_body (e : val) : M val :=
    match e with
    | VSym n steps => eval_symbol n steps
    | VList w l =>
        match l with
        | [] => fail EOther                                  (* expr[0]: IndexError *)
        | head :: tail =>
            match head with
            | VOp o => dispatch o tail
            | VClos _ _ _ _ => eval_closure head tail
            | VMacro _ _ body =>
                expanded <- ev body ;;
                match expanded with
                | VList _ items => ev (VList w items)
                | VStr _ | VArr _ => unm "run-time macro returning a non-list iterable"
                | _ => fail EOther
                end
            | VInt _ | VBool _ | VStr _ => fail EEval
            | VFloat _ => fail EOther                        (* unbounded recursion *)
            | _ => func <- ev head ;; ev (VList w (func :: tail))
            end
        end
    | VInt _ | VBool _ | VStr _ | VFloat _ | VClos _ _ _ _ => ret e
    | _ => fail EOther                                       (* NotImplementedError *)
    end.

  (** * passes.py expand *)
  Definition is_quote_head (l : list val) : bool :=
    match l with
    | VOp OQuote :: _ | VOp OQuasiquote :: _ => true
    | _ => false
    end.

  Definition expand_body (e : val) (parent : option nat) : M val :=
    match e with
    | VList w l =>
        if is_quote_head l then ret e else
        st <- get_st ;;
        (* macro call at the head? *)
        r <- match l with
             | VSym hn _ :: vals =>
                 match lookup_frame st (st_cur st) hn with
                 | None => ret (inl l)
                 | Some _ =>
                     m <- env_read (st_cur st) hn ;;
                     match m with
                     | VMacro _ params body =>
                         menv <- new_frame parent ;;
                         match params with
                         | VSym p _ => env_define menv p (VList w vals)
                         | VList true ps =>
                             assert (Nat.eqb (List.length ps) (List.length vals)) ;;;
                             (fix go (ps vals : list val) : M unit :=
                                match ps, vals with
                                | VSym pn _ :: pr, v :: vr => env_define menv pn v ;;; go pr vr
                                | _ :: _, _ :: _ => fail EOther
                                | _, _ => ret tt
                                end) ps vals
                         | _ => fail EEval
                         end ;;;
                         let save := st_cur st in
                         modify (fun s => upd_cur s menv) ;;;
                         expanded <- ev body ;;
                         match expanded with
                         | VInt _ | VBool _ | VStr _ | VFloat _ | VNone | VArr _ | VList false _ =>
                             fail EOther                      (* .line_info: AttributeError *)
                         | _ => ret tt
                         end ;;;
                         expanded' <- ex expanded parent ;;
                         modify (fun s => upd_cur s save) ;;;
                         match expanded' with
                         | VList true items => ret (inl items)
                         | other => ret (inr other)
                         end
                     | _ => ret (inl l)
                     end
                 end
             | _ => ret (inl l)
             end ;;
        match r with
        | inr other => ret other
        | inl items => items' <- mapM (fun x => ex x parent) items ;; ret (WL items')
        end
    | _ => ret e
    end.
End Ops.

(** [lf] bounds Python-level loops (while, scans, quasiquote nesting) and is
    constant through the recursion; [fuel] bounds the nesting of eval. *)
Fixpoint eval (lf : nat) (fuel : nat) (e : val) (st : state) {struct fuel} : res val :=
  match fuel with
  | O => Fuel
  | S f => eval_body lf (fun e' => eval lf f e') (fun e' p => expand lf f e' p) e st
  end
with expand (lf : nat) (fuel : nat) (e : val) (parent : option nat) (st : state) {struct fuel} : res val :=
  match fuel with
  | O => Fuel
  | S f => expand_body (fun e' => eval lf f e') (fun e' p => expand lf f e' p) e parent st
  end.
