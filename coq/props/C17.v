(** C17 — completed evaluations leave a balanced context; run starts fresh.
    Statements only; proofs in proofs/Balanced.v (one lemma per combinator and per
    operator, the whole evaluator by induction on fuel) and proofs/ApiBalanced.v. *)
From WalModel Require Import Api.
From WalModel.proofs Require Import Balanced ApiBalanced.
Local Open Scope Z_scope.

(** T-bal: whatever an evaluation nests - calls, let, macros, captured scopes and groups,
    relative evaluation, scans, any of the ~100 operators - when it completes the current
    environment is the one it was entered with, the stack of saved positions is unchanged, and the
    heap of environments has only grown (no frame dropped, no parent link changed);
    the same for the macro-expansion pass.  Any fuel, any expression, any state. *)
Theorem balanced_context : forall lf fuel,
  (forall e st v st', eval lf fuel e st = Ok v st' ->
     st_cur st' = st_cur st /\ c_stack (st_cont st') = c_stack (st_cont st) /\
     exists extra, parents st' = parents st +++ extra) /\
  (forall e p st v st', expand lf fuel e p st = Ok v st' ->
     st_cur st' = st_cur st /\ c_stack (st_cont st') = c_stack (st_cont st) /\
     exists extra, parents st' = parents st +++ extra).
Proof.
  intros lf fuel. destruct (eval_expand_balanced lf fuel) as [He Hx]. split.
  - intros e st v st' H. exact (He e st v st' H).
  - intros e p st v st' H. exact (Hx e p st v st' H).
Qed.
Print Assumptions balanced_context.

(** over every history of top-level evaluations (Wal.eval with any pass selection and
    keyword bindings; failed ones end the session): between evaluations the interpreter is
    in the global environment and no saved position is pending *)
Theorem top_level_between_evaluations : forall h st, at_top st -> at_top (fold_left run_top h st).
Proof. exact history_at_top. Qed.
Print Assumptions top_level_between_evaluations.

(** Wal.run depends on the prior state only through its reset: two interpreters with the
    same traces (after rewinding), output and files run a program identically, whatever
    definitions, macros, aliases, scope, group or positions they had *)
Theorem run_is_fresh : forall e kw st1 st2,
  ast_truthy e = true -> reset_state st1 = reset_state st2 -> wal_run e kw st1 = wal_run e kw st2.
Proof. exact wal_run_starts_fresh. Qed.
Print Assumptions run_is_fresh.

Theorem reset_is_initial : forall st,
  st_cur (reset_state st) = global_id /\ st_scope (reset_state st) = "" /\ st_group (reset_state st) = "" /\
  st_aliases (reset_state st) = [] /\ st_gensym (reset_state st) = 0 /\
  st_frames (reset_state st) = [mkFrame fresh_globals None] /\
  (forall tid t, alookup tid (c_traces (st_cont (reset_state st))) = Some t -> tr_index t = 0).
Proof. exact reset_state_fields. Qed.
Print Assumptions reset_is_initial.

Example top_nonvacuous : at_top empty_state.
Proof. split; reflexivity. Qed.
