(** C17 — completed evaluations leave a balanced context; run starts fresh.
    Statements only; proofs in proofs/Balanced.v (one lemma per combinator and per
    operator, the whole evaluator by induction on fuel), proofs/ApiBalanced.v and proofs/KwProofs.v. *)
From WalModel Require Import Api.
From WalModel.proofs Require Import Balanced ApiBalanced KwProofs.
Local Open Scope Z_scope.

(** T-bal: whatever an evaluation nests - calls, let, macros, captured scopes and groups,
    relative evaluation, scans, any of the ~100 operators - when it completes the current
    environment is the one it was entered with, the stack of saved positions is unchanged, and the
    heap of environments has only grown (no frame dropped, no parent link changed);
    the same for the macro-expansion pass.  Any fuel, any expression, any state. *)
Theorem balanced_context : forall lf fuel,
  (forall e st v st', eval lf fuel e st = Ok v st' ->
     st_cur st' = st_cur st /\ c_stack (st_cont st') = c_stack (st_cont st) /\
     exists extra, parents st' = parents st +++ extra) /\
  (forall e p st v st', expand lf fuel e p st = Ok v st' ->
     st_cur st' = st_cur st /\ c_stack (st_cont st') = c_stack (st_cont st) /\
     exists extra, parents st' = parents st +++ extra).
Proof.
  intros lf fuel. destruct (eval_expand_balanced lf fuel) as [He Hx]. split.
  - intros e st v st' H. exact (He e st v st' H).
  - intros e p st v st' H. exact (Hx e p st v st' H).
Qed.
Print Assumptions balanced_context.

(** over every history of top-level evaluations (Wal.eval with any pass selection and
    keyword bindings; failed ones end the session): between evaluations the interpreter is
    in the global environment and no saved position is pending *)
Theorem top_level_between_evaluations : forall h st, at_top st -> at_top (fold_left run_top h st).
Proof. exact history_at_top. Qed.
Print Assumptions top_level_between_evaluations.

(** Wal.run depends on the prior state only through its reset: two interpreters with the
    same traces (after rewinding), output and files run a program identically, whatever
    definitions, macros, aliases, scope, group or positions they had *)
Theorem run_is_fresh : forall e kw st1 st2,
  ast_truthy e = true -> reset_state st1 = reset_state st2 -> wal_run e kw st1 = wal_run e kw st2.
Proof. exact wal_run_starts_fresh. Qed.
Print Assumptions run_is_fresh.

Theorem reset_is_initial : forall st,
  st_cur (reset_state st) = global_id /\ st_scope (reset_state st) = "" /\ st_group (reset_state st) = "" /\
  st_aliases (reset_state st) = [] /\ st_gensym (reset_state st) = 0 /\
  st_frames (reset_state st) = [mkFrame fresh_globals None] /\
  (forall tid t, alookup tid (c_traces (st_cont (reset_state st))) = Some t -> tr_index t = 0).
Proof. exact reset_state_fields. Qed.
Print Assumptions reset_is_initial.

Example top_nonvacuous : at_top empty_state.
Proof. split; reflexivity. Qed.

(** a keyword binding of Wal.eval whose name is a global already: the evaluation proper starts in the state where the
    name holds the given value, and whatever it does, the name holds its old value again afterwards *)
Theorem keyword_binding_shadows_and_is_restored : forall fl e n v st r st' fid old,
  lookup_frame st global_id n = Some fid -> env_read global_id n st = Ok old st ->
  wal_eval_with fl e [(n, v)] st = Ok r st' ->
  exists st_b st_r,
    env_write global_id n v st = Ok tt st_b /\ env_read global_id n st_b = Ok v st_b /\
    kw_body fl e st_b = Ok r st_r /\
    env_write global_id n old st_r = Ok tt st' /\ env_read global_id n st' = Ok old st'.
Proof. exact kw_shadowing. Qed.
Print Assumptions keyword_binding_shadows_and_is_restored.

(** a fresh name: appended to the global frame for the evaluation proper and removed afterwards; in a state where no
    frame binds a name twice (every reachable state, props C06 / FrameInv.v) the name is unbound again afterwards *)
Theorem keyword_binding_of_a_fresh_name_is_removed : forall fl e n v st r st',
  lookup_frame st global_id n = None -> wal_eval_with fl e [(n, v)] st = Ok r st' ->
  exists st_b st_r, gbinds st_b = (gbinds st ++ [(n, v)])%list /\ kw_body fl e st_b = Ok r st_r /\
    gbinds st' = adel n (gbinds st_r) /\ (NoDup (map fst (gbinds st_r)) -> alookup n (gbinds st') = None).
Proof. exact kw_fresh_gone. Qed.
Print Assumptions keyword_binding_of_a_fresh_name_is_removed.

Theorem keyword_binding_of_a_fresh_name_is_unbound_afterwards : forall fl e n v st r st',
  FrameInv.fwf st -> lookup_frame st global_id n = None -> wal_eval_with fl e [(n, v)] st = Ok r st' ->
  alookup n (gbinds st') = None /\ FrameInv.fwf st'.
Proof. exact kw_fresh_unbound_afterwards. Qed.
Print Assumptions keyword_binding_of_a_fresh_name_is_unbound_afterwards.

Theorem the_evaluation_proper_is : forall fl e, kw_body fl e = if ast_truthy e then run_form fl e else ret VNone.
Proof. reflexivity. Qed.
Print Assumptions the_evaluation_proper_is.

Example keyword_binding_examples :
  (exists st',
    wal_eval (WL [VOp OAdd; VSym "z" None; VInt 1]) [("z", VInt 41)] empty_state = Ok (VInt 42) st' /\
    lookup_frame empty_state global_id "z" = None /\ lookup_frame st' global_id "z" = None) /\
  (exists st',
    wal_eval (VSym "CS" None) [("CS", VStr "top")] empty_state = Ok (VStr "top") st' /\
    env_read global_id "CS" empty_state = Ok (VStr "") empty_state /\ env_read global_id "CS" st' = Ok (VStr "") st').
Proof. exact (conj kw_demo kw_demo_shadow). Qed.
Print Assumptions keyword_binding_examples.
