(** C05 — scoped, grouped and aliased names denote the intended signal; context restored.
    Statements only; proofs in proofs/ScopeProofs.v, proofs/GroupsProofs.v and proofs/Balanced.v.
    PARTIAL: `groups` is modelled as the literal prefix/suffix computation the property states
    (Eval.op_groups); that the implementation's regular expression computes it is decided by
    the differential check against a brute-force oracle, not by a theorem. *)
From WalModel Require Import Eval.
From WalModel.proofs Require Import Balanced ScopeProofs GroupsProofs.
Local Open Scope Z_scope.

(** ~n denotes S.n when the captured scope S is a real scope (S immediately followed by n
    otherwise), through the current alias of n *)
Theorem scoped_reference : forall ev n s st cs,
  read_global "CS" st = Ok (VStr cs) st ->
  op_resolve_scope ev [VSym n s] st =
  read_named_signal ev (if smem cs (cont_scopes (st_cont st)) then cs ++ "." ++ alias_of st n else cs ++ alias_of st n) st.
Proof. exact scoped_ref_denotes. Qed.
Print Assumptions scoped_reference.

(** #n denotes the signal named G immediately followed by n *)
Theorem grouped_reference : forall ev n s st,
  op_resolve_group ev [VSym n s] st = read_named_signal ev (st_group st ++ alias_of st n) st.
Proof. exact grouped_ref_denotes. Qed.
Print Assumptions grouped_reference.

(** a reference to a signal that does not exist raises an error instead of yielding a value *)
Theorem missing_signal_is_an_error : forall ev name st,
  cont_contains (st_cont st) name = Some false -> read_named_signal ev name st = Er EEval st.
Proof. exact missing_signal_raises. Qed.
Print Assumptions missing_signal_is_an_error.

(** an alias denotes the same signal as its target's full name, whatever it was before
    (aliases are looked up at every reference) *)
Theorem alias_reference : forall ev n a st,
  alookup n (st_aliases st) = Some a -> cont_contains (st_cont st) a = Some true ->
  eval_symbol ev n None st = signal_value_m ev a (st_scope st) st.
Proof. exact alias_denotes. Qed.
Print Assumptions alias_reference.

(** in-scope runs its body with the captured scope and CS set to S ... *)
Theorem in_scope_body : forall ev s e st sv st1 name,
  ev s st = Ok sv st1 -> name_of sv = Some name ->
  op_in_scope ev [s; e] st =
  (set_scope_cs name ;;; r <- ev e ;; set_scope_cs (st_scope st) ;;; ret r) st1.
Proof. exact in_scope_body_runs_in_scope. Qed.
Print Assumptions in_scope_body.

(** ... and when it finishes the captured scope and CS are what they were before it started
    (hence LOCAL-SIGNALS / LOCAL-SCOPES, which are functions of the captured scope) *)
Theorem in_scope_context_restored : forall ev s e st v st',
  op_in_scope ev [s; e] st = Ok v st' ->
  st_scope st' = st_scope st /\ read_global "CS" st' = Ok (VStr (st_scope st)) st'.
Proof. exact in_scope_restores. Qed.
Print Assumptions in_scope_context_restored.

Theorem in_group_context_restored : forall ev g body st v st',
  op_in_group ev (g :: body) st = Ok v st' ->
  st_scope st' = st_scope st /\ st_group st' = st_group st /\
  read_global "CS" st' = Ok (VStr (st_scope st)) st'.
Proof. exact in_group_restores. Qed.
Print Assumptions in_group_context_restored.

Theorem all_scopes_context_restored : forall ev body st v st',
  op_all_scopes ev [body] st = Ok v st' ->
  st_scope st' = st_scope st /\ exists cs, read_global "CS" st = Ok cs st /\ read_global "CS" st' = Ok cs st'.
Proof. exact all_scopes_restores. Qed.
Print Assumptions all_scopes_context_restored.

(** writing a variable and reading it back (used for CS/CG) *)
Theorem variable_write_read : forall id n v st st',
  env_write id n v st = Ok tt st' -> env_read id n st' = Ok v st'.
Proof. exact write_then_read. Qed.
Print Assumptions variable_write_read.

(** (groups s0 s1 ... sn): the result is exactly the set of admissible prefixes p (any prefix without a line break
    when no scope is captured; otherwise S. followed by text without dot or backslash) such that p+s0 is a signal of
    the container and p+s1 ... p+sn all exist, the suffixes compared as literal text; it is sorted ascending and has
    no duplicates.  [has] is what the container answers for the names looked up. *)
Theorem groups_returns_exactly_the_complete_prefixes : forall ev st cs has,
  read_global "CS" st = Ok (VStr cs) st ->
  forall s0 posts, s0 <> ""%string -> (forall s, In s (s0 :: posts) -> alias_of st s = s) -> lookups_ok st cs has s0 posts ->
  exists l, op_groups ev (map VStr (s0 :: posts)) st = Ok (PL (map VStr l)) st /\
            NoDup l /\ ascending sltb l /\
            forall p, In p l <->
              (admissible cs p = true /\ (exists sig, In sig (cont_signals (st_cont st)) /\ sig = (p ++ s0)%string) /\
               forall post, In post posts -> has (p ++ post) = true).
Proof. exact groups_spec. Qed.
Print Assumptions groups_returns_exactly_the_complete_prefixes.

Theorem admissible_prefix_is : forall cs pre,
  admissible cs pre = if String.eqb cs "" then negb (scontains_char (ch 10) pre)
                      else sprefix (cs ++ ".") pre && no_dot_backslash (sdrop (String.length cs + 1) pre).
Proof. reflexivity. Qed.
Print Assumptions admissible_prefix_is.

Theorem suffix_is_literal_text : forall suf s p, strip_suffix suf s = Some p <-> s = (p ++ suf)%string.
Proof. exact strip_suffix_spec. Qed.
Print Assumptions suffix_is_literal_text.

(** the premises are met: a_valid a_ready b_valid ab_valid ab_ready *)
Example groups_of_a_container :
  op_groups (fun _ => fail EOther) [VStr "_valid"; VStr "_ready"] g_state = Ok (PL [VStr "top.a"; VStr "top.ab"]) g_state.
Proof. exact groups_demo. Qed.
Print Assumptions groups_of_a_container.

(** inside (in-group g body) the captured scope is the part of g up to its last dot; a group name without a dot keeps
    the scope captured before *)
From WalModel.proofs Require GroupScope.
Theorem in_group_body : forall ev g b body st v st1 name,
  ev g st = Ok v st1 -> name_of v = Some name ->
  op_in_group ev (g :: b :: body) st =
  (modify (fun s => upd_group s name) ;;;
   write_global "CG" (VStr name) ;;;
   set_scope_cs (GroupScope.group_scope name (st_scope st)) ;;;
   vs <- eval_args ev (b :: body) ;;
   modify (fun s => upd_group (upd_scope s (st_scope st)) (st_group st)) ;;;
   write_global "CG" (VStr (st_group st)) ;;;
   write_global "CS" (VStr (st_scope st)) ;;;
   last_or_index_error vs) st1.
Proof. exact GroupScope.in_group_body_runs_with. Qed.
Print Assumptions in_group_body.
Theorem a_group_name_without_a_dot_keeps_the_captured_scope : forall name prev,
  srfind "."%char name = -1 -> GroupScope.group_scope name prev = prev.
Proof. exact GroupScope.group_without_a_dot_keeps_the_scope. Qed.
Print Assumptions a_group_name_without_a_dot_keeps_the_captured_scope.
Theorem group_scope_is : forall name prev,
  GroupScope.group_scope name prev =
  let i := srfind "."%char name in if i =? -1 then prev else stake (Z.to_nat (i + 1)) name.
Proof. reflexivity. Qed.
Print Assumptions group_scope_is.
