(** C05 — scoped, grouped and aliased names denote the intended signal; context restored.
    Statements only; proofs in proofs/ScopeProofs.v and proofs/Balanced.v.
    PARTIAL: `groups` is modelled as the literal prefix/suffix computation the property states
    (Eval.op_groups); that the implementation's regular expression computes it is decided by
    the differential check against a brute-force oracle, not by a theorem. *)
From WalModel Require Import Eval.
From WalModel.proofs Require Import Balanced ScopeProofs.
Local Open Scope Z_scope.

(** ~n denotes S.n when the captured scope S is a real scope (S immediately followed by n
    otherwise), through the current alias of n *)
Theorem scoped_reference : forall ev n s st cs,
  read_global "CS" st = Ok (VStr cs) st ->
  op_resolve_scope ev [VSym n s] st =
  read_named_signal ev (if smem cs (cont_scopes (st_cont st)) then cs ++ "." ++ alias_of st n else cs ++ alias_of st n) st.
Proof. exact scoped_ref_denotes. Qed.
Print Assumptions scoped_reference.

(** #n denotes the signal named G immediately followed by n *)
Theorem grouped_reference : forall ev n s st,
  op_resolve_group ev [VSym n s] st = read_named_signal ev (st_group st ++ alias_of st n) st.
Proof. exact grouped_ref_denotes. Qed.
Print Assumptions grouped_reference.

(** a reference to a signal that does not exist raises an error instead of yielding a value *)
Theorem missing_signal_is_an_error : forall ev name st,
  cont_contains (st_cont st) name = Some false -> read_named_signal ev name st = Er EEval st.
Proof. exact missing_signal_raises. Qed.
Print Assumptions missing_signal_is_an_error.

(** an alias denotes the same signal as its target's full name, whatever it was before
    (aliases are looked up at every reference) *)
Theorem alias_reference : forall ev n a st,
  alookup n (st_aliases st) = Some a -> cont_contains (st_cont st) a = Some true ->
  eval_symbol ev n None st = signal_value_m ev a (st_scope st) st.
Proof. exact alias_denotes. Qed.
Print Assumptions alias_reference.

(** in-scope runs its body with the captured scope and CS set to S ... *)
Theorem in_scope_body : forall ev s e st sv st1 name,
  ev s st = Ok sv st1 -> name_of sv = Some name ->
  op_in_scope ev [s; e] st =
  (set_scope_cs name ;;; r <- ev e ;; set_scope_cs (st_scope st) ;;; ret r) st1.
Proof. exact in_scope_body_runs_in_scope. Qed.
Print Assumptions in_scope_body.

(** ... and when it finishes the captured scope and CS are what they were before it started
    (hence LOCAL-SIGNALS / LOCAL-SCOPES, which are functions of the captured scope) *)
Theorem in_scope_context_restored : forall ev s e st v st',
  op_in_scope ev [s; e] st = Ok v st' ->
  st_scope st' = st_scope st /\ read_global "CS" st' = Ok (VStr (st_scope st)) st'.
Proof. exact in_scope_restores. Qed.
Print Assumptions in_scope_context_restored.

Theorem in_group_context_restored : forall ev g body st v st',
  op_in_group ev (g :: body) st = Ok v st' ->
  st_scope st' = st_scope st /\ st_group st' = st_group st /\
  read_global "CS" st' = Ok (VStr (st_scope st)) st'.
Proof. exact in_group_restores. Qed.
Print Assumptions in_group_context_restored.

Theorem all_scopes_context_restored : forall ev body st v st',
  op_all_scopes ev [body] st = Ok v st' ->
  st_scope st' = st_scope st /\ exists cs, read_global "CS" st = Ok cs st /\ read_global "CS" st' = Ok cs st'.
Proof. exact all_scopes_restores. Qed.
Print Assumptions all_scopes_context_restored.

(** writing a variable and reading it back (used for CS/CG) *)
Theorem variable_write_read : forall id n v st st',
  env_write id n v st = Ok tt st' -> env_read id n st' = Ok v st'.
Proof. exact write_then_read. Qed.
Print Assumptions variable_write_read.
