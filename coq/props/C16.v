(** C16 — the execution paths agree; a second application of the passes changes nothing.
    Statements only; proofs in proofs/ResolveProofs.v, proofs/PathProofs.v.
    PARTIAL.  Proved: resolve is idempotent for every form and every scope stack (T-res-idem); the
    command-line pipeline (passes, then Wal.eval running the passes again) coincides with the API
    pipeline on every form whose processed version is a fixed point of expand and optimize (T-paths);
    run_file/.wo is the sequence of Wal.eval calls.  That optimize preserves meaning where it is not a
    syntactic fixed point is C08 (every rule is an evaluator equation).  Not proved: that expand is
    the identity on an expanded form (it depends on the macro table in the state), the reader/printer
    /pickle legs of the -c and .wo paths and process exit codes: those are decided by the
    differential check, which runs the four real entry points as subprocesses.
    Fuel is a device of the model: [resolve] runs [resolve_vars] with fuel 1 + nesting depth. *)
From WalModel Require Import Api.
From WalModel.proofs Require Import ResolveProofs PathProofs.

(** T-res-idem *)
Theorem resolve_twice_is_resolve_once : forall f sc e e' sc',
  resolve_vars f sc e = RsOk (e', sc') -> resolve_vars f sc e' = RsOk (e', sc').
Proof. exact resolve_vars_idem. Qed.
Print Assumptions resolve_twice_is_resolve_once.

Theorem resolve_idempotent_at_top : forall start e e',
  resolve start e = RsOk e' -> val_depth e' = val_depth e -> resolve start e' = RsOk e'.
Proof. exact resolve_idempotent. Qed.
Print Assumptions resolve_idempotent_at_top.

(** T-paths *)
Theorem command_line_form_agrees_with_api : forall e st e1 st1 r,
  ast_truthy e = true ->
  ex0 e (Some global_id) st = Ok e1 st1 -> optimize_modelled e1 = true ->
  resolve (global_names st1) (optimize e1) = RsOk r ->
  ast_truthy r = true ->
  ex0 r (Some global_id) st1 = Ok r st1 -> optimize_modelled r = true -> optimize r = r ->
  val_depth r = val_depth (optimize e1) ->
  cli_form e st = wal_eval e [] st.
Proof. exact cli_form_agrees_with_api. Qed.
Print Assumptions command_line_form_agrees_with_api.

Theorem command_line_is_cli_form_per_form : forall forms, cli_run_forms forms = (mapM cli_form forms ;;; ret tt).
Proof. exact cli_run_forms_is. Qed.
Print Assumptions command_line_is_cli_form_per_form.

Theorem falsy_form_is_skipped : forall e st, ast_truthy e = false -> wal_eval e [] st = Ok VNone st.
Proof. exact falsy_form_skipped. Qed.
Print Assumptions falsy_form_is_skipped.

Theorem run_file_evaluates_forms_in_order : forall e rest,
  api_run_file (e :: rest) = fold_left (fun acc x => acc ;;; wal_eval x []) rest (ret VNone ;;; wal_eval e []).
Proof. exact run_file_is_sequence. Qed.
Print Assumptions run_file_evaluates_forms_in_order.

(** non-vacuity of T-paths *)
Theorem paths_example : cli_form demo_form empty_state = wal_eval demo_form [] empty_state.
Proof. exact cli_agrees_demo. Qed.
Print Assumptions paths_example.

(** a form without macro calls (with respect to the macros visible in the state) is a fixed point of expand,
    and expanding it leaves the state as it was: the second expand of the command-line pipeline is the identity
    on it (proofs/ExpandProofs.v) *)
From WalModel.proofs Require Import ExpandProofs.
Theorem expand_fixed_point_on_macro_free_forms : forall lf f e p st e' st',
  mfree st e = true -> expand lf f e p st = Ok e' st' -> e' = e /\ st' = st.
Proof. exact expand_macro_free. Qed.
Print Assumptions expand_fixed_point_on_macro_free_forms.

Theorem macro_free_means : forall st e, mfree st e =
  match e with
  | VList w l => if is_quote_head l then true else w && head_not_macro st l && forallb (mfree st) l
  | _ => true
  end.
Proof. intros st e. destruct e; reflexivity. Qed.
Print Assumptions macro_free_means.

Theorem command_line_agrees_on_macro_free_processed_forms : forall e st e1 st1 r e2 st2,
  ast_truthy e = true ->
  ex0 e (Some global_id) st = Ok e1 st1 -> optimize_modelled e1 = true ->
  resolve (global_names st1) (optimize e1) = RsOk r ->
  ast_truthy r = true ->
  mfree st1 r = true -> ex0 r (Some global_id) st1 = Ok e2 st2 ->
  optimize_modelled r = true -> optimize r = r -> val_depth r = val_depth (optimize e1) ->
  cli_form e st = wal_eval e [] st.
Proof. exact cli_form_agrees_macro_free. Qed.
Print Assumptions command_line_agrees_on_macro_free_processed_forms.
