(** C06 — core evaluator: lexical scoping, closures, left-to-right single evaluation.
    Statements only; proofs in proofs/EnvProofs.v and proofs/Balanced.v.  The "standard semantics"
    of a language whose scopes are mutable frames is the environment model; the laws below
    characterise it for all programs/states.  Left-to-right single evaluation of operands is the
    definition of [eval_args] (= [mapM ev], one call per operand, in order); that the
    implementation agrees is decided by the differential check against the reference interpreter. *)
From WalModel Require Import Eval.
From WalModel.proofs Require Import Balanced EnvProofs.
From WalModel.proofs Require FrameInv ContInv.
Local Open Scope Z_scope.

(** a function body sees the bindings of its definition site, not of its caller: the body runs
    in a fresh frame whose parent is the captured frame; the caller's frame is current again after *)
Theorem call_lexical : forall ev, (forall e, good (ev e)) ->
  forall cenv ps body nm args st r st',
  eval_closure ev (VClos cenv (VList true ps) body nm) args st = Ok r st' ->
  exists s_pre s_post,
    let fid := List.length (st_frames st) in
    nth_error (parents s_pre) fid = Some (Some cenv) /\
    st_cur s_pre = st_cur st /\
    ev body (upd_cur s_pre fid) = Ok r s_post /\
    st' = upd_cur s_post (st_cur st) /\
    List.length ps = List.length args.
Proof. exact call_is_lexical. Qed.
Print Assumptions call_lexical.

(** parameters and inner bindings shadow outer ones: lookup returns the innermost binding on the
    static chain *)
Theorem shadowing : forall fuel st id name fid,
  find_frame fuel st id name = Some fid ->
  exists k, hop st id k = Some fid /\ binds st fid name = true /\ (k < fuel)%nat /\
            forall j fj, (j < k)%nat -> hop st id j = Some fj -> binds st fj name = false.
Proof. exact lookup_innermost. Qed.
Print Assumptions shadowing.

(** let bindings are established sequentially ... *)
Theorem let_sequential : forall ev k1 e1 k2 e2 body st v1 s1,
  let fid := List.length (st_frames st) in
  let st0 := upd_cur (upd_frames st (st_frames st +++ [mkFrame [] (Some (st_cur st))])) fid in
  ev e1 st0 = Ok v1 s1 ->
  op_let ev [WL [WL [VSym k1 None; e1]; WL [VSym k2 None; e2]]; body] st =
  (env_define fid k1 v1 ;;; v2 <- ev e2 ;; env_define fid k2 v2 ;;;
   vs <- eval_args ev [body] ;; r <- last_or_index_error vs ;;
   modify (fun s => upd_cur s (st_cur st)) ;;; ret r) s1.
Proof. exact let_is_sequential. Qed.
Print Assumptions let_sequential.

(** ... and vanish with the let; likewise every call: a completed evaluation is back in the
    environment it started in, and frames are never dropped or re-parented (so a binding captured
    by several closures is one shared frame for all of them) *)
Theorem scopes_vanish_and_frames_persist : forall lf fuel e st v st',
  eval lf fuel e st = Ok v st' ->
  st_cur st' = st_cur st /\ c_stack (st_cont st') = c_stack (st_cont st) /\
  exists extra, parents st' = parents st +++ extra.
Proof. exact eval_balanced. Qed.
Print Assumptions scopes_vanish_and_frames_persist.

(** assignment updates the nearest enclosing binding: the frame written is the one lookup finds,
    and a later read through any chain reaching that frame sees the new value *)
Theorem assignment_updates_found_binding : forall id n v st st',
  env_write id n v st = Ok tt st' -> env_read id n st' = Ok v st'.
Proof. exact ScopeProofs.write_then_read. Qed.
Print Assumptions assignment_updates_found_binding.

(** errors instead of values *)
Theorem unbound_name_raises : forall id name st,
  lookup_frame st id name = None -> env_read id name st = Er EEval st.
Proof. exact unbound_read_is_error. Qed.
Print Assumptions unbound_name_raises.

Theorem assigning_undefined_raises : forall ev kn e v st st1,
  ev e st = Ok v st1 -> lookup_frame st1 (st_cur st1) kn = None ->
  op_set ev [WL [VSym kn None; e]] st = Er EEval st1.
Proof. exact set_undefined_is_error. Qed.
Print Assumptions assigning_undefined_raises.

Theorem redefinition_raises : forall id name v st f,
  get_frame st id = Some f -> amem name (f_binds f) = true -> env_define id name v st = Er EEval st.
Proof. exact redefine_is_error. Qed.
Print Assumptions redefinition_raises.

Theorem wrong_arity_raises : forall ev cenv ps body nm args st,
  List.length ps <> List.length args ->
  exists st', eval_closure ev (VClos cenv (VList true ps) body nm) args st = Er EEval st'.
Proof. exact arity_mismatch_is_error. Qed.
Print Assumptions wrong_arity_raises.

(** fuel is only a bound of the model (proofs/FuelMono.v: every operator is monotone in the evaluator it is given —
    one lemma per operator — hence by induction on the fuel): a completed evaluation is unchanged by more fuel, and
    two completed evaluations of the same expression in the same state agree whatever their fuel.  So every theorem
    stated "for fuel f" holds for all larger fuels, and out-of-fuel is never mistaken for a result. *)
From WalModel.proofs Require FuelMono.
Theorem more_fuel_never_changes_a_completed_evaluation : forall lf f g e st v st',
  (f <= g)%nat -> eval lf f e st = Ok v st' -> eval lf g e st = Ok v st'.
Proof. exact FuelMono.eval_fuel_monotone. Qed.
Print Assumptions more_fuel_never_changes_a_completed_evaluation.

Theorem completed_evaluations_agree_whatever_the_fuel : forall lf f g e st v1 s1 v2 s2,
  eval lf f e st = Ok v1 s1 -> eval lf g e st = Ok v2 s2 -> v1 = v2 /\ s1 = s2.
Proof. exact FuelMono.eval_fuel_irrelevant. Qed.
Print Assumptions completed_evaluations_agree_whatever_the_fuel.

(** * bindings of let vanish with the let; assignment creates no binding (proofs/ResolveLet.v)
    For every program of the let/set/while/print fragment (ResolveLet.fragE, any nesting depth) and every description
    sc of the frames on the current chain ("frame j binds exactly the names sc_j"): after a completed evaluation the
    same description holds again and the context is balanced -- the let frames are gone from the chain, no frame on
    it gained or lost a name, the current frame and the saved positions are as before. *)
From WalModel.proofs Require ResolveLet.
Theorem let_bindings_vanish_and_set_creates_none : forall V lf f sc e st a st',
  ResolveLet.fragE V e = true -> ResolveLet.Inv V sc st -> eval lf f e st = Ok a st' ->
  ResolveLet.Inv V sc st' /\ Balanced.R st st'.
Proof. exact ResolveLet.fragment_keeps_binding_structure. Qed.
Print Assumptions let_bindings_vanish_and_set_creates_none.

(** no frame ever binds a name twice — define refuses a bound name, assignment replaces in place, a new frame is
    empty — through every completed evaluation (whole evaluator, any fuel) and every history of API operations *)
Theorem no_frame_binds_a_name_twice : forall lf fuel e st v st',
  eval lf fuel e st = Ok v st' -> FrameInv.fwf st -> FrameInv.fwf st'.
Proof. exact FrameInv.eval_keeps_keys_distinct. Qed.
Print Assumptions no_frame_binds_a_name_twice.

Theorem distinct_keys_means : forall st,
  FrameInv.fwf st <-> Forall (fun f => NoDup (map fst (f_binds f))) (st_frames st).
Proof. intros st. reflexivity. Qed.
Print Assumptions distinct_keys_means.

Theorem every_reachable_state_has_distinct_keys : forall ops,
  FrameInv.fwf (fold_left ContInv.apply_api ops Api.empty_state).
Proof. exact FrameInv.reachable_states_have_distinct_keys. Qed.
Print Assumptions every_reachable_state_has_distinct_keys.

(** comparisons and arithmetic evaluate every operand, left to right, before they look at any value *)
From WalModel.proofs Require EagerOps.
Theorem comparisons_and_arithmetic_start_with_all_operands : forall ev neg args,
  EagerOps.eager ev (op_eq ev neg args) args /\ EagerOps.eager ev (op_add ev args) args /\ EagerOps.eager ev (op_sub ev args) args /\
  EagerOps.eager ev (op_mul ev args) args /\ EagerOps.eager ev (op_list ev args) args.
Proof.
  intros ev neg args. repeat split;
    [apply EagerOps.eq_is_eager|apply EagerOps.add_is_eager|apply EagerOps.sub_is_eager|apply EagerOps.mul_is_eager|apply EagerOps.list_is_eager].
Qed.
Print Assumptions comparisons_and_arithmetic_start_with_all_operands.
Theorem eager_means : forall ev m args, EagerOps.eager ev m args <-> exists k, m = bind (eval_args ev args) k.
Proof. intros. reflexivity. Qed.
Print Assumptions eager_means.
Theorem a_failing_operand_fails_the_form : forall ev m args e st st',
  EagerOps.eager ev m args -> eval_args ev args st = Er e st' -> m st = Er e st'.
Proof. exact EagerOps.eager_fails. Qed.
Print Assumptions a_failing_operand_fails_the_form.
Theorem operands_are_evaluated_one_by_one_in_order : forall ev a r st,
  eval_args ev (a :: r) st =
  match ev a st with
  | Ok v st1 => match eval_args ev r st1 with Ok vs st2 => Ok (v :: vs) st2 | Er e s => Er e s | Unm w => Unm w | Fuel => Fuel end
  | Er e s => Er e s | Unm w => Unm w | Fuel => Fuel
  end.
Proof. exact EagerOps.eval_args_cons. Qed.
Print Assumptions operands_are_evaluated_one_by_one_in_order.

(** * case selects by value (proofs/CaseProofs.v): for a well-formed clause list (every clause a list with a key, the
    keys pairwise different as texts — the two facts the operator checks first, here as premises), the body that
    runs is the body of the first clause whose key EQUALS the value of the key form (Python equality: a comparison
    result selects the clause 1 / 0, a string never selects a number clause); the default clause runs only when no
    key equals the value, wherever it stands; no other body is evaluated; without a default the result is None. *)
From WalModel.proofs Require CaseProofs.
Theorem case_runs_exactly_the_selected_body : forall (ev : val -> M val) kf clauses v keys sel st st1,
  ev kf st = Ok v st1 ->
  CaseProofs.case_keys clauses st1 = Ok keys st1 ->
  List.length (dedup_str keys []) = List.length clauses ->
  CaseProofs.case_select v clauses None = Some sel ->
  op_case ev (kf :: clauses) st =
    match sel with
    | Some body => (vs <- eval_args ev body ;; last_or_index_error vs) st1
    | None => Ok VNone st1
    end.
Proof. exact CaseProofs.case_runs_the_selected_body. Qed.
Print Assumptions case_runs_exactly_the_selected_body.
Example case_selection_is_by_value :
  let cl k b := PL [k; b] in
  CaseProofs.case_select (VBool true) [cl (VInt 1) (VStr "one"); cl (VInt 0) (VStr "zero"); cl (VSym "default" None) (VStr "d")] None
    = Some (Some [VStr "one"]) /\
  CaseProofs.case_select (VBool false) [cl (VInt 1) (VStr "one"); cl (VInt 0) (VStr "zero"); cl (VSym "default" None) (VStr "d")] None
    = Some (Some [VStr "zero"]) /\
  CaseProofs.case_select (VStr "1") [cl (VInt 1) (VStr "one"); cl (VSym "default" None) (VStr "d")] None = Some (Some [VStr "d"]) /\
  CaseProofs.case_select (VInt 2) [cl (VSym "default" None) (VStr "d"); cl (VInt 2) (VStr "two")] None = Some (Some [VStr "two"]) /\
  CaseProofs.case_select (VInt 3) [cl (VInt 2) (VStr "two")] None = Some None.
Proof. exact CaseProofs.case_select_by_value. Qed.
Print Assumptions case_selection_is_by_value.
