(** C19 — resampling and trimming re-index the trace consistently.
    Statements only; proofs in proofs/TraceProofs.v.  Navigation, @, scans and virtual
    signals on the resampled trace are the same operators working through [tr_index],
    [tr_max], [tr_ts] and [access_data] (theorems of C02/C03/C04 are parametric in the trace). *)
From WalModel Require Import Eval.
From WalModel.proofs Require Import TraceProofs.
Local Open Scope Z_scope.

(** one time index per distinct selected sample, in list order: INDEX 0, MAX-INDEX = count - 1,
    TS table and value lookup built from the same de-duplicated list, cached virtual-signal
    values dropped; everything else (original samples and timestamps) untouched *)
Theorem resample_spec : forall t L t',
  trace_sample t L = Some t' ->
  let D := dedup_Z L [] in
  tr_index t' = 0 /\ tr_max t' = zlen D - 1 /\ tr_lookup t' = Some D /\
  map_opt (znth (tr_all_ts t)) D = Some (tr_ts t') /\
  tr_all_ts t' = tr_all_ts t /\ tr_data t' = tr_data t /\ tr_tid t' = tr_tid t /\
  tr_raw t' = tr_raw t /\ tr_scopes t' = tr_scopes t /\ tr_widths t' = tr_widths t /\
  tr_virt t' = clear_caches (tr_virt t) /\
  NoDup D /\ (forall x, In x D <-> In x L).
Proof. exact trace_sample_spec. Qed.
Print Assumptions resample_spec.

(** at new index j every signal reports what the original trace reports at the j-th selected sample *)
Theorem resampled_value : forall t L t' name j,
  trace_sample t L = Some t' -> L <> [] ->
  access_data t' name j =
  match alookup name (tr_data t) with
  | None => None
  | Some col => match znth (dedup_Z L []) j with Some i => znth col i | None => None end
  end.
Proof. exact sampled_value. Qed.
Print Assumptions resampled_value.

(** indices given to a later sample-at refer to the original, unsampled trace *)
Theorem later_resample_uses_original : forall t L t' L2,
  trace_sample t L = Some t' -> trace_sample t' L2 = trace_sample t L2.
Proof. exact resample_refers_to_original. Qed.
Print Assumptions later_resample_uses_original.

(** trim-trace only lowers MAX-INDEX to min(m, MAX-INDEX); every value stays *)
Theorem trim_spec : forall t m,
  tr_max (trace_trim t m) = Z.min m (tr_max t) /\ tr_index (trace_trim t m) = tr_index t /\
  tr_ts (trace_trim t m) = tr_ts t /\ tr_lookup (trace_trim t m) = tr_lookup t /\
  tr_data (trace_trim t m) = tr_data t /\ tr_virt (trace_trim t m) = tr_virt t /\
  (forall name i, access_data (trace_trim t m) name i = access_data t name i).
Proof. exact trace_trim_spec. Qed.
Print Assumptions trim_spec.

Definition ex_t : trace := mkTrace "t" "f" 2 3 [0;5;7;9] [0;5;7;9] None ["a"] [("a", ["0";"1";"10";"11"])] [] [] [].
Example ex_resample : exists t', trace_sample ex_t [2;0;2;3] = Some t' /\ tr_ts t' = [7;0;9] /\ tr_max t' = 2 /\
  access_data t' "a" 0 = Some "10" /\ access_data t' "a" 2 = Some "11".
Proof. eexists. split; [reflexivity|]. repeat split. Qed.
