From WalModel Require Import Eval.
Theorem tmp : True. Proof. exact I. Qed.
Print Assumptions tmp.
