(** C20 — WAWK transpiles with AWK meaning.
    Statements only; proofs in proofs/WawkProofs.v (using ScanProofs for the main loop).
    PARTIAL.  The model starts from the statements produced by the Earley parser of wawk/parser.py
    (conditions, action as WAL forms); the parser itself — operator precedence and associativity,
    statement syntax — is not modelled in Coq and is decided by the differential check against an
    independent AWK-style reference evaluation.  Proved here: the classification into BEGIN / END /
    conditional statements is a partition keeping source order; the emitted program is
    (do define... BEGIN-actions...), the main loop (only if there are conditional statements), the
    END actions; each collected variable is defined exactly once; the main loop is
    (whenever #t (when (&& c1..cn) action)...) with statements in source order and, on one trace,
    visits every index from the current one to the last exactly once in ascending order, evaluating
    the statements' forms in source order at each index, and restores the index.  `when` is
    (if c (do ...)) by C15 when_eq.  The -o leg is the printer/reader round trip of C11. *)
From WalModel Require Import Wawk.
From WalModel.proofs Require Import ScanProofs WawkProofs.
Local Open Scope Z_scope.

Theorem statement_classes_partition : forall s,
  (is_begin s = true /\ is_end s = false /\ is_cond s = false) \/
  (is_begin s = false /\ is_end s = true /\ is_cond s = false) \/
  (is_begin s = false /\ is_end s = false /\ is_cond s = true).
Proof. exact classes_partition. Qed.
Print Assumptions statement_classes_partition.

Theorem every_statement_in_one_class : forall p,
  (List.length (begin_actions p) + List.length (end_actions p) + List.length (cond_statements p))%nat = List.length p.
Proof. exact classes_count. Qed.
Print Assumptions every_statement_in_one_class.

Theorem classes_in_source_order : forall p q,
  begin_actions (p +++ q) = begin_actions p +++ begin_actions q /\
  end_actions (p +++ q) = end_actions p +++ end_actions q /\
  cond_statements (p +++ q) = cond_statements p +++ cond_statements q.
Proof. exact classes_keep_order. Qed.
Print Assumptions classes_in_source_order.

Theorem class_membership : forall p s,
  (In s p /\ is_begin s = true -> In (snd s) (begin_actions p)) /\
  (In s p /\ is_end s = true -> In (snd s) (end_actions p)) /\
  (In s (cond_statements p) <-> In s p /\ is_cond s = true).
Proof. exact classes_members. Qed.
Print Assumptions class_membership.

(** BEGIN once before, END once after, variables defined once each *)
Theorem emitted_program_shape : forall p forms,
  wawk_emit p = Some forms ->
  exists vars, NoDup (map fst vars) /\
    forms = PL (VOp ODo :: map (fun kv => PL [VOp ODefine; VSym (fst kv) None; snd kv]) vars +++ begin_actions p)
            :: (match cond_statements p with [] => [] | _ => [emit_main_loop (cond_statements p)] end)
            +++ end_actions p.
Proof. exact emit_defines_distinct. Qed.
Print Assumptions emitted_program_shape.

Theorem main_loop_form : forall stmts,
  emit_main_loop stmts =
  PL (VOp OWhenever :: VBool true :: map (fun s => PL [VSym "when" None; PL (VOp OAnd :: fst s); snd s]) stmts).
Proof. exact main_loop_shape. Qed.
Print Assumptions main_loop_form.

Theorem collected_variables_distinct : forall f e v v',
  find_vars f e v = Some v' -> NoDup (map fst v) -> NoDup (map fst v').
Proof. exact find_vars_nodup. Qed.
Print Assumptions collected_variables_distinct.

Section MainLoop.
  Variable ev : val -> M val.
  Variable tid : string.
  Hypothesis Htrue : forall st, ev (VBool true) st = Ok (VBool true) st.
  Variable whens : list val.
  Hypothesis Hb : forall st i m vs st', at1 st tid i m -> eval_args ev whens st = Ok vs st' -> at1 st' tid i m.

  Theorem main_loop_is_for_loop : forall fuel st i m,
    at1 st tid i m -> 0 <= i <= m -> (Z.to_nat (m - i) < fuel)%nat -> whens <> [] ->
    op_whenever fuel ev (VBool true :: whens) st =
    (r <- wh_spec ev tid (VBool true) whens (zrange_nat i (S (Z.to_nat (m - i)))) VNone ;; set_trace_index tid i ;;; ret r) st.
  Proof. exact (main_loop_visits_every_index ev tid Htrue whens Hb). Qed.

  Theorem each_visit_runs_statements_in_order : forall last st,
    visit ev (VBool true) whens last st = (vs <- eval_args ev whens ;; last_or_index_error vs) st.
  Proof. exact (visit_runs_all_statements ev Htrue whens). Qed.
End MainLoop.
Print Assumptions main_loop_is_for_loop.
Print Assumptions each_visit_runs_statements_in_order.

(** * the expression grammar: one rule per level, binary operators group left to right *)
From WalModel Require Import WawkParse.
From WalModel.proofs Require Import WawkParseProofs WawkLexProofs.

(** every expression tree — numbers, symbols, strings, calls, !, the twelve binary operators, nested to any depth —
    written as tokens with parentheses only around a sub-expression of a lower level than its position requires
    (the right operand of a left-associative operator requires the next level, both operands of a comparison require
    the level of + and -), is parsed back to exactly that tree *)
Theorem expression_tokens_parse_back_to_the_tree : forall e, parse_tokens (fl 1 e) = Some e.
Proof. exact tokens_parse_back. Qed.
Print Assumptions expression_tokens_parse_back_to_the_tree.

Theorem the_levels_are : forall o,
  lvl_op o = match o with
             | BOr => 1 | BAnd => 2 | BEq | BNe | BGt | BLt | BGe | BLe => 3 | BAdd | BSub => 4 | BMul | BDiv => 5
             end%nat.
Proof. intros o. reflexivity. Qed.
Print Assumptions the_levels_are.

Theorem the_tokens_of_a_tree_are : forall p e,
  fl p e = if Nat.ltb (lvl e) p then TLP :: body e +++ [TRP] else body e.
Proof. exact fl_unfold. Qed.
Print Assumptions the_tokens_of_a_tree_are.
Theorem the_tokens_of_a_binary_tree_are : forall o a b,
  body (WBin o a b) = if Nat.eqb (lvl_op o) 3 then fl 4 a +++ TOp o :: fl 4 b
                      else fl (lvl_op o) a +++ TOp o :: fl (S (lvl_op o)) b.
Proof. exact body_bin. Qed.
Print Assumptions the_tokens_of_a_binary_tree_are.

(** x o1 y o2 z for any two operators: the tighter one binds first, equal levels group to the left, two comparisons
    in a row are rejected *)
Theorem three_operands : forall o1 o2 x y z,
  parse_tokens [TSym x; TOp o1; TSym y; TOp o2; TSym z] =
  if Nat.eqb (lvl_op o1) 3 && Nat.eqb (lvl_op o2) 3 then None
  else if Nat.leb (lvl_op o2) (lvl_op o1) then Some (WBin o2 (WBin o1 (WSym x) (WSym y)) (WSym z))
  else Some (WBin o1 (WSym x) (WBin o2 (WSym y) (WSym z))).
Proof. intros o1 o2 x y z. destruct o1, o2; reflexivity. Qed.
Print Assumptions three_operands.

(** the transformer on the fragment *)
Theorem transformer_is : forall e,
  to_wal e = match e with
             | WNum z => VInt z | WSym s => VSym s None | WStr s => VStr s
             | WNot a => PL [VOp ONot; to_wal a]
             | WBin o a b => PL [VOp (bop_op o); to_wal a; to_wal b]
             | WCall f args => PL ((match op_of_name f with Some o => VOp o | None => VSym f None end) :: map to_wal args)
             end.
Proof. intros e. destruct e; reflexivity. Qed.
Print Assumptions transformer_is.

Example expression_text_example :
  wawk_expr "a - 1 - f(b, !c) * 2 >= -3 && x || y" =
  XOk (to_wal (WBin BOr (WBin BAnd (WBin BGe (WBin BSub (WBin BSub (WSym "a") (WNum 1))
                                                        (WBin BMul (WCall "f" [WSym "b"; WNot (WSym "c")]) (WNum 2)))
                                              (WNum (-3))) (WSym "x")) (WSym "y"))).
Proof. vm_compute. reflexivity. Qed.
Print Assumptions expression_text_example.

(** the text of a tree — its tokens, one space after each — is read by lexer, parser and transformer as the tree:
    for every tree whose symbols are base_symbols and whose strings have no quote, backslash or control character *)
Theorem expression_text_means_the_tree : forall e, wf_tree e = true -> wawk_expr (expr_text e) = XOk (to_wal e).
Proof. exact expression_text_reads_as_the_tree. Qed.
Print Assumptions expression_text_means_the_tree.

Theorem expression_text_is : forall e, expr_text e = render (fl 1 e).
Proof. reflexivity. Qed.
Print Assumptions expression_text_is.

Theorem token_sequences_lex_back : forall ts b f,
  seq_ok b ts = true -> (2 * List.length ts < f)%nat -> lex f b (render ts) = LOk ts.
Proof. exact lex_render. Qed.
Print Assumptions token_sequences_lex_back.

Example a_text_of_a_tree :
  expr_text (WBin BMul (WBin BAdd (WSym "a") (WNum (-2))) (WCall "f" [WStr "x y"; WNot (WSym "b")])) = "( a + -2 ) * f ( ""x y"" , ! b ) "%string.
Proof. vm_compute. reflexivity. Qed.
Print Assumptions a_text_of_a_tree.

(** * the grammar text itself: regenerated from wawk/parser.py on every run and compared with what the model implements *)
From WalModel Require Import Generated.
From WalModel.proofs Require Import WawkGrammarTies.

Theorem the_expression_rules_of_the_grammar_are_the_models : wawk_expression_rules = model_rules.
Proof. exact expression_rules_are_the_repositorys. Qed.
Print Assumptions the_expression_rules_of_the_grammar_are_the_models.

Theorem the_model_rules_are :
  model_rules =
  [("expr", "?", [["or_s"]])] +++
  left_assoc_rows "or_s" "a_or_s" "and_s" "or_op" +++
  left_assoc_rows "and_s" "a_and_s" "comp" "and_op" +++
  nonassoc_rows "comp" "a_comp" "sum_s" "comp_op" +++
  left_assoc_rows "sum_s" "a_sum_s" "mul" "a_s_op" +++
  left_assoc_rows "mul" "a_mul" "neg" "m_d_op" +++
  [("neg", "?", [["a_neg"]; ["atom"]]); ("a_neg", "", [["u_op"; "neg"]]); ("u_op", "!", [[q "!"]])] +++
  [ops_row "m_d_op" 5; ops_row "a_s_op" 4; ops_row "comp_op" 3; ops_row "and_op" 2; ops_row "or_op" 1] +++
  [("base_symbol", "!", [["("; "LETTER"; "|"; q "_"; ")"; "("; "LETTER"; "|"; "INT"; "|"; q "_"; "|"; q "$"; "|"; q "."; ")"; "*"]]);
   ("fcall", "", [["base_symbol"; q "("; "["; "expr"; "("; q ","; "expr"; ")"; "*"; "]"; q ")"]]);
   ("string", "", [["ESCAPED_STRING"]])]%string.
Proof. reflexivity. Qed.
Print Assumptions the_model_rules_are.

Theorem the_rule_shapes_are : forall name a_name sub opname,
  left_assoc_rows name a_name sub opname = [(name, "?", [[a_name]; [sub]]); (a_name, "", [[name; opname; sub]])]%string /\
  nonassoc_rows name a_name sub opname = [(name, "?", [[a_name]; [sub]]); (a_name, "", [[sub; opname; sub]])]%string.
Proof. intros. split; reflexivity. Qed.
Print Assumptions the_rule_shapes_are.

Theorem the_atoms_and_ignored_text_of_the_grammar :
  wawk_atom_alternatives = [["symbol"]; ["fcall"]; ["array_get"]; [q "("; "expr"; q ")"]; ["string"]; ["list"]; ["SIGNED_INT"]; ["INT"]]%string /\
  wawk_ignored = ["WS"; "COMMENT"]%string /\ wawk_comment_terminal = "/\/\/[^\n]*/"%string.
Proof. exact (conj atom_alternatives_are_the_repositorys ignored_text_is_the_repositorys). Qed.
Print Assumptions the_atoms_and_ignored_text_of_the_grammar.

Theorem each_operator_is_in_the_set_of_its_level_only : forall o,
  In [q (bop_text o)] (snd (ops_row "" (lvl_op o))) /\ forall l, l <> lvl_op o -> ~ In [q (bop_text o)] (snd (ops_row "" l)).
Proof. exact operator_sets_cover_the_operators. Qed.
Print Assumptions each_operator_is_in_the_set_of_its_level_only.
