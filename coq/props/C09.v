(** C09 — integer and bit-vector arithmetic is exact at any width.
    Only statements here; proofs are in proofs/ArithProofs.v, proofs/EvalArith.v. *)
From WalModel Require Import Eval.
From WalModel.proofs Require Import ArithProofs EvalArith.
Local Open Scope Z_scope.

(** x[i] is bit i of x (any sign, any width) *)
Theorem bit_spec : forall x i, 0 <= i -> slice1 x i = Some (Z.b2z (Z.testbit x i)).
Proof. exact slice1_spec. Qed.
Print Assumptions bit_spec.

(** x[h:l] = floor(x / 2^l) mod 2^(h-l+1) *)
Theorem slice_spec : forall x h l, 0 <= l -> l <= h ->
  slice2 x h l = Some ((x / 2 ^ l) mod 2 ^ (h - l + 1)).
Proof. exact slice2_spec. Qed.
Print Assumptions slice_spec.

(** adjacent slices reassemble x *)
Theorem slice_reassemble : forall x h m l a b c, 0 <= l -> l <= m -> m < h ->
  slice2 x h (m + 1) = Some a -> slice2 x m l = Some b -> slice2 x h l = Some c ->
  a * 2 ^ (m + 1 - l) + b = c.
Proof. exact slice_concat. Qed.
Print Assumptions slice_reassemble.

(** the slice operator of the evaluator computes exactly that, whatever its
    operands are (literals, variables, signals) *)
Theorem eval_slice_bit : forall ev args x i st st',
  eval_args ev args st = Ok [VInt x; VInt i] st' -> 0 <= i ->
  op_slice ev args st = Ok (VInt (Z.b2z (Z.testbit x i))) st'.
Proof. exact op_slice_bit. Qed.
Print Assumptions eval_slice_bit.

Theorem eval_slice_range : forall ev args x h l st st',
  eval_args ev args st = Ok [VInt x; VInt h; VInt l] st' -> 0 <= l -> l <= h ->
  op_slice ev args st = Ok (VInt ((x / 2 ^ l) mod 2 ^ (h - l + 1))) st'.
Proof. exact op_slice_range. Qed.
Print Assumptions eval_slice_range.

(** + - * mod ** comparisons, bor/band/bxor on integers of any width and arity *)
Theorem eval_add : forall ev args zs st st',
  eval_args ev args st = Ok (ints zs) st' ->
  op_add ev args st = Ok (VInt (fold_left Z.add zs 0)) st'.
Proof. exact op_add_ints. Qed.
Print Assumptions eval_add.

Theorem eval_sub : forall ev args z zs st st',
  eval_args ev args st = Ok (ints (z :: zs)) st' ->
  op_sub ev args st = Ok (VInt (match zs with [] => - z | _ => fold_left Z.sub zs z end)) st'.
Proof. exact op_sub_ints. Qed.
Print Assumptions eval_sub.

Theorem eval_mul : forall ev args z z2 zs st st',
  eval_args ev args st = Ok (ints (z :: z2 :: zs)) st' ->
  op_mul ev args st = Ok (VInt (fold_left Z.mul (z2 :: zs) z)) st'.
Proof. exact op_mul_ints. Qed.
Print Assumptions eval_mul.

Theorem eval_mod : forall ev args a b st st',
  List.length args = 2%nat ->
  eval_args ev args st = Ok [VInt a; VInt b] st' -> b <> 0 ->
  op_mod ev args st = Ok (VInt (a mod b)) st'.
Proof. exact op_mod_ints. Qed.
Print Assumptions eval_mod.

Theorem mod_is_floor_mod : forall a b, b <> 0 ->
  a = b * (a / b) + a mod b /\ (0 < b -> 0 <= a mod b < b) /\ (b < 0 -> b < a mod b <= 0).
Proof. exact mod_floor. Qed.
Print Assumptions mod_is_floor_mod.

Theorem eval_exp : forall ev args a b st st',
  eval_args ev args st = Ok [VInt a; VInt b] st' -> 0 <= b ->
  op_exp ev args st = Ok (VInt (a ^ b)) st'.
Proof. exact op_exp_ints. Qed.
Print Assumptions eval_exp.

Theorem eval_compare : forall ev test args a b st st',
  List.length args = 2%nat ->
  eval_args ev args st = Ok [VInt a; VInt b] st' ->
  op_cmp ev test args st = Ok (VBool (test (a ?= b))) st'.
Proof. exact op_cmp_ints. Qed.
Print Assumptions eval_compare.

Theorem eval_bitwise : forall ev f args z z2 zs st st',
  eval_args ev args st = Ok (ints (z :: z2 :: zs)) st' ->
  op_bitwise ev f args st = Ok (VInt (fold_left f (z2 :: zs) z)) st'.
Proof. exact op_bitwise_ints. Qed.
Print Assumptions eval_bitwise.

(** convert/bin: the binary numeral of v padded to at least w digits *)
Theorem eval_convert_bin : forall ev args v w st st',
  List.length args = 2%nat ->
  eval_args ev args st = Ok [VInt v; VInt w] st' -> 0 <= v -> 0 <= w ->
  exists s, op_convert_bin ev args st = Ok (VStr s) st' /\
            unsigned_bits s = Some v /\ slen s = Z.max w (slen (numeral 2 v)).
Proof. exact op_convert_bin_spec. Qed.
Print Assumptions eval_convert_bin.

(** bits->sint is the two's-complement value of any non-empty bit string *)
Theorem bits_to_sint_twos_complement : forall s u,
  s <> EmptyString -> sall is_bit s = true -> unsigned_bits s = Some u ->
  bits_to_sint s = Some (IntOk (u - msb_of s * 2 ^ slen s)).
Proof. exact bits_to_sint_spec. Qed.
Print Assumptions bits_to_sint_twos_complement.

(** (signed s) = bits->sint (convert/bin s w): signed reading of a w-bit value *)
Theorem signed_spec : forall v w, 0 < w -> 0 <= v < 2 ^ w ->
  bits_to_sint (convert_bin v w) = Some (IntOk (if v <? 2 ^ (w - 1) then v else v - 2 ^ w)).
Proof. exact signed_reading. Qed.
Print Assumptions signed_spec.

(** numeral conversions are inverse: int->string / string->int, all four bases, any length *)
Theorem int_string_roundtrip : forall z, py_int 10 (int_to_string z) = IntOk z.
Proof. exact dec_roundtrip. Qed.
Print Assumptions int_string_roundtrip.

Theorem numeral_roundtrip : forall b z, 2 <= b <= 36 -> 0 <= z -> py_int b (numeral b z) = IntOk z.
Proof. exact py_int_numeral. Qed.
Print Assumptions numeral_roundtrip.

(** a signal's integer value is the binary numeral stored in the trace, whatever its width *)
Theorem to_value_binary : forall v w, 0 <= v ->
  value_of_text (convert_bin v w) = VInt v.
Proof.
  intros v w Hv. unfold value_of_text, to_value_text.
  change (digits_val 2 (convert_bin v w)) with (unsigned_bits (convert_bin v w)).
  rewrite convert_bin_value by exact Hv. reflexivity.
Qed.
Print Assumptions to_value_binary.

(** non-vacuity: concrete instances meet the hypotheses *)
Example slice_example : slice2 (-300) 9 2 = Some (((-300) / 2 ^ 2) mod 2 ^ 8) /\ 0 <= 2 /\ 2 <= 9.
Proof. split; [reflexivity|lia]. Qed.
Example signed_example : bits_to_sint (convert_bin 200 8) = Some (IntOk (-56)).
Proof. reflexivity. Qed.
