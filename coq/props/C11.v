(** C11 — printed expressions read back identically; shorthands equal their long forms.
    Statements only; proofs in proofs/ReaderProofs.v.
    PARTIAL.  Proved for all inputs: printed integers (any size, either sign) and printed strings
    (any ASCII content, with the escapes wal_str writes) read back as themselves, in every
    position; the STRUCTURAL round trip (end of this file) for every expression built from integers,
    strings, plain symbols, booleans, operators and nested lists.  Not proved: floats, expressions the
    printer writes in a special form (quote forms, a@b, {array}), escaped identifiers, and the
    shorthand/long form equalities for every operand: decided by the differential check on generated
    expressions (and checked below on representative instances by computation in the model). *)
From WalModel Require Import Reader.
From WalModel.proofs Require Import CsvProofs ReaderProofs.
Local Open Scope Z_scope.

Theorem printed_natural_reads_back : forall z,
  0 <= z -> slen (numeral 10 z) <= 4000 -> read_sexpr (dec_of_Z z) = ROk (VInt z) EmptyString.
Proof. exact print_read_nat. Qed.
Print Assumptions printed_natural_reads_back.

Theorem printed_negative_reads_back : forall z,
  z < 0 -> slen (numeral 10 (- z)) <= 4000 -> read_sexpr (dec_of_Z z) = ROk (VInt z) EmptyString.
Proof. exact print_read_negative. Qed.
Print Assumptions printed_negative_reads_back.

(** wal_str of a string is quote_string; reading it gives the string back: backslash, quote,
    newline, tab, carriage return and every other ASCII character *)
Theorem printed_string_reads_back : forall s,
  sall plain_char s = true -> read_sexpr (quote_string s) = ROk (VStr s) EmptyString.
Proof. exact print_read_string. Qed.
Print Assumptions printed_string_reads_back.

Theorem escape_unescape_inverse : forall s fuel,
  (String.length (escape_string s) < fuel)%nat -> unescape fuel (escape_string s) = UOk s.
Proof. exact unescape_escape. Qed.
Print Assumptions escape_unescape_inverse.

Theorem printed_string_in_context : forall f s rest, p_primary (S f) (quote_string s ++ rest) = ROk (VStr s) rest.
Proof. exact string_literal_roundtrip. Qed.
Print Assumptions printed_string_in_context.

(** shorthands read as their long forms; (), [] and {} delimit the same list; print/read of nested forms *)
Example shorthand_examples :
  read_sexpr "e@k" = read_sexpr "(reval e k)" /\ read_sexpr "~s" = read_sexpr "(resolve-scope s)" /\
  read_sexpr "#s" = read_sexpr "(resolve-group s)" /\ read_sexpr "e[3]" = read_sexpr "(slice e 3)" /\
  read_sexpr "e[7 :2]" = read_sexpr "(slice e 7 2)" /\ read_sexpr "'(a b)" = read_sexpr "(quote (a b))" /\
  read_sexpr "`(a ,b ,@c)" = read_sexpr "(quasiquote (a ,b ,@c))" /\
  read_sexpr "[a {b} (c)]" = read_sexpr "(a (b) (c))" /\
  read_sexpr "(f a)[1]@2" = read_sexpr "(reval (slice (f a) 1) 2)".
Proof. vm_compute. repeat split; reflexivity. Qed.

Example roundtrip_examples :
  (forall v, In v [WL [VOp OQuote; WL [Sy "a"; VInt (-5); VBool true]]; WL [VOp OReval; Sy "x"; VInt 2];
                  WL [VOp OSlice; Sy "d<3>"; VInt 1]; WL [VOp OQuasiquote; WL [Sy "f"; VUnq (Sy "y"); VUnqS (Sy "z")]];
                  WL [VOp OAdd; VStr "a\b"; WL []]] ->
             match wal_str0 v with Some t => read_sexpr t = ROk v "" | None => False end).
Proof. intros v H. repeat (destruct H as [<-|H]; [vm_compute; reflexivity|]). destruct H. Qed.

(** * structural round trip (proofs/RoundTrip.v)
    The class [simple]: integers of at most 4000 digits, strings over ASCII, plain symbols (symbol-shaped text
    that is not a keyword or operator name), booleans, all 106 operators, and reader lists of such, nested
    arbitrarily — except lists the printer writes in a special form (quote/quasiquote/unquote forms,
    {array ...}, and (reval a b) which it writes a@b).  For every expression of the class the printer's text
    reads back as the expression itself. *)
From WalModel.proofs Require Import RoundTrip.

Theorem printed_expression_reads_back : forall e, simple e = true ->
  wal_str0 e = Some (show e) /\ read_sexpr (show e) = ROk e EmptyString.
Proof. exact print_read_roundtrip. Qed.
Print Assumptions printed_expression_reads_back.

(** ... and in every position: followed by a space, a closing bracket or the end of the text *)
Theorem printed_expression_reads_back_in_context : forall n e, (vsize e <= n)%nat -> simple e = true ->
  forall f rest, (5 * vsize e + 4 <= f)%nat -> delim rest -> p_sexpr f (show e ++ rest) = ROk e (inter rest).
Proof. exact roundtrip_in_context. Qed.
Print Assumptions printed_expression_reads_back_in_context.

Theorem the_class_is : forall e, simple e =
  match e with
  | VInt z => (slen (numeral 10 (Z.abs z)) <=? 4000)%Z
  | VStr s => sall plain_char s
  | VSym n None => plain_sym n
  | VBool _ => true
  | VOp _ => true
  | VList true l => forallb simple l && head_ok l
  | _ => false
  end.
Proof. intros e. destruct e; reflexivity. Qed.
Print Assumptions the_class_is.

(** every operator name reads back as the operator, wherever it stands *)
Theorem operator_names_read_back : forall g o rest, delim rest -> p_primary (S g) (op_name o ++ rest) = ROk (VOp o) rest.
Proof. exact primary_op. Qed.
Print Assumptions operator_names_read_back.

Example a_program_in_the_class :
  let e := WL [VOp ODefine; VSym "x" None; WL [VOp OAdd; VInt 1; VInt (-20); VStr "a b"; WL []; VBool true]] in
  simple e = true /\ show e = "(define x (+ 1 -20 ""a b"" () true))"%string.
Proof. split; reflexivity. Qed.

(** the operator table of the model is the Operator enum regenerated from /repo on this run (translator tie):
    same names, same order; names are distinct and determine the operator *)
From WalModel Require Generated.
From WalModel.proofs Require GeneratedTies.
Theorem operator_table_is_the_repositorys : map op_name all_ops = Generated.operator_values.
Proof. exact GeneratedTies.operator_table_is_the_repositorys. Qed.
Print Assumptions operator_table_is_the_repositorys.
Theorem operator_of_its_name : forall o, op_of_name (op_name o) = Some o.
Proof. exact GeneratedTies.operator_of_its_name. Qed.
Print Assumptions operator_of_its_name.

(** * shorthands read as their long forms (proofs/Shorthand.v)
    For every operand e of the class above, in every position (followed by a delimiter; [plain_next]: what follows the
    next gap is neither '[' nor '@', which would continue the expression): *)
From WalModel.proofs Require Import Shorthand.

Theorem quote_is_quote : forall e rest f, simple e = true -> (5 * vsize e + 8 <= f)%nat -> delim rest -> plain_next (inter rest) ->
  p_sexpr (S (S (S (S f)))) ("'" ++ show e ++ rest) = ROk (WL [VOp OQuote; e]) (inter rest).
Proof. exact quote_reads. Qed.
Print Assumptions quote_is_quote.

Theorem backquote_is_quasiquote : forall e rest f, simple e = true -> (5 * vsize e + 8 <= f)%nat -> delim rest -> plain_next (inter rest) ->
  p_sexpr (S (S (S (S f)))) ("`" ++ show e ++ rest) = ROk (WL [VOp OQuasiquote; e]) (inter rest).
Proof. exact quasiquote_reads. Qed.
Print Assumptions backquote_is_quasiquote.

Theorem comma_is_unquote : forall e rest f, simple e = true -> (5 * vsize e + 8 <= f)%nat -> delim rest -> plain_next (inter rest) ->
  p_sexpr (S (S (S (S f)))) ("," ++ show e ++ rest) = ROk (VUnq e) (inter rest).
Proof. exact unquote_reads. Qed.
Print Assumptions comma_is_unquote.

Theorem comma_at_is_unquote_splice : forall e rest f, simple e = true -> (5 * vsize e + 8 <= f)%nat -> delim rest -> plain_next (inter rest) ->
  p_sexpr (S (S (S (S f)))) (",@" ++ show e ++ rest) = ROk (VUnqS e) (inter rest).
Proof. exact unquote_splice_reads. Qed.
Print Assumptions comma_at_is_unquote_splice.

Theorem tilde_is_resolve_scope : forall n rest f, sym_shaped n = true -> delim rest ->
  p_sexpr (S (S (S f))) ("~" ++ n ++ rest) = ROk (WL [VOp OResolveScope; VSym n None]) (inter rest).
Proof. exact scoped_reads. Qed.
Print Assumptions tilde_is_resolve_scope.

Theorem hash_is_resolve_group : forall n rest f, sym_shaped n = true -> delim rest -> String.eqb n "t" = false -> String.eqb n "f" = false ->
  p_sexpr (S (S (S f))) ("#" ++ n ++ rest) = ROk (WL [VOp OResolveGroup; VSym n None]) (inter rest).
Proof. exact grouped_reads. Qed.
Print Assumptions hash_is_resolve_group.

Theorem at_is_reval : forall e rest f, simple e = true -> (5 * vsize e + 8 <= f)%nat -> delim rest -> forall k, simple (VInt k) = true ->
  p_sexpr (S (S (S f))) (show e ++ "@" ++ dec_of_Z k ++ rest) = ROk (WL [VOp OReval; e; VInt k]) (inter rest).
Proof. exact reval_reads. Qed.
Print Assumptions at_is_reval.

Theorem bracket_is_slice : forall e rest f, simple e = true -> (5 * vsize e + 8 <= f)%nat -> delim rest -> forall i, simple (VInt i) = true ->
  p_sexpr (S (S (S f))) (show e ++ "[" ++ dec_of_Z i ++ "]" ++ rest) = ROk (WL [VOp OSlice; e; VInt i]) (inter rest).
Proof. exact slice1_reads. Qed.
Print Assumptions bracket_is_slice.

Theorem bracket_range_is_slice : forall e rest f, simple e = true -> (5 * vsize e + 8 <= f)%nat -> delim rest ->
  forall h l, simple (VInt h) = true -> simple (VInt l) = true ->
  p_sexpr (S (S (S f))) (show e ++ "[" ++ dec_of_Z h ++ ":" ++ dec_of_Z l ++ "]" ++ rest)
  = ROk (WL [VOp OSlice; e; VInt h; VInt l]) (inter rest).
Proof. exact slice2_reads. Qed.
Print Assumptions bracket_range_is_slice.

(** as whole texts; quote forms are also what the printer writes for (quote e) / (quasiquote e): a round trip *)
Theorem quote_form_round_trip : forall e, simple e = true ->
  wal_str0 (WL [VOp OQuote; e]) = Some ("'" ++ show e) /\ read_sexpr ("'" ++ show e) = ROk (WL [VOp OQuote; e]) "".
Proof. exact quote_roundtrip. Qed.
Print Assumptions quote_form_round_trip.

Theorem quasiquote_form_round_trip : forall e, simple e = true ->
  wal_str0 (WL [VOp OQuasiquote; e]) = Some ("`" ++ show e) /\ read_sexpr ("`" ++ show e) = ROk (WL [VOp OQuasiquote; e]) "".
Proof. exact quasiquote_roundtrip. Qed.
Print Assumptions quasiquote_form_round_trip.

Theorem offset_text : forall e k, simple e = true -> simple (VInt k) = true ->
  read_sexpr (show e ++ "@" ++ dec_of_Z k) = ROk (WL [VOp OReval; e; VInt k]) "".
Proof. intros e k He Hk. exact (reval_text_reads e He k Hk). Qed.
Print Assumptions offset_text.

Theorem slice_text : forall e h l, simple e = true -> simple (VInt h) = true -> simple (VInt l) = true ->
  read_sexpr (show e ++ "[" ++ dec_of_Z h ++ ":" ++ dec_of_Z l ++ "]") = ROk (WL [VOp OSlice; e; VInt h; VInt l]) "".
Proof. intros e h l He Hh Hl. exact (slice_text_reads e He h l Hh Hl). Qed.
Print Assumptions slice_text.

Theorem bit_text : forall e i, simple e = true -> simple (VInt i) = true ->
  read_sexpr (show e ++ "[" ++ dec_of_Z i ++ "]") = ROk (WL [VOp OSlice; e; VInt i]) "".
Proof. intros e i He Hi. exact (bit_text_reads e He i Hi). Qed.
Print Assumptions bit_text.

Theorem inter_never_leaves_a_gap : forall s, inter (inter s) = inter s.
Proof. exact inter_idempotent. Qed.
Print Assumptions inter_never_leaves_a_gap.

(** * the round trip with the quote forms inside (proofs/RoundTripQ.v)
    The class of the structural round trip extended by 'x `x ,x ,@x at ANY nesting: what the printer writes for such an
    expression reads back as the expression -- as a whole text and in every position where what follows the next gap
    is neither '[' nor '@' (which would continue the expression, see above).  [need e] is the fuel the reader model
    needs: three levels per atom, four per prefix or bracket pair; it is at most four times the length of the text. *)
From WalModel.proofs Require RoundTripQ.

Theorem printed_expression_with_quote_forms_reads_back : forall e, RoundTripQ.simpleq e = true ->
  wal_str0 e = Some (RoundTripQ.showq e) /\ read_sexpr (RoundTripQ.showq e) = ROk e EmptyString.
Proof. exact RoundTripQ.print_read_roundtrip_q. Qed.
Print Assumptions printed_expression_with_quote_forms_reads_back.

Theorem printed_expression_with_quote_forms_reads_back_in_context : forall n e,
  (RoundTripQ.vsizeq e <= n)%nat -> RoundTripQ.simpleq e = true ->
  forall f rest, (RoundTripQ.need e <= f)%nat -> delim rest -> plain_next (inter rest) ->
  p_sexpr f (RoundTripQ.showq e ++ rest) = ROk e (inter rest).
Proof. exact RoundTripQ.roundtripq_in_context. Qed.
Print Assumptions printed_expression_with_quote_forms_reads_back_in_context.

Theorem the_class_with_quote_forms_is : forall e, RoundTripQ.simpleq e =
  match e with
  | VInt z => (slen (numeral 10 (Z.abs z)) <=? 4000)%Z
  | VStr s => sall plain_char s
  | VSym n None => plain_sym n
  | VBool _ => true
  | VOp _ => true
  | VList true [VOp OQuote; x] => RoundTripQ.simpleq x
  | VList true [VOp OQuasiquote; x] => RoundTripQ.simpleq x
  | VList true l => forallb RoundTripQ.simpleq l && head_ok l
  | VUnq x => RoundTripQ.simpleq x
  | VUnqS x => RoundTripQ.simpleq x
  | _ => false
  end.
Proof. intros e. destruct e; reflexivity. Qed.
Print Assumptions the_class_with_quote_forms_is.

Theorem fuel_is_linear_in_the_text : forall e, RoundTripQ.simpleq e = true ->
  (RoundTripQ.need e <= 4 * String.length (RoundTripQ.showq e))%nat.
Proof. intros e H. exact (RoundTripQ.need_length (RoundTripQ.vsizeq e) e (le_n _) H). Qed.
Print Assumptions fuel_is_linear_in_the_text.

Example nested_prefixes :
  let e := WL [VOp OQuasiquote; WL [VSym "a" None; VUnq (VSym "b" None); VUnqS (WL [VOp OQuote; WL [VInt 1; VStr "s"]]);
                                    WL [VOp OQuote; WL [VOp OQuote; VSym "c" None]]]] in
  RoundTripQ.simpleq e = true /\ RoundTripQ.showq e = "`(a ,b ,@'(1 ""s"") ''c)" /\ read_sexpr "`(a ,b ,@'(1 ""s"") ''c)" = ROk e "".
Proof. split; [reflexivity|]. split; [reflexivity|]. vm_compute. reflexivity. Qed.
