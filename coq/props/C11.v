(** C11 — printed expressions read back identically; shorthands equal their long forms.
    Statements only; proofs in proofs/ReaderProofs.v.
    PARTIAL.  Proved for all inputs: printed integers (any size, either sign) and printed strings
    (any ASCII content, with the escapes wal_str writes) read back as themselves, in every
    position.  The structural round trip for arbitrary nested expressions and the shorthand/long
    form equalities for every operand are decided by the differential check on generated
    expressions (and checked below on representative instances by computation in the model). *)
From WalModel Require Import Reader.
From WalModel.proofs Require Import CsvProofs ReaderProofs.
Local Open Scope Z_scope.

Theorem printed_natural_reads_back : forall z,
  0 <= z -> slen (numeral 10 z) <= 4000 -> read_sexpr (dec_of_Z z) = ROk (VInt z) EmptyString.
Proof. exact print_read_nat. Qed.
Print Assumptions printed_natural_reads_back.

Theorem printed_negative_reads_back : forall z,
  z < 0 -> slen (numeral 10 (- z)) <= 4000 -> read_sexpr (dec_of_Z z) = ROk (VInt z) EmptyString.
Proof. exact print_read_negative. Qed.
Print Assumptions printed_negative_reads_back.

(** wal_str of a string is quote_string; reading it gives the string back: backslash, quote,
    newline, tab, carriage return and every other ASCII character *)
Theorem printed_string_reads_back : forall s,
  sall plain_char s = true -> read_sexpr (quote_string s) = ROk (VStr s) EmptyString.
Proof. exact print_read_string. Qed.
Print Assumptions printed_string_reads_back.

Theorem escape_unescape_inverse : forall s fuel,
  (String.length (escape_string s) < fuel)%nat -> unescape fuel (escape_string s) = UOk s.
Proof. exact unescape_escape. Qed.
Print Assumptions escape_unescape_inverse.

Theorem printed_string_in_context : forall f s rest, p_primary (S f) (quote_string s ++ rest) = ROk (VStr s) rest.
Proof. exact string_literal_roundtrip. Qed.
Print Assumptions printed_string_in_context.

(** shorthands read as their long forms; (), [] and {} delimit the same list; print/read of nested forms *)
Example shorthand_examples :
  read_sexpr "e@k" = read_sexpr "(reval e k)" /\ read_sexpr "~s" = read_sexpr "(resolve-scope s)" /\
  read_sexpr "#s" = read_sexpr "(resolve-group s)" /\ read_sexpr "e[3]" = read_sexpr "(slice e 3)" /\
  read_sexpr "e[7 :2]" = read_sexpr "(slice e 7 2)" /\ read_sexpr "'(a b)" = read_sexpr "(quote (a b))" /\
  read_sexpr "`(a ,b ,@c)" = read_sexpr "(quasiquote (a ,b ,@c))" /\
  read_sexpr "[a {b} (c)]" = read_sexpr "(a (b) (c))" /\
  read_sexpr "(f a)[1]@2" = read_sexpr "(reval (slice (f a) 1) 2)".
Proof. vm_compute. repeat split; reflexivity. Qed.

Example roundtrip_examples :
  (forall v, In v [WL [VOp OQuote; WL [Sy "a"; VInt (-5); VBool true]]; WL [VOp OReval; Sy "x"; VInt 2];
                  WL [VOp OSlice; Sy "d<3>"; VInt 1]; WL [VOp OQuasiquote; WL [Sy "f"; VUnq (Sy "y"); VUnqS (Sy "z")]];
                  WL [VOp OAdd; VStr "a\b"; WL []]] ->
             match wal_str0 v with Some t => read_sexpr t = ROk v "" | None => False end).
Proof. intros v H. repeat (destruct H as [<-|H]; [vm_compute; reflexivity|]). destruct H. Qed.
