(** C14 — list/array library agrees with sequence and finite-map model; lists immutable.
    Statements only; proofs in proofs/ListProofs.v.  List values are immutable by construction in
    the model (an operator returns a new value, nothing in the state refers into a list); that the
    implementation never mutates a reachable list is decided by the differential check (second
    reference held to every argument).  The library functions defined in std.wal by recursion
    (reverse, filter, sort, partition) are compared with Python's sequence operations by the check;
    append/sum/partition's expansions are proved in C15. *)
From WalModel Require Import Eval.
From WalModel.proofs Require Import ListProofs.
Local Open Scope Z_scope.

Section ListOps.
  Variable ev : val -> M val.
  Theorem first_spec : forall a w l st st', ev a st = Ok (VList w l) st' ->
    op_first ev [a] st = match l with x :: _ => Ok x st' | [] => Er EEval st' end.
  Proof. exact (first_is_head ev). Qed.
  Theorem second_spec : forall a w l st st', ev a st = Ok (VList w l) st' ->
    op_second ev [a] st = match l with _ :: x :: _ => Ok x st' | _ => Er EEval st' end.
  Proof. exact (second_is_second ev). Qed.
  Theorem last_spec : forall a w l st st', ev a st = Ok (VList w l) st' ->
    op_last ev [a] st = match last_opt l with Some x => Ok x st' | None => Er EEval st' end.
  Proof. exact (last_is_last ev). Qed.
  Theorem rest_spec : forall a w l st st', ev a st = Ok (VList w l) st' ->
    exists w', op_rest ev [a] st = Ok (VList w' (tl l)) st'.
  Proof. exact (rest_is_tail ev). Qed.
  Theorem length_spec : forall a w l st st', ev a st = Ok (VList w l) st' ->
    op_length ev [a] st = Ok (VInt (Z.of_nat (List.length l))) st'.
  Proof. exact (length_is_length ev). Qed.
  Theorem zip_spec : forall a b wa la wb lb st st',
    eval_args ev [a; b] st = Ok [VList wa la; VList wb lb] st' ->
    op_zip ev [a; b] st = Ok (PL (map (fun p => PL [fst p; snd p]) (combine la lb))) st'.
  Proof. exact (zip_is_combine ev). Qed.
  Theorem list_spec : forall args vs st st', eval_args ev args st = Ok vs st' -> op_list ev args st = Ok (WL vs) st'.
  Proof. exact (list_is_list ev). Qed.
  Theorem add_on_lists : forall args vs st st',
    eval_args ev args st = Ok vs st' -> existsb is_list_val vs = true ->
    op_add ev args st = Ok (PL (flat_map (fun v => match v with VList _ l => l | _ => [v] end) vs)) st'.
  Proof. exact (add_concatenates ev). Qed.
  Theorem slice_spec : forall a u lo w l i j st st',
    eval_args ev [a; u; lo] st = Ok [VList w l; VInt i; VInt j] st' ->
    op_slice ev [a; u; lo] st = Ok (VList w (py_slice_list l i j)) st'.
  Proof. exact (list_slice_is_firstn_skipn ev). Qed.
  Theorem geta_present_or_error : forall a k r kv key st st1 st2 d,
    ev a st = Ok (VArr r) st1 -> ev k st1 = Ok kv st2 -> array_key kv st2 = Ok key st2 ->
    nth_error (st_arrays st2) r = Some d ->
    op_geta ev [a; k] st = match alookup key d with Some v => Ok v st2 | None => Er EEval st2 end.
  Proof. exact (geta_spec ev). Qed.
End ListOps.
Print Assumptions first_spec.
Print Assumptions second_spec.
Print Assumptions last_spec.
Print Assumptions rest_spec.
Print Assumptions length_spec.
Print Assumptions zip_spec.
Print Assumptions list_spec.
Print Assumptions add_on_lists.
Print Assumptions slice_spec.
Print Assumptions geta_present_or_error.

Theorem slice_inside_bounds : forall (A : Type) (l : list A) i j, 0 <= i -> i <= j -> j <= zlen l ->
  py_slice_list l i j = firstn (Z.to_nat (j - i)) (skipn (Z.to_nat i) l).
Proof. intros A. exact (@py_slice_inside A). Qed.
Print Assumptions slice_inside_bounds.

Theorem range_spec : forall a b, a <= b -> py_range a b 1 = zrange_nat a (Z.to_nat (b - a)).
Proof. exact range_is_interval. Qed.
Print Assumptions range_spec.

(** arrays: keys compared by their textual form *)
Theorem one_key_for_1 : exists k, array_key (VInt 1) = ret k /\ array_key (VStr "1") = ret k /\ array_key (VSym "1" None) = ret k.
Proof. exact key_text_coincides. Qed.
Print Assumptions one_key_for_1.

(** after any sequence of seta/dela the array is a finite map (one entry per key) ... *)
Theorem array_finite_map : forall ops d, NoDup (map fst d) -> NoDup (map fst (fold_left apply_aop ops d)).
Proof. exact array_is_finite_map. Qed.
Print Assumptions array_finite_map.

(** ... reflecting exactly the surviving entries ... *)
Theorem array_map_laws : forall (d : list (string * val)) k k' v,
  alookup k (aset k v d) = Some v /\
  (String.eqb k' k = false -> alookup k' (aset k v d) = alookup k' d) /\
  (NoDup (map fst d) -> alookup k (adel k d) = None) /\
  (String.eqb k' k = false -> alookup k' (adel k d) = alookup k' d).
Proof. exact array_laws. Qed.
Print Assumptions array_map_laws.

(** ... in insertion order *)
Theorem array_insertion_order : forall (d : list (string * val)) k v,
  (amem k d = true -> map fst (aset k v d) = map fst d) /\
  (amem k d = false -> map fst (aset k v d) = map fst d +++ [k]).
Proof. exact array_order. Qed.
Print Assumptions array_insertion_order.
