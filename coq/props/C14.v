(** C14 — list/array library agrees with sequence and finite-map model; lists immutable.
    Statements only; proofs in proofs/ListProofs.v.  List values are immutable by construction in
    the model (an operator returns a new value, nothing in the state refers into a list); that the
    implementation never mutates a reachable list is decided by the differential check (second
    reference held to every argument).  The library functions defined in std.wal by recursion
    (reverse, filter, sort, partition) are compared with Python's sequence operations by the check;
    append/sum/partition's expansions are proved in C15. *)
From WalModel Require Import Eval.
From WalModel.proofs Require Import ListProofs ListOps.
Local Open Scope Z_scope.

Section ListOps.
  Variable ev : val -> M val.
  Theorem first_spec : forall a w l st st', ev a st = Ok (VList w l) st' ->
    op_first ev [a] st = match l with x :: _ => Ok x st' | [] => Er EEval st' end.
  Proof. exact (first_is_head ev). Qed.
  Theorem second_spec : forall a w l st st', ev a st = Ok (VList w l) st' ->
    op_second ev [a] st = match l with _ :: x :: _ => Ok x st' | _ => Er EEval st' end.
  Proof. exact (second_is_second ev). Qed.
  Theorem last_spec : forall a w l st st', ev a st = Ok (VList w l) st' ->
    op_last ev [a] st = match last_opt l with Some x => Ok x st' | None => Er EEval st' end.
  Proof. exact (last_is_last ev). Qed.
  Theorem rest_spec : forall a w l st st', ev a st = Ok (VList w l) st' ->
    exists w', op_rest ev [a] st = Ok (VList w' (tl l)) st'.
  Proof. exact (rest_is_tail ev). Qed.
  Theorem length_spec : forall a w l st st', ev a st = Ok (VList w l) st' ->
    op_length ev [a] st = Ok (VInt (Z.of_nat (List.length l))) st'.
  Proof. exact (length_is_length ev). Qed.
  Theorem zip_spec : forall a b wa la wb lb st st',
    eval_args ev [a; b] st = Ok [VList wa la; VList wb lb] st' ->
    op_zip ev [a; b] st = Ok (PL (map (fun p => PL [fst p; snd p]) (combine la lb))) st'.
  Proof. exact (zip_is_combine ev). Qed.
  Theorem list_spec : forall args vs st st', eval_args ev args st = Ok vs st' -> op_list ev args st = Ok (WL vs) st'.
  Proof. exact (list_is_list ev). Qed.
  Theorem add_on_lists : forall args vs st st',
    eval_args ev args st = Ok vs st' -> existsb is_list_val vs = true ->
    op_add ev args st = Ok (PL (flat_map (fun v => match v with VList _ l => l | _ => [v] end) vs)) st'.
  Proof. exact (add_concatenates ev). Qed.
  Theorem slice_spec : forall a u lo w l i j st st',
    eval_args ev [a; u; lo] st = Ok [VList w l; VInt i; VInt j] st' ->
    op_slice ev [a; u; lo] st = Ok (VList w (py_slice_list l i j)) st'.
  Proof. exact (list_slice_is_firstn_skipn ev). Qed.
  Theorem geta_present_or_error : forall a k r kv key st st1 st2 d,
    ev a st = Ok (VArr r) st1 -> ev k st1 = Ok kv st2 -> array_key kv st2 = Ok key st2 ->
    nth_error (st_arrays st2) r = Some d ->
    op_geta ev [a; k] st = match alookup key d with Some v => Ok v st2 | None => Er EEval st2 end.
  Proof. exact (geta_spec ev). Qed.
End ListOps.
Print Assumptions first_spec.
Print Assumptions second_spec.
Print Assumptions last_spec.
Print Assumptions rest_spec.
Print Assumptions length_spec.
Print Assumptions zip_spec.
Print Assumptions list_spec.
Print Assumptions add_on_lists.
Print Assumptions slice_spec.
Print Assumptions geta_present_or_error.

Theorem slice_inside_bounds : forall (A : Type) (l : list A) i j, 0 <= i -> i <= j -> j <= zlen l ->
  py_slice_list l i j = firstn (Z.to_nat (j - i)) (skipn (Z.to_nat i) l).
Proof. intros A. exact (@py_slice_inside A). Qed.
Print Assumptions slice_inside_bounds.

Theorem range_spec : forall a b, a <= b -> py_range a b 1 = zrange_nat a (Z.to_nat (b - a)).
Proof. exact range_is_interval. Qed.
Print Assumptions range_spec.

(** arrays: keys compared by their textual form *)
Theorem one_key_for_1 : exists k, array_key (VInt 1) = ret k /\ array_key (VStr "1") = ret k /\ array_key (VSym "1" None) = ret k.
Proof. exact key_text_coincides. Qed.
Print Assumptions one_key_for_1.

(** after any sequence of seta/dela the array is a finite map (one entry per key) ... *)
Theorem array_finite_map : forall ops d, NoDup (map fst d) -> NoDup (map fst (fold_left apply_aop ops d)).
Proof. exact array_is_finite_map. Qed.
Print Assumptions array_finite_map.

(** ... reflecting exactly the surviving entries ... *)
Theorem array_map_laws : forall (d : list (string * val)) k k' v,
  alookup k (aset k v d) = Some v /\
  (String.eqb k' k = false -> alookup k' (aset k v d) = alookup k' d) /\
  (NoDup (map fst d) -> alookup k (adel k d) = None) /\
  (String.eqb k' k = false -> alookup k' (adel k d) = alookup k' d).
Proof. exact array_laws. Qed.
Print Assumptions array_map_laws.

(** ... in insertion order *)
Theorem array_insertion_order : forall (d : list (string * val)) k v,
  (amem k d = true -> map fst (aset k v d) = map fst d) /\
  (amem k d = false -> map fst (aset k v d) = map fst d +++ [k]).
Proof. exact array_order. Qed.
Print Assumptions array_insertion_order.

(** * map and fold are the sequence operations (proofs/MapFold.v)
    For any sub-evaluator: if applying the operator / function to an element (of a class Q of elements) yields
    the value [g el] and changes the state by [h el], then (map f l) is [List.map g] of the elements, in order, each
    element used once, and the state effects are composed left to right; (fold f a l) is [fold_left g] from the
    evaluated a, the accumulator staying in a class P. *)
From WalModel.proofs Require Import MapFold.

Theorem map_with_an_operator : forall (ev : val -> M val) (Q : val -> Prop) o l w items (g : val -> val) (h : val -> state -> state) st st1,
  ev l st = Ok (VList w items) st1 -> Forall Q items ->
  (forall el s, Q el -> ev (WL [VOp o; quoted el]) s = Ok (g el) (h el s)) ->
  op_map ev [VOp o; l] st = Ok (PL (map g items)) (fold_left (fun s el => h el s) items st1).
Proof. exact map_operator. Qed.
Print Assumptions map_with_an_operator.

Theorem map_with_a_function : forall (ev : val -> M val) (Q : val -> Prop) f l w items cenv ps body nm (g : val -> val) (h : val -> state -> state) st st1 st2,
  (forall o, f <> VOp o) ->
  ev l st = Ok (VList w items) st1 -> Forall Q items ->
  ev f st1 = Ok (VClos cenv ps body nm) st2 ->
  (forall el s, Q el -> eval_closure ev (VClos cenv ps body nm) [quoted_pl el] s = Ok (g el) (h el s)) ->
  op_map ev [f; l] st = Ok (PL (map g items)) (fold_left (fun s el => h el s) items st2).
Proof. exact map_function. Qed.
Print Assumptions map_with_a_function.

Theorem fold_with_an_operator : forall (ev : val -> M val) (P Q : val -> Prop) o a l acc0 w items g h st st1 st2,
  ev a st = Ok acc0 st1 -> P acc0 ->
  ev l st1 = Ok (VList w items) st2 -> Forall Q items ->
  (forall acc el, P acc -> Q el -> P (g acc el)) ->
  (forall acc el s, P acc -> Q el -> ev (WL [VOp o; quoted acc; quoted el]) s = Ok (g acc el) (h acc el s)) ->
  exists st3, op_fold ev [VOp o; a; l] st = Ok (fold_left g items acc0) st3 /\ st3 = snd (fold_state h g items acc0 st2).
Proof. exact fold_operator. Qed.
Print Assumptions fold_with_an_operator.

Theorem fold_with_a_function : forall (ev : val -> M val) (P Q : val -> Prop) f a l acc0 w items cenv ps body nm g h st st1 st2 st3,
  (forall o, f <> VOp o) ->
  ev a st = Ok acc0 st1 -> P acc0 ->
  ev l st1 = Ok (VList w items) st2 -> Forall Q items ->
  ev f st2 = Ok (VClos cenv ps body nm) st3 ->
  (forall acc el, P acc -> Q el -> P (g acc el)) ->
  (forall acc el s, P acc -> Q el -> eval_closure ev (VClos cenv ps body nm) [quoted acc; quoted el] s = Ok (g acc el) (h acc el s)) ->
  exists st4, op_fold ev [f; a; l] st = Ok (fold_left g items acc0) st4 /\ st4 = snd (fold_state h g items acc0 st3).
Proof. exact fold_function. Qed.
Print Assumptions fold_with_a_function.

(** the threaded state: effects in element order *)
Theorem fold_state_is : forall h g items acc s,
  fold_state h g items acc s = fold_left (fun p el => (g (fst p) el, h (fst p) el (snd p))) items (acc, s).
Proof. reflexivity. Qed.
Print Assumptions fold_state_is.

(** with the real evaluator: folding + and * over integers *)
Theorem fold_plus_sums : forall lf f a l a0 w zs st st1 st2,
  eval lf (S (S (S f))) a st = Ok (VInt a0) st1 ->
  eval lf (S (S (S f))) l st1 = Ok (VList w (map VInt zs)) st2 ->
  op_fold (eval lf (S (S (S f)))) [VOp OAdd; a; l] st = Ok (VInt (fold_left Z.add zs a0)) st2.
Proof. exact fold_plus_is_the_sum. Qed.
Print Assumptions fold_plus_sums.

Theorem fold_times_multiplies : forall lf f a l a0 w zs st st1 st2,
  eval lf (S (S (S f))) a st = Ok (VInt a0) st1 ->
  eval lf (S (S (S f))) l st1 = Ok (VList w (map VInt zs)) st2 ->
  op_fold (eval lf (S (S (S f)))) [VOp OMul; a; l] st = Ok (VInt (fold_left Z.mul zs a0)) st2.
Proof. exact fold_times_is_the_product. Qed.
Print Assumptions fold_times_multiplies.

(** * more list operators, for any sub-evaluator *)
Theorem plus_of_two_lists_is_append : forall ev a b w1 l1 w2 l2 st st1 st2,
  ev a st = Ok (VList w1 l1) st1 -> ev b st1 = Ok (VList w2 l2) st2 -> op_add ev [a; b] st = Ok (PL (l1 ++ l2)) st2.
Proof. exact plus_of_two_lists. Qed.
Print Assumptions plus_of_two_lists_is_append.
Theorem plus_of_a_list_and_an_element : forall ev a b w1 l1 x st st1 st2,
  ev a st = Ok (VList w1 l1) st1 -> ev b st1 = Ok x st2 -> is_list_val x = false -> op_add ev [a; b] st = Ok (PL (l1 ++ [x])) st2.
Proof. exact plus_appends_an_element. Qed.
Print Assumptions plus_of_a_list_and_an_element.
Theorem in_decides_membership : forall ev x l z w zs st st1 st2,
  ev x st = Ok (VInt z) st1 -> ev l st1 = Ok (VList w (map VInt zs)) st2 ->
  op_in ev [x; l] st = Ok (VBool (existsb (Z.eqb z) zs)) st2.
Proof. exact in_is_membership. Qed.
Print Assumptions in_decides_membership.
Theorem max_returns_the_maximum : forall ev l w z zs st st1,
  ev l st = Ok (VList w (map VInt (z :: zs))) st1 ->
  exists m, op_maxmin ev true [l] st = Ok (VInt m) st1 /\ In m (z :: zs) /\ forall y, In y (z :: zs) -> y <= m.
Proof. exact max_is_the_maximum. Qed.
Print Assumptions max_returns_the_maximum.
Theorem min_returns_the_minimum : forall ev l w z zs st st1,
  ev l st = Ok (VList w (map VInt (z :: zs))) st1 ->
  exists m, op_maxmin ev false [l] st = Ok (VInt m) st1 /\ In m (z :: zs) /\ forall y, In y (z :: zs) -> m <= y.
Proof. exact min_is_the_minimum. Qed.
Print Assumptions min_returns_the_minimum.
Theorem max_of_the_empty_list_is_an_error : forall ev l w b st st1,
  ev l st = Ok (VList w []) st1 -> op_maxmin ev b [l] st = Er EOther st1.
Proof. exact max_of_empty_is_an_error. Qed.
Print Assumptions max_of_the_empty_list_is_an_error.
Theorem length_of_a_string_is_its_length : forall ev l s st st1,
  ev l st = Ok (VStr s) st1 -> op_length ev [l] st = Ok (VInt (slen s)) st1.
Proof. exact length_of_a_string. Qed.
Print Assumptions length_of_a_string_is_its_length.
Example list_operators_with_the_real_evaluator : forall lf f st,
  eval lf (S (S (S (S f)))) (WL [VOp OList;
      WL [VOp OFirst; quoted (PL [VInt 4; VInt 7; VInt 1])];
      WL [VOp OLast; quoted (PL [VInt 4; VInt 7; VInt 1])];
      WL [VOp ORest; quoted (PL [VInt 4; VInt 7; VInt 1])];
      WL [VOp OMax; quoted (PL [VInt 4; VInt 7; VInt 1])];
      WL [VOp OIn; VInt 7; quoted (PL [VInt 4; VInt 7; VInt 1])];
      WL [VOp OAdd; quoted (PL [VInt 4]); VInt 5; quoted (PL [VInt 6])];
      WL [VOp OZip; quoted (PL [VInt 1; VInt 2]); quoted (PL [VInt 3; VInt 4; VInt 5])]]) st
  = Ok (WL [VInt 4; VInt 1; PL [VInt 7; VInt 1]; VInt 7; VBool true; PL [VInt 4; VInt 5; VInt 6];
            PL [PL [VInt 1; VInt 3]; PL [VInt 2; VInt 4]]]) st.
Proof. exact list_ops_demo. Qed.
Print Assumptions list_operators_with_the_real_evaluator.

(** * (range a b s) for every non-zero step (proofs/RangeProofs.v): the list is exactly the arithmetic progression
    a, a+s, a+2s, ... restricted to the side of b that the sign of s selects — every such element, in order, each
    once, nothing else; a zero step is an error. *)
From WalModel.proofs Require Import RangeProofs.
Theorem range_with_any_step : forall a b s, s <> 0 ->
  py_range a b s = map (fun k => a + Z.of_nat k * s) (seq 0 (range_count a b s)).
Proof. exact range_is_progression. Qed.
Print Assumptions range_with_any_step.
Theorem range_count_is_exact : forall a b s k, s <> 0 -> 0 <= k ->
  ((if 0 <? s then a + k * s < b else b < a + k * s) <-> k < Z.of_nat (range_count a b s)).
Proof. exact range_side_count. Qed.
Print Assumptions range_count_is_exact.
Theorem range_members : forall a b s x, s <> 0 ->
  (In x (py_range a b s) <-> exists k, 0 <= k /\ x = a + k * s /\ (if 0 <? s then x < b else b < x)).
Proof. exact range_membership. Qed.
Print Assumptions range_members.
Theorem range_operator_with_a_step : forall (ev : val -> M val) x y z a b s st st', s <> 0 ->
  eval_args ev [x; y; z] st = Ok [VInt a; VInt b; VInt s] st' ->
  op_range ev [x; y; z] st = Ok (PL (map VInt (map (fun k => a + Z.of_nat k * s) (seq 0 (range_count a b s))))) st'.
Proof. exact op_range_three. Qed.
Print Assumptions range_operator_with_a_step.
Theorem range_with_step_zero_is_an_error : forall (ev : val -> M val) x y z a b st st',
  eval_args ev [x; y; z] st = Ok [VInt a; VInt b; VInt 0] st' -> exists e, op_range ev [x; y; z] st = Er e st'.
Proof. exact op_range_zero_step. Qed.
Print Assumptions range_with_step_zero_is_an_error.
Example a_descending_range : py_range 7 0 (-3) = [7; 4; 1] /\ range_count 7 0 (-3) = 3%nat /\ py_range 0 7 (-3) = [].
Proof. exact range_descending. Qed.
Print Assumptions a_descending_range.
