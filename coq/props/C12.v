(** C12 — multiple traces: isolated, addressable by id, loaded set stays consistent.
    Statements only; proofs in proofs/TraceProofs.v and proofs/NavProofs.v. *)
From WalModel Require Import Eval.
From WalModel.proofs Require Import NavProofs TraceProofs ContInv.
Local Open Scope Z_scope.

(** tid^name yields exactly what name yields when only trace tid is loaded (value, width,
    existence; INDEX/TS/MAX-INDEX are names too), at the same index *)
Theorem qualified_is_single : forall c tid name t scope stack,
  has_sep tid = false -> has_sep name = false -> alookup tid (c_traces c) = Some t ->
  String.eqb name "SIGNALS" = false -> String.eqb name "VIRTUAL-SIGNALS" = false ->
  cont_signal_value c (tid ++ String "^"%char name) scope =
  cont_signal_value (mkCont [(tid, t)] 1 stack) name scope /\
  cont_signal_width c (tid ++ String "^"%char name) = cont_signal_width (mkCont [(tid, t)] 1 stack) name /\
  cont_contains c (tid ++ String "^"%char name) = cont_contains (mkCont [(tid, t)] 1 stack) name.
Proof. exact qualified_equals_single. Qed.
Print Assumptions qualified_is_single.

(** the reported count equals the number of usable traces over every history of
    load / unload / step operations *)
Theorem loaded_set_consistent : forall ops c, count_ok c -> count_ok (fold_left apply_cop ops c).
Proof. exact loaded_count_invariant. Qed.
Print Assumptions loaded_set_consistent.

(** loading or unloading one trace never changes another; stepping a named trace neither (C02) *)
Theorem load_unload_isolation : forall c tid t k,
  k <> tid ->
  alookup k (c_traces (cont_add c tid t)) = alookup k (c_traces c) /\
  alookup k (c_traces (cont_unload c tid)) = alookup k (c_traces c).
Proof. exact load_unload_isolated. Qed.
Print Assumptions load_unload_isolation.

Theorem step_isolation : forall c n id t c' ended,
  id <> "" -> alookup id (c_traces c) = Some t ->
  cont_step c n (Some id) = Some (c', ended) ->
  alookup id (c_traces c') = Some (fst (trace_step t n)) /\
  (forall id', id' <> id -> alookup id' (c_traces c') = alookup id' (c_traces c)) /\
  (ended = [] <-> in_range t n = true) /\
  c_ntraces c' = c_ntraces c /\ c_stack c' = c_stack c.
Proof. exact cont_step_named. Qed.
Print Assumptions step_isolation.

(** a load that fails (duplicate id, missing file) leaves the state exactly as it was;
    an unsupported file type only prints a message *)
Theorem failed_load_is_noop : forall file tid st,
  (amem tid (c_traces (st_cont st)) = true -> load_m file (Some tid) st = Er EEval st) /\
  (amem tid (c_traces (st_cont st)) = false ->
   (String.eqb (file_ext file) ".vcd" || String.eqb (file_ext file) ".csv") = true ->
   alookup file (st_fs st) = None -> load_m file (Some tid) st = Er EOther st) /\
  (amem tid (c_traces (st_cont st)) = false ->
   (String.eqb (file_ext file) ".vcd" || String.eqb (file_ext file) ".csv") = false ->
   String.eqb (file_ext file) ".fst" = false ->
   exists st', load_m file (Some tid) st = Ok tt st' /\ st_cont st' = st_cont st /\ st_frames st' = st_frames st).
Proof. exact failed_loads_change_nothing. Qed.
Print Assumptions failed_load_is_noop.

Example count_nonvacuous : count_ok empty_container. Proof. reflexivity. Qed.

(** the loaded set stays consistent through EVERY completed evaluation, not only load/unload sequences:
    trace ids are distinct, every trace is filed under its own id, and the count of loaded traces equals the
    number of traces (proofs/ContInv.v: one lemma per operator, the whole evaluator by induction on fuel) *)
Theorem every_evaluation_keeps_the_loaded_set_consistent : forall lf fuel e st v st',
  eval lf fuel e st = Ok v st' -> ContInv.cwf (st_cont st) -> ContInv.cwf (st_cont st').
Proof. exact ContInv.eval_keeps_container_wf. Qed.
Print Assumptions every_evaluation_keeps_the_loaded_set_consistent.

Theorem consistent_means : forall c, ContInv.cwf c <->
  NoDup (map fst (c_traces c)) /\ (forall k t, In (k, t) (c_traces c) -> tr_tid t = k) /\ c_ntraces c = zlen (c_traces c).
Proof. exact ContInv.cwf_parts. Qed.
Print Assumptions consistent_means.

(** ... hence in every state reachable from a new interpreter by any sequence of API operations
    (load, step, eval with any pass selection and keyword arguments, run); a failing operation ends the session *)
Theorem every_reachable_state_is_consistent : forall ops,
  ContInv.cwf (st_cont (fold_left ContInv.apply_api ops Api.empty_state)).
Proof. exact ContInv.reachable_states_well_formed. Qed.
Print Assumptions every_reachable_state_is_consistent.

(** the separator between trace id and name is the one regenerated from /repo on this run *)
From WalModel Require Generated.
From WalModel.proofs Require GeneratedTies.
Theorem trace_separator_is_the_repositorys : Generated.scope_separator_gen = String "^"%char EmptyString.
Proof. exact GeneratedTies.trace_separator_is_the_repositorys. Qed.
Print Assumptions trace_separator_is_the_repositorys.

(** a load without an id: the id is t<number of loaded traces>; when it is taken the load fails, nothing changes *)
From WalModel.proofs Require LoadGen.
Theorem load_without_id_uses_the_generated_id : forall file st,
  load_m file None st = load_m file (Some (LoadGen.generated_id st)) st.
Proof. exact LoadGen.load_without_id_uses_the_generated_id. Qed.
Print Assumptions load_without_id_uses_the_generated_id.
Theorem a_taken_generated_id_fails_the_load : forall file st,
  amem (LoadGen.generated_id st) (c_traces (st_cont st)) = true -> load_m file None st = Er EEval st.
Proof. exact LoadGen.generated_id_taken_fails. Qed.
Print Assumptions a_taken_generated_id_fails_the_load.
Theorem generated_id_is : forall st, LoadGen.generated_id st = ("t" ++ dec_of_Z (zlen (c_traces (st_cont st))))%string.
Proof. reflexivity. Qed.
Print Assumptions generated_id_is.
