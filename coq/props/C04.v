(** C04 — scans are pointwise, complete, ascending and position-neutral.
    Statements only; proofs in proofs/ScanProofs.v.
    [at1 st tid i m]: one trace tid is loaded and stands at index i of 0..m.
    The condition is an arbitrary evaluator behaviour satisfying the property's premise (it reads
    the trace at the current index): it yields a value whose truth [P i] depends on the index only
    and leaves the position (and an arbitrary caller-chosen invariant Inv, e.g. the trace's signal
    data) alone; it may change any other state (fill caches, print).
    PARTIAL: (1) purity is proved for the read-only fragment (T-ro below: literals, names, arithmetic,
    comparison, logic, bitwise, slice, if, do) on states without virtual signals; for conditions using @,
    scoped references, virtual signals or user functions the premise is not proved in Coq; (2) the lock-step visit order with two traces is proved only as far as position
    neutrality (T-neutral, any number of traces) — results with two traces are decided by the
    differential check; (3) fuel: the theorems require fuel > m - i, the model's loop fuel is
    larger than any trace the harness loads and an out-of-fuel run is reported as such, never
    compared.  (count c) is (length (find c)) by C15 count_eq, and length is List.length by C14. *)
From WalModel Require Import Eval.
From WalModel.proofs Require Import RevalProofs ScanProofs.
Local Open Scope Z_scope.

Section Single.
  Variable ev : val -> M val.
  Variable tid : string.
  Variable c : val.
  Variable P : Z -> bool.
  (** [Inv]: what the condition relies on and a scan does not disturb (e.g. "the trace's signal data is D");
      [at1i st i m] = Inv st and one trace tid at index i of 0..m *)
  Variable Inv : state -> Prop.
  Hypothesis Inv_move : forall st t j, Inv st -> c_traces (st_cont st) = [(tid, t)] -> 0 <= j <= tr_max t ->
    Inv (set1 st tid (set_index t j)).
  Hypothesis Hc : forall st i m, at1i tid Inv st i m ->
    exists v st', ev c st = Ok v st' /\ at1i tid Inv st' i m /\ truthy st' v = P i.

  (** (find c): exactly the indices i..m at which c is truthy, ascending, no duplicates; index restored *)
  Theorem find_is_filter : forall fuel st i m,
    at1i tid Inv st i m -> 0 <= i <= m -> (Z.to_nat (m - i) < fuel)%nat ->
    exists st', op_find fuel ev [c] st = Ok (PL (map VInt (filter P (zrange_nat i (S (Z.to_nat (m - i))))))) st'
                /\ at1i tid Inv st' i m.
  Proof. exact (find_single ev tid c P Inv Inv_move Hc). Qed.

  (** (find/g c), one trace: the same positions as indices; index restored *)
  Theorem find_g_is_filter : forall fuel st i m,
    at1i tid Inv st i m -> 0 <= i <= m -> (Z.to_nat (m - i) < fuel)%nat ->
    exists st', op_find_g fuel ev [c] st = Ok (PL (map VInt (filter P (zrange_nat i (S (Z.to_nat (m - i))))))) st'
                /\ at1i tid Inv st' i m.
  Proof. exact (find_g_single ev tid c P Inv Inv_move Hc). Qed.

  (** (whenever c body...), one trace: refinement to the loop "for j in i..m: go to j; evaluate c;
      if truthy evaluate the body once and remember its value", then the index is put back *)
  Variable body : list val.
  Hypothesis Hb : forall st i m vs st', at1i tid Inv st i m -> eval_args ev body st = Ok vs st' -> at1i tid Inv st' i m.

  Theorem whenever_is_for_loop : forall fuel st i m,
    at1i tid Inv st i m -> 0 <= i <= m -> (Z.to_nat (m - i) < fuel)%nat -> body <> [] ->
    op_whenever fuel ev (c :: body) st =
    (r <- wh_spec ev tid c body (zrange_nat i (S (Z.to_nat (m - i)))) VNone ;; set_trace_index tid i ;;; ret r) st.
  Proof. exact (whenever_single ev tid c P Inv Inv_move Hc body Hb). Qed.
End Single.
Print Assumptions find_is_filter.
Print Assumptions find_g_is_filter.
Print Assumptions whenever_is_for_loop.

(** pointwise, in the property's own words: if c can be evaluated at every index and leaves the state as it
    was, (find c) from index i returns exactly the indices j >= i at which c, evaluated on its own with the
    trace at j, is truthy - ascending, without duplicates - and the state afterwards is the state before *)
Theorem find_returns_the_indices_where_c_is_truthy : forall (ev : val -> M val) tid c st0 t0,
  tr_tid t0 = tid ->
  (forall j, 0 <= j <= tr_max t0 -> exists v, ev c (at_idx tid st0 t0 j) = Ok v (at_idx tid st0 t0 j)) ->
  forall fuel i, 0 <= i <= tr_max t0 -> (Z.to_nat (tr_max t0 - i) < fuel)%nat ->
  op_find fuel ev [c] (at_idx tid st0 t0 i) =
  Ok (PL (map VInt (filter (truth_at ev tid c st0 t0) (zrange_nat i (S (Z.to_nat (tr_max t0 - i))))))) (at_idx tid st0 t0 i).
Proof. exact find_pointwise. Qed.
Print Assumptions find_returns_the_indices_where_c_is_truthy.

Theorem truth_at_means : forall ev tid c st0 t0 j,
  truth_at ev tid c st0 t0 j = match ev c (at_idx tid st0 t0 j) with Ok v s => truthy s v | _ => false end /\
  at_idx tid st0 t0 j = set1 st0 tid (set_index t0 j).
Proof. intros. split; reflexivity. Qed.
Print Assumptions truth_at_means.

(** T-ro: an expression of the read-only fragment - literals, names, arithmetic, comparison, logic, bitwise
    operators, slice, if, do, nested arbitrarily - leaves the interpreter state exactly as it was (on states whose
    traces have no virtual signals: reading one fills its cache).  Proved for the real evaluator, any fuel. *)
Theorem read_only_fragment_leaves_the_state : forall lf f e, ReadOnly.is_ro e = true ->
  forall st v st', ReadOnly.novirt st -> eval lf f e st = Ok v st' -> st' = st.
Proof. intros lf f e H st v st' Hn E. exact (ReadOnly.ro_pure lf f e H st v st' Hn E). Qed.
Print Assumptions read_only_fragment_leaves_the_state.

Theorem read_only_fragment_is : forall e, ReadOnly.is_ro e =
  match e with
  | VInt _ | VBool _ | VStr _ | VFloat _ | VSym _ _ => true
  | VList _ (VOp o :: args) => ReadOnly.ro_op o && forallb ReadOnly.is_ro args
  | _ => false
  end.
Proof. intros e. destruct e; reflexivity. Qed.
Print Assumptions read_only_fragment_is.

(** hence for a condition of the fragment only "c can be evaluated at every index" remains a premise *)
Theorem find_over_a_read_only_condition : forall lf f tid c st0 t0,
  tr_tid t0 = tid -> tr_virt t0 = [] -> ReadOnly.is_ro c = true ->
  (forall j, 0 <= j <= tr_max t0 -> exists v st', eval lf f c (at_idx tid st0 t0 j) = Ok v st') ->
  forall fuel i, 0 <= i <= tr_max t0 -> (Z.to_nat (tr_max t0 - i) < fuel)%nat ->
  op_find fuel (eval lf f) [c] (at_idx tid st0 t0 i) =
  Ok (PL (map VInt (filter (truth_at (eval lf f) tid c st0 t0) (zrange_nat i (S (Z.to_nat (tr_max t0 - i))))))) (at_idx tid st0 t0 i).
Proof. exact find_pointwise_ro. Qed.
Print Assumptions find_over_a_read_only_condition.

(** the premise is met by the real evaluator (fuel 1200) on the condition (= a 1) over a five-sample trace *)
Theorem find_with_the_real_evaluator :
  op_find 10 Api.ev0 [sig_cond] (at_idx "t" sig_state sig_trace 0) =
  Ok (PL [VInt 1; VInt 2; VInt 4]) (at_idx "t" sig_state sig_trace 0).
Proof. exact find_on_real_evaluator. Qed.
Print Assumptions find_with_the_real_evaluator.

(** the reference loop, for reading *)
Theorem wh_spec_equations : forall ev tid c body last j r,
  wh_spec ev tid c body [] last = ret last /\
  wh_spec ev tid c body (j :: r) last =
    (set_trace_index tid j ;;; last' <- visit ev c body last ;; wh_spec ev tid c body r last') /\
  visit ev c body last =
    (v <- ev c ;; st <- get_st ;;
     (if truthy st v then vs <- eval_args ev body ;; last_or_index_error vs else ret last)).
Proof. intros. repeat split. Qed.
Print Assumptions wh_spec_equations.

(** non-vacuity: a condition meeting the premise, on a five-sample trace standing at index 1 *)
Theorem find_example : exists st', op_find 10 ev_even [VNone] demo_state = Ok (PL [VInt 2; VInt 4]) st' /\ at1 st' "t" 1 4.
Proof. exact find_demo. Qed.
Print Assumptions find_example.

(** T-neutral: with any number of traces, after whenever / find/g every trace index (and the set of
    traces and their extent) is what it was, provided condition and body keep the set of traces *)
Theorem whenever_restores_every_index : forall (ev : val -> M val) c body,
  (forall st v st', ev c st = Ok v st' -> same_shape (trs st) (trs st')) ->
  (forall st vs st', eval_args ev body st = Ok vs st' -> same_shape (trs st) (trs st')) ->
  forall fuel st r st', cont_wf (st_cont st) ->
  op_whenever fuel ev (c :: body) st = Ok r st' -> same_frame (trs st) (trs st').
Proof. exact whenever_position_neutral. Qed.
Print Assumptions whenever_restores_every_index.

Theorem find_g_restores_every_index : forall (ev : val -> M val) c,
  (forall st v st', ev c st = Ok v st' -> same_shape (trs st) (trs st')) ->
  forall fuel st r st', cont_wf (st_cont st) ->
  op_find_g fuel ev [c] st = Ok r st' -> same_frame (trs st) (trs st').
Proof. exact find_g_position_neutral. Qed.
Print Assumptions find_g_restores_every_index.

Theorem same_frame_means : forall l l', same_frame l l' <->
  (map fst l' = map fst l /\
   forall k, option_map (fun t => (tr_tid t, tr_index t, tr_max t)) (alookup k l') =
             option_map (fun t => (tr_tid t, tr_index t, tr_max t)) (alookup k l)).
Proof. intros. reflexivity. Qed.
Print Assumptions same_frame_means.

(** T-ro with @ (proofs/ReadOnlyAt.v): the fragment extended by relative evaluation e@k at any nesting leaves the
    interpreter state exactly as it was, with any number of traces, on states without virtual signals whose
    container is well-formed (every reachable state is, C12).  Hence (find c) is pointwise for conditions using @. *)
From WalModel.proofs Require ContInv ReadOnlyAt.
Theorem read_only_fragment_with_offsets_leaves_the_state : forall lf f e, ReadOnlyAt.is_roa e = true ->
  forall st v st', ReadOnly.novirt st /\ ContInv.cwf (st_cont st) -> eval lf f e st = Ok v st' -> st' = st.
Proof. intros lf f e H st v st' Hok E. exact (ReadOnlyAt.roa_pure lf f e H st v st' Hok E). Qed.
Print Assumptions read_only_fragment_with_offsets_leaves_the_state.

Theorem find_over_a_condition_with_offsets : forall lf f tid c st0 t0,
  tr_tid t0 = tid -> tr_virt t0 = [] -> c_ntraces (st_cont st0) = 1 -> ReadOnlyAt.is_roa c = true ->
  (forall j, 0 <= j <= tr_max t0 -> exists v st', eval lf f c (at_idx tid st0 t0 j) = Ok v st') ->
  forall fuel i, 0 <= i <= tr_max t0 -> (Z.to_nat (tr_max t0 - i) < fuel)%nat ->
  op_find fuel (eval lf f) [c] (at_idx tid st0 t0 i) =
  Ok (PL (map VInt (filter (truth_at (eval lf f) tid c st0 t0) (zrange_nat i (S (Z.to_nat (tr_max t0 - i))))))) (at_idx tid st0 t0 i).
Proof. exact ReadOnlyAt.find_pointwise_roa. Qed.
Print Assumptions find_over_a_condition_with_offsets.

(** which operators that fragment has (54 of the evaluator's operators; quote keeps its operand unevaluated, so any
    operand is allowed there), and an example condition using scoped, named and relative references *)
Definition read_only_operators : list op :=
  [ONot; OEq; ONeq; OGt; OLt; OGe; OLe; OAnd; OOr; OIf; ODo; OAdd; OSub; OMul; ODiv; OExp; OMod; OBor; OBand; OBxor; OSlice;
   OReval; OGet; OResolveScope; OResolveGroup; OLoadedTraces; OGroups; ODefinedP; OSignalP; OSignalWidth;
   OAtomP; OSymbolP; OStringP; OIntP; OListP;
   OConvertBin; OStringToInt; OBitsToSint; OStringToSymbol; OSymbolToString; OIntToString;
   OList; OFirst; OSecond; OLast; ORest; OIn; OMax; OMin; OAverage; OZip; OLength; ORange; OGeta].
Theorem the_fragment_with_offsets_is : forall o, ReadOnlyAt.roa_op o = true <-> In o read_only_operators.
Proof.
  intros o. split.
  - intros H. destruct o; try discriminate H; unfold read_only_operators; repeat (first [left; reflexivity | right]).
  - assert (F : Forall (fun o => ReadOnlyAt.roa_op o = true) read_only_operators) by (repeat constructor).
    rewrite Forall_forall in F. apply F.
Qed.
Print Assumptions the_fragment_with_offsets_is.

Theorem the_fragment_with_offsets_is_syntactic : forall e, ReadOnlyAt.is_roa e =
  match e with
  | VInt _ | VBool _ | VStr _ | VFloat _ | VSym _ _ => true
  | VList _ [VOp OQuote; _] => true
  | VList _ (VOp o :: args) => ReadOnlyAt.roa_op o && forallb ReadOnlyAt.is_roa args
  | _ => false
  end.
Proof. intros e. destruct e; reflexivity. Qed.
Print Assumptions the_fragment_with_offsets_is_syntactic.

(** (&& (= (get "top.valid") 1) (in ~state (quote (1 2))) (! (= #ready@1 ready@-1)) (< (length (groups "_valid")) 3)) *)
Example a_condition_of_the_fragment : ReadOnlyAt.is_roa
  (WL [VOp OAnd;
       WL [VOp OEq; WL [VOp OGet; VStr "top.valid"]; VInt 1];
       WL [VOp OIn; WL [VOp OResolveScope; VSym "state" None]; WL [VOp OQuote; WL [VInt 1; VInt 2]]];
       WL [VOp ONot; WL [VOp OEq; WL [VOp OReval; WL [VOp OResolveGroup; VSym "ready" None]; VInt 1];
                                  WL [VOp OReval; VSym "ready" None; VInt (-1)]]];
       WL [VOp OLt; WL [VOp OLength; WL [VOp OGroups; VStr "_valid"]]; VInt 3]]) = true.
Proof. reflexivity. Qed.
