(** C04 — scans are pointwise, complete, ascending and position-neutral.
    Statements only; proofs in proofs/ScanProofs.v.
    [at1 st tid i m]: one trace tid is loaded and stands at index i of 0..m.
    The condition is an arbitrary evaluator behaviour satisfying the property's premise (it reads
    the trace at the current index): it yields a value whose truth [P i] depends on the index only
    and leaves the position alone; it may change any other state (fill caches, print).
    PARTIAL: (1) that every condition of the trace-reading fragment meets this premise is not proved
    in Coq; (2) the lock-step visit order with two traces is proved only as far as position
    neutrality (T-neutral, any number of traces) — results with two traces are decided by the
    differential check; (3) fuel: the theorems require fuel > m - i, the model's loop fuel is
    larger than any trace the harness loads and an out-of-fuel run is reported as such, never
    compared.  (count c) is (length (find c)) by C15 count_eq, and length is List.length by C14. *)
From WalModel Require Import Eval.
From WalModel.proofs Require Import RevalProofs ScanProofs.
Local Open Scope Z_scope.

Section Single.
  Variable ev : val -> M val.
  Variable tid : string.
  Variable c : val.
  Variable P : Z -> bool.
  Hypothesis Hc : forall st i m, at1 st tid i m ->
    exists v st', ev c st = Ok v st' /\ at1 st' tid i m /\ truthy st' v = P i.

  (** (find c): exactly the indices i..m at which c is truthy, ascending, no duplicates; index restored *)
  Theorem find_is_filter : forall fuel st i m,
    at1 st tid i m -> 0 <= i <= m -> (Z.to_nat (m - i) < fuel)%nat ->
    exists st', op_find fuel ev [c] st = Ok (PL (map VInt (filter P (zrange_nat i (S (Z.to_nat (m - i))))))) st'
                /\ at1 st' tid i m.
  Proof. exact (find_single ev tid c P Hc). Qed.

  (** (find/g c), one trace: the same positions as indices; index restored *)
  Theorem find_g_is_filter : forall fuel st i m,
    at1 st tid i m -> 0 <= i <= m -> (Z.to_nat (m - i) < fuel)%nat ->
    exists st', op_find_g fuel ev [c] st = Ok (PL (map VInt (filter P (zrange_nat i (S (Z.to_nat (m - i))))))) st'
                /\ at1 st' tid i m.
  Proof. exact (find_g_single ev tid c P Hc). Qed.

  (** (whenever c body...), one trace: refinement to the loop "for j in i..m: go to j; evaluate c;
      if truthy evaluate the body once and remember its value", then the index is put back *)
  Variable body : list val.
  Hypothesis Hb : forall st i m vs st', at1 st tid i m -> eval_args ev body st = Ok vs st' -> at1 st' tid i m.

  Theorem whenever_is_for_loop : forall fuel st i m,
    at1 st tid i m -> 0 <= i <= m -> (Z.to_nat (m - i) < fuel)%nat -> body <> [] ->
    op_whenever fuel ev (c :: body) st =
    (r <- wh_spec ev tid c body (zrange_nat i (S (Z.to_nat (m - i)))) VNone ;; set_trace_index tid i ;;; ret r) st.
  Proof. exact (whenever_single ev tid c P Hc body Hb). Qed.
End Single.
Print Assumptions find_is_filter.
Print Assumptions find_g_is_filter.
Print Assumptions whenever_is_for_loop.

(** the reference loop, for reading *)
Theorem wh_spec_equations : forall ev tid c body last j r,
  wh_spec ev tid c body [] last = ret last /\
  wh_spec ev tid c body (j :: r) last =
    (set_trace_index tid j ;;; last' <- visit ev c body last ;; wh_spec ev tid c body r last') /\
  visit ev c body last =
    (v <- ev c ;; st <- get_st ;;
     (if truthy st v then vs <- eval_args ev body ;; last_or_index_error vs else ret last)).
Proof. intros. repeat split. Qed.
Print Assumptions wh_spec_equations.

(** non-vacuity: a condition meeting the premise, on a five-sample trace standing at index 1 *)
Theorem find_example : exists st', op_find 10 ev_even [VNone] demo_state = Ok (PL [VInt 2; VInt 4]) st' /\ at1 st' "t" 1 4.
Proof. exact find_demo. Qed.
Print Assumptions find_example.

(** T-neutral: with any number of traces, after whenever / find/g every trace index (and the set of
    traces and their extent) is what it was, provided condition and body keep the set of traces *)
Theorem whenever_restores_every_index : forall (ev : val -> M val) c body,
  (forall st v st', ev c st = Ok v st' -> same_shape (trs st) (trs st')) ->
  (forall st vs st', eval_args ev body st = Ok vs st' -> same_shape (trs st) (trs st')) ->
  forall fuel st r st', cont_wf (st_cont st) ->
  op_whenever fuel ev (c :: body) st = Ok r st' -> same_frame (trs st) (trs st').
Proof. exact whenever_position_neutral. Qed.
Print Assumptions whenever_restores_every_index.

Theorem find_g_restores_every_index : forall (ev : val -> M val) c,
  (forall st v st', ev c st = Ok v st' -> same_shape (trs st) (trs st')) ->
  forall fuel st r st', cont_wf (st_cont st) ->
  op_find_g fuel ev [c] st = Ok r st' -> same_frame (trs st) (trs st').
Proof. exact find_g_position_neutral. Qed.
Print Assumptions find_g_restores_every_index.

Theorem same_frame_means : forall l l', same_frame l l' <->
  (map fst l' = map fst l /\
   forall k, option_map (fun t => (tr_tid t, tr_index t, tr_max t)) (alookup k l') =
             option_map (fun t => (tr_tid t, tr_index t, tr_max t)) (alookup k l)).
Proof. intros. reflexivity. Qed.
Print Assumptions same_frame_means.
