(** C03 — relative evaluation e@k is exact and position-neutral.
    Statements only; proofs in proofs/RevalProofs.v and proofs/Balanced.v.
    PARTIAL: the composition law (e@j)@k = e@(j+k) is proved (end of this file) for expressions of the
    read-only fragment on one trace; for expressions outside it (scans, scoped references, virtual
    signals, user functions) and for several traces it is decided by the differential check. *)
From WalModel Require Import Eval.
From WalModel.proofs Require Import VcdProofs Balanced NavProofs RevalProofs.
Local Open Scope Z_scope.

(** otherwise: #f, and e is never evaluated (the state is the one left by the offset expression) *)
Theorem out_of_range_is_false_without_evaluating : forall ev e o st ov off st1,
  valid_body e = true ->
  ev o st = Ok ov st1 -> int_of ov = Some off ->
  all_in_range (c_traces (st_cont st1)) off = false ->
  op_reval ev [e; o] st = Ok (VBool false) st1.
Proof. exact reval_out_of_range. Qed.
Print Assumptions out_of_range_is_false_without_evaluating.

Theorem in_range_means_every_trace : forall ts off,
  all_in_range ts off = forallb (fun p => in_range (snd p) off) ts.
Proof. exact all_in_range_spec. Qed.
Print Assumptions in_range_means_every_trace.

(** in range: exactly what e yields with every trace positioned at i+k, then the saved
    positions are popped *)
Theorem in_range_is_e_at_shifted_position : forall ev e o st ov off st1,
  valid_body e = true ->
  ev o st = Ok ov st1 -> int_of ov = Some off ->
  all_in_range (c_traces (st_cont st1)) off = true ->
  exists c,
    shifted st1 off c /\
    (forall id, alookup id (c_traces c) =
                option_map (fun t => set_index t (tr_index t + off)) (alookup id (c_traces (st_cont st1)))) /\
    op_reval ev [e; o] st =
      match ev e (upd_cont st1 c) with
      | Ok v st2 =>
          match cont_restore (st_cont st2) with
          | Some c' => Ok v (upd_cont st2 c')
          | None => Er EOther st2
          end
      | Er er s => Er er s
      | Unm w => Unm w
      | Fuel => Fuel
      end.
Proof. exact reval_in_range. Qed.
Print Assumptions in_range_is_e_at_shifted_position.

(** position neutrality: popping positions saved from c0 puts every trace that is still
    loaded back at its index in c0 (and removes exactly that stack entry) *)
Theorem positions_restored : forall c0 ts n rest c',
  cont_wf c0 ->
  cont_restore (mkCont ts n (cont_indices c0 :: rest)) = Some c' ->
  c_stack c' = rest /\ c_ntraces c' = n /\
  forall k t0 t, alookup k (c_traces c0) = Some t0 -> alookup k ts = Some t ->
                 alookup k (c_traces c') = Some (set_index t (tr_index t0)).
Proof. exact restore_puts_back. Qed.
Print Assumptions positions_restored.

(** and, from T-bal, the operator as a whole leaves the stack of saved positions as it found it,
    whatever e does (nested @, scans, calls) *)
Theorem reval_leaves_no_saved_position : forall ev,
  (forall e, good (ev e)) -> forall args, good (op_reval ev args).
Proof. exact good_op_reval. Qed.
Print Assumptions reval_leaves_no_saved_position.

Definition ex_trace_a : trace := mkTrace "a" "f" 1 2 [0;1;2] [0;1;2] None [] [] [] [] [].
Example wf_nonvacuous : cont_wf (mkCont [("a", ex_trace_a)] 1 []).
Proof. split; [repeat constructor; intros []|]. intros k t [H|[]]. injection H as <- <-. reflexivity. Qed.

(** for an expression of the read-only fragment (C04 T-ro: literals, names, arithmetic, comparison, logic,
    bitwise, slice, if, do) on one trace: e@k evaluates e with the trace at index i+k (the saved position on
    the stack) and leaves the interpreter state EXACTLY as it was — not only the positions
    (proofs/RevalRo.v; real evaluator, any fuel) *)
From WalModel.proofs Require ReadOnly ScanProofs RevalRo.
Theorem reval_of_read_only_expression_is_exactly_neutral : forall lf f tid st0 t0,
  tr_tid t0 = tid -> tr_virt t0 = [] ->
  forall e k i, ReadOnly.is_ro e = true -> 0 <= i + k <= tr_max t0 ->
  op_reval (eval lf (S f)) [e; VInt k] (ScanProofs.at_idx tid st0 t0 i) =
  match eval lf (S f) e (RevalRo.shifted_state tid st0 t0 i (i + k)) with
  | Ok v _ => Ok v (ScanProofs.at_idx tid st0 t0 i)
  | Er er s => Er er s
  | Unm w => Unm w
  | Fuel => Fuel
  end.
Proof. exact RevalRo.reval_read_only. Qed.
Print Assumptions reval_of_read_only_expression_is_exactly_neutral.

Theorem shifted_state_is : forall tid st0 t0 i j, RevalRo.shifted_state tid st0 t0 i j =
  upd_cont st0 (mkCont [(tid, set_index t0 j)] (c_ntraces (st_cont st0)) ([(tid, i)] :: c_stack (st_cont st0))).
Proof. reflexivity. Qed.
Print Assumptions shifted_state_is.

(** the composition law (e@j)@k = e@(j+k) for a read-only e on one trace, when both positions lie inside the trace:
    both evaluate e once, at index i+k+j, and both leave the interpreter exactly as it was.  It rests on T-ro (the
    state is untouched) and on [ro_stack_independent] (proofs/StackIndep.v: the read-only fragment does not look at
    the stack of saved positions — one lemma per operator, induction on fuel). *)
From WalModel.proofs Require StackIndep.
Theorem nested_offsets_compose : forall lf f tid st0 t0 e j k i v s,
  tr_tid t0 = tid -> tr_virt t0 = [] -> ReadOnly.is_ro e = true ->
  0 <= i + k <= tr_max t0 -> 0 <= i + k + j <= tr_max t0 ->
  eval lf (S f) e (RevalRo.shifted_state tid st0 t0 i (i + k + j)) = Ok v s ->
  op_reval (eval lf (S (S f))) [WL [VOp OReval; e; VInt j]; VInt k] (ScanProofs.at_idx tid st0 t0 i) = Ok v (ScanProofs.at_idx tid st0 t0 i) /\
  op_reval (eval lf (S f)) [e; VInt (j + k)] (ScanProofs.at_idx tid st0 t0 i) = Ok v (ScanProofs.at_idx tid st0 t0 i).
Proof. exact RevalRo.reval_compose. Qed.
Print Assumptions nested_offsets_compose.

Theorem read_only_fragment_ignores_saved_positions : forall x lf f e, ReadOnly.is_ro e = true ->
  forall st, ReadOnly.novirt st -> eval lf f e (StackIndep.push x st) = StackIndep.lift x (eval lf f e st).
Proof. exact StackIndep.ro_stack_independent. Qed.
Print Assumptions read_only_fragment_ignores_saved_positions.
