(** C13 — a virtual signal behaves like its body at every index, in every visit order.
    Statements only; proofs in proofs/VirtualProofs.v.
    Shape: an invariant over every history of reads.  [cache_ok f vs] says every cached value is the
    value [f] gives to the index it is stored under (the cache key is the trace index: two samples may carry
    the same timestamp); [f i] is "the body's value at index i" — that the body has such a value (depends only
    on trace signals) is the property's premise
    and appears as the hypothesis on [eval_args ev body].  One read is sound (T-sound) and keeps the
    invariant (T-keep) wherever the trace index stands, so by induction no sequence of reads, in
    any order, is ever served a value computed for another time point; sample-at empties every
    cache (T-sample), so the invariant survives resampling for the new body values.
    find/count/whenever over v reduce to reads of v at each visited index (C04).
    PARTIAL: that a body from the trace-reading fragment has a value determined by the time point
    (purity of the fragment) is not proved in Coq; the differential check compares v with its body
    at every index under random visit orders. *)
From WalModel Require Import Eval.
From WalModel.proofs Require Import VirtualProofs.
Local Open Scope Z_scope.

Section Reads.
  Variable ev : val -> M val.

  Theorem hit_returns_cached_for_this_index : forall tid name st t vs ts v,
    vs_at st tid name = Some (t, vs) -> tr_index t = ts ->
    cache_find ts (vs_cache vs) = Some v ->
    virtual_value ev tid name st = Ok v st.
  Proof. exact (virtual_hit ev). Qed.

  Theorem miss_evaluates_body_here : forall tid name st t vs ts vals st2 v t2 vs2,
    vs_at st tid name = Some (t, vs) -> tr_index t = ts ->
    cache_find ts (vs_cache vs) = None ->
    eval_args ev (vs_body vs) st = Ok vals st2 -> last_opt vals = Some v ->
    vs_at st2 tid name = Some (t2, vs2) ->
    virtual_value ev tid name st = Ok v (record_value st2 tid name ts v t2 vs2).
  Proof. exact (virtual_miss ev). Qed.

  Theorem body_error_is_reported : forall tid name st t vs ts e st2,
    vs_at st tid name = Some (t, vs) -> tr_index t = ts ->
    cache_find ts (vs_cache vs) = None ->
    eval_args ev (vs_body vs) st = Er e st2 ->
    virtual_value ev tid name st = Er e st2.
  Proof. exact (virtual_miss_error ev). Qed.

  (** T-sound *)
  Theorem read_serves_value_of_current_time_point : forall (f : Z -> val) tid name st t vs ts v st',
    vs_at st tid name = Some (t, vs) -> tr_index t = ts ->
    cache_ok f vs ->
    (forall vals st2, eval_args ev (vs_body vs) st = Ok vals st2 -> last_opt vals = Some (f ts)) ->
    virtual_value ev tid name st = Ok v st' -> v = f ts.
  Proof. exact (virtual_value_sound ev). Qed.

  (** T-keep *)
  Theorem read_keeps_cache_sound : forall (f : Z -> val) tid name st t vs ts v st',
    vs_at st tid name = Some (t, vs) -> tr_index t = ts ->
    cache_ok f vs ->
    (forall vals st2, eval_args ev (vs_body vs) st = Ok vals st2 -> last_opt vals = Some (f ts)) ->
    (forall vals st2 t2 vs2, eval_args ev (vs_body vs) st = Ok vals st2 -> vs_at st2 tid name = Some (t2, vs2) ->
                             tr_tid t2 = tid /\ cache_ok f vs2) ->
    virtual_value ev tid name st = Ok v st' ->
    forall t' vs', vs_at st' tid name = Some (t', vs') -> cache_ok f vs'.
  Proof. exact (virtual_value_keeps_cache_ok ev). Qed.

  Theorem value_cached_under_current_index : forall tid name st t vs ts vals st2 v t2 vs2,
    vs_at st tid name = Some (t, vs) -> tr_index t = ts ->
    cache_find ts (vs_cache vs) = None ->
    eval_args ev (vs_body vs) st = Ok vals st2 -> last_opt vals = Some v ->
    vs_at st2 tid name = Some (t2, vs2) -> tr_tid t2 = tid ->
    exists st' t' vs', virtual_value ev tid name st = Ok v st' /\ vs_at st' tid name = Some (t', vs') /\
                       vs_cache vs' = vs_cache vs2 +++ [(ts, v)] /\ vs_body vs' = vs_body vs2 /\
                       tr_index t' = tr_index t2 /\ tr_ts t' = tr_ts t2.
  Proof. exact (cache_keys_unique_step ev). Qed.

  Theorem reading_the_name_evaluates_the_virtual_signal : forall st t name scope,
    address (st_cont st) name = AOne t name ->
    0 <= tr_index t <= tr_max t -> smem name special_signals = false -> amem name (tr_virt t) = true ->
    signal_value_m ev name scope st = virtual_value ev (tr_tid t) name st.
  Proof. exact (virtual_signal_dispatch ev). Qed.
End Reads.
Print Assumptions hit_returns_cached_for_this_index.
Print Assumptions miss_evaluates_body_here.
Print Assumptions body_error_is_reported.
Print Assumptions read_serves_value_of_current_time_point.
Print Assumptions read_keeps_cache_sound.
Print Assumptions value_cached_under_current_index.
Print Assumptions reading_the_name_evaluates_the_virtual_signal.

(** non-vacuity: a sound cache with two entries, hit on the second *)
Example cache_example : cache_ok (fun ts => VInt (ts * 2)) (mkVsig [] [(0, VInt 0); (5, VInt 10)]) /\
                        cache_find 5 [(0, VInt 0); (5, VInt 10)] = Some (VInt 10).
Proof. split; [|reflexivity]. intros ts v [E|[E|[]]]; injection E as <- <-; reflexivity. Qed.

(** T-sample *)
Theorem sample_at_empties_caches : forall t L t',
  trace_sample t L = Some t' ->
  map fst (tr_virt t') = map fst (tr_virt t) /\
  forall name vs', alookup name (tr_virt t') = Some vs' ->
                   vs_cache vs' = [] /\ exists vs, alookup name (tr_virt t) = Some vs /\ vs_body vs' = vs_body vs.
Proof. exact sample_clears_caches. Qed.
Print Assumptions sample_at_empties_caches.

Theorem cache_sound_after_sample_at : forall f t L t' name vs',
  trace_sample t L = Some t' -> alookup name (tr_virt t') = Some vs' -> cache_ok f vs'.
Proof. exact cache_ok_after_sample. Qed.
Print Assumptions cache_sound_after_sample_at.

(** definition: name relative to the captured scope or group, references fixed at definition *)
Theorem name_at_top : forall n, defsig_name "" "" n = n.
Proof. exact defsig_name_top. Qed.
Print Assumptions name_at_top.
Theorem name_in_scope : forall cs n, cs <> "" -> defsig_name cs "" n = cs ++ "." ++ n.
Proof. exact defsig_name_scope. Qed.
Print Assumptions name_in_scope.
Theorem name_in_group : forall cs cg n, cg <> "" -> defsig_name cs cg n = cg ++ n.
Proof. exact defsig_name_group. Qed.
Print Assumptions name_in_group.
Theorem scoped_reference_fixed : forall s g n a, defsig_rewrite s g (WL [VOp OResolveScope; VSym n a]) = VSym (s ++ n) None.
Proof. exact rewrite_scope_ref. Qed.
Print Assumptions scoped_reference_fixed.
Theorem grouped_reference_fixed : forall s g n a, defsig_rewrite s g (WL [VOp OResolveGroup; VSym n a]) = VSym (g ++ n) None.
Proof. exact rewrite_group_ref. Qed.
Print Assumptions grouped_reference_fixed.
Theorem rewriting_descends : forall s g o l, o <> OResolveScope -> o <> OResolveGroup ->
  defsig_rewrite s g (WL (VOp o :: l)) = WL (VOp o :: map (defsig_rewrite s g) l).
Proof. exact rewrite_descends. Qed.
Print Assumptions rewriting_descends.

Theorem definition_registers : forall st k t rest cs cg n a b body,
  c_ntraces (st_cont st) = 1 -> c_traces (st_cont st) = (k, t) :: rest ->
  read_global "CS" st = Ok (VStr cs) st -> read_global "CG" st = Ok (VStr cg) st ->
  op_defsig (VSym n a :: b :: body) st =
  Ok VNone (upd_cont st (with_traces (st_cont st)
     (aset (tr_tid t) (set_virt t (aset (defsig_name cs cg n)
                                        (mkVsig (map (defsig_rewrite (defsig_scope cs cg) cg) (b :: body)) [])
                                        (tr_virt t)))
           (c_traces (st_cont st))))).
Proof. exact defsig_registers. Qed.
Print Assumptions definition_registers.

Theorem defined_signal_is_listed : forall t name vs,
  let t' := set_virt t (aset name vs (tr_virt t)) in
  trace_has t' name = true /\ In name (all_signal_names t') /\ alookup name (tr_virt t') = Some vs.
Proof. exact registered_is_listed. Qed.
Print Assumptions defined_signal_is_listed.

(** * any visit order (proofs/VirtualOrder.v)
    [vstate j c]: the interpreter with the trace at index j and the signal's cache holding c (nothing else
    differs).  Premises, as in the property: the body can be evaluated at every index,
    leaves the state as it was and does not depend on what the cache holds.  Then reading the signal at ANY
    sequence of indices — any order, with repeats, the trace moved between reads by whatever means — yields at
    each index the body's value at that index, and the cache stays sound. *)
From WalModel.proofs Require Import VirtualOrder.
Section AnyOrder.
  Variable ev : val -> M val.
  Variable tid name : string.
  Variable st0 : state.
  Variable t0 : trace.
  Variable body : list val.
  Hypothesis Htid : tr_tid t0 = tid.
  Variable value_at : Z -> val.
  Hypothesis Hbody : forall j c, in_range t0 j ->
    exists vals, eval_args ev body (vstate tid name st0 t0 body j c) = Ok vals (vstate tid name st0 t0 body j c)
                 /\ last_opt vals = Some (value_at j).

  Theorem one_read_at_any_index : forall j c, in_range t0 j -> sound t0 value_at c ->
    exists c', virtual_value ev tid name (vstate tid name st0 t0 body j c) = Ok (value_at j) (vstate tid name st0 t0 body j c')
               /\ sound t0 value_at c'.
  Proof. exact (read_at_any_index ev tid name st0 t0 body Htid value_at Hbody). Qed.

  Theorem reads_in_any_order_give_the_body_values : forall js c, Forall (in_range t0) js -> sound t0 value_at c ->
    exists c2, reads ev tid name st0 t0 body js c (map value_at js) c2 /\ sound t0 value_at c2.
  Proof. exact (reads_in_any_order ev tid name st0 t0 body Htid value_at Hbody). Qed.
End AnyOrder.
Print Assumptions one_read_at_any_index.
Print Assumptions reads_in_any_order_give_the_body_values.

(** the premises are met by the real evaluator: v := (+ a 1), read at indices 3 0 3 4 1 0 *)
Theorem any_order_with_the_real_evaluator :
  exists c2, reads Api.ev0 "t" "v" ScanProofs.sig_state ScanProofs.sig_trace v_body [3; 0; 3; 4; 1; 0]
                   [] [VInt 1; VInt 1; VInt 1; VInt 2; VInt 2; VInt 1] c2.
Proof. exact reads_with_the_real_evaluator. Qed.
Print Assumptions any_order_with_the_real_evaluator.

(** * the premise discharged for bodies of the read-only fragment (proofs/VirtFrame.v)
    [strip st]: st with the virtual signals of every trace removed.  [clean st n]: n is not an alias, does not address
    a virtual signal and is not one of the names listing the signals.  An expression of the read-only fragment
    (VirtFrame.is_rov: literals, names, arithmetic, comparison, logic, bitwise operators, slice, if, do and relative
    evaluation e@k, nested arbitrarily) over clean names
    that has a value on the stripped state has that value on the state itself and leaves it as it was -- whatever
    the caches of the virtual signals hold. *)
From WalModel.proofs Require ContInv VirtFrame.

Theorem read_only_expressions_ignore_virtual_signals : forall lf f e st a,
  VirtFrame.is_rov e = true -> ContInv.cwf (st_cont st) -> Forall (VirtFrame.clean st) (VirtFrame.syms e) ->
  eval lf f e (VirtFrame.strip st) = Ok a (VirtFrame.strip st) -> eval lf f e st = Ok a st.
Proof. exact VirtFrame.read_only_ignores_virtual_signals. Qed.
Print Assumptions read_only_expressions_ignore_virtual_signals.

Theorem the_fragment_is : forall e, VirtFrame.is_rov e =
  match e with
  | VInt _ | VBool _ | VStr _ | VFloat _ | VSym _ _ => true
  | VList _ (VOp o :: args) =>
      (ReadOnly.ro_op o || match o with OReval => true | _ => false end) && forallb VirtFrame.is_rov args
  | _ => false
  end.
Proof. intros e. destruct e; reflexivity. Qed.
Print Assumptions the_fragment_is.

Theorem strip_and_clean_are : forall st n,
  VirtFrame.strip st = upd_cont st (with_traces (st_cont st)
                         (map (fun p => (fst p, set_virt (snd p) [])) (c_traces (st_cont st)))) /\
  (VirtFrame.clean st n <->
   alookup n (st_aliases st) = None /\
   match address (st_cont st) n with
   | AOne t sig => amem sig (tr_virt t) = false /\
                   smem sig ["SIGNALS"; "SIGNALS-NO-ALIAS"; "VIRTUAL-SIGNALS"; "LOCAL-SIGNALS"] = false
   | _ => True
   end).
Proof. intros. split; reflexivity. Qed.
Print Assumptions strip_and_clean_are.

(** hence, with the real evaluator at any fuel: a virtual signal on a single trace whose body is in the fragment and
    reads clean names, and can be evaluated at every index of the trace as loaded, yields at ANY sequence of indices
    -- any order, with repeats, from any sound cache -- the body's value at each index *)
Theorem reads_of_a_read_only_body_in_any_order : forall lf f tid name st0 t0 body,
  tr_tid t0 = tid -> c_ntraces (st_cont st0) = 1 ->
  forallb VirtFrame.is_rov body = true ->
  Forall (VirtFrame.clean (vstate tid name st0 t0 body 0 [])) (flat_map VirtFrame.syms body) ->
  forall value_at : Z -> val,
  (forall j, in_range t0 j -> exists vals s',
     eval_args (eval lf f) body (VirtFrame.strip (vstate tid name st0 t0 body j [])) = Ok vals s' /\ last_opt vals = Some (value_at j)) ->
  forall js c, Forall (in_range t0) js -> sound t0 value_at c ->
  exists c2, reads (eval lf f) tid name st0 t0 body js c (map value_at js) c2 /\ sound t0 value_at c2.
Proof. exact VirtFrame.reads_of_a_read_only_body. Qed.
Print Assumptions reads_of_a_read_only_body_in_any_order.

(** met by v := (+ a 1) over the five-sample trace, for every index sequence *)
Example every_index_sequence_with_the_real_evaluator : forall js, Forall (in_range ScanProofs.sig_trace) js ->
  exists c2, reads (eval 50 50) "t" "v" ScanProofs.sig_state ScanProofs.sig_trace v_body js [] (map v_value js) c2.
Proof. exact VirtFrame.demo_any_order. Qed.

(** and by the rising edge r := (&& a (! a@-1)), a body with relative evaluation *)
Example rising_edge_at_every_index_sequence : forall js, Forall (in_range ScanProofs.sig_trace) js ->
  exists c2, reads (eval 50 50) "t" "r" ScanProofs.sig_state ScanProofs.sig_trace VirtFrame.rise_body js []
                   (map VirtFrame.rise_value js) c2.
Proof. exact VirtFrame.rise_any_order. Qed.
