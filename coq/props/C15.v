(** C15 — standard-library forms and user macros equal their defining equations.
    Statements only; proofs in proofs/MacroProofs.v (evaluation of the macro bodies of
    Generated.v = the current std.wal, with the operands as variables).
    [template name args] is what the body of macro [name] evaluates to in the frame the
    expand pass creates for the call (name args...): parameters bound to the UNEVALUATED
    operands (so a macro receives its arguments unevaluated, and operands appear in the
    expansion exactly where the equation shows them - evaluated once, or per iteration).
    PARTIAL: cond is stated for closed clause conditions (it compares each clause head with the
    symbol else); the semantic corollaries for the defun-defined helpers (set-index, trace-index,
    filter, reverse, sort) and user defmacro/macroexpand agreement are decided by the
    differential check (library form vs defining expression on fresh interpreters). *)
From WalModel Require Import Cases.
From WalModel.proofs Require Import MacroProofs.
Local Open Scope Z_scope.

Theorem when_equation : forall c b1 b2, template "when" [c; b1; b2] = Some (WL [VOp OIf; c; WL [VOp ODo; b1; b2]]).
Proof. exact when_eq. Qed.
Print Assumptions when_equation.

Theorem when_equation_single_body : forall c b, template "when" [c; b] = Some (WL [VOp OIf; c; WL [VOp ODo; b]]).
Proof. exact when_eq1. Qed.
Print Assumptions when_equation_single_body.

Theorem unless_equation : forall c b1 b2, template "unless" [c; b1; b2] = Some (WL [VOp OIf; WL [VOp ONot; c]; WL [VOp ODo; b1; b2]]).
Proof. exact unless_eq. Qed.
Print Assumptions unless_equation.

Theorem for_list_equation : forall x l b1 b2,
  template "for/list" [WL [x; l]; b1; b2] = Some (WL [VOp OMap; WL [VOp OFn; WL [x]; WL [VOp ODo; b1; b2]]; l]).
Proof. exact for_list_eq. Qed.
Print Assumptions for_list_equation.

Theorem for_equation : forall x l b,
  template "for" [WL [x; l]; b] =
  Some (WL [VOp OLet; WL [WL [tmp 1; WL [VOp OMap; WL [VOp OFn; WL [x]; WL [VOp ODo; b]]; l]]];
            WL [VOp OIf; tmp 1; WL [VOp OLast; tmp 1]; WL [VOp OQuote; WL []]]]).
Proof. exact for_eq. Qed.
Print Assumptions for_equation.

Theorem dowhile_equation : forall b1 b2 c, template "dowhile" [b1; b2; c] = Some (WL [VOp ODo; b1; b2; WL [VOp OWhile; c; b1; b2]]).
Proof. exact dowhile_eq. Qed.
Print Assumptions dowhile_equation.

Theorem until_equation : forall c b1 b2, template "until" [c; b1; b2] = Some (WL [VOp OWhile; WL [VOp ONot; c]; b1; b2]).
Proof. exact until_eq. Qed.
Print Assumptions until_equation.

Theorem set_bang_equation : forall k v, template "set!" [k; v] = Some (WL [VOp OSet; WL [k; v]]).
Proof. exact set_bang_eq. Qed.
Print Assumptions set_bang_equation.

Theorem defun_equation : forall f ps b1 b2, template "defun" [f; ps; b1; b2] = Some (WL [VOp ODefine; f; WL [VOp OFn; ps; f; b1; b2]]).
Proof. exact defun_eq. Qed.
Print Assumptions defun_equation.

Theorem car_equation : forall l, template "car" [l] = Some (WL [VOp OFirst; l]).
Proof. exact car_eq. Qed.
Print Assumptions car_equation.

Theorem cdr_equation : forall l, template "cdr" [l] = Some (WL [VOp ORest; l]).
Proof. exact cdr_eq. Qed.
Print Assumptions cdr_equation.

Theorem cadr_equation : forall l, template "cadr" [l] = Some (WL [Sy "car"; WL [Sy "cdr"; l]]).
Proof. exact cadr_eq. Qed.
Print Assumptions cadr_equation.

Theorem inc_equation : forall n s m s', template "inc" [VSym n s; VSym m s'] =
  Some (WL [VOp OSet; WL [VSym n s; WL [VOp OAdd; VSym n s; VInt 1]]; WL [VSym m s'; WL [VOp OAdd; VSym m s'; VInt 1]]]).
Proof. exact inc_eq. Qed.
Print Assumptions inc_equation.

Theorem dec_equation : forall n s, template "dec" [VSym n s] =
  Some (WL [VOp OSet; WL [VSym n s; WL [VOp OIf; WL [VOp ODefinedP; WL [VOp OQuote; VSym n s]]; WL [VOp OSub; VSym n s; VInt 1]; VInt (-1)]]]).
Proof. exact dec_eq. Qed.
Print Assumptions dec_equation.

Theorem rising_equation : forall e, template "rising" [e] =
  Some (WL [VOp OAnd; WL [VOp OEq; e; VInt 0]; WL [VOp OEq; WL [VOp OReval; e; VInt 1]; VInt 1]]).
Proof. exact rising_eq. Qed.
Print Assumptions rising_equation.

Theorem falling_equation : forall e, template "falling" [e] =
  Some (WL [VOp OAnd; WL [VOp OEq; e; VInt 1]; WL [VOp OEq; WL [VOp OReval; e; VInt 1]; VInt 0]]).
Proof. exact falling_eq. Qed.
Print Assumptions falling_equation.

Theorem stable_equation : forall e, template "stable" [e] = Some (WL [VOp OEq; e; WL [VOp OReval; e; VInt 1]]).
Proof. exact stable_eq. Qed.
Print Assumptions stable_equation.

Theorem unstable_equation : forall e, template "unstable" [e] = Some (WL [VOp ONeq; e; WL [VOp OReval; e; VInt 1]]).
Proof. exact unstable_eq. Qed.
Print Assumptions unstable_equation.

Theorem always_equation : forall b1 b2, template "always" [b1; b2] = Some (WL [VOp OWhenever; VBool true; b1; b2]).
Proof. exact always_eq. Qed.
Print Assumptions always_equation.

Theorem count_equation : forall c, template "count" [c] = Some (WL [VOp OLength; WL [VOp OFind; c]]).
Proof. exact count_eq. Qed.
Print Assumptions count_equation.

Theorem signed_equation : forall s, template "signed" [s] =
  Some (WL [VOp OBitsToSint; WL [VOp OConvertBin; s; WL [VOp OSignalWidth; WL [VOp OQuote; s]]]]).
Proof. exact signed_eq. Qed.
Print Assumptions signed_equation.

Theorem step_until_equation : forall c, template "step-until" [c] =
  Some (WL [VOp OWhile; WL [VOp OAnd; WL [VOp ONot; c]; WL [VOp OStep]]; Sy "INDEX"]).
Proof. exact step_until_eq. Qed.
Print Assumptions step_until_equation.

Theorem step_while_equation : forall c, template "step-while" [c] =
  Some (WL [VOp OWhile; WL [VOp OAnd; c; WL [VOp OStep]]; Sy "INDEX"]).
Proof. exact step_while_eq. Qed.
Print Assumptions step_while_equation.

Theorem sum_equation : forall l, template "sum" [l] = Some (WL [VOp OFold; VOp OAdd; VInt 0; l]).
Proof. exact sum_eq. Qed.
Print Assumptions sum_equation.

Theorem timeframe_equation : forall b1 b2, template "timeframe" [b1; b2] =
  Some (WL [VOp OLet; WL [WL [tmp 1; WL [Sy "ALL-INDICES"]]; WL [tmp 2; WL [VOp ODo; b1; b2]]];
            WL [Sy "for"; WL [Sy "trace"; tmp 1];
                WL [VOp OInGroup; WL [VOp OFirst; Sy "trace"];
                    WL [VOp OStep; WL [VOp OSub; WL [VOp OSecond; Sy "trace"]; Sy "INDEX"]]]];
            tmp 2]).
Proof. exact timeframe_eq. Qed.
Print Assumptions timeframe_equation.

Theorem append_equation : forall xs x, template "append" [xs; x] =
  Some (WL [VOp OAdd; xs; WL [VOp OLet; WL [WL [tmp 1; x]];
                              WL [VOp OIf; WL [VOp OListP; tmp 1]; WL [VOp OList; tmp 1]; tmp 1]]]).
Proof. exact append_eq. Qed.
Print Assumptions append_equation.

Theorem partition_equation : forall p xs, template "partition" [p; xs] =
  Some (WL [VOp OFold;
            WL [VOp OFn; WL [tmp 1; tmp 2];
                WL [VOp OIf; WL [p; tmp 2];
                    WL [VOp OList; WL [Sy "append"; WL [VOp OSlice; tmp 1; VInt 0]; tmp 2]; WL [VOp OSlice; tmp 1; VInt 1]];
                    WL [VOp OList; WL [VOp OSlice; tmp 1; VInt 0]; WL [Sy "append"; WL [VOp OSlice; tmp 1; VInt 1]; tmp 2]]]];
            WL [VOp OQuote; WL [WL []; WL []]]; xs]).
Proof. exact partition_eq. Qed.
Print Assumptions partition_equation.

Theorem cond_equation : forall b1 b2 b3 b4,
  template "cond" [WL [WL [VOp OGt; Sy "x"; VInt 2]; b1; b2]; WL [VInt 0; b3]; WL [Sy "else"; b4]] =
  Some (WL [VOp OIf; WL [VOp OGt; Sy "x"; VInt 2]; WL [VOp ODo; b1; b2];
            WL [VOp OIf; VInt 0; WL [VOp ODo; b3]; WL [VOp OIf; VBool true; WL [VOp ODo; b4]]]]).
Proof. exact cond_eq. Qed.
Print Assumptions cond_equation.

Theorem cond_equation_without_else : forall b1 b2,
  template "cond" [WL [VBool false; b1]; WL [Sy "ready"; b2]] =
  Some (WL [VOp OIf; VBool false; WL [VOp ODo; b1]; WL [VOp OIf; Sy "ready"; WL [VOp ODo; b2]]]).
Proof. exact cond_eq_no_else. Qed.
Print Assumptions cond_equation_without_else.

(** hygiene: every binder a library macro introduces around an operand is either supplied by
    an operand (the loop variable of for / for/list) or a temporary [tmp k] - see the equations
    of for, append, timeframe, partition above - and a temporary can never be a user variable *)
Theorem temporaries_are_gensyms : forall k, exists rest, tmp k = VSym (String "$"%char rest) (Some O).
Proof. exact tmp_name. Qed.
Print Assumptions temporaries_are_gensyms.

Theorem reader_symbols_never_start_with_dollar : forall c r, is_sym_first c = true -> String c r <> String "$"%char r.
Proof. exact reader_symbol_first_char. Qed.
Print Assumptions reader_symbols_never_start_with_dollar.

Theorem gensym_counter_increases : forall args st v st', op_gensym args st = Ok v st' -> st_gensym st' = st_gensym st + 1.
Proof. exact gensym_increases. Qed.
Print Assumptions gensym_counter_increases.

(** macro expansion never looks inside quoted data; a quoted datum evaluates to itself *)
From WalModel.proofs Require QuoteProofs.
Theorem expansion_leaves_quoted_data_alone : forall ev ex w args parent st,
  expand_body ev ex (VList w (VOp OQuote :: args)) parent st = Ok (VList w (VOp OQuote :: args)) st /\
  expand_body ev ex (VList w (VOp OQuasiquote :: args)) parent st = Ok (VList w (VOp OQuasiquote :: args)) st.
Proof. exact QuoteProofs.expand_leaves_quoted. Qed.
Print Assumptions expansion_leaves_quoted_data_alone.
Theorem quote_returns_its_operand_unevaluated : forall lf f w x st,
  eval lf (S (S f)) (VList w [VOp OQuote; x]) st = Ok x st.
Proof. exact QuoteProofs.quote_returns_its_operand. Qed.
Print Assumptions quote_returns_its_operand_unevaluated.
