(** C01 — VCD fidelity: every signal at every index reads what the file says.
    Only statements here; proofs are in proofs/VcdProofs.v.  The document
    reading ([decls], [decl_scopes], [times], [values], ...) is defined in
    VcdSpec.v without reference to the parser. *)
From WalModel Require Import VcdSpec.
From WalModel.proofs Require Import ArithProofs VcdProofs.
Local Open Scope Z_scope.

(** any white-space/line layout of a token sequence splits back into exactly those tokens *)
Theorem layout_irrelevant : forall toks seps lead,
  forallb is_token toks = true -> forallb is_sep seps = true ->
  List.length seps = List.length toks -> sall is_pyspace lead = true ->
  py_split (layout lead toks seps) = toks.
Proof. exact py_split_layout. Qed.
Print Assumptions layout_irrelevant.

(** the dump section: timestamps in file order; for every declared identifier
    code, one value text per timestamp = the last value assigned at or before
    it (changes before the first timestamp and repeated changes included),
    [x] before any assignment; comments and $dumpvars/$end keywords skipped *)
Theorem dump_section_values : forall items ids fuel,
  forallb wf_ditem items = true ->
  (List.length (flat_map render_ditem items) < fuel)%nat ->
  exists cols ts,
    parse_dump fuel (flat_map render_ditem items) (map (fun id => (id, ["x"])) ids) [] = POk (cols, ts) /\
    rev ts = times items /\
    forall id, smem id ids = true ->
      option_map finish_col (alookup id cols) = Some (values items id "x").
Proof. exact parse_dump_values. Qed.
Print Assumptions dump_section_values.

(** the header: blocks in any order, any scope nesting; the parser's state after
    the header is the fold of the declarative step over the blocks *)
Theorem header_section : forall bs fuel h rest,
  forallb wf_hblock bs = true ->
  balanced bs (List.length (h_scope h)) = true ->
  (List.length (header_tail bs rest) < fuel)%nat ->
  parse_header fuel (header_tail bs rest) h = POk (fold_left hstep bs h, rest).
Proof. exact parse_header_spec. Qed.
Print Assumptions header_section.

(** the whole file: for every well-formed document and every layout, loading
    yields the declared signals and scopes in declaration order, the file's
    timestamps as time indices (MAX-INDEX = count - 1, INDEX 0), every
    signal's column = the values of its identifier code (so names sharing a
    code read identical values), and the declared widths *)
Theorem vcd_fidelity : forall d lead seps tid file,
  wf_doc d = true ->
  forallb is_token (render_doc d) = true ->
  forallb is_sep seps = true -> List.length seps = List.length (render_doc d) ->
  sall is_pyspace lead = true ->
  let ds := decls (d_header d) [] in
  exists t,
    vcd_parse tid file (layout lead (render_doc d) seps) = POk t /\
    tr_tid t = tid /\ tr_index t = 0 /\ tr_lookup t = None /\ tr_virt t = [] /\
    tr_raw t = map d_name ds /\
    tr_scopes t = decl_scopes (d_header d) [] /\
    tr_ts t = times (d_dump d) /\ tr_all_ts t = times (d_dump d) /\
    tr_max t = zlen (times (d_dump d)) - 1 /\
    (forall name id, In name (map d_name ds) -> decl_id ds name = Some id ->
       alookup name (tr_data t) = Some (values (d_dump d) id "x")) /\
    (forall name, In name (map d_name ds) -> alookup name (tr_widths t) = decl_width ds name).
Proof. exact vcd_load_reads_document. Qed.
Print Assumptions vcd_fidelity.

(** reading index i: an integer when the text is purely binary, the raw text otherwise *)
Theorem value_at_index : forall t name col i,
  tr_lookup t = None -> tr_virt t = [] -> smem name special_signals = false ->
  alookup name (tr_data t) = Some col -> 0 <= i <= tr_max t ->
  trace_signal_value 1 (set_index t i) name "" =
  match znth col i with Some bits => SVal (value_of_text bits) | None => SErr EOther end.
Proof. exact loaded_value_at. Qed.
Print Assumptions value_at_index.

(** non-vacuity: a document with nested scopes, a shared code, a change before
    the first timestamp, a repeated change, x values and a comment is well formed,
    and its reading is the expected one *)
Definition ex_doc : vcd_doc := mkDoc
  [HMisc "$date" ["today"]; HTimescale2 "1" "ns"; HScope "module" "top";
   HVar "wire" 1 "!" "clk" None; HScope "module" "u[2]"; HVar "reg" 8 "#" "data" (Some "[7:0]");
   HVar "wire" 1 "!" "c2" None; HUpscope; HUpscope; HMisc "$comment" ["$var"; "x"]]
  [DScalar "1" "!"; DTime 0; DSkip "$dumpvars"; DVector "x" "#"; DSkip "$end"; DTime 5;
   DScalar "0" "!"; DScalar "1" "!"; DVector "1010" "#"; DComment ["b1"; "#9"]; DTime 7; DScalar "z" "!"].
Example ex_doc_wf : wf_doc ex_doc = true /\ forallb is_token (render_doc ex_doc) = true.
Proof. split; vm_compute; reflexivity. Qed.
Example ex_doc_reading :
  map d_name (decls (d_header ex_doc) []) = ["top.clk"; "top.u<2>.data"; "top.u<2>.c2"] /\
  times (d_dump ex_doc) = [0; 5; 7] /\
  values (d_dump ex_doc) "!" "x" = ["1"; "1"; "z"] /\
  values (d_dump ex_doc) "#" "x" = ["x"; "1010"; "1010"].
Proof. vm_compute. repeat split; reflexivity. Qed.
