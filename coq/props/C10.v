(** C10 — reader is total and literals denote their values in every position.
    Statements only; proofs in proofs/ReaderProofs.v.  The reader model (Reader.v) is a total
    Gallina function: every text yields an expression, a ParseError or "outside the model".
    PARTIAL: that the implementation (Lark) raises nothing but ParseError, and that it agrees
    with the model on every text, is decided by the differential check (random and mutated
    texts), not by a theorem; layout invariance is proved (end of this file) for white space in every
    position of expressions built from integers, strings, symbols, booleans, operators and lists; comments
    and the remaining forms by the differential check. *)
From WalModel Require Import Reader.
From WalModel.proofs Require Import CsvProofs ReaderProofs.
Local Open Scope Z_scope.

(** decimal, signed, 0x and 0b literals of any length denote their value wherever a primary
    expression may stand (top level, list element, after ' ` , ,@, @ offset, slice bound): the
    continuation [rest] is arbitrary apart from not continuing the numeral *)
Theorem decimal_literal : forall f ds rest,
  all_digits ds = true -> ds <> EmptyString -> slen ds <= 4000 -> number_end rest = true ->
  p_primary (S f) (ds ++ rest) = ROk (VInt (dv ds)) rest.
Proof. exact decimal_literal_anywhere. Qed.
Print Assumptions decimal_literal.

Theorem signed_literal : forall f (neg : bool) ds rest,
  all_digits ds = true -> ds <> EmptyString -> slen ds <= 4000 -> number_end rest = true ->
  p_primary (S f) (String (if neg then "-" else "+")%char (ds ++ rest)) = ROk (VInt (if neg then - dv ds else dv ds)) rest.
Proof. exact signed_literal_anywhere. Qed.
Print Assumptions signed_literal.

Theorem hex_literal : forall f hs rest,
  sall is_hex hs = true -> hs <> EmptyString -> number_end rest = true ->
  p_primary (S f) ("0x" ++ hs ++ rest) = ROk (VInt (hv hs)) rest.
Proof. exact hex_literal_anywhere. Qed.
Print Assumptions hex_literal.

Theorem bin_literal : forall f bs rest,
  sall is_bin bs = true -> bs <> EmptyString -> number_end rest = true ->
  p_primary (S f) ("0b" ++ bs ++ rest) = ROk (VInt (bv bs)) rest.
Proof. exact bin_literal_anywhere. Qed.
Print Assumptions bin_literal.

(** [dv] is the mathematical value: it inverts the decimal numeral of any natural number *)
Theorem dv_is_the_value : forall z, 0 <= z -> all_digits (numeral 10 z) = true /\ dv (numeral 10 z) = z.
Proof. intros z Hz. split; [apply numeral10_digits|apply dv_numeral10]; exact Hz. Qed.
Print Assumptions dv_is_the_value.

(** a whole text consisting of one decimal numeral reads as that integer (whole input consumed) *)
Theorem read_decimal_text : forall ds,
  all_digits ds = true -> ds <> EmptyString -> slen ds <= 4000 -> read_sexpr ds = ROk (VInt (dv ds)) EmptyString.
Proof. exact read_decimal. Qed.
Print Assumptions read_decimal_text.

(** string literals denote the characters given by their escape sequences: for the escapes the
    printer writes (backslash, quote, newline, tab, carriage return) and any other ASCII character *)
Theorem string_literal : forall f s rest, p_primary (S f) (quote_string s ++ rest) = ROk (VStr s) rest.
Proof. exact string_literal_roundtrip. Qed.
Print Assumptions string_literal.

(** leading white space does not change what is read *)
Theorem leading_whitespace : forall ws s fuel, sall is_ws ws = true -> (String.length ws <= fuel)%nat ->
  skip_inter (String.length ws + fuel) (ws ++ s) = skip_inter fuel s.
Proof. exact skip_inter_ws. Qed.
Print Assumptions leading_whitespace.

(** booleans, other escapes, comments, shebang: by computation on the model *)
Example literal_examples :
  read_sexpr "#t" = ROk (VBool true) "" /\ read_sexpr "false" = ROk (VBool false) "" /\
  read_sexpr "(0b101 0x1F -12)" = ROk (WL [VInt 5; VInt 31; VInt (-12)]) "" /\
  read_sexpr "sig@-2" = ROk (WL [VOp OReval; Sy "sig"; VInt (-2)]) "" /\
  read_sexpr "a[0x10:0b1]" = ROk (WL [VOp OSlice; Sy "a"; VInt 16; VInt 1]) "" /\
  read_sexpr (String (ch 34) (String (ch 92) (String "x" (String "4" (String "1" (String (ch 34) "")))))) = ROk (VStr "A") "" /\
  read_sexprs (String "#" (String "!" ("/usr/bin/wal" ++ String (ch 10) ("; c" ++ String (ch 10) "(a) 1")))) = ROk [WL [Sy "a"]; VInt 1] "".
Proof. vm_compute. repeat split; reflexivity. Qed.

(** * layout (proofs/LayoutProofs.v)
    [gap g]: g consists of white space (space, tab, newline, form feed, carriage return) and ;-comments, each comment
    running to a line break.  [renders e text]: text is the expression e written with ANY gap after an opening
    bracket, and any gap that is empty or starts with white space between list elements and before a closing
    bracket (the empty list is written "()" only: "( )" is a parse error in the implementation).  For the expression
    class of C11 ([RoundTrip.simple]: integers, strings, plain symbols, booleans, operators, nested lists) every
    such text, also surrounded by gaps -- the last one may end in a comment without line break -- reads as e. *)
From WalModel.proofs Require Import RoundTrip LayoutProofs.

Theorem layout_does_not_matter : forall e text lead trail,
  renders e text -> simple e = true -> gap lead -> tgap trail ->
  read_sexpr (lead ++ text ++ trail) = ROk e "".
Proof. exact read_with_layout. Qed.
Print Assumptions layout_does_not_matter.

Theorem white_space_does_not_matter : forall e text lead trail,
  renders e text -> simple e = true -> wsp lead -> wsp trail ->
  read_sexpr (lead ++ text ++ trail) = ROk e "".
Proof. exact read_with_white_space. Qed.
Print Assumptions white_space_does_not_matter.

Theorem layout_in_context : forall e text, renders e text -> simple e = true ->
  (forall f rest, (5 * vsize e + 4 <= f)%nat -> delim rest -> p_sexpr f (text ++ rest) = ROk e (inter rest)) /\
  exists c t, text = String c t /\ good_first c.
Proof. exact layout_roundtrip. Qed.
Print Assumptions layout_in_context.

(** what the gaps are *)
Theorem gap_is : forall g, gap g <->
  (g = "" \/ (exists c w, g = String c w /\ is_ws c = true /\ gap w) \/
   (exists body n w, g = String ";"%char (body ++ String n w) /\
                     sall (fun c => negb (is_nl c) && plain_char c) body = true /\ is_nl n = true /\ gap w)).
Proof.
  intros g. split.
  - intros H. destruct H as [|c w Hc Hw|body n w Hb Hn Hw]; [left; reflexivity|right; left|right; right]; eauto 10.
  - intros [->|[(c & w & -> & Hc & Hw)|(body & n & w & -> & Hb & Hn & Hw)]]; constructor; assumption.
Qed.
Print Assumptions gap_is.

Theorem separating_and_trailing_gaps : forall t,
  (wgap t <-> gap t /\ match t with EmptyString => True | String c _ => is_ws c = true end) /\
  (tgap t <-> exists g tail, t = g ++ tail /\ wgap g /\ (g = "" -> tail = "") /\
                (tail = "" \/ exists body, tail = String ";"%char body /\
                                 sall (fun c => negb (is_nl c) && plain_char c) body = true)).
Proof. intros t. split; reflexivity. Qed.
Print Assumptions separating_and_trailing_gaps.

Ltac ws := first [apply wsp_wgap; reflexivity | apply wsp_gap; reflexivity].
Example a_layout :
  renders (WL [VOp OAdd; VInt 1; WL [VSym "f" None; VStr "s"]])
          ("(" ++ String (ascii_of_N 10) "  " ++ "+" ++ "   " ++ "1" ++ String (ascii_of_N 9) "" ++ ("(" ++ "" ++ "f" ++ " " ++ """s""" ++ " " ++ ")") ++ "" ++ ")").
Proof.
  apply (r_list (VOp OAdd) _ (String (ascii_of_N 10) "  ")); [ws|].
  apply (b_cons (VOp OAdd) (VInt 1) _ "+" "   "); [apply (r_atom (VOp OAdd)); discriminate|ws|discriminate|].
  apply (b_cons (VInt 1) _ _ "1" (String (ascii_of_N 9) "")); [apply (r_atom (VInt 1)); discriminate|ws|discriminate|].
  apply (b_last _ ("(" ++ "" ++ "f" ++ " " ++ """s""" ++ " " ++ ")") ""); [|ws].
  apply (r_list (VSym "f" None) _ ""); [ws|].
  apply (b_cons (VSym "f" None) (VStr "s") [] "f" " "); [apply (r_atom (VSym "f" None)); discriminate|ws|discriminate|].
  apply (b_last (VStr "s") """s""" " "); [apply (r_atom (VStr "s")); discriminate|ws].
Qed.

(** comments between the tokens:   (; sum<nl>  + ; op<nl> 1 2)  ; done   *)
Definition c1 : string := String ";"%char (" sum" ++ String (ascii_of_N 10) "  ").
Definition c2 : string := String " "%char (String ";"%char (" op" ++ String (ascii_of_N 10) " ")).
Example a_gap : gap c1 /\ wgap c2.
Proof.
  split.
  - apply (g_comment " sum" (ascii_of_N 10) "  "); [reflexivity|reflexivity|apply wsp_gap; reflexivity].
  - split; [|reflexivity]. apply g_ws; [reflexivity|].
    apply (g_comment " op" (ascii_of_N 10) " "); [reflexivity|reflexivity|apply wsp_gap; reflexivity].
Qed.
Example a_layout_with_comments :
  read_sexpr ("" ++ ("(" ++ c1 ++ "+" ++ c2 ++ "1" ++ " " ++ "2" ++ "" ++ ")") ++ "  ; done") = ROk (WL [VOp OAdd; VInt 1; VInt 2]) "".
Proof.
  apply layout_does_not_matter; [|reflexivity|constructor|].
  - apply (r_list (VOp OAdd) _ c1); [apply a_gap|].
    apply (b_cons (VOp OAdd) (VInt 1) _ "+" c2); [apply (r_atom (VOp OAdd)); discriminate|apply a_gap|discriminate|].
    apply (b_cons (VInt 1) (VInt 2) [] "1" " "); [apply (r_atom (VInt 1)); discriminate|ws|discriminate|].
    apply (b_last (VInt 2) "2" ""); [apply (r_atom (VInt 2)); discriminate|ws].
  - exists "  ", "; done". repeat split; [ws|discriminate|]. right. exists " done". split; reflexivity.
Qed.

(** a single-expression read consumes the entire input *)
From WalModel.proofs Require ReadWhole.
Theorem a_successful_read_leaves_nothing_over : forall s v r, read_sexpr s = ROk v r -> r = EmptyString.
Proof. exact ReadWhole.read_consumes_the_whole_text. Qed.
Print Assumptions a_successful_read_leaves_nothing_over.
Theorem text_left_after_the_expression_is_an_error : forall s v c r,
  modelled_text s = true -> p_sexpr (reader_fuel s) s = ROk v (String c r) -> read_sexpr s = RErr.
Proof. exact ReadWhole.leftover_text_is_an_error. Qed.
Print Assumptions text_left_after_the_expression_is_an_error.
Example two_expressions_in_a_single_read_are_rejected :
  read_sexpr "1 2" = RErr /\ read_sexpr "(+ 1 2) (exit 1)" = RErr /\ read_sexpr "1 " = ROk (VInt 1) "".
Proof. exact ReadWhole.two_expressions_are_rejected. Qed.
Print Assumptions two_expressions_in_a_single_read_are_rejected.
