(** C02 — time navigation is exact and bounds-safe.  Statements only; proofs in proofs/NavProofs.v *)
From WalModel Require Import Eval.
From WalModel.proofs Require Import NavProofs.
Local Open Scope Z_scope.

(** one trace: a request by n moves by exactly n iff the target is in 0..MAX-INDEX, else nothing moves *)
Theorem step_exact : forall t n,
  trace_step t n = if in_range t n then (set_index t (tr_index t + n), None) else (t, Some (tr_tid t)).
Proof. exact trace_step_spec. Qed.
Print Assumptions step_exact.

Theorem step_only_moves_index : forall t n,
  tr_index (fst (trace_step t n)) = (if in_range t n then tr_index t + n else tr_index t) /\
  tr_max (fst (trace_step t n)) = tr_max t /\ tr_tid (fst (trace_step t n)) = tr_tid t /\
  tr_data (fst (trace_step t n)) = tr_data t /\ tr_ts (fst (trace_step t n)) = tr_ts t /\
  (snd (trace_step t n) = None <-> in_range t n = true).
Proof. exact trace_step_moves. Qed.
Print Assumptions step_only_moves_index.

(** every index stays within 0..MAX-INDEX over every history of step requests
    (global or named, any amounts) *)
Theorem index_always_in_range : forall ops c, cont_ok c -> cont_ok (fold_left apply_nav ops c).
Proof. exact nav_invariant. Qed.
Print Assumptions index_always_in_range.

(** global request: every trace moves iff its own target is in range; success iff all are *)
Theorem global_step : forall c n c' ended,
  cont_step c n None = Some (c', ended) ->
  (forall id, alookup id (c_traces c') = option_map (fun t => fst (trace_step t n)) (alookup id (c_traces c))) /\
  (ended = [] <-> forallb (fun p => in_range (snd p) n) (c_traces c) = true) /\
  c_ntraces c' = c_ntraces c /\ c_stack c' = c_stack c.
Proof. exact cont_step_all. Qed.
Print Assumptions global_step.

(** named request: only that trace can move *)
Theorem named_step_isolated : forall c n id t c' ended,
  id <> "" -> alookup id (c_traces c) = Some t ->
  cont_step c n (Some id) = Some (c', ended) ->
  alookup id (c_traces c') = Some (fst (trace_step t n)) /\
  (forall id', id' <> id -> alookup id' (c_traces c') = alookup id' (c_traces c)) /\
  (ended = [] <-> in_range t n = true) /\
  c_ntraces c' = c_ntraces c /\ c_stack c' = c_stack c.
Proof. exact cont_step_named. Qed.
Print Assumptions named_step_isolated.

(** INDEX, MAX-INDEX and TS read afterwards are those of the resulting index *)
Theorem observations_follow_index : forall nt t scope,
  trace_ok t ->
  trace_signal_value nt t "INDEX" scope = SVal (VInt (tr_index t)) /\
  trace_signal_value nt t "MAX-INDEX" scope = SVal (VInt (tr_max t)) /\
  trace_signal_value nt t "TS" scope =
    match znth (tr_ts t) (tr_index t) with Some ts => SVal (VInt ts) | None => SErr EOther end.
Proof. exact observe_index_ts. Qed.
Print Assumptions observations_follow_index.

(** the (step n) operator of the evaluator, for any operand expression *)
Theorem step_operator : forall ev a n st st',
  c_traces (st_cont st) <> [] ->
  ev a st = Ok (VInt n) st' ->
  exists c' ended,
    cont_step (st_cont st') n None = Some (c', ended) /\
    op_step ev [a] st = Ok (VBool (forallb (fun p => in_range (snd p) n) (c_traces (st_cont st')))) (upd_cont st' c').
Proof. exact op_step_amount. Qed.
Print Assumptions step_operator.

Definition ex_trace : trace := mkTrace "t" "f" 2 4 [0;5;7;9;11] [0;5;7;9;11] None [] [] [] [] [].
Example ex_ok : trace_ok ex_trace /\ fst (trace_step ex_trace 3) = ex_trace /\ tr_index (fst (trace_step ex_trace (-2))) = 0.
Proof. unfold trace_ok. cbn. repeat split; lia. Qed.

(** the special signal names of the model (INDEX, TS, MAX-INDEX, ...) are those regenerated from /repo on this run *)
From WalModel Require Generated.
From WalModel.proofs Require GeneratedTies.
Theorem special_signals_are_the_repositorys : special_signals = Generated.special_signals_gen.
Proof. exact GeneratedTies.special_signals_are_the_repositorys. Qed.
Print Assumptions special_signals_are_the_repositorys.
