(** C07 — static variable resolution never changes program behaviour.
    Statements only; proofs in proofs/EnvProofs.v.
    PARTIAL.  Proved: the core of the argument - whenever the static scope stack describes the
    dynamic frame chain ([chain_matches]: frame j above the current one binds exactly the names
    recorded for scope j), a symbol resolved to distance k reads and writes exactly the binding
    that dynamic lookup finds; and what the resolver computes is the distance of the innermost
    scope recording the name.  Not proved: that [chain_matches] is maintained by the whole
    evaluator for every resolvable program (the induction over evaluation); the whole-program
    statement is decided by the differential check (resolved vs dynamic runs on fresh
    interpreters, exhaustive binder chains to depth 5). *)
From WalModel Require Import Eval.
From WalModel.proofs Require Import EnvProofs.
Local Open Scope Z_scope.

(** the resolver's distance: innermost static scope that records the name *)
Theorem resolver_distance : forall scopes id k0 k,
  scope_steps scopes id k0 = Some k ->
  exists j, k = (k0 + j)%nat /\
            (exists sc, nth_error scopes j = Some sc /\ smem id sc = true) /\
            forall i sc, (i < j)%nat -> nth_error scopes i = Some sc -> smem id sc = false.
Proof. exact scope_steps_spec. Qed.
Print Assumptions resolver_distance.

(** skipping k frames that do not bind a name never changes what lookup finds (any fuel) *)
Theorem skipping_nonbinding_frames : forall k st id name fid fuel,
  hop st id k = Some fid ->
  (forall j fj, (j < k)%nat -> hop st id j = Some fj -> binds st fj name = false) ->
  find_frame (k + fuel) st id name = find_frame fuel st fid name.
Proof. exact lookup_skips_nonbinding. Qed.
Print Assumptions skipping_nonbinding_frames.

(** T-res (core): resolved read = dynamic read, and the frame a resolved assignment stores into
    is the frame dynamic assignment stores into *)
Theorem resolution_agrees : forall ev scopes st name k,
  chain_matches st scopes ->
  scope_steps scopes name O = Some k ->
  (k <= List.length (st_frames st))%nat ->
  alookup name (st_aliases st) = None -> cont_contains (st_cont st) name = Some false ->
  eval_symbol ev name (Some k) st = eval_symbol ev name None st /\
  exists fid, hop st (st_cur st) k = Some fid /\ lookup_frame st (st_cur st) name = Some fid.
Proof. exact resolution_agrees_with_dynamic_lookup. Qed.
Print Assumptions resolution_agrees.

(** non-vacuity: a two-frame chain (global binds x; a let frame binds y) matches its scope stack,
    and x resolves to distance 1 *)
Definition ex_st : state :=
  mkState [mkFrame [("x", VInt 1)] None; mkFrame [("y", VInt 2)] (Some O)] 1 [] empty_container "" "" [] 0 [] [].
Example ex_chain : chain_matches ex_st [["y"]; ["x"]] /\ scope_steps [["y"]; ["x"]] "x" O = Some 1%nat.
Proof.
  split; [|reflexivity]. intros j sc H.
  destruct j as [|j]; [cbn in H; injection H as <-|destruct j as [|j]; [cbn in H; injection H as <-|destruct j; discriminate]].
  - exists 1%nat. split; [reflexivity|]. intros x. unfold binds, amem. cbn. destruct (String.eqb x "y"); reflexivity.
  - exists O. split; [reflexivity|]. intros x. unfold binds, amem. cbn. destruct (String.eqb x "x"); reflexivity.
Qed.

(** resolution only annotates (proofs/ResolveProofs.v): erasing the distances from the resolved form gives the
    original form — the resolved program is the same program with hints on its symbols, so the two runs can differ
    only where a hinted symbol is read or written, which is what [resolution_agrees] covers.  [binary_defines]:
    no define has more than two operands (the pass keeps the first two, as the code does). *)
From WalModel.proofs Require Import ResolveProofs.
Theorem resolution_only_annotates : forall start e e',
  binary_defines e = true -> resolve start e = RsOk e' -> erase e' = erase e.
Proof. exact resolve_erase. Qed.
Print Assumptions resolution_only_annotates.

Theorem resolution_only_annotates_any_scopes : forall f sc e e' sc',
  binary_defines e = true -> resolve_vars f sc e = RsOk (e', sc') -> erase e' = erase e.
Proof. exact resolve_vars_erase. Qed.
Print Assumptions resolution_only_annotates_any_scopes.

Theorem erase_is : forall e, erase e =
  match e with
  | VSym n _ => VSym n None
  | VList w l => VList w (map erase l)
  | VUnq x => VUnq (erase x)
  | VUnqS x => VUnqS (erase x)
  | _ => e
  end.
Proof. intros e. destruct e; reflexivity. Qed.
Print Assumptions erase_is.

(** resolving twice is resolving once (also used by C16) *)
Theorem resolution_idempotent : forall f sc e e' sc',
  resolve_vars f sc e = RsOk (e', sc') -> resolve_vars f sc e' = RsOk (e', sc').
Proof. exact resolve_vars_idem. Qed.
Print Assumptions resolution_idempotent.

(** * T-res for let / set / read-only operators nested to any depth (proofs/ResolveLet.v)
    [fragE V e]: e is built from literals, variables of V, the read-only operators (arithmetic, comparison, logic,
    bitwise, slice, if, do), while, print, (set (x e) ...) and (let ([x init] ...) body ...) with read-only initialisers, nested
    arbitrarily.  [Inv V [start] st]: the global frame binds exactly the names of [start], no virtual signals, and no
    name of V is an alias or a signal (the quantifier of the property).  For every such program the resolved program
    and the program as written evaluate to the SAME outcome -- value or error, and final state -- for every fuel:
    an assignment or a use any number of frames below its binding reaches the same binding, with or without shadowing.
    Proved like the other whole-fragment theorems (a relation on computations carrying "the static scope stack
    describes the dynamic frame chain", one rule per combinator, one congruence lemma per operator, induction on fuel). *)
From WalModel.proofs Require ResolveLet.

Theorem resolution_preserves_let_programs : forall V start e e' lf f st,
  ResolveLet.fragE V e = true -> resolve start e = RsOk e' -> ResolveLet.Inv V [start] st ->
  eval lf f e' st = eval lf f e st.
Proof. exact ResolveLet.resolution_preserves. Qed.
Print Assumptions resolution_preserves_let_programs.

(** the same for any annotation that is correct w.r.t. a static scope stack, at any depth inside binders; the final
    state satisfies the invariant again and the context is balanced *)
Theorem correctly_annotated_programs_agree : forall V lf f sc e' e, ResolveLet.ann V sc e' e ->
  forall st, ResolveLet.Inv V sc st ->
    eval lf f e' st = eval lf f e st /\
    forall a st', eval lf f e st = Ok a st' -> ResolveLet.Inv V sc st' /\ Balanced.R st st'.
Proof. intros V lf f sc e' e H. exact (ResolveLet.resolved_agrees V lf f sc e' e H). Qed.
Print Assumptions correctly_annotated_programs_agree.

Theorem the_pass_annotates_correctly : forall V start e e',
  ResolveLet.fragE V e = true -> resolve start e = RsOk e' -> ResolveLet.ann V [start] e' e.
Proof. exact ResolveLet.resolve_annotates. Qed.
Print Assumptions the_pass_annotates_correctly.

Theorem the_invariant_is : forall V sc st, ResolveLet.Inv V sc st <->
  (ReadOnly.novirt st /\
   (forall j scj, nth_error sc j = Some scj ->
      exists fj f, hop st (st_cur st) j = Some fj /\ get_frame st fj = Some f /\ forall x, amem x (f_binds f) = smem x scj) /\
   (List.length sc <= List.length (st_frames st))%nat /\
   forall n, smem n V = true -> alookup n (st_aliases st) = None /\ cont_contains (st_cont st) n = Some false).
Proof. intros. reflexivity. Qed.
Print Assumptions the_invariant_is.

Theorem the_let_fragment_is : forall V e, ResolveLet.fragE V e =
  match e with
  | VInt _ | VBool _ | VStr _ | VFloat _ => true
  | VSym n None => smem n V
  | VList true (VOp OLet :: VList true bs :: body) =>
      forallb (fun b => match b with VList true [VSym _ _; init] => ReadOnly.is_ro init | _ => false end) bs &&
      forallb (ResolveLet.fragE V) body
  | VList true (VOp OSet :: bs) =>
      forallb (fun b => match b with VList true [VSym kn None; e] => smem kn V && ResolveLet.fragE V e | _ => false end) bs
  | VList true (VOp o :: args) =>
      (ReadOnly.ro_op o || match o with OWhile | OPrint => true | _ => false end) && forallb (ResolveLet.fragE V) args
  | _ => false
  end.
Proof. intros V e. destruct e as [| | | | |n s| |w l| | | | |]; try reflexivity. Qed.
Print Assumptions the_let_fragment_is.

(** met by: global g; (let ([x 1]) (let ([y 2]) (let ([x 10]) (set (g (+ g x y)))) (set (x (+ x y)))) (+ x g)) --
    an assignment three frames below its binding past a shadowing x, one two frames below *)
Example a_nested_program : ResolveLet.fragE ResolveLet.demo_V ResolveLet.demo_prog = true /\
  ResolveLet.Inv ResolveLet.demo_V [["g"]] ResolveLet.demo_state /\
  (exists e', resolve ["g"] ResolveLet.demo_prog = RsOk e' /\ e' <> ResolveLet.demo_prog) /\
  (forall e' lf f, resolve ["g"] ResolveLet.demo_prog = RsOk e' ->
     eval lf f e' ResolveLet.demo_state = eval lf f ResolveLet.demo_prog ResolveLet.demo_state) /\
  exists st', eval 20 20 ResolveLet.demo_prog ResolveLet.demo_state = Ok (VInt 20) st'.
Proof.
  split; [exact ResolveLet.demo_in_fragment|]. split; [exact ResolveLet.demo_inv|]. split; [exact ResolveLet.demo_resolved|].
  split; [exact ResolveLet.demo_agrees|exact ResolveLet.demo_value].
Qed.

(** and by a loop:  (let ([i 0]) (while (< i 3) (set (i (+ i 1))) (set (g (+ g i)))) (print g) g) *)
Example a_loop_program : ResolveLet.fragE ResolveLet.demo_V ResolveLet.loop_prog = true /\
  (forall e' lf f, resolve ["g"] ResolveLet.loop_prog = RsOk e' ->
     eval lf f e' ResolveLet.demo_state = eval lf f ResolveLet.loop_prog ResolveLet.demo_state) /\
  exists st', eval 20 20 ResolveLet.loop_prog ResolveLet.demo_state = Ok (VInt 11) st' /\ output_of st' = String "1" (String "1" (String (Ascii.ascii_of_nat 10) "")).
Proof.
  split; [reflexivity|]. split; [exact ResolveLet.loop_agrees|]. eexists. vm_compute. split; reflexivity.
Qed.

(** quoted data is never annotated by the pass, whatever it contains *)
From WalModel.proofs Require QuoteProofs.
Theorem resolve_leaves_quoted_data_alone : forall start args,
  resolve start (WL (VOp OQuote :: args)) = RsOk (WL (VOp OQuote :: args)) /\
  resolve start (WL (VOp OQuasiquote :: args)) = RsOk (WL (VOp OQuasiquote :: args)).
Proof. exact QuoteProofs.resolve_leaves_quoted. Qed.
Print Assumptions resolve_leaves_quoted_data_alone.
