(** C08 — the optimisation pass never changes observable behaviour.
    Statements only; proofs in proofs/OptProofs.v.
    PARTIAL.  Proved: every rewrite rule of the pass (Passes.optimize_node and the &&/|| folding of
    Passes.optimize_opt) is an equation of the evaluator - same value, same type, same state, hence
    same output, assignments and trace movements - for any state and any sub-evaluator that returns
    literals unchanged; a folded operand list consists of literals only, so no side-effecting
    sub-expression is ever dropped or reordered by a rule; the congruence step for the fragments of
    OptRo.v / OptLet.v (read-only operators, let/set/while/print at any depth); quoted data is left alone
    and nothing but the listed shapes is rewritten (QuoteProofs.v, OptOnly.v).  Not proved: the congruence
    step for code captured in closures and quoted data that is evaluated later; products with float
    literals (1*f = f in IEEE arithmetic).  These are decided by the differential check (with vs without
    the pass, exhaustive small trees). *)
From WalModel Require Import Eval.
From WalModel.proofs Require Import EvalArith OptProofs.
Local Open Scope Z_scope.

Theorem literals_evaluate_to_themselves : forall lf f v st, is_lit v = true -> eval lf (S f) v st = Ok v st.
Proof. exact eval_literal. Qed.
Print Assumptions literals_evaluate_to_themselves.

Section Rules.
  Variable ev : val -> M val.
  Hypothesis Hlit : forall v st, is_lit v = true -> ev v st = Ok v st.

  (** (if lit then else) => then / else *)
  Theorem rule_if_true : forall c t rest st,
    is_lit c = true -> lit_truthy c = true -> (List.length rest <= 1)%nat -> op_if ev (c :: t :: rest) st = ev t st.
  Proof. exact (if_literal_true ev Hlit). Qed.
  Theorem rule_if_false : forall c t e st,
    is_lit c = true -> lit_truthy c = false -> op_if ev [c; t; e] st = ev e st.
  Proof. exact (if_literal_false ev Hlit). Qed.

  (** (do x) => x *)
  Theorem rule_do_single : forall x st, op_do ev [x] st = ev x st.
  Proof. exact (do_single ev). Qed.

  (** (+ lit...) => sum / concatenation, computed with the evaluator's own arithmetic (ints, bools, floats) *)
  Theorem rule_add_numbers : forall args v st,
    forallb is_num_lit args = true -> lit_sum args = Some v -> op_add ev args st = Ok v st.
  Proof. exact (add_numeric_literals ev Hlit). Qed.
  Theorem rule_add_strings : forall args st,
    forallb is_str_lit args = true -> args <> [] -> op_add ev args st = Ok (VStr (sconcat (map str_of_lit args))) st.
  Proof. exact (add_string_literals ev Hlit). Qed.

  (** ( * int...) => product *)
  Theorem rule_mul_integers : forall z z2 zs st,
    exists v, lit_prod (ints (z :: z2 :: zs)) = Some v /\ op_mul ev (ints (z :: z2 :: zs)) st = Ok v st.
  Proof. exact (mul_integer_literals ev Hlit). Qed.

  (** (&& lit...) / (|| lit...) => the boolean the evaluator computes *)
  Theorem rule_and : forall args st,
    forallb is_lit args = true -> args <> [] -> op_and ev args st = Ok (VBool (forallb lit_truthy args)) st.
  Proof. exact (and_literals ev Hlit). Qed.
  Theorem rule_or : forall args st,
    forallb is_lit args = true -> args <> [] -> op_or ev args st = Ok (VBool (existsb lit_truthy args)) st.
  Proof. exact (or_literals ev Hlit). Qed.
End Rules.
Print Assumptions rule_if_true.
Print Assumptions rule_if_false.
Print Assumptions rule_do_single.
Print Assumptions rule_add_numbers.
Print Assumptions rule_add_strings.
Print Assumptions rule_mul_integers.
Print Assumptions rule_and.
Print Assumptions rule_or.

(** the pass applies exactly these rules: a node is rewritten only in the situations above *)
Example pass_examples :
  optimize (WL [VOp OIf; VInt 0; Sy "a"; Sy "b"]) = Sy "b" /\
  optimize (WL [VOp OMul; VInt 0; WL [VOp OPrint; VStr "a"]]) = WL [VOp OMul; VInt 0; WL [VOp OPrint; VStr "a"]] /\
  optimize (WL [VOp OAnd; VInt 5]) = VBool true /\
  optimize (WL [VOp OAnd; Sy "e"; VInt 0]) = WL [VOp OAnd; Sy "e"; VInt 0] /\
  optimize (WL [VOp OOr; VInt 0; VStr ""]) = VBool false /\
  optimize (WL [VOp OAdd; VInt 1; WL [VOp OMul; VInt 2; VInt 3]]) = VInt 7.
Proof. vm_compute. repeat split; reflexivity. Qed.

(** * T-opt for a fragment, congruence included (proofs/OptRo.v)
    [ron e]: e is built from integer/boolean/string literals, names, + - * ** mod, comparison, logic (! && ||),
    bitwise operators, slice, if and do, nested arbitrarily (no float literals, no division).  For every such
    expression: if the unoptimised expression completes, the optimised one completes with the same value and the
    same final state.  The proof combines, by induction on the fuel: the pass stays inside the fragment; the
    operators use their operands only through the evaluator (one congruence lemma per operator); every folding
    step is sound for an evaluator that returns literals unchanged (the rule equations above); and fuel
    monotonicity (C06) for the rules that replace a form by one of its operands. *)
From WalModel.proofs Require OptRo.
Theorem optimize_preserves_completed_evaluations : forall lf f e st v st',
  OptRo.ron e = true -> optimize_modelled e = true ->
  eval lf f e st = Ok v st' -> eval lf (S f) (optimize e) st = Ok v st'.
Proof. exact OptRo.optimize_preserves_ro. Qed.
Print Assumptions optimize_preserves_completed_evaluations.

Theorem the_fragment_is : forall e, OptRo.ron e =
  match e with
  | VInt _ | VBool _ | VStr _ | VSym _ _ => true
  | VList _ (VOp o :: args) => OptRo.ron_op o && forallb OptRo.ron args
  | _ => false
  end.
Proof. intros e. destruct e; reflexivity. Qed.
Print Assumptions the_fragment_is.

Theorem the_pass_stays_in_the_fragment : forall e e', OptRo.ron e = true -> optimize_opt e = Some e' -> OptRo.ron e' = true.
Proof. exact OptRo.optimize_ron. Qed.
Print Assumptions the_pass_stays_in_the_fragment.

Example a_nested_fold :
  optimize (WL [VOp OAdd; VSym "x" None; WL [VOp OIf; WL [VOp OAnd; VInt 1; VInt 2]; WL [VOp OMul; VInt 3; VInt 4]; VSym "y" None]])
  = WL [VOp OAdd; VSym "x" None; VInt 12].
Proof. reflexivity. Qed.

(** * T-opt with binders and effects (proofs/OptLet.v): the fragment extended by while, print, (set (x e) ...) and
    (let ([x init] ...) body ...), nested arbitrarily.  If the unoptimised program completes, the optimised one
    completes with the same value and the same final state -- same output, same assignments, same frames. *)
From WalModel.proofs Require OptLet.
Theorem optimize_preserves_programs_with_binders_and_effects : forall lf f e st v st',
  OptLet.rox e = true -> optimize_modelled e = true ->
  eval lf f e st = Ok v st' -> eval lf (S f) (optimize e) st = Ok v st'.
Proof. exact OptLet.optimize_preserves_x. Qed.
Print Assumptions optimize_preserves_programs_with_binders_and_effects.

Theorem the_extended_fragment_is : forall e, OptLet.rox e =
  match e with
  | VInt _ | VBool _ | VStr _ | VSym _ _ => true
  | VList true (VOp OLet :: VList true bs :: body) =>
      forallb (fun b => match b with VList true [VSym _ _; e] => OptLet.rox e | _ => false end) bs && forallb OptLet.rox body
  | VList true (VOp OSet :: bs) =>
      forallb (fun b => match b with VList true [VSym _ _; e] => OptLet.rox e | _ => false end) bs
  | VList _ (VOp o :: args) =>
      (OptRo.ron_op o || match o with OWhile | OPrint => true | _ => false end) && forallb OptLet.rox args
  | _ => false
  end.
Proof. intros e. destruct e; reflexivity. Qed.
Print Assumptions the_extended_fragment_is.

Theorem the_pass_stays_in_the_extended_fragment : forall e e', OptLet.rox e = true -> optimize_opt e = Some e' -> OptLet.rox e' = true.
Proof. exact OptLet.optimize_rox. Qed.
Print Assumptions the_pass_stays_in_the_extended_fragment.

(** a let with a folded initialiser, a while whose bound is a product of literals, a set with a folded if, a print of concatenated strings *)
Example a_program_with_binders : 
  let p := WL [VOp OLet; WL [WL [VSym "n" None; WL [VOp OAdd; VInt 1; VInt 2]]];
               WL [VOp OWhile; WL [VOp OLt; VSym "n" None; WL [VOp OMul; VInt 2; VInt 5]];
                   WL [VOp OSet; WL [VSym "n" None; WL [VOp OAdd; VSym "n" None; WL [VOp OIf; VInt 1; VInt 2; VInt 3]]]];
                   WL [VOp OPrint; WL [VOp OAdd; VStr "a"; VStr "b"]; VSym "n" None]];
               VSym "n" None] in
  OptLet.rox p = true /\
  optimize p = WL [VOp OLet; WL [WL [VSym "n" None; VInt 3]];
                   WL [VOp OWhile; WL [VOp OLt; VSym "n" None; VInt 10];
                       WL [VOp OSet; WL [VSym "n" None; WL [VOp OAdd; VSym "n" None; VInt 2]]];
                       WL [VOp OPrint; VStr "ab"; VSym "n" None]];
                   VSym "n" None].
Proof. split; reflexivity. Qed.

(** quoted data is never rewritten by the pass, whatever it contains *)
From WalModel.proofs Require QuoteProofs.
Theorem optimize_leaves_quoted_data_alone : forall w args,
  optimize (VList w (VOp OQuote :: args)) = VList w (VOp OQuote :: args) /\
  optimize (VList w (VOp OQuasiquote :: args)) = VList w (VOp OQuasiquote :: args).
Proof. exact QuoteProofs.optimize_leaves_quoted. Qed.
Print Assumptions optimize_leaves_quoted_data_alone.

(** * nothing else is rewritten *)
From WalModel.proofs Require OptOnly.
Theorem the_pass_at_a_node : forall o args,
  o <> OQuote -> o <> OQuasiquote -> o <> OAnd -> o <> OOr ->
  optimize_opt (VList true (VOp o :: args)) =
  match map_opt optimize_opt args with
  | Some args' => optimize_node true o (VOp o :: args')
  | None => None
  end.
Proof. exact OptOnly.optimize_at_a_node. Qed.
Print Assumptions the_pass_at_a_node.
Theorem other_operators_are_left_alone : forall w o l',
  o <> OIf -> o <> ODo -> o <> OAdd -> o <> OMul -> optimize_node w o l' = Some (VList true l').
Proof. exact OptOnly.other_operators_untouched. Qed.
Print Assumptions other_operators_are_left_alone.
Theorem an_if_with_a_nonliteral_condition_is_left_alone : forall w h c rest,
  is_lit c = false -> optimize_node w OIf (h :: c :: rest) = Some (VList true (h :: c :: rest)).
Proof. exact OptOnly.if_with_nonliteral_condition_untouched. Qed.
Print Assumptions an_if_with_a_nonliteral_condition_is_left_alone.
Theorem a_do_with_several_operands_is_left_alone : forall w l',
  List.length l' <> 2%nat -> optimize_node w ODo l' = Some (VList true l').
Proof. exact OptOnly.do_with_several_operands_untouched. Qed.
Print Assumptions a_do_with_several_operands_is_left_alone.
Theorem a_plus_with_mixed_operands_is_left_alone : forall w l',
  forallb is_num_lit (tl l') = false -> forallb is_str_lit (tl l') = false ->
  optimize_node w OAdd l' = Some (VList true l').
Proof. exact OptOnly.plus_with_mixed_operands_untouched. Qed.
Print Assumptions a_plus_with_mixed_operands_is_left_alone.
Theorem a_product_with_a_nonliteral_is_left_alone : forall w l',
  forallb is_num_lit (tl l') = false -> optimize_node w OMul l' = Some (VList true l').
Proof. exact OptOnly.times_with_a_nonliteral_untouched. Qed.
Print Assumptions a_product_with_a_nonliteral_is_left_alone.
Theorem and_or_with_a_nonliteral_are_left_alone : forall w args,
  forallb is_lit args = false ->
  optimize (VList w (VOp OAnd :: args)) = VList w (VOp OAnd :: args) /\
  optimize (VList w (VOp OOr :: args)) = VList w (VOp OOr :: args).
Proof. exact OptOnly.and_or_with_a_nonliteral_untouched. Qed.
Print Assumptions and_or_with_a_nonliteral_are_left_alone.
