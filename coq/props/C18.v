(** C18 — CSV trace fidelity.  Statements only; proofs in proofs/CsvProofs.v.
    Proved here: the time-stamp conversion (seconds with 0..9 fractional digits
    -> integer nanoseconds) is exact for numerals of any length; cell values
    go through the same text->value conversion as VCD values (C09
    [to_value_binary]); the header walk renames every non-time column in place and
    lists the normalised names in order; the table walk puts the converted time
    cells, in row order, into the timestamps and each cell into the column of
    its header, in row order, wherever the time column stands.
    PARTIAL: splitting the text into lines and cells (strip, split on newline and
    comma) and the name normalisation regexes are tied to the code by the
    correspondence check, not by a theorem. *)
From WalModel Require Import Csv.
From WalModel.proofs Require Import ArithProofs CsvProofs.
Local Open Scope Z_scope.

Theorem ns_conversion_fraction : forall pre post,
  all_digits pre = true -> pre <> EmptyString -> all_digits post = true -> slen post <= 9 ->
  csv_time (pre ++ "." ++ post) = Some (dv pre * 10 ^ 9 + dv post * 10 ^ (9 - slen post)).
Proof. exact csv_time_fraction. Qed.
Print Assumptions ns_conversion_fraction.

Theorem ns_conversion_integer : forall pre,
  all_digits pre = true -> pre <> EmptyString -> csv_time pre = Some (dv pre * 10 ^ 9).
Proof. exact csv_time_integer. Qed.
Print Assumptions ns_conversion_integer.

(** [dv] is the decimal value: it inverts the numeral printer *)
Theorem dv_numeral : forall z, 0 <= z -> all_digits (numeral 10 z) = true -> dv (numeral 10 z) = z.
Proof.
  intros z Hz _. unfold dv. pose proof (numeral_value 10 z ltac:(lia) Hz) as H.
  unfold digits_val in H. destruct (numeral 10 z); [discriminate|]. rewrite H. reflexivity.
Qed.
Print Assumptions dv_numeral.

Example ns_examples :
  csv_time "0.000001" = Some 1000 /\ csv_time "12" = Some 12000000000 /\ csv_time "3." = Some 3000000000 /\
  csv_time "1.123456789" = Some 1123456789 /\ csv_time "1.1234567891" = Some 11234567891 /\ csv_time "x" = None.
Proof. vm_compute. repeat split; reflexivity. Qed.

(** the header walk ([ok_from]: each non-time header differs from the normalised names to its left) *)
Theorem header_walk : forall header, ok_from [] header ->
  csv_names (filter nontime header) header [] =
  Some (map ren header, map norm_csv_name (filter nontime header)).
Proof. exact csv_header_walk. Qed.
Print Assumptions header_walk.

(** the table walk: [p] = position of the time column, [raw] = the signal names *)
Theorem table_walk : forall p header raw rows,
  (forall row, In row rows -> List.length row = List.length header /\
                              exists cell t, nth_error row p = Some cell /\ csv_time cell = Some t) ->
  (forall k h, nth_error header k = Some h -> k <> p -> In h raw) ->
  exists data times,
    csv_rows rows header p (empty_cols raw) [] = Some (data, times) /\
    map (fun row => match nth_error row p with Some cell => csv_time cell | None => None end) rows = map Some times /\
    forall k h, nth_error header k = Some h -> k <> p ->
      (forall j h', nth_error header j = Some h' -> j <> p -> j <> k -> h' <> h) ->
      alookup h data = Some (flat_map (fun row => match nth_error row k with Some c => [c] | None => [] end) rows).
Proof. exact csv_table_walk. Qed.
Print Assumptions table_walk.

Example table_example :
  csv_rows [["1";"0.5";"x"]; ["0";"1.5";"1"]] ["a"; "Time [s]"; "b"] 1 (empty_cols ["a"; "b"]) [] =
  Some ([("a", ["1"; "0"]); ("b", ["x"; "1"])], [500000000; 1500000000]).
Proof. vm_compute. reflexivity. Qed.
