(** C18 — CSV trace fidelity.  Statements only; proofs in proofs/CsvProofs.v.
    Proved here: the time-stamp conversion (seconds with 0..9 fractional digits
    -> integer nanoseconds) is exact for numerals of any length; cell values
    go through the same text->value conversion as VCD values (C09
    [to_value_binary]).  The table walk (column order, position of the time
    column) is tied to the code by the correspondence check only — see
    MANIFEST level_note (partial). *)
From WalModel Require Import Csv.
From WalModel.proofs Require Import ArithProofs CsvProofs.
Local Open Scope Z_scope.

Theorem ns_conversion_fraction : forall pre post,
  all_digits pre = true -> pre <> EmptyString -> all_digits post = true -> slen post <= 9 ->
  csv_time (pre ++ "." ++ post) = Some (dv pre * 10 ^ 9 + dv post * 10 ^ (9 - slen post)).
Proof. exact csv_time_fraction. Qed.
Print Assumptions ns_conversion_fraction.

Theorem ns_conversion_integer : forall pre,
  all_digits pre = true -> pre <> EmptyString -> csv_time pre = Some (dv pre * 10 ^ 9).
Proof. exact csv_time_integer. Qed.
Print Assumptions ns_conversion_integer.

(** [dv] is the decimal value: it inverts the numeral printer *)
Theorem dv_numeral : forall z, 0 <= z -> all_digits (numeral 10 z) = true -> dv (numeral 10 z) = z.
Proof.
  intros z Hz _. unfold dv. pose proof (numeral_value 10 z ltac:(lia) Hz) as H.
  unfold digits_val in H. destruct (numeral 10 z); [discriminate|]. rewrite H. reflexivity.
Qed.
Print Assumptions dv_numeral.

Example ns_examples :
  csv_time "0.000001" = Some 1000 /\ csv_time "12" = Some 12000000000 /\ csv_time "3." = Some 3000000000 /\
  csv_time "1.123456789" = Some 1123456789 /\ csv_time "1.1234567891" = Some 11234567891 /\ csv_time "x" = None.
Proof. vm_compute. repeat split; reflexivity. Qed.
