(** C18 — CSV trace fidelity.  Statements only; proofs in proofs/CsvProofs.v.
    Proved here: the time-stamp conversion (seconds with 0..9 fractional digits
    -> integer nanoseconds) is exact for numerals of any length; cell values
    go through the same text->value conversion as VCD values (C09
    [to_value_binary]); the header walk renames every non-time column in place and
    lists the normalised names in order; the table walk puts the converted time
    cells, in row order, into the timestamps and each cell into the column of
    its header, in row order, wherever the time column stands.
    The reader as a whole (proofs/CsvFidelity.v): on the text of any well-formed
    table -- cells without comma and line break, one row per line -- the trace has
    the converted time cells as time stamps and every signal holds, at index i, the
    cell of row i in its column (splitting inverts joining, then the two walks).
    PARTIAL: the name normalisation regexes ([norm_csv_name]) are tied to the code
    by the correspondence check, not by a theorem; files are read as text by the
    runtime. *)
From WalModel Require Import Csv.
From WalModel.proofs Require Import ArithProofs CsvProofs CsvFidelity.
Local Open Scope Z_scope.

Theorem ns_conversion_fraction : forall pre post,
  all_digits pre = true -> pre <> EmptyString -> all_digits post = true -> slen post <= 9 ->
  csv_time (pre ++ "." ++ post) = Some (dv pre * 10 ^ 9 + dv post * 10 ^ (9 - slen post)).
Proof. exact csv_time_fraction. Qed.
Print Assumptions ns_conversion_fraction.

Theorem ns_conversion_integer : forall pre,
  all_digits pre = true -> pre <> EmptyString -> csv_time pre = Some (dv pre * 10 ^ 9).
Proof. exact csv_time_integer. Qed.
Print Assumptions ns_conversion_integer.

(** [dv] is the decimal value: it inverts the numeral printer *)
Theorem dv_numeral : forall z, 0 <= z -> all_digits (numeral 10 z) = true -> dv (numeral 10 z) = z.
Proof.
  intros z Hz _. unfold dv. pose proof (numeral_value 10 z ltac:(lia) Hz) as H.
  unfold digits_val in H. destruct (numeral 10 z); [discriminate|]. rewrite H. reflexivity.
Qed.
Print Assumptions dv_numeral.

Example ns_examples :
  csv_time "0.000001" = Some 1000 /\ csv_time "12" = Some 12000000000 /\ csv_time "3." = Some 3000000000 /\
  csv_time "1.123456789" = Some 1123456789 /\ csv_time "1.1234567891" = Some 11234567891 /\ csv_time "x" = None.
Proof. vm_compute. repeat split; reflexivity. Qed.

(** the header walk ([ok_from]: each non-time header differs from the normalised names to its left) *)
Theorem header_walk : forall header, ok_from [] header ->
  csv_names (filter nontime header) header [] =
  Some (map ren header, map norm_csv_name (filter nontime header)).
Proof. exact csv_header_walk. Qed.
Print Assumptions header_walk.

(** the table walk: [p] = position of the time column, [raw] = the signal names *)
Theorem table_walk : forall p header raw rows,
  (forall row, In row rows -> List.length row = List.length header /\
                              exists cell t, nth_error row p = Some cell /\ csv_time cell = Some t) ->
  (forall k h, nth_error header k = Some h -> k <> p -> In h raw) ->
  exists data times,
    csv_rows rows header p (empty_cols raw) [] = Some (data, times) /\
    map (fun row => match nth_error row p with Some cell => csv_time cell | None => None end) rows = map Some times /\
    forall k h, nth_error header k = Some h -> k <> p ->
      (forall j h', nth_error header j = Some h' -> j <> p -> j <> k -> h' <> h) ->
      alookup h data = Some (flat_map (fun row => match nth_error row k with Some c => [c] | None => [] end) rows).
Proof. exact csv_table_walk. Qed.
Print Assumptions table_walk.

Example table_example :
  csv_rows [["1";"0.5";"x"]; ["0";"1.5";"1"]] ["a"; "Time [s]"; "b"] 1 (empty_cols ["a"; "b"]) [] =
  Some ([("a", ["1"; "0"]); ("b", ["x"; "1"])], [500000000; 1500000000]).
Proof. vm_compute. reflexivity. Qed.

(** the reader as a whole.  [render]: cells joined by commas, rows by line breaks; [wf_table]: what a table must
    satisfy (spelled out below); the text may end in white space, as files do. *)
Theorem csv_fidelity : forall tid file text header rows p,
  csv_strip text = render header rows -> wf_table header rows p ->
  exists t times,
    csv_parse tid file text = POk t /\
    map (fun row => match nth_error row p with Some cell => csv_time cell | None => None end) rows = map Some times /\
    tr_ts t = times /\ tr_all_ts t = times /\ tr_lookup t = None /\ tr_index t = 0 /\ tr_max t = zlen rows - 1 /\
    tr_tid t = tid /\ tr_virt t = [] /\
    tr_raw t = map norm_csv_name (filter nontime header) /\
    forall k h, nth_error header k = Some h -> k <> p ->
      (forall j h', nth_error header j = Some h' -> j <> p -> j <> k -> norm_csv_name h' <> norm_csv_name h) ->
      forall i, access_data t (norm_csv_name h) i = option_map (fun row => nth k row "") (znth rows i).
Proof. exact CsvFidelity.csv_fidelity. Qed.
Print Assumptions csv_fidelity.

Theorem csv_fidelity_of_a_file : forall tid file header rows p w,
  edges_ok (render header rows) = true -> sall is_pyspace w = true -> wf_table header rows p ->
  exists t times,
    csv_parse tid file (render header rows ++ w) = POk t /\
    map (fun row => match nth_error row p with Some cell => csv_time cell | None => None end) rows = map Some times /\
    tr_ts t = times /\ tr_max t = zlen rows - 1 /\
    tr_raw t = map norm_csv_name (filter nontime header) /\
    forall k h, nth_error header k = Some h -> k <> p ->
      (forall j h', nth_error header j = Some h' -> j <> p -> j <> k -> norm_csv_name h' <> norm_csv_name h) ->
      forall i, access_data t (norm_csv_name h) i = option_map (fun row => nth k row "") (znth rows i).
Proof. exact CsvFidelity.csv_fidelity_of_a_file. Qed.
Print Assumptions csv_fidelity_of_a_file.

Theorem well_formed_table_means : forall header rows p, wf_table header rows p <->
  (nth_error header p = Some time_header /\
   (forall j, nth_error header j = Some time_header -> j = p) /\
   ok_from [] header /\
   Forall (fun s => free comma s /\ free nl s) header /\
   Forall (Forall (fun s => free comma s /\ free nl s)) rows /\
   (forall row, In row rows -> List.length row = List.length header) /\
   (forall row, In row rows -> exists cell t, nth_error row p = Some cell /\ csv_time cell = Some t)).
Proof.
  intros. split.
  - intros [H1 H2 H3 H4 H5 H6 H7]. repeat split; assumption.
  - intros (H1 & H2 & H3 & H4 & H5 & H6 & H7). split; assumption.
Qed.
Print Assumptions well_formed_table_means.

Theorem render_is : forall header rows,
  render header rows = sjoin (String nl "") (map (sjoin (String comma "")) (header :: rows)).
Proof. reflexivity. Qed.
Print Assumptions render_is.

Theorem splitting_inverts_joining : forall c l, l <> [] -> Forall (free c) l -> ssplit_char c (sjoin (String c "") l) = l.
Proof. exact split_join. Qed.
Print Assumptions splitting_inverts_joining.

(** a table meeting the premises (time column in the middle, a fraction, a bus column, trailing line break) *)
Example a_well_formed_table : wf_table demo_header demo_rows 1.
Proof. exact demo_wf. Qed.
Example it_reads_back : exists t,
  csv_parse "t" "f.csv" (render demo_header demo_rows ++ String nl "") = POk t /\
  tr_ts t = [0; 500000000; 2000000000] /\ tr_raw t = ["Chan_0"; "Data_"] /\
  access_data t "Data_" 1 = Some "0.5".
Proof. exact demo_reads_back. Qed.
