(** WawkParse.v — the expression fragment of the WAWK grammar (wawk/parser.py: rules expr, or_s, and_s, comp, sum_s,
    mul, neg, atom with numbers, symbols, strings without escapes, parentheses and calls) as a lexer and a
    recursive-descent parser with one function per precedence level, and the TreeToWal transformer on that fragment.
    The implementation uses Lark's Earley parser on the grammar text; this model is tied to it by the differential
    check (command wawkx).  Everything outside the fragment is [Unm], never a guess. (C20) *)
From WalModel Require Export Reader.
Local Open Scope Z_scope.

Inductive bop : Type := BOr | BAnd | BEq | BNe | BGt | BLt | BGe | BLe | BAdd | BSub | BMul | BDiv.

(** precedence level of a binary operator: one grammar rule per level *)
Definition lvl_op (o : bop) : nat :=
  match o with
  | BOr => 1 | BAnd => 2
  | BEq | BNe | BGt | BLt | BGe | BLe => 3
  | BAdd | BSub => 4
  | BMul | BDiv => 5
  end%nat.

Inductive wx : Type :=
  | WNum (z : Z)
  | WSym (s : string)
  | WStr (s : string)
  | WNot (e : wx)
  | WBin (o : bop) (a b : wx)
  | WCall (f : string) (args : list wx).

Inductive tok : Type :=
  | TNum (z : Z) | TSym (s : string) | TStr (s : string) | TOp (o : bop) | TBang | TLP | TRP | TComma.

(** * lexer *)
Definition is_ws (c : ascii) : bool :=                    (* common.WS: [ \t\f\r\n] *)
  let n := ascii_Z c in (n =? 32) || (n =? 9) || (n =? 12) || (n =? 13) || (n =? 10).
Definition is_sym_start (c : ascii) : bool := is_alpha c || (ascii_Z c =? 95).
Definition is_sym_char (c : ascii) : bool :=
  is_alpha c || is_digit c || (ascii_Z c =? 95) || (ascii_Z c =? 36) || (ascii_Z c =? 46).
Definition plain_string_char (c : ascii) : bool :=
  let n := ascii_Z c in (32 <=? n) && (n <=? 126) && negb (n =? 92) && negb (n =? 34).

Inductive lexres : Type := LOk (ts : list tok) | LErr | LUnm.
Definition lcons (t : tok) (r : lexres) : lexres := match r with LOk ts => LOk (t :: ts) | x => x end.

Definition head_is (p : ascii -> bool) (s : string) : bool := match s with String c _ => p c | EmptyString => false end.

(** skip ignored text: white space and // comments *)
Fixpoint skip_ignored (fuel : nat) (s : string) : string :=
  match fuel with
  | O => s
  | S f =>
      match s with
      | String c r =>
          if is_ws c then skip_ignored f r
          else if (ascii_Z c =? 47) && head_is (fun x => ascii_Z x =? 47) r then skip_ignored f (skip_line r)
          else s
      | EmptyString => s
      end
  end.


(** [operand]: the previous token ends an operand, so + and - are operators here *)
Fixpoint lex (fuel : nat) (operand : bool) (s : string) : lexres :=
  match fuel with
  | O => LUnm
  | S f =>
      match s with
      | EmptyString => LOk []
      | String c r =>
          let n := ascii_Z c in
          if is_ws c then lex f operand r
          else if (n =? 47) && head_is (fun x => ascii_Z x =? 47) r then lex f operand (skip_line r)
          else if is_digit c then
            let '(ds, rest) := span_p is_digit s in
            match digits_val 10 ds with Some z => lcons (TNum z) (lex f true rest) | None => LUnm end
          else if ((n =? 45) || (n =? 43)) && negb operand && head_is is_digit r then
            let '(ds, rest) := span_p is_digit r in
            match digits_val 10 ds with
            | Some z => lcons (TNum (if n =? 45 then - z else z)) (lex f true rest)
            | None => LUnm
            end
          else if is_sym_start c then
            let '(name, rest) := span_p is_sym_char s in
            (* ignored text inside a base_symbol is dropped by the implementation's parser: a b reads as ab *)
            if head_is is_sym_char (skip_ignored (S (String.length rest)) rest) then LUnm
            else lcons (TSym name) (lex f true rest)
          else if n =? 34 then
            let '(body, rest) := span_p plain_string_char r in
            match rest with
            | String q rest' => if ascii_Z q =? 34 then lcons (TStr body) (lex f true rest') else LUnm
            | EmptyString => LErr
            end
          else if n =? 40 then lcons TLP (lex f false r)
          else if n =? 41 then lcons TRP (lex f true r)
          else if n =? 44 then lcons TComma (lex f false r)
          else
            let two (d : Z) (o : bop) (otherwise : lexres) :=
              match r with
              | String c2 r2 => if ascii_Z c2 =? d then lcons (TOp o) (lex f false r2) else otherwise
              | EmptyString => otherwise
              end in
            if n =? 33 then                                         (* ! or != *)
              if operand then two 61 BNe LErr
              else if head_is (fun x => ascii_Z x =? 61) r then LUnm else lcons TBang (lex f false r)
            else if n =? 61 then two 61 BEq LUnm                    (* == ; a single = is an assignment *)
            else if n =? 62 then two 61 BGe (lcons (TOp BGt) (lex f false r))
            else if n =? 60 then two 61 BLe (lcons (TOp BLt) (lex f false r))
            else if n =? 38 then two 38 BAnd LErr
            else if n =? 124 then two 124 BOr LErr
            else if n =? 43 then lcons (TOp BAdd) (lex f false r)
            else if n =? 45 then lcons (TOp BSub) (lex f false r)
            else if n =? 42 then lcons (TOp BMul) (lex f false r)
            else if n =? 47 then lcons (TOp BDiv) (lex f false r)
            else LUnm
      end
  end.

(** * parser: one function per grammar rule *)
Definition pres : Type := option (wx * list tok).

(** left-associative level:  x (op x)*  with the operators of one level *)
Fixpoint chainl (next : list tok -> pres) (level : nat) (n : nat) (acc : wx) (ts : list tok) : pres :=
  match n with
  | O => None
  | S k =>
      match ts with
      | TOp o :: r =>
          if Nat.eqb (lvl_op o) level then
            match next r with
            | Some (b, r') => chainl next level k (WBin o acc b) r'
            | None => None
            end
          else Some (acc, ts)
      | _ => Some (acc, ts)
      end
  end.

Definition level (next : list tok -> pres) (lv : nat) (n : nat) (ts : list tok) : pres :=
  match next ts with
  | Some (a, r) => chainl next lv n a r
  | None => None
  end.

(** comp: sum_s comp_op sum_s | sum_s  (not associative) *)
Definition p_comp (next : list tok -> pres) (ts : list tok) : pres :=
  match next ts with
  | Some (a, TOp o :: r) =>
      if Nat.eqb (lvl_op o) 3 then
        match next r with
        | Some (b, r') => Some (WBin o a b, r')
        | None => None
        end
      else Some (a, TOp o :: r)
  | x => x
  end.

(** neg: u_op neg | atom *)
Fixpoint p_neg (atom : list tok -> pres) (ts : list tok) : pres :=
  match ts with
  | TBang :: r => match p_neg atom r with Some (e, r') => Some (WNot e, r') | None => None end
  | _ => atom ts
  end.

(** the arguments of a call after the first: ("," expr)* ")" *)
Fixpoint p_args (expr : list tok -> pres) (n : nat) (acc : list wx) (ts : list tok) : option (list wx * list tok) :=
  match n with
  | O => None
  | S k =>
      match ts with
      | TRP :: r => Some (rev acc, r)
      | TComma :: r => match expr r with Some (e, r') => p_args expr k (e :: acc) r' | None => None end
      | _ => None
      end
  end.

Definition p_atom (expr : list tok -> pres) (n : nat) (ts : list tok) : pres :=
  match ts with
  | TNum z :: r => Some (WNum z, r)
  | TStr s :: r => Some (WStr s, r)
  | TSym f :: TLP :: TRP :: r => Some (WCall f [], r)
  | TSym f :: TLP :: r =>
      match expr r with
      | Some (e, r') => match p_args expr n [e] r' with Some (args, r'') => Some (WCall f args, r'') | None => None end
      | None => None
      end
  | TSym s :: r => Some (WSym s, r)
  | TLP :: r => match expr r with Some (e, TRP :: r') => Some (e, r') | _ => None end
  | _ => None
  end.

(** expr = or_s; [fuel] bounds the nesting of parentheses and calls and the length of every operator chain *)
Fixpoint p_expr (fuel : nat) (ts : list tok) : pres :=
  match fuel with
  | O => None
  | S f =>
      let atom := p_atom (p_expr f) fuel in
      let neg := p_neg atom in
      let mul := level neg 5 fuel in
      let sum := level mul 4 fuel in
      let comp := p_comp sum in
      let and_ := level comp 2 fuel in
      level and_ 1 fuel ts
  end.

Definition parse_tokens (ts : list tok) : option wx :=
  match p_expr (S (List.length ts)) ts with
  | Some (e, []) => Some e
  | _ => None
  end.

(** * TreeToWal on the fragment *)
Definition bop_op (o : bop) : op :=
  match o with
  | BOr => OOr | BAnd => OAnd | BEq => OEq | BNe => ONeq | BGt => OGt | BLt => OLt | BGe => OGe | BLe => OLe
  | BAdd => OAdd | BSub => OSub | BMul => OMul | BDiv => ODiv
  end.

Fixpoint to_wal (e : wx) : val :=
  match e with
  | WNum z => VInt z
  | WSym s => VSym s None
  | WStr s => VStr s
  | WNot a => PL [VOp ONot; to_wal a]
  | WBin o a b => PL [VOp (bop_op o); to_wal a; to_wal b]
  | WCall f args =>
      PL ((match op_of_name f with Some o => VOp o | None => VSym f None end) :: map to_wal args)
  end.

Inductive xres : Type := XOk (v : val) | XErr | XUnm.

Definition wawk_expr (text : string) : xres :=
  match lex (S (String.length text)) false text with
  | LOk ts => match parse_tokens ts with Some e => XOk (to_wal e) | None => XErr end
  | LErr => XErr
  | LUnm => XUnm
  end.
