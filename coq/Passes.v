(** Passes.v — wal/passes.py optimize and resolve as coded (pure passes).
    expand needs the evaluator and lives in Eval.v. (C07 C08 C16) *)
From WalModel Require Export State.

(** * optimize *)
Definition is_lit (v : val) : bool :=
  match v with VInt _ | VBool _ | VFloat _ | VStr _ => true | _ => false end.
Definition is_num_lit (v : val) : bool :=
  match v with VInt _ | VBool _ | VFloat _ => true | _ => false end.
Definition is_str_lit (v : val) : bool :=
  match v with VStr _ => true | _ => false end.

(** truthiness of a literal (no heap needed) *)
Definition lit_truthy (v : val) : bool :=
  match v with
  | VBool b => b
  | VInt z => negb (z =? 0)
  | VFloat f => negb (f_is_zero f)
  | VStr s => negb (String.eqb s "")
  | _ => true
  end.

Definition num_add' (a b : num) : option num :=
  match a, b with
  | NInt x, NInt y => Some (NInt (x + y))
  | NInt x, NFloat g => if small_int x then Some (NFloat (f_add (f_of_Z x) g)) else None
  | NFloat f, NInt y => if small_int y then Some (NFloat (f_add f (f_of_Z y))) else None
  | NFloat f, NFloat g => Some (NFloat (f_add f g))
  end.
Definition num_mul' (a b : num) : option num :=
  match a, b with
  | NInt x, NInt y => Some (NInt (x * y))
  | NInt x, NFloat g => if small_int x then Some (NFloat (f_mul (f_of_Z x) g)) else None
  | NFloat f, NInt y => if small_int y then Some (NFloat (f_mul f (f_of_Z y))) else None
  | NFloat f, NFloat g => Some (NFloat (f_mul f g))
  end.
Fixpoint fold_num' (f : num -> num -> option num) (acc : num) (l : list num) : option num :=
  match l with
  | [] => Some acc
  | x :: r => match f acc x with Some a => fold_num' f a r | None => None end
  end.
Definition val_of_num' (n : num) : val :=
  match n with NInt z => VInt z | NFloat f => VFloat f end.
Definition n_floats (vs : list val) : nat :=
  List.length (filter (fun v => match v with VFloat _ => true | _ => false end) vs).

(** sum(...) / math.prod(...) over numeric literals; None = outside the
    float model (3+ float summands, huge int with float) *)
Definition lit_sum (vs : list val) : option val :=
  match map_opt as_num vs with
  | Some ns =>
      if Nat.leb 3 (n_floats vs) then None
      else match fold_num' num_add' (NInt 0) ns with
           | Some r => Some (val_of_num' r)
           | None => None
           end
  | None => None
  end.
Definition lit_prod (vs : list val) : option val :=
  match map_opt as_num vs with
  | Some ns => match fold_num' num_mul' (NInt 1) ns with
               | Some r => Some (val_of_num' r)
               | None => None
               end
  | None => None
  end.

Definition str_of_lit (v : val) : string := match v with VStr s => s | _ => "" end.

(** one rewriting step at a node whose children are already optimised.
    [None] in the float corner cases only (see [lit_sum]). *)
Definition optimize_node (w : bool) (o : op) (l' : list val) : option val :=
  (* l' = the whole mapped list, head included *)
  let self := VList true l' in
  match o with
  | OIf =>
      match l' with
      | _ :: c :: rest =>
          if is_lit c then
            if lit_truthy c then
              match rest with t :: _ => Some t | [] => Some self end
            else
              match rest with _ :: e :: _ => Some e | _ => Some self end
          else Some self
      | _ => Some self
      end
  | ODo =>
      match l' with
      | [_; x] => Some x
      | _ => Some self
      end
  | OAdd =>
      let args := tl l' in
      if forallb is_num_lit args then
        match lit_sum args with Some v => Some v | None => None end
      else if forallb is_str_lit args then Some (VStr (sconcat (map str_of_lit args)))
      else Some self
  | OMul =>
      let args := tl l' in
      if forallb is_num_lit args then
        match lit_prod args with Some v => Some v | None => None end
      else Some self
  | _ => Some self
  end.

(** the pass.  Python lists (w = false) reach the [.line_info] access and
    are returned unchanged, except under && and ||, which do not touch it. *)
Fixpoint optimize_opt (e : val) : option val :=
  match e with
  | VList w (VOp o :: args) =>
      match o with
      | OQuote | OQuasiquote => Some e
      | OAnd =>
          if forallb is_lit args && negb (Nat.eqb (List.length args) 0)
          then Some (VBool (forallb lit_truthy args)) else Some e
      | OOr =>
          if forallb is_lit args && negb (Nat.eqb (List.length args) 0)
          then Some (VBool (existsb lit_truthy args)) else Some e
      | _ =>
          if w then
            match map_opt optimize_opt args with
            | Some args' => optimize_node w o (VOp o :: args')
            | None => None
            end
          else Some e
      end
  | VList true (h :: args) =>
      match map_opt optimize_opt (h :: args) with
      | Some l' => Some (VList true l')
      | None => None
      end
  | _ => Some e
  end.

Definition optimize (e : val) : val :=
  match optimize_opt e with Some v => v | None => e end.
Definition optimize_modelled (e : val) : bool :=
  match optimize_opt e with Some _ => true | None => false end.

(** * resolve *)
Inductive rres (A : Type) : Type :=
  | RsOk (a : A)
  | RsErr (e : err).
Arguments RsOk {A}. Arguments RsErr {A}.

(** scopes: innermost first; the last element is the start dictionary *)
Fixpoint scope_steps (scopes : list (list string)) (id : string) (k : nat) : option nat :=
  match scopes with
  | [] => None
  | s :: r => if smem id s then Some k else scope_steps r id (S k)
  end.

Definition add_to_innermost (scopes : list (list string)) (n : string) : list (list string) :=
  match scopes with
  | s :: r => (if smem n s then s else n :: s) :: r
  | [] => []
  end.

Definition sym_name (v : val) : option string :=
  match v with VSym n _ => Some n | _ => None end.

Section ResolveList.
  Variable rv : list (list string) -> val -> rres (val * list (list string)).
  Fixpoint resolve_list (scopes : list (list string)) (l : list val)
    : rres (list val * list (list string)) :=
    match l with
    | [] => RsOk ([], scopes)
    | x :: r =>
        match rv scopes x with
        | RsErr e => RsErr e
        | RsOk (x', sc1) =>
            match resolve_list sc1 r with
            | RsErr e => RsErr e
            | RsOk (r', sc2) => RsOk (x' :: r', sc2)
            end
        end
    end.
End ResolveList.

Fixpoint resolve_vars (fuel : nat) (scopes : list (list string)) (e : val)
  : rres (val * list (list string)) :=
  match fuel with
  | O => RsErr EOther
  | S f =>
      let rv := resolve_vars f in
      match e with
      | VList true (h :: rest) =>
          match h with
          | VOp ODefine =>
              match rest with
              | id :: body :: _ =>
                  match sym_name id with
                  | None => RsErr EOther
                  | Some n =>
                      match scopes with
                      | inner :: _ =>
                          if smem n inner then RsErr EEval
                          else match rv scopes body with
                               | RsErr er => RsErr er
                               | RsOk (body', sc1) =>
                                   RsOk (WL [VOp ODefine; id; body'], add_to_innermost sc1 n)
                               end
                      | [] => RsErr EOther
                      end
                  end
              | [id] =>
                  match sym_name id with
                  | None => RsErr EOther
                  | Some n =>
                      match scopes with
                      | inner :: _ => if smem n inner then RsErr EEval else RsErr EOther
                      | [] => RsErr EOther
                      end
                  end
              | [] => RsErr EOther
              end
          | VOp OLet =>
              match rest with
              | bindings :: body =>
                  match bindings with
                  | VList _ bs =>
                      match map_opt (fun b => match b with
                                              | VList _ (k :: _) => sym_name k
                                              | _ => None
                                              end) bs with
                      | None => RsErr EOther
                      | Some names =>
                          match resolve_list rv (dedup_str names [] :: scopes) body with
                          | RsErr er => RsErr er
                          | RsOk (body', sc1) =>
                              RsOk (WL (VOp OLet :: bindings :: body'), tl sc1)
                          end
                      end
                  | _ => RsErr EOther
                  end
              | [] => RsErr EOther
              end
          | VOp OFn =>
              match rest with
              | params :: body =>
                  let env :=
                    match params with
                    | VList _ ps =>
                        if forallb (fun p => match p with VSym _ _ => true | _ => false end) ps
                        then RsOk (dedup_str (flat_map (fun p => match sym_name p with
                                                                 | Some n => [n] | None => [] end) ps) [])
                        else RsErr EEval
                    | VSym n _ => RsOk [n]
                    | _ => RsErr EEval
                    end in
                  match env with
                  | RsErr er => RsErr er
                  | RsOk names =>
                      match resolve_list rv (names :: scopes) body with
                      | RsErr er => RsErr er
                      | RsOk (body', sc1) => RsOk (WL (VOp OFn :: params :: body'), tl sc1)
                      end
                  end
              | [] => RsErr EOther
              end
          | VOp ODefmacro =>
              match rest with
              | id :: _ =>
                  match sym_name id with
                  | Some n => RsOk (e, add_to_innermost scopes n)
                  | None => RsErr EOther
                  end
              | [] => RsErr EOther
              end
          | VOp OQuote | VOp OQuasiquote | VOp OAlias => RsOk (e, scopes)
          | VOp OCase =>
              (* clause keys are data: only the key form and the consequents are resolved *)
              match rest with
              | [] => RsOk (e, scopes)
              | kf :: clauses =>
                  match rv scopes kf with
                  | RsErr er => RsErr er
                  | RsOk (kf', sc1) =>
                      let fix go (sc : list (list string)) (cs : list val)
                        : rres (list val * list (list string)) :=
                        match cs with
                        | [] => RsOk ([], sc)
                        | c :: r =>
                            match c with
                            | VList true (k :: body) =>
                                match resolve_list rv sc body with
                                | RsErr er => RsErr er
                                | RsOk (body', sc2) =>
                                    match go sc2 r with
                                    | RsErr er => RsErr er
                                    | RsOk (r', sc3) => RsOk (WL (k :: body') :: r', sc3)
                                    end
                                end
                            | _ =>
                                match go sc r with
                                | RsErr er => RsErr er
                                | RsOk (r', sc3) => RsOk (c :: r', sc3)
                                end
                            end
                        end in
                      match go sc1 clauses with
                      | RsErr er => RsErr er
                      | RsOk (cs', sc2) => RsOk (WL (VOp OCase :: kf' :: cs'), sc2)
                      end
                  end
              end
          | _ =>
              match resolve_list rv scopes (h :: rest) with
              | RsErr er => RsErr er
              | RsOk (l', sc1) => RsOk (WL l', sc1)
              end
          end
      | VSym n _ =>
          match scope_steps scopes n O with
          | Some k => RsOk (VSym n (Some k), scopes)
          | None => RsOk (e, scopes)
          end
      | _ => RsOk (e, scopes)
      end
  end.

Fixpoint val_depth (e : val) : nat :=
  match e with
  | VList _ l => S (fold_right (fun x acc => Nat.max (val_depth x) acc) O l)
  | VUnq x | VUnqS x => S (val_depth x)
  | _ => 1%nat
  end.

Definition resolve (start : list string) (e : val) : rres val :=
  match resolve_vars (S (val_depth e)) [start] e with
  | RsOk (v, _) => RsOk v
  | RsErr er => RsErr er
  end.
