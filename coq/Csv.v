(** Csv.v — wal/trace/csvtrace.py TraceCsv.parse as coded. (C18) *)
From WalModel Require Export Vcd.

Definition time_header : string := "Time [s]".

Definition norm_csv_name (s : string) : string :=
  norm_var_name (smap (fun c => if Ascii.eqb c " "%char then "_"%char else c) s).

Fixpoint index_of (x : string) (l : list string) : option nat :=
  match l with
  | [] => None
  | y :: r => if String.eqb x y then Some O
              else match index_of x r with Some n => Some (S n) | None => None end
  end.

Fixpoint replace_nth {A} (n : nat) (x : A) (l : list A) : list A :=
  match n, l with
  | O, _ :: r => x :: r
  | S k, y :: r => y :: replace_nth k x r
  | _, [] => []
  end.

(** the loop over [names]: rewrites the header in place and collects
    (rawsignals, data keys) *)
Fixpoint csv_names (names : list string) (header : list string) (raw : list string)
  : option (list string * list string) :=
  match names with
  | [] => Some (header, rev raw)
  | orig :: r =>
      let nm := norm_csv_name orig in
      match index_of orig header with
      | Some i => csv_names r (replace_nth i nm header) (nm :: raw)
      | None => None                       (* header.index: ValueError *)
      end
  end.

(** ^(\d+)\.?(\d+)?$  then  int(pre + post.ljust(9,'0')) *)
Definition csv_time (cell : string) : option Z :=
  let '(pre, r) := span_digits cell in
  match pre with
  | EmptyString => None
  | _ =>
      let r' := match r with
                | String c r2 => if Ascii.eqb c "."%char then r2 else r
                | EmptyString => r
                end in
      let '(post, r3) := span_digits r' in
      match r3 with
      | EmptyString =>
          let post' := match post with EmptyString => "0" | _ => post end in
          digits_val 10 (pre ++ post' ++ zeros (Z.to_nat (9 - slen post')))
      | _ => None
      end
  end.

(** append the cells of one row to their columns *)
Fixpoint csv_row_cells (cells header : list string) (x time_idx : nat)
         (data : list (string * list string)) : option (list (string * list string)) :=
  match cells with
  | [] => Some data
  | c :: cr =>
      match header with
      | [] => if Nat.eqb x time_idx then csv_row_cells cr [] (S x) time_idx data else None
      | h :: hr =>
          if Nat.eqb x time_idx then csv_row_cells cr hr (S x) time_idx data
          else match alookup h data with
               | Some col => csv_row_cells cr hr (S x) time_idx (aset h (col +++ [c]) data)
               | None => None
               end
      end
  end.

Fixpoint csv_rows (rows : list (list string)) (header : list string) (time_idx : nat)
         (data : list (string * list string)) (ts : list Z)
  : option (list (string * list string) * list Z) :=
  match rows with
  | [] => Some (data, rev ts)
  | row :: r =>
      match nth_error row time_idx with
      | None => None
      | Some cell =>
          match csv_time cell with
          | None => None
          | Some t =>
              match csv_row_cells row header O time_idx data with
              | None => None
              | Some data' => csv_rows r header time_idx data' (t :: ts)
              end
          end
      end
  end.

(** csvdata.lstrip("\r\n").rstrip(): line breaks are dropped in front (leading spaces belong to the first column
    name), all white space at the end *)
Definition is_crlf (c : ascii) : bool := (ascii_Z c =? 10) || (ascii_Z c =? 13).
Fixpoint lstrip_lines (s : string) : string :=
  match s with
  | String a r => if is_crlf a then lstrip_lines r else s
  | EmptyString => EmptyString
  end.
Definition csv_strip (s : string) : string := rstrip (lstrip_lines s).

Definition csv_parse (tid file text : string) : presult trace :=
  match ssplit_char (ch 10) (csv_strip text) with
  | [] => PErr EOther
  | hline :: lines =>
      let header := ssplit_char ","%char hline in
      let rows := map (ssplit_char ","%char) lines in
      match index_of time_header header with
      | None => PErr EOther
      | Some time_idx =>
          let names := filter (fun v => negb (String.eqb v time_header)) header in
          match csv_names names header [] with
          | None => PErr EOther
          | Some (header', raw) =>
              let data0 := fold_left (fun acc nm => aset nm [] acc) raw [] in
              match csv_rows rows header' time_idx data0 [] with
              | None => PErr EOther
              | Some (data, ts) =>
                  POk (mkTrace tid file 0 (zlen ts - 1) ts ts None raw data []
                               (map (fun nm => (nm, 1)) raw) [])
              end
          end
      end
  end.
