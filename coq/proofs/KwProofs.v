(** KwProofs.v — a keyword binding passed to Wal.eval is visible during that evaluation only (C17): the evaluation
    starts from the state in which the global name holds the given value; when a global of that name existed it holds
    its old value again afterwards, whatever the evaluation did to it; otherwise the name is removed again. *)
From WalModel Require Import Api.
From WalModel.proofs Require Import ScopeProofs.
From WalModel.proofs Require FrameInv.
Local Open Scope Z_scope.

(** the evaluation proper *)
Definition kw_body (fl : passes_flags) (e : val) : M val := if ast_truthy e then run_form fl e else ret VNone.

(** a name that is a global already: saved, overwritten, evaluated, restored *)
Theorem kw_shadowing fl e n v st r st' fid old :
  lookup_frame st global_id n = Some fid -> env_read global_id n st = Ok old st ->
  wal_eval_with fl e [(n, v)] st = Ok r st' ->
  exists st_b st_r,
    env_write global_id n v st = Ok tt st_b /\ env_read global_id n st_b = Ok v st_b /\
    kw_body fl e st_b = Ok r st_r /\
    env_write global_id n old st_r = Ok tt st' /\ env_read global_id n st' = Ok old st'.
Proof.
  intros Hl Hr H. unfold wal_eval_with in H. cbn [mapM fst snd] in H.
  unfold bind at 1 in H. unfold bind at 1 in H. unfold bind at 1 in H. unfold get_st at 1 in H. rewrite Hl in H.
  unfold bind at 1 in H. rewrite Hr in H. unfold bind at 1 in H.
  destruct (env_write global_id n v st) as [[] st_b| | |] eqn:Ew; try discriminate H.
  cbn [ret] in H. unfold bind at 1 in H. cbn [ret] in H.
  fold (kw_body fl e) in H. unfold bind at 1 in H.
  destruct (kw_body fl e st_b) as [r0 st_r| | |] eqn:Eb; try discriminate H.
  cbn [List.concat app fold_left aset fst snd] in H. cbn [alookup] in H. rewrite String.eqb_refl in H.
  unfold bind at 1 in H. unfold bind at 1 in H. unfold bind at 1 in H.
  destruct (env_write global_id n old st_r) as [[] st2| | |] eqn:Ew2; try discriminate H.
  cbn [ret] in H. injection H as <- <-.
  exists st_b, st_r. repeat split; try assumption.
  - exact (write_then_read _ _ _ _ _ Ew).
  - exact (write_then_read _ _ _ _ _ Ew2).
Qed.

(** a fresh name: defined, evaluated, removed *)
Theorem kw_fresh fl e n v st r st' :
  lookup_frame st global_id n = None ->
  wal_eval_with fl e [(n, v)] st = Ok r st' ->
  exists st_b st_r,
    env_define global_id n v st = Ok tt st_b /\
    kw_body fl e st_b = Ok r st_r /\
    env_undefine global_id n st_r = Ok tt st'.
Proof.
  intros Hl H. unfold wal_eval_with in H. cbn [mapM fst snd] in H.
  unfold bind at 1 in H. unfold bind at 1 in H. unfold bind at 1 in H. unfold get_st at 1 in H. rewrite Hl in H.
  unfold bind at 1 in H.
  destruct (env_define global_id n v st) as [[] st_b| | |] eqn:Ed; try discriminate H.
  cbn [ret] in H. unfold bind at 1 in H. cbn [ret] in H.
  fold (kw_body fl e) in H. unfold bind at 1 in H.
  destruct (kw_body fl e st_b) as [r0 st_r| | |] eqn:Eb; try discriminate H.
  cbn [List.concat app fold_left alookup] in H.
  unfold bind at 1 in H. unfold bind at 1 in H. unfold bind at 1 in H.
  destruct (env_undefine global_id n st_r) as [[] st2| | |] eqn:Eu; try discriminate H.
  cbn [ret] in H. injection H as <- <-.
  exists st_b, st_r. repeat split; assumption.
Qed.

(** what define and undefine do to the global frame *)
Definition gbinds (st : state) : list (string * val) :=
  match get_frame st global_id with Some f => f_binds f | None => [] end.

Lemma define_binds n v st st_b : env_define global_id n v st = Ok tt st_b -> gbinds st_b = (gbinds st ++ [(n, v)])%list.
Proof.
  unfold env_define, gbinds. destruct (get_frame st global_id) as [f|] eqn:Ef; [|discriminate].
  destruct (amem n (f_binds f)); [discriminate|]. intros H. injection H as <-.
  unfold get_frame, put_frame in *. cbn [upd_frames st_frames].
  rewrite replace_frame_nth by (apply nth_error_Some; congruence). reflexivity.
Qed.
Lemma undefine_binds n st_r st' : env_undefine global_id n st_r = Ok tt st' -> gbinds st' = adel n (gbinds st_r).
Proof.
  unfold env_undefine, gbinds. destruct (get_frame st_r global_id) as [f|] eqn:Ef; [|discriminate].
  destruct (amem n (f_binds f)); [|discriminate]. intros H. injection H as <-.
  unfold get_frame, put_frame in *. cbn [upd_frames st_frames].
  rewrite replace_frame_nth by (apply nth_error_Some; congruence). reflexivity.
Qed.

Lemma alookup_adel_nodup {V} k (l : list (string * V)) : NoDup (map fst l) -> alookup k (adel k l) = None.
Proof.
  induction l as [|[k' v] l IH]; intros Hn; [reflexivity|]. inversion Hn as [|? ? Hnot Hn']; subst.
  cbn [adel]. destruct (String.eqb k k') eqn:E.
  - apply String.eqb_eq in E. subst k'. cbn [fst] in Hnot.
    clear - Hnot. induction l as [|[k2 v2] l IH]; [reflexivity|]. cbn [alookup]. destruct (String.eqb k k2) eqn:E2.
    + apply String.eqb_eq in E2. subst. exfalso. apply Hnot. left. reflexivity.
    + apply IH. intros Hin. apply Hnot. right. exact Hin.
  - cbn [alookup]. rewrite E. apply IH, Hn'.
Qed.

Corollary kw_fresh_gone fl e n v st r st' :
  lookup_frame st global_id n = None -> wal_eval_with fl e [(n, v)] st = Ok r st' ->
  exists st_b st_r, gbinds st_b = (gbinds st ++ [(n, v)])%list /\ kw_body fl e st_b = Ok r st_r /\
    gbinds st' = adel n (gbinds st_r) /\ (NoDup (map fst (gbinds st_r)) -> alookup n (gbinds st') = None).
Proof.
  intros Hl H. destruct (kw_fresh fl e n v st r st' Hl H) as (st_b & st_r & Hd & Hb & Hu).
  exists st_b, st_r. split; [exact (define_binds _ _ _ _ Hd)|]. split; [exact Hb|]. split; [exact (undefine_binds _ _ _ Hu)|].
  intros Hn. rewrite (undefine_binds _ _ _ Hu). apply alookup_adel_nodup, Hn.
Qed.

(** with the frame invariant (FrameInv.v: no frame ever binds a name twice) the fresh name is unbound afterwards *)
Lemma good_kw_body fl e : FrameInv.good (kw_body fl e).
Proof. unfold kw_body. destruct (ast_truthy e); [apply FrameInv.good_run_form|apply FrameInv.good_ret]. Qed.

Lemma gbinds_distinct st : FrameInv.fwf st -> NoDup (map fst (gbinds st)).
Proof.
  intros W. unfold gbinds. destruct (get_frame st global_id) as [f|] eqn:Ef; [|constructor].
  exact (FrameInv.forall_get_frame _ _ _ _ W Ef).
Qed.

Theorem kw_fresh_unbound_afterwards fl e n v st r st' :
  FrameInv.fwf st -> lookup_frame st global_id n = None -> wal_eval_with fl e [(n, v)] st = Ok r st' ->
  alookup n (gbinds st') = None /\ FrameInv.fwf st'.
Proof.
  intros W Hl H. destruct (kw_fresh fl e n v st r st' Hl H) as (st_b & st_r & Hd & Hb & Hu).
  pose proof (FrameInv.good_env_define _ _ _ _ _ _ Hd W) as Wb.
  pose proof (good_kw_body fl e _ _ _ Hb Wb) as Wr.
  split.
  - rewrite (undefine_binds _ _ _ Hu). apply alookup_adel_nodup, gbinds_distinct, Wr.
  - exact (FrameInv.good_env_undefine _ _ _ _ _ Hu Wr).
Qed.

(** the premises are met: z is fresh, bound to 41 during the evaluation and gone afterwards; CS existed and is restored *)
Example kw_demo :
  exists st',
    wal_eval (WL [VOp OAdd; VSym "z" None; VInt 1]) [("z", VInt 41)] empty_state = Ok (VInt 42) st' /\
    lookup_frame empty_state global_id "z" = None /\ lookup_frame st' global_id "z" = None.
Proof. eexists. split; [vm_compute; reflexivity|]. split; vm_compute; reflexivity. Qed.
Example kw_demo_shadow :
  exists st',
    wal_eval (VSym "CS" None) [("CS", VStr "top")] empty_state = Ok (VStr "top") st' /\
    env_read global_id "CS" empty_state = Ok (VStr "") empty_state /\ env_read global_id "CS" st' = Ok (VStr "") st'.
Proof. eexists. split; [vm_compute; reflexivity|]. split; vm_compute; reflexivity. Qed.
