(** QuoteProofs.v — quoted data is code that the passes leave alone: optimize, resolve and expand return a quote or
    quasiquote form unchanged, whatever is inside (C07, C08, C15). *)
From WalModel Require Import Eval.
Local Open Scope Z_scope.

Theorem optimize_leaves_quoted w args :
  optimize (VList w (VOp OQuote :: args)) = VList w (VOp OQuote :: args) /\
  optimize (VList w (VOp OQuasiquote :: args)) = VList w (VOp OQuasiquote :: args).
Proof. split; destruct w; reflexivity. Qed.

Theorem resolve_leaves_quoted start args :
  resolve start (WL (VOp OQuote :: args)) = RsOk (WL (VOp OQuote :: args)) /\
  resolve start (WL (VOp OQuasiquote :: args)) = RsOk (WL (VOp OQuasiquote :: args)).
Proof. split; reflexivity. Qed.

Theorem expand_leaves_quoted ev ex w args parent st :
  expand_body ev ex (VList w (VOp OQuote :: args)) parent st = Ok (VList w (VOp OQuote :: args)) st /\
  expand_body ev ex (VList w (VOp OQuasiquote :: args)) parent st = Ok (VList w (VOp OQuasiquote :: args)) st.
Proof. split; reflexivity. Qed.

Corollary expand_leaves_quoted_any_fuel lf f w args parent st :
  expand lf (S f) (VList w (VOp OQuote :: args)) parent st = Ok (VList w (VOp OQuote :: args)) st.
Proof. reflexivity. Qed.

(** a quoted datum evaluates to itself, unevaluated *)
Theorem quote_returns_its_operand lf f w x st : eval lf (S (S f)) (VList w [VOp OQuote; x]) st = Ok x st.
Proof. reflexivity. Qed.
