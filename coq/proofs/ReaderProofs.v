(** ReaderProofs.v — numeric and string literals denote their values wherever an expression may
    stand, for numerals/strings of any length; printed strings read back (C10, C11). *)
From WalModel Require Import Reader.
From WalModel.proofs Require Import ArithProofs CsvProofs.
Local Open Scope Z_scope.

(** * scanning *)
Lemma span_p_app (p : ascii -> bool) (a r : string) :
  sall p a = true -> match r with EmptyString => True | String c _ => p c = false end ->
  span_p p (a ++ r) = (a, r).
Proof.
  intros Ha Hr. induction a as [|c a IH]; cbn [append].
  - destruct r as [|c r]; [reflexivity|]. cbn [span_p]. rewrite Hr. reflexivity.
  - cbn [sall] in Ha. apply andb_prop in Ha as [Hc Ha']. cbn [span_p]. rewrite Hc, (IH Ha'). reflexivity.
Qed.

(** what may follow a number: not a digit, not '.', and not a letter that would start a radix prefix *)
Definition number_end (r : string) : bool :=
  match r with
  | EmptyString => true
  | String c _ => negb (is_hex c) && negb (aZ c =? 46) && negb (aZ c =? 98) && negb (aZ c =? 120)
  end.

Lemma number_end_not_digit r : number_end r = true -> match r with EmptyString => True | String c _ => is_digit c = false end.
Proof.
  destruct r as [|c r]; [trivial|]. cbn [number_end]. intros H. apply andb_prop in H as [H _]. apply andb_prop in H as [H _]. apply andb_prop in H as [H _].
  unfold is_hex in H. apply negb_true_iff in H. apply orb_false_iff in H as [H _]. exact H.
Qed.
Lemma number_end_not_hex r : number_end r = true -> match r with EmptyString => True | String c _ => is_hex c = false end.
Proof.
  destruct r as [|c r]; [trivial|]. cbn [number_end]. intros H. apply andb_prop in H as [H _]. apply andb_prop in H as [H _]. apply andb_prop in H as [H _].
  apply negb_true_iff in H. exact H.
Qed.
Lemma number_end_not_bin r : number_end r = true -> match r with EmptyString => True | String c _ => is_bin c = false end.
Proof.
  intros H. pose proof (number_end_not_digit r H) as Hd. destruct r as [|c r]; [trivial|].
  unfold is_bin, is_digit in *. unfold aZ. destruct (ascii_Z c =? 48) eqn:E0; [apply Z.eqb_eq in E0; rewrite E0 in Hd; discriminate|].
  destruct (ascii_Z c =? 49) eqn:E1; [apply Z.eqb_eq in E1; rewrite E1 in Hd; discriminate|reflexivity].
Qed.

Lemma all_digits_first ds : all_digits ds = true -> ds <> EmptyString ->
  exists c r, ds = String c r /\ is_digit c = true.
Proof. destruct ds as [|c r]; [congruence|]. cbn. intros H _. apply andb_prop in H as [H _]. eauto. Qed.

Lemma digit_not_special c : is_digit c = true ->
  aZ c =? 45 = false /\ aZ c =? 43 = false /\ aZ c =? 98 = false /\ aZ c =? 120 = false /\ aZ c =? 46 = false.
Proof. unfold is_digit, aZ. intros H. apply andb_prop in H as [H1 H2]. repeat split; apply Z.eqb_neq; lia. Qed.

(** * decimal literals of any length *)
Theorem lex_decimal ds rest :
  all_digits ds = true -> ds <> EmptyString -> slen ds <= 4000 -> number_end rest = true ->
  lex_number (ds ++ rest) = Some (ROk (VInt (dv ds)) rest).
Proof.
  intros Hd Hne Hlen Hend.
  destruct (all_digits_first ds Hd Hne) as (c & r & -> & Hc).
  destruct (digit_not_special c Hc) as (Hm & Hp & Hb & Hx & Hdot).
  unfold lex_number.
  (* not a 0b literal *)
  assert (Hbin : match (String c r ++ rest)%string with
                 | String "0"%char (String "b"%char r0) =>
                     let '(ds, rest0) := span_p is_bin r0 in
                     match digits_val 2 ds with Some z => Some (ROk (VInt z) rest0) | None => None end
                 | _ => None
                 end = None).
  { cbn [append]. destruct (Ascii.eqb c "0"%char) eqn:E0.
    - apply Ascii.eqb_eq in E0. subst c. destruct r as [|c2 r2]; cbn [append].
      + destruct rest as [|c3 r3]; [reflexivity|]. cbn [number_end] in Hend.
        apply andb_prop in Hend as [Hend _]. apply andb_prop in Hend as [_ Hend]. apply negb_true_iff in Hend.
        destruct (Ascii.eqb c3 "b"%char) eqn:Eb; [apply Ascii.eqb_eq in Eb; subst c3; discriminate|].
        destruct c3 as [[] [] [] [] [] [] [] []]; try reflexivity; discriminate.
      + cbn [all_digits sall] in Hd. apply andb_prop in Hd as [_ Hd]. apply andb_prop in Hd as [Hd2 _].
        destruct (digit_not_special c2 Hd2) as (_ & _ & Hb2 & _).
        destruct c2 as [[] [] [] [] [] [] [] []]; try reflexivity; discriminate.
    - destruct c as [[] [] [] [] [] [] [] []]; try reflexivity; discriminate. }
  rewrite Hbin.
  assert (Hss : split_sign (String c r ++ rest) = (false, false, (String c r ++ rest)%string)).
  { cbn [append split_sign]. rewrite Hm, Hp. reflexivity. }
  rewrite Hss.
  rewrite (span_p_app is_digit (String c r) rest Hd (number_end_not_digit rest Hend)).
  assert (Hnodot : match rest with String "."%char _ => False | _ => True end).
  { destruct rest as [|c3 r3]; [trivial|]. cbn [number_end] in Hend.
    apply andb_prop in Hend as [Hend _]. apply andb_prop in Hend as [Hend _]. apply andb_prop in Hend as [_ Hend].
    apply negb_true_iff in Hend. destruct c3 as [[] [] [] [] [] [] [] []]; trivial; discriminate. }
  assert (Hhex : match (String c r ++ rest)%string with
                 | String "0"%char (String "x"%char r0) =>
                     let '(ds, rest0) := span_p is_hex r0 in
                     match digits_val 16 ds with Some z => Some (ROk (VInt z) rest0) | None => None end
                 | _ => None
                 end = None).
  { cbn [append]. destruct (Ascii.eqb c "0"%char) eqn:E0.
    - apply Ascii.eqb_eq in E0. subst c. destruct r as [|c2 r2]; cbn [append].
      + destruct rest as [|c3 r3]; [reflexivity|]. cbn [number_end] in Hend.
        apply andb_prop in Hend as [_ Hend]. apply negb_true_iff in Hend.
        destruct c3 as [[] [] [] [] [] [] [] []]; try reflexivity; discriminate.
      + cbn [all_digits sall] in Hd. apply andb_prop in Hd as [_ Hd]. apply andb_prop in Hd as [Hd2 _].
        destruct (digit_not_special c2 Hd2) as (_ & _ & _ & Hx2 & _).
        destruct c2 as [[] [] [] [] [] [] [] []]; try reflexivity; discriminate.
    - destruct c as [[] [] [] [] [] [] [] []]; try reflexivity; discriminate. }
  destruct (digits_val_acc_lin (String c r) Hd 0) as [Edv _].
  assert (Hval : digits_val 10 (String c r) = Some (dv (String c r))).
  { unfold digits_val. rewrite Edv. f_equal; try lia. }
  destruct rest as [|c3 r3].
  - rewrite Hhex. assert (E4 : (4000 <? slen (String c r)) = false) by (apply Z.ltb_ge; exact Hlen). rewrite E4, Hval. reflexivity.
  - destruct (Ascii.eqb c3 "."%char) eqn:Edot; [apply Ascii.eqb_eq in Edot; subst c3; contradiction|].
    assert (E4 : (4000 <? slen (String c r)) = false) by (apply Z.ltb_ge; exact Hlen).
    destruct c3 as [[] [] [] [] [] [] [] []]; try discriminate; rewrite Hhex, E4, Hval; reflexivity.
Qed.

(** * 0x... and 0b... literals of any length *)
Definition hv (s : string) : Z := match digits_val_acc 16 s 0 with Some v => v | None => 0 end.
Definition bv (s : string) : Z := match digits_val_acc 2 s 0 with Some v => v | None => 0 end.

Lemma digits_val_total base p (s : string) :
  (forall c, p c = true -> exists d, digit_val c = Some d /\ d <? base = true) ->
  sall p s = true -> forall acc, exists v, digits_val_acc base s acc = Some v.
Proof.
  intros Hp. induction s as [|c s IH]; intros Hs acc; [eexists; reflexivity|].
  cbn [sall] in Hs. apply andb_prop in Hs as [Hc Hs]. destruct (Hp c Hc) as [d [Hd Hlt]].
  cbn [digits_val_acc]. rewrite Hd, Hlt. apply IH. exact Hs.
Qed.

Lemma hex_digit_ok c : is_hex c = true -> exists d, digit_val c = Some d /\ d <? 16 = true.
Proof.
  unfold is_hex, is_digit, digit_val, aZ. intros H.
  destruct ((48 <=? ascii_Z c) && (ascii_Z c <=? 57)) eqn:E1.
  - eexists. split; [reflexivity|]. apply andb_prop in E1. apply Z.ltb_lt. lia.
  - cbn [orb] in H. destruct ((97 <=? ascii_Z c) && (ascii_Z c <=? 122)) eqn:E2.
    + eexists. split; [reflexivity|]. apply Z.ltb_lt. apply orb_prop in H as [H|H]; apply andb_prop in H; apply andb_prop in E2; lia.
    + destruct ((65 <=? ascii_Z c) && (ascii_Z c <=? 90)) eqn:E3.
      * eexists. split; [reflexivity|]. apply Z.ltb_lt. apply orb_prop in H as [H|H]; apply andb_prop in H; apply andb_prop in E3; lia.
      * exfalso. apply orb_prop in H as [H|H]; apply andb_prop in H as [Ha Hb].
        -- assert ((97 <=? ascii_Z c) && (ascii_Z c <=? 122) = true) by (apply andb_true_intro; split; lia). congruence.
        -- assert ((65 <=? ascii_Z c) && (ascii_Z c <=? 90) = true) by (apply andb_true_intro; split; lia). congruence.
Qed.

Lemma bin_digit_ok c : is_bin c = true -> exists d, digit_val c = Some d /\ d <? 2 = true.
Proof.
  unfold is_bin, aZ. intros H. apply orb_prop in H as [H|H]; apply Z.eqb_eq in H; unfold digit_val; rewrite H;
    eexists; (split; [reflexivity|reflexivity]).
Qed.

Theorem lex_hex hs rest :
  sall is_hex hs = true -> hs <> EmptyString -> number_end rest = true ->
  lex_number ("0x" ++ hs ++ rest) = Some (ROk (VInt (hv hs)) rest).
Proof.
  intros Hh Hne Hend. unfold lex_number. cbn [append].
  change (split_sign (String "0" (String "x" (hs ++ rest)))) with (false, false, String "0"%char (String "x"%char (hs ++ rest))).
  cbn [span_p]. change (is_digit "0"%char) with true. change (is_digit "x"%char) with false. cbn iota.
  rewrite (span_p_app is_hex hs rest Hh (number_end_not_hex rest Hend)).
  destruct hs as [|c r]; [congruence|].
  destruct (digits_val_total 16 is_hex (String c r) hex_digit_ok Hh 0) as [v Hv].
  unfold digits_val, hv. rewrite Hv. reflexivity.
Qed.

Theorem lex_bin bs rest :
  sall is_bin bs = true -> bs <> EmptyString -> number_end rest = true ->
  lex_number ("0b" ++ bs ++ rest) = Some (ROk (VInt (bv bs)) rest).
Proof.
  intros Hb Hne Hend. unfold lex_number. cbn [append].
  rewrite (span_p_app is_bin bs rest Hb (number_end_not_bin rest Hend)).
  destruct bs as [|c r]; [congruence|].
  destruct (digits_val_total 2 is_bin (String c r) bin_digit_ok Hb 0) as [v Hv].
  unfold digits_val, bv. rewrite Hv. reflexivity.
Qed.

(** signed decimals *)
Theorem lex_signed_decimal (neg : bool) ds rest :
  all_digits ds = true -> ds <> EmptyString -> slen ds <= 4000 -> number_end rest = true ->
  lex_number (String (if neg then "-" else "+")%char (ds ++ rest)) =
  Some (ROk (VInt (if neg then - dv ds else dv ds)) rest).
Proof.
  intros Hd Hne Hlen Hend. unfold lex_number.
  assert (Hss : split_sign (String (if neg then "-" else "+")%char (ds ++ rest)) = (true, neg, (ds ++ rest)%string)).
  { destruct neg; reflexivity. }
  assert (Hbin : match String (if neg then "-" else "+")%char (ds ++ rest) with
                 | String "0"%char (String "b"%char r0) =>
                     let '(ds0, rest0) := span_p is_bin r0 in
                     match digits_val 2 ds0 with Some z => Some (ROk (VInt z) rest0) | None => None end
                 | _ => None end = None) by (destruct neg; reflexivity).
  rewrite Hbin, Hss.
  rewrite (span_p_app is_digit ds rest Hd (number_end_not_digit rest Hend)).
  destruct (all_digits_first ds Hd Hne) as (c & r & -> & Hc).
  destruct (digits_val_acc_lin (String c r) Hd 0) as [Edv _].
  assert (Hval : digits_val 10 (String c r) = Some (dv (String c r))) by (unfold digits_val; rewrite Edv; f_equal; try lia).
  assert (E4 : (4000 <? slen (String c r)) = false) by (apply Z.ltb_ge; exact Hlen).
  assert (Hhex : match String (if neg then "-" else "+")%char (String c r ++ rest) with
                 | String "0"%char (String "x"%char r0) =>
                     let '(ds0, rest0) := span_p is_hex r0 in
                     match digits_val 16 ds0 with Some z => Some (ROk (VInt z) rest0) | None => None end
                 | _ => None end = None) by (destruct neg; reflexivity).
  destruct rest as [|c3 r3].
  - rewrite Hhex, E4, Hval. reflexivity.
  - assert (Hnd : Ascii.eqb c3 "."%char = false).
    { cbn [number_end] in Hend. apply andb_prop in Hend as [Hend _]. apply andb_prop in Hend as [Hend _]. apply andb_prop in Hend as [_ Hend].
      apply negb_true_iff in Hend. destruct (Ascii.eqb c3 "."%char) eqn:E; [apply Ascii.eqb_eq in E; subst; discriminate|reflexivity]. }
    destruct c3 as [[] [] [] [] [] [] [] []]; try discriminate; rewrite Hhex, E4, Hval; reflexivity.
Qed.

(** * the same in every position: a primary expression is parsed by [p_primary] wherever it stands
    (top level, list element, after a quote character, @ offset, slice bound) *)
Lemma digit_not_sym_first c : is_digit c = true -> is_sym_first c = false /\ aZ c =? 34 = false.
Proof.
  unfold is_digit, is_sym_first, is_alpha, is_lower, is_upper, aZ. intros H. apply andb_prop in H as [H1 H2].
  split; [|apply Z.eqb_neq; lia].
  repeat (apply orb_false_iff; split); try (apply andb_false_iff; (left; apply Z.leb_gt; lia) || (right; apply Z.leb_gt; lia)); apply Z.eqb_neq; lia.
Qed.

Theorem primary_number f s v rest :
  lex_number s = Some (ROk v rest) ->
  match s with String c _ => is_sym_first c = false /\ aZ c =? 34 = false | EmptyString => False end ->
  p_primary (S f) s = ROk v rest.
Proof.
  intros Hl Hc. destruct s as [|c r]; [contradiction|]. destruct Hc as [H1 H2].
  cbn [p_primary]. rewrite H1, H2, Hl. reflexivity.
Qed.

Theorem decimal_literal_anywhere f ds rest :
  all_digits ds = true -> ds <> EmptyString -> slen ds <= 4000 -> number_end rest = true ->
  p_primary (S f) (ds ++ rest) = ROk (VInt (dv ds)) rest.
Proof.
  intros Hd Hne Hlen Hend. apply primary_number; [apply lex_decimal; assumption|].
  destruct (all_digits_first ds Hd Hne) as (c & r & -> & Hc). cbn [append]. apply digit_not_sym_first. exact Hc.
Qed.

Theorem hex_literal_anywhere f hs rest :
  sall is_hex hs = true -> hs <> EmptyString -> number_end rest = true ->
  p_primary (S f) ("0x" ++ hs ++ rest) = ROk (VInt (hv hs)) rest.
Proof. intros. apply primary_number; [apply lex_hex; assumption|]. cbn [append]. split; reflexivity. Qed.

Theorem bin_literal_anywhere f bs rest :
  sall is_bin bs = true -> bs <> EmptyString -> number_end rest = true ->
  p_primary (S f) ("0b" ++ bs ++ rest) = ROk (VInt (bv bs)) rest.
Proof. intros. apply primary_number; [apply lex_bin; assumption|]. cbn [append]. split; reflexivity. Qed.

Theorem signed_literal_anywhere f (neg : bool) ds rest :
  all_digits ds = true -> ds <> EmptyString -> slen ds <= 4000 -> number_end rest = true ->
  p_primary (S f) (String (if neg then "-" else "+")%char (ds ++ rest)) = ROk (VInt (if neg then - dv ds else dv ds)) rest.
Proof. intros. apply primary_number; [apply lex_signed_decimal; assumption|]. destruct neg; split; reflexivity. Qed.

(** * strings: what the printer writes, the reader reads *)
Definition plain_char (c : ascii) : bool := aZ c <? 128.

Lemma lex_string_escape : forall s rest,
  lex_string (escape_string s ++ String (ch 34) rest) = Some (escape_string s, rest).
Proof.
  induction s as [|c s IH]; intros rest; cbn [escape_string append].
  - cbn [lex_string]. change (is_nl (ch 34)) with false. change (aZ (ch 34) =? 34) with true. reflexivity.
  - unfold aZ in *. destruct (ascii_Z c =? 92) eqn:E92.
    + apply Z.eqb_eq in E92. cbn [append lex_string]. unfold is_nl, aZ. rewrite E92. cbn [Z.eqb]. rewrite IH. reflexivity.
    + destruct (ascii_Z c =? 34) eqn:E34.
      * apply Z.eqb_eq in E34. cbn [append lex_string]. change (is_nl (ch 92)) with false. change (aZ (ch 92) =? 34) with false.
        change (aZ (ch 92) =? 92) with true. cbn iota. unfold is_nl, aZ. rewrite E34. cbn [Z.eqb]. rewrite IH. reflexivity.
      * destruct (ascii_Z c =? 10) eqn:E10.
        -- cbn [append lex_string]. change (is_nl (ch 92)) with false. change (aZ (ch 92) =? 34) with false.
           change (aZ (ch 92) =? 92) with true. cbn iota. change (is_nl "n"%char) with false. cbn iota. rewrite IH. reflexivity.
        -- destruct (ascii_Z c =? 9) eqn:E9.
           ++ cbn [append lex_string]. change (is_nl (ch 92)) with false. change (aZ (ch 92) =? 34) with false.
              change (aZ (ch 92) =? 92) with true. cbn iota. change (is_nl "t"%char) with false. cbn iota. rewrite IH. reflexivity.
           ++ destruct (ascii_Z c =? 13) eqn:E13.
              ** cbn [append lex_string]. change (is_nl (ch 92)) with false. change (aZ (ch 92) =? 34) with false.
                 change (aZ (ch 92) =? 92) with true. cbn iota. change (is_nl "r"%char) with false. cbn iota. rewrite IH. reflexivity.
              ** cbn [append lex_string]. unfold is_nl, aZ. rewrite E10, E34, E92. rewrite IH. reflexivity.
Qed.

Lemma ascii_of_code c n : ascii_Z c = n -> c = ascii_of_N (Z.to_N n).
Proof. intros <-. unfold ascii_Z. rewrite N2Z.id, ascii_N_embedding. reflexivity. Qed.

Lemma unescape_escape : forall s fuel, (String.length (escape_string s) < fuel)%nat -> unescape fuel (escape_string s) = UOk s.
Proof.
  induction s as [|c s IH]; intros fuel Hf; [destruct fuel; [cbn in Hf; lia|reflexivity]|].
  cbn [escape_string] in *. unfold aZ in *.
  destruct (ascii_Z c =? 92) eqn:E92.
  - apply Z.eqb_eq in E92. apply ascii_of_code in E92. subst c.
    destruct fuel as [|f]; [cbn in Hf; lia|]. cbn [unescape]. change (aZ (ascii_of_N (Z.to_N 92)) =? 92) with true. cbn iota.
    change (aZ (ascii_of_N (Z.to_N 92))) with 92. cbn [Z.eqb]. rewrite IH by (cbn [String.length] in Hf; lia). reflexivity.
  - destruct (ascii_Z c =? 34) eqn:E34.
    + apply Z.eqb_eq in E34. apply ascii_of_code in E34. subst c.
      destruct fuel as [|f]; [cbn in Hf; lia|]. cbn [unescape]. change (aZ (ch 92) =? 92) with true. cbn iota.
      change (aZ (ascii_of_N (Z.to_N 34))) with 34. cbn [Z.eqb]. rewrite IH by (cbn [String.length] in Hf; lia). reflexivity.
    + destruct (ascii_Z c =? 10) eqn:E10.
      * apply Z.eqb_eq in E10. apply ascii_of_code in E10. subst c.
        destruct fuel as [|f]; [cbn in Hf; lia|]. cbn [unescape]. change (aZ (ch 92) =? 92) with true. cbn iota.
        change (aZ "n"%char) with 110. cbn [Z.eqb]. rewrite IH by (cbn [String.length] in Hf; lia). reflexivity.
      * destruct (ascii_Z c =? 9) eqn:E9.
        -- apply Z.eqb_eq in E9. apply ascii_of_code in E9. subst c.
           destruct fuel as [|f]; [cbn in Hf; lia|]. cbn [unescape]. change (aZ (ch 92) =? 92) with true. cbn iota.
           change (aZ "t"%char) with 116. cbn [Z.eqb]. rewrite IH by (cbn [String.length] in Hf; lia). reflexivity.
        -- destruct (ascii_Z c =? 13) eqn:E13.
           ++ apply Z.eqb_eq in E13. apply ascii_of_code in E13. subst c.
              destruct fuel as [|f]; [cbn in Hf; lia|]. cbn [unescape]. change (aZ (ch 92) =? 92) with true. cbn iota.
              change (aZ "r"%char) with 114. cbn [Z.eqb]. rewrite IH by (cbn [String.length] in Hf; lia). reflexivity.
           ++ destruct fuel as [|f]; [cbn in Hf; lia|]. cbn [unescape]. unfold aZ. rewrite E92.
              rewrite IH by (cbn [String.length] in Hf; lia). reflexivity.
Qed.

Lemma sappend_assoc (a b c : string) : ((a ++ b) ++ c = a ++ b ++ c)%string.
Proof. induction a as [|x a IH]; cbn [append]; [reflexivity|rewrite IH; reflexivity]. Qed.

(** a string literal written by the printer reads as the string, wherever it stands *)
Theorem string_literal_roundtrip f s rest :
  p_primary (S f) (quote_string s ++ rest) = ROk (VStr s) rest.
Proof.
  unfold quote_string. cbn [append p_primary]. change (is_sym_first (ch 34)) with false. change (aZ (ch 34) =? 34) with true. cbn iota.
  rewrite sappend_assoc. cbn [append]. rewrite lex_string_escape. rewrite unescape_escape by lia. reflexivity.
Qed.

(** * whole-text reads *)
Lemma inter_nonspace c r : is_ws c = false -> aZ c =? 59 = false -> inter (String c r) = String c r.
Proof. intros H1 H2. unfold inter. cbn [String.length skip_inter]. rewrite H1, H2. reflexivity. Qed.

Lemma inter_empty : inter EmptyString = EmptyString.
Proof. reflexivity. Qed.

(** a text that is exactly one primary expression (no postfix, no @) *)
Theorem read_single_primary s v :
  modelled_text s = true ->
  (forall f, p_primary (S f) s = ROk v EmptyString) ->
  match s with String c _ => is_ws c = false /\ aZ c =? 59 = false | EmptyString => False end ->
  read_sexpr s = ROk v EmptyString.
Proof.
  intros Hm Hp Hc. unfold read_sexpr. rewrite Hm. cbn [negb]. unfold reader_fuel.
  replace (4 * String.length s + 40)%nat with (S (S (S (4 * String.length s + 37))))%nat by lia.
  destruct s as [|c r]; [contradiction|]. destruct Hc as [H1 H2].
  cbn [p_sexpr]. rewrite (inter_nonspace c r H1 H2). cbn [p_strict]. rewrite (Hp _). cbn [p_postfix]. reflexivity.
Qed.

Lemma digit_not_ws c : is_digit c = true -> is_ws c = false /\ aZ c =? 59 = false.
Proof.
  unfold is_digit, is_ws, aZ. intros H. apply andb_prop in H as [H1 H2]. split; [|apply Z.eqb_neq; lia].
  repeat (apply orb_false_iff; split); apply Z.eqb_neq; lia.
Qed.

Lemma all_digits_modelled ds : all_digits ds = true -> modelled_text ds = true.
Proof.
  induction ds as [|c r IH]; [reflexivity|]. cbn [all_digits sall modelled_text]. intros H. apply andb_prop in H as [Hc Hr].
  unfold is_digit, aZ in *. apply andb_prop in Hc as [H1 H2]. assert (E : (ascii_Z c <? 128) = true) by (apply Z.ltb_lt; lia).
  rewrite E. apply IH. exact Hr.
Qed.

Theorem read_decimal ds :
  all_digits ds = true -> ds <> EmptyString -> slen ds <= 4000 -> read_sexpr ds = ROk (VInt (dv ds)) EmptyString.
Proof.
  intros Hd Hne Hl. apply read_single_primary.
  - apply all_digits_modelled. exact Hd.
  - intros f. pose proof (decimal_literal_anywhere f ds EmptyString Hd Hne Hl eq_refl) as H. rewrite append_nil_r' in H. exact H.
  - destruct (all_digits_first ds Hd Hne) as (c & r & -> & Hc). apply digit_not_ws. exact Hc.
Qed.

(** the decimal numeral the printer writes for an integer *)
Lemma numeral_fuel_digits10 (fuel : nat) : forall z acc, 0 <= z -> all_digits acc = true ->
  all_digits (numeral_fuel fuel 10 z acc) = true.
Proof.
  induction fuel as [|f IH]; intros z acc Hz Ha; [exact Ha|]. cbn [numeral_fuel].
  assert (Hdig : forall d, 0 <= d < 10 -> is_digit (digit_char d) = true).
  { intros d Hd. unfold digit_char. assert (E : (d <? 10) = true) by (apply Z.ltb_lt; lia). rewrite E.
    unfold is_digit, ascii_Z. rewrite N_ascii_embedding by (apply N2Z.inj_lt; rewrite Z2N.id; lia). rewrite Z2N.id by lia.
    apply andb_true_intro; split; [apply Z.leb_le|apply Z.leb_le]; lia. }
  destruct (z <? 10) eqn:E.
  - cbn [all_digits sall]. apply Z.ltb_lt in E. rewrite (Hdig z) by lia. exact Ha.
  - apply IH; [apply Z.div_pos; lia|]. cbn [all_digits sall]. rewrite (Hdig (z mod 10)) by (apply Z.mod_pos_bound; lia). exact Ha.
Qed.

Lemma numeral10_digits z : 0 <= z -> all_digits (numeral 10 z) = true.
Proof. intros Hz. unfold numeral. apply numeral_fuel_digits10; [exact Hz|reflexivity]. Qed.

Lemma dv_numeral10 z : 0 <= z -> dv (numeral 10 z) = z.
Proof.
  intros Hz. unfold dv. pose proof (numeral_value 10 z ltac:(lia) Hz) as H. unfold digits_val in H.
  destruct (numeral 10 z); [discriminate|]. rewrite H. reflexivity.
Qed.

Lemma numeral10_nonempty z : 0 <= z -> numeral 10 z <> EmptyString.
Proof. intros Hz E. pose proof (numeral_value 10 z ltac:(lia) Hz) as H. rewrite E in H. discriminate. Qed.

(** printing an integer and reading the text back gives the integer *)
Theorem print_read_nat z : 0 <= z -> slen (numeral 10 z) <= 4000 -> read_sexpr (dec_of_Z z) = ROk (VInt z) EmptyString.
Proof.
  intros Hz Hl. unfold dec_of_Z. assert (E : (z <? 0) = false) by (apply Z.ltb_ge; exact Hz). rewrite E.
  rewrite (read_decimal (numeral 10 z) (numeral10_digits z Hz) (numeral10_nonempty z Hz) Hl), dv_numeral10 by exact Hz. reflexivity.
Qed.

Theorem print_read_negative z : z < 0 -> slen (numeral 10 (- z)) <= 4000 -> read_sexpr (dec_of_Z z) = ROk (VInt z) EmptyString.
Proof.
  intros Hz Hl. unfold dec_of_Z. assert (E : (z <? 0) = true) by (apply Z.ltb_lt; exact Hz). rewrite E.
  assert (Hn : 0 <= - z) by lia.
  apply read_single_primary.
  - cbn [modelled_text]. change (aZ "-"%char <? 128) with true. cbn iota. apply all_digits_modelled. apply numeral10_digits. exact Hn.
  - intros f. pose proof (signed_literal_anywhere f true (numeral 10 (- z)) EmptyString (numeral10_digits _ Hn) (numeral10_nonempty _ Hn) Hl eq_refl) as H.
    rewrite append_nil_r' in H. cbn iota in H. rewrite H, dv_numeral10 by exact Hn. f_equal. f_equal. lia.
  - split; reflexivity.
Qed.

(** a string the printer writes reads back as the string *)
Lemma escape_modelled s tail : sall plain_char s = true -> modelled_text tail = true ->
  modelled_text (escape_string s ++ tail) = true.
Proof.
  intros Hs Ht. induction s as [|c s IH]; [exact Ht|]. cbn [sall escape_string] in *. apply andb_prop in Hs as [Hc Hs].
  unfold plain_char, aZ in *. specialize (IH Hs).
  destruct (ascii_Z c =? 92); [cbn [append modelled_text]; unfold aZ; rewrite Hc; exact IH|].
  destruct (ascii_Z c =? 34); [cbn [append modelled_text]; unfold aZ; change (ascii_Z (ch 92) <? 128) with true; cbn iota; rewrite Hc; exact IH|].
  destruct (ascii_Z c =? 10); [cbn [append modelled_text]; exact IH|].
  destruct (ascii_Z c =? 9); [cbn [append modelled_text]; exact IH|].
  destruct (ascii_Z c =? 13); [cbn [append modelled_text]; exact IH|].
  cbn [append modelled_text]. unfold aZ. rewrite Hc. exact IH.
Qed.

Theorem print_read_string s : sall plain_char s = true -> read_sexpr (quote_string s) = ROk (VStr s) EmptyString.
Proof.
  intros Hs. apply read_single_primary.
  - unfold quote_string. cbn [modelled_text]. change (aZ (ch 34) <? 128) with true. cbn iota.
    apply escape_modelled; [exact Hs|reflexivity].
  - intros f. pose proof (string_literal_roundtrip f s EmptyString) as H. rewrite append_nil_r' in H. exact H.
  - unfold quote_string. split; reflexivity.
Qed.

(** white space and comments before an expression do not change what is read *)
Lemma skip_inter_ws : forall ws s fuel, sall is_ws ws = true -> (String.length ws <= fuel)%nat ->
  skip_inter (String.length ws + fuel) (ws ++ s) = skip_inter fuel s.
Proof.
  induction ws as [|c ws IH]; intros s fuel H Hf; [reflexivity|]. cbn [sall] in H. apply andb_prop in H as [Hc Hw].
  cbn [String.length Nat.add append skip_inter]. rewrite Hc. apply IH; [exact Hw|cbn in Hf; lia].
Qed.
