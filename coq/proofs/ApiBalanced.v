(** ApiBalanced.v — T-bal lifted to the API: every completed Wal.eval (with any
    pass selection and keyword bindings) returns to the top-level context, over
    every history of top-level evaluations (C17). *)
From WalModel Require Import Api.
From WalModel.proofs Require Import Balanced.
Local Open Scope Z_scope.

Lemma good_ev0 e : good (ev0 e).
Proof. unfold ev0. apply (proj1 (eval_expand_balanced LF FUEL)). Qed.
Lemma good_ex0 e p : good (ex0 e p).
Proof. unfold ex0. apply (proj2 (eval_expand_balanced LF FUEL)). Qed.
#[global] Hint Resolve good_ev0 good_ex0 : goodb.

Lemma good_run_form fl e : good (run_form fl e).
Proof. unfold run_form. destruct fl as [[a b] c]. solve_good. Qed.
#[global] Hint Resolve good_run_form : goodb.

Lemma good_wal_eval_with fl e kw : good (wal_eval_with fl e kw).
Proof. unfold wal_eval_with. solve_good. Qed.

Lemma good_eval_forms forms : good (eval_forms forms).
Proof. unfold eval_forms. solve_good. Qed.
Lemma good_load_std : good load_std.
Proof. unfold load_std. apply good_bind; [apply good_eval_forms|intros; apply good_eval_forms]. Qed.

(** the top-level context: current environment = global environment, no saved positions *)
Definition at_top (st : state) : Prop := st_cur st = global_id /\ c_stack (st_cont st) = [].

Lemma reset_at_top st : c_stack (st_cont st) = [] -> at_top (reset_state st).
Proof. intros H. split; [reflexivity|exact H]. Qed.

Lemma at_top_R st st' : at_top st -> R st st' -> at_top st'.
Proof. intros [A B] [C [D _]]. split; congruence. Qed.

(** one top-level evaluation; a failed one is discarded (the session ends) *)
Record toplevel : Type := mkTop { t_flags : passes_flags; t_expr : val; t_kw : list (string * val) }.
Definition run_top (st : state) (t : toplevel) : state :=
  match wal_eval_with (t_flags t) (t_expr t) (t_kw t) st with
  | Ok _ st' => st'
  | _ => st
  end.

Theorem history_at_top : forall (h : list toplevel) st, at_top st -> at_top (fold_left run_top h st).
Proof.
  induction h as [|t h IH]; intros st H; cbn [fold_left]; [exact H|].
  apply IH. unfold run_top.
  destruct (wal_eval_with (t_flags t) (t_expr t) (t_kw t) st) as [v st'| | |] eqn:E; try exact H.
  eapply at_top_R; [exact H|]. eapply good_wal_eval_with. exact E.
Qed.

(** Wal.run: whatever the prior state, the program is evaluated from the reset state
    (fresh global frame, no scope/group/aliases, every trace at index 0) *)
Theorem wal_run_starts_fresh e kw st1 st2 :
  ast_truthy e = true ->
  reset_state st1 = reset_state st2 ->
  wal_run e kw st1 = wal_run e kw st2.
Proof.
  intros Ht Hr. unfold wal_run. rewrite Ht. unfold bind, modify. rewrite Hr. reflexivity.
Qed.

Lemma reset_state_fields st :
  st_cur (reset_state st) = global_id /\ st_scope (reset_state st) = "" /\ st_group (reset_state st) = "" /\
  st_aliases (reset_state st) = [] /\ st_gensym (reset_state st) = 0 /\
  st_frames (reset_state st) = [mkFrame fresh_globals None] /\
  (forall tid t, alookup tid (c_traces (st_cont (reset_state st))) = Some t -> tr_index t = 0).
Proof.
  repeat split. intros tid t. cbn [reset_state st_cont reset_traces with_traces c_traces].
  induction (c_traces (st_cont st)) as [|[k x] l IH]; cbn [map alookup fst snd]; [discriminate|].
  destruct (String.eqb tid k); [intros H; injection H as <-; reflexivity|exact IH].
Qed.
