(** ListProofs.v — the list operators compute the sequence operations and arrays behave as an
    insertion-ordered finite map with textual keys (C14). *)
From WalModel Require Import Eval.
From WalModel.proofs Require Import VcdProofs EvalArith TraceProofs.
Local Open Scope Z_scope.

Section WithEv.
  Variable ev : val -> M val.

  Lemma eval_list1_ok a w l st st' : ev a st = Ok (VList w l) st' -> eval_list1 ev [a] st = Ok (w, l) st'.
  Proof. intros H. unfold eval_list1. cbn [List.length Nat.eqb assert arg0]. unfold bind. cbn [ret]. rewrite H. reflexivity. Qed.

  Theorem first_is_head a w l st st' : ev a st = Ok (VList w l) st' ->
    op_first ev [a] st = match l with x :: _ => Ok x st' | [] => Er EEval st' end.
  Proof. intros H. unfold op_first, bind. rewrite (eval_list1_ok _ _ _ _ _ H). cbn [snd]. destruct l; reflexivity. Qed.
  Theorem second_is_second a w l st st' : ev a st = Ok (VList w l) st' ->
    op_second ev [a] st = match l with _ :: x :: _ => Ok x st' | _ => Er EEval st' end.
  Proof. intros H. unfold op_second, bind. rewrite (eval_list1_ok _ _ _ _ _ H). cbn [snd]. destruct l as [|? [|? ?]]; reflexivity. Qed.
  Theorem last_is_last a w l st st' : ev a st = Ok (VList w l) st' ->
    op_last ev [a] st = match last_opt l with Some x => Ok x st' | None => Er EEval st' end.
  Proof. intros H. unfold op_last, bind. rewrite (eval_list1_ok _ _ _ _ _ H). cbn [snd]. destruct (last_opt l); reflexivity. Qed.
  Theorem rest_is_tail a w l st st' : ev a st = Ok (VList w l) st' ->
    exists w', op_rest ev [a] st = Ok (VList w' (tl l)) st'.
  Proof.
    intros H. unfold op_rest, bind. rewrite (eval_list1_ok _ _ _ _ _ H). cbn [snd fst].
    destruct l as [|x [|y r]]; eexists; reflexivity.
  Qed.
  Theorem length_is_length a w l st st' : ev a st = Ok (VList w l) st' ->
    op_length ev [a] st = Ok (VInt (Z.of_nat (List.length l))) st'.
  Proof. intros H. unfold op_length. cbn [List.length Nat.eqb assert arg0]. unfold bind. cbn [ret]. rewrite H. reflexivity. Qed.
  Theorem zip_is_combine a b wa la wb lb st st' :
    eval_args ev [a; b] st = Ok [VList wa la; VList wb lb] st' ->
    op_zip ev [a; b] st = Ok (PL (map (fun p => PL [fst p; snd p]) (combine la lb))) st'.
  Proof. intros H. unfold op_zip. cbn [List.length Nat.eqb assert]. unfold bind at 1. cbn [ret]. unfold bind. rewrite H. reflexivity. Qed.
  Theorem list_is_list args vs st st' : eval_args ev args st = Ok vs st' -> op_list ev args st = Ok (WL vs) st'.
  Proof. intros H. unfold op_list, bind. rewrite H. reflexivity. Qed.

  (** + on lists: concatenation, a non-list operand is appended as one element *)
  Theorem add_concatenates args vs st st' :
    eval_args ev args st = Ok vs st' -> existsb is_list_val vs = true ->
    op_add ev args st = Ok (PL (flat_map (fun v => match v with VList _ l => l | _ => [v] end) vs)) st'.
  Proof. intros H Hl. unfold op_add, bind. rewrite H, Hl. reflexivity. Qed.

  (** list slicing is Python slicing: firstn/skipn after clamping *)
  Theorem list_slice_is_firstn_skipn a u lo w l i j st st' :
    eval_args ev [a; u; lo] st = Ok [VList w l; VInt i; VInt j] st' ->
    op_slice ev [a; u; lo] st = Ok (VList w (py_slice_list l i j)) st'.
  Proof. intros H. unfold op_slice. cbn [List.length zlen Z.of_nat Pos.of_succ_nat Pos.succ Z.ltb Z.compare Pos.compare Pos.compare_cont andb assert]. unfold bind at 1. cbn [ret]. unfold bind. rewrite H. reflexivity. Qed.

  Lemma py_slice_inside {A} (l : list A) (i j : Z) : 0 <= i -> i <= j -> j <= zlen l ->
    py_slice_list l i j = firstn (Z.to_nat (j - i)) (skipn (Z.to_nat i) l).
  Proof.
    intros Hi Hij Hj. unfold py_slice_list, clamp_index. cbv zeta.
    assert (Ei : (i <? 0) = false) by lia. assert (Ej : (j <? 0) = false) by lia.
    assert (El1 : (zlen l <? i) = false) by lia. assert (El2 : (zlen l <? j) = false) by lia.
    rewrite ?Ei, ?Ej. cbv beta iota. rewrite ?Ei, ?Ej, ?El1, ?El2. cbv beta iota. rewrite ?Ei, ?Ej, ?El1, ?El2.
    destruct (Z.leb_spec j i); [|reflexivity].
    assert (j = i) by lia. subst j. rewrite Z.sub_diag. reflexivity.
  Qed.

  (** range *)
  Lemma range_up_spec : forall n cur, range_up n cur (cur + Z.of_nat n) 1 = zrange_nat cur n.
  Proof.
    induction n as [|n IH]; intros cur; [reflexivity|]. cbn [range_up zrange_nat].
    assert (E : ((0 <? 1) && (cur <? cur + Z.of_nat (S n)) || (1 <? 0) && (cur + Z.of_nat (S n) <? cur)) = true).
    { apply orb_true_iff. left. apply andb_true_intro. split; [reflexivity|apply Z.ltb_lt; lia]. }
    rewrite E. f_equal. replace (cur + Z.of_nat (S n)) with ((cur + 1) + Z.of_nat n) by lia. apply IH.
  Qed.
  Theorem range_is_interval a b : a <= b -> py_range a b 1 = zrange_nat a (Z.to_nat (b - a)).
  Proof.
    intros H. unfold py_range. cbn [Z.ltb Z.compare]. replace ((b - a + 1 - 1) / 1) with (b - a) by (rewrite Z.div_1_r; lia).
    remember (Z.to_nat (b - a)) as n eqn:En. assert (Hb : b = a + Z.of_nat n) by lia. rewrite Hb. apply range_up_spec.
  Qed.
End WithEv.

(** * arrays: an insertion-ordered finite map with textual keys *)
(** integer 1, string "1" and symbol 1 are one key *)
Theorem key_text_coincides : exists k, array_key (VInt 1) = ret k /\ array_key (VStr "1") = ret k /\ array_key (VSym "1" None) = ret k.
Proof. exists "1". repeat split. Qed.

Lemma keys_aset_old {V} k (v : V) l : amem k l = true -> map fst (aset k v l) = map fst l.
Proof.
  unfold amem. induction l as [|[k' v'] l IH]; cbn [aset alookup map fst]; [discriminate|].
  destruct (String.eqb k k') eqn:E; [reflexivity|]. intros H. cbn [map fst]. f_equal. apply IH. exact H.
Qed.
Lemma keys_aset_new {V} k (v : V) l : amem k l = false -> map fst (aset k v l) = map fst l +++ [k].
Proof.
  unfold amem. induction l as [|[k' v'] l IH]; cbn [aset alookup map fst app]; [reflexivity|].
  destruct (String.eqb k k') eqn:E; [discriminate|]. intros H. cbn [map fst app]. f_equal. apply IH. exact H.
Qed.
Lemma alookup_adel_same {V} k (l : list (string * V)) : NoDup (map fst l) -> alookup k (adel k l) = None.
Proof.
  induction l as [|[k' v'] l IH]; cbn [adel alookup map fst]; [reflexivity|]. intros Hn. inversion Hn as [|x xs Hnot Hn']; subst.
  destruct (String.eqb k k') eqn:E.
  - apply String.eqb_eq in E. subst k'. apply RevalProofs.alookup_None_notin. exact Hnot.
  - cbn [alookup]. rewrite E. apply IH. exact Hn'.
Qed.
Lemma keys_adel {V} k (l : list (string * V)) : forall x, In x (map fst (adel k l)) -> In x (map fst l).
Proof.
  induction l as [|[k' v'] l IH]; cbn [adel map fst]; [tauto|]. intros x. destruct (String.eqb k k'); cbn [map fst In]; [tauto|].
  intros [H|H]; [left; exact H|right; apply IH; exact H].
Qed.
Lemma nodup_adel {V} k (l : list (string * V)) : NoDup (map fst l) -> NoDup (map fst (adel k l)).
Proof.
  induction l as [|[k' v'] l IH]; cbn [adel map fst]; [trivial|]. intros Hn. inversion Hn as [|x xs Hnot Hn']; subst.
  destruct (String.eqb k k'); [exact Hn'|]. cbn [map fst]. constructor; [|apply IH; exact Hn'].
  intros Hin. apply Hnot. eapply keys_adel. exact Hin.
Qed.
Lemma nodup_snoc {A} (l : list A) k : NoDup l -> ~ In k l -> NoDup (l +++ [k]).
Proof.
  induction l as [|x l IH]; intros Hn Hk; cbn [app]; [constructor; [intros []|constructor]|].
  inversion Hn as [|y ys Hx Hn']; subst. constructor.
  - intros Hin. apply in_app_or in Hin as [Hin|[Hin|[]]]; [contradiction|]. subst. apply Hk. left. reflexivity.
  - apply IH; [exact Hn'|]. intros Hin. apply Hk. right. exact Hin.
Qed.
Lemma nodup_aset {V} k (v : V) l : NoDup (map fst l) -> NoDup (map fst (aset k v l)).
Proof.
  intros Hn. destruct (amem k l) eqn:E.
  - rewrite keys_aset_old by exact E. exact Hn.
  - rewrite keys_aset_new by exact E. apply nodup_snoc; [exact Hn|].
    apply RevalProofs.alookup_None_notin. unfold amem in E. destruct (alookup k l); [discriminate|reflexivity].
Qed.

(** every history of seta/dela keeps the array a finite map (one entry per key) ... *)
Inductive aop : Type := ASet (k : string) (v : val) | ADel (k : string).
Definition apply_aop (d : list (string * val)) (o : aop) : list (string * val) :=
  match o with ASet k v => aset k v d | ADel k => adel k d end.

Theorem array_is_finite_map : forall ops d, NoDup (map fst d) -> NoDup (map fst (fold_left apply_aop ops d)).
Proof.
  induction ops as [|o ops IH]; intros d H; cbn [fold_left]; [exact H|]. apply IH.
  destruct o; cbn [apply_aop]; [apply nodup_aset|apply nodup_adel]; exact H.
Qed.

(** ... whose entries are exactly the surviving ones: the laws of a finite map *)
Theorem array_laws (d : list (string * val)) k k' v :
  alookup k (aset k v d) = Some v /\
  (String.eqb k' k = false -> alookup k' (aset k v d) = alookup k' d) /\
  (NoDup (map fst d) -> alookup k (adel k d) = None) /\
  (String.eqb k' k = false -> alookup k' (adel k d) = alookup k' d).
Proof.
  repeat split.
  - apply alookup_aset_same.
  - intros H. apply alookup_aset_other. exact H.
  - apply alookup_adel_same.
  - intros H. apply alookup_adel_other. exact H.
Qed.

(** insertion order: updating an existing key keeps every position, a new key goes last *)
Theorem array_order (d : list (string * val)) k v :
  (amem k d = true -> map fst (aset k v d) = map fst d) /\
  (amem k d = false -> map fst (aset k v d) = map fst d +++ [k]).
Proof. split; [apply keys_aset_old|apply keys_aset_new]. Qed.

(** geta of a missing key is an error; of a present key its value *)
Section ArrayOps.
  Variable ev : val -> M val.
  Theorem geta_spec a k r kv key st st1 st2 d :
    ev a st = Ok (VArr r) st1 -> ev k st1 = Ok kv st2 -> array_key kv st2 = Ok key st2 ->
    nth_error (st_arrays st2) r = Some d ->
    op_geta ev [a; k] st = match alookup key d with Some v => Ok v st2 | None => Er EEval st2 end.
  Proof.
    intros Ha Hk Hkey Hd. unfold op_geta, eval_array, bind. cbn [List.length Nat.eqb assert ret]. rewrite Ha. unfold ret at 1. cbv beta iota. rewrite Hk, Hkey.
    unfold get_array. rewrite Hd. destruct (alookup key d); reflexivity.
  Qed.
End ArrayOps.
