(** ExpandProofs.v — a form without macro calls (with respect to the macros visible in the current state) is a
    fixed point of the expand pass, and expanding it leaves the state as it was (C16: the second application of
    expand by the command-line pipeline). *)
From WalModel Require Import Eval.
From WalModel.proofs Require Import Balanced.
Local Open Scope Z_scope.

Definition head_not_macro (st : state) (l : list val) : bool :=
  match l with
  | VSym hn _ :: _ =>
      match lookup_frame st (st_cur st) hn with
      | None => true
      | Some _ => match env_read (st_cur st) hn st with
                  | Ok (VMacro _ _ _) _ => false
                  | _ => true
                  end
      end
  | _ => true
  end.

(** no list outside quoted data is headed by the name of a macro; lists are reader lists *)
Fixpoint mfree (st : state) (e : val) : bool :=
  match e with
  | VList w l => if is_quote_head l then true else w && head_not_macro st l && forallb (mfree st) l
  | _ => true
  end.

Lemma mapM_fixed (ex : val -> M val) : forall l st l' st',
  (forall x, In x l -> forall x' s', ex x st = Ok x' s' -> x' = x /\ s' = st) ->
  mapM ex l st = Ok l' st' -> l' = l /\ st' = st.
Proof.
  induction l as [|x l IH]; intros st l' st' H E.
  - injection E as <- <-. split; reflexivity.
  - cbn [mapM] in E. apply bind_ok_inv in E as (x' & s1 & E1 & E). apply bind_ok_inv in E as (l1 & s2 & E2 & E).
    injection E as <- <-. destruct (H x (or_introl eq_refl) _ _ E1) as [-> ->].
    destruct (IH _ _ _ (fun y Hy => H y (or_intror Hy)) E2) as [-> ->]. split; reflexivity.
Qed.

Theorem expand_macro_free lf f : forall e p st e' st',
  mfree st e = true -> expand lf f e p st = Ok e' st' -> e' = e /\ st' = st.
Proof.
  induction f as [|f IH]; intros e p st e' st' Hm E; [discriminate|].
  change (expand lf (S f) e p st) with (expand_body (fun x => eval lf f x) (fun x q => expand lf f x q) e p st) in E.
  destruct e as [| | | | | | |w l| | | | |]; try (injection E as <- <-; split; reflexivity).
  cbn [mfree] in Hm. unfold expand_body in E. destruct (is_quote_head l); [injection E as <- <-; split; reflexivity|].
  apply andb_prop in Hm as [Hm Hch]. apply andb_prop in Hm as [Hw Hh]. subst w.
  apply bind_ok_inv in E as (s0 & s1 & E0 & E). injection E0 as <- <-.
  apply bind_ok_inv in E as (r & s2 & Er & E).
  assert (Hr : r = inl l /\ s2 = st).
  { destruct l as [|h vals]; [injection Er as <- <-; split; reflexivity|].
    destruct h as [| | | | |hn hs| | | | | | |]; try (injection Er as <- <-; split; reflexivity).
    cbn [head_not_macro] in Hh. destruct (lookup_frame st (st_cur st) hn); [|injection Er as <- <-; split; reflexivity].
    apply bind_ok_inv in Er as (m & s3 & Em & Er). rewrite Em in Hh. pose proof (env_read_state _ _ _ _ _ Em) as ->.
    destruct m; try (injection Er as <- <-; split; reflexivity). discriminate Hh. }
  destruct Hr as [-> ->].
  apply bind_ok_inv in E as (items' & s3 & Ei & E). injection E as <- <-.
  destruct (mapM_fixed (fun x => expand lf f x p) l st items' s3) as [-> ->]; [|exact Ei|split; reflexivity].
  intros x Hx x' s' Ex. apply (IH x p st x' s'); [|exact Ex]. rewrite forallb_forall in Hch. apply Hch, Hx.
Qed.
