(** ScanProofs.v — find, find/g, whenever: pointwise, complete, ascending, position-neutral (C04). *)
From WalModel Require Import Eval.
From WalModel.proofs Require Import VcdProofs TraceProofs RevalProofs ListProofs.
Local Open Scope Z_scope.

(** one trace [tid] loaded, standing at index [i] of [0..m] *)
Definition at1 (st : state) (tid : string) (i m : Z) : Prop :=
  exists t, c_traces (st_cont st) = [(tid, t)] /\ tr_tid t = tid /\ tr_index t = i /\ tr_max t = m.

Definition set1 (st : state) (tid : string) (t : trace) : state :=
  upd_cont st (with_traces (st_cont st) [(tid, t)]).

Lemma at1_set1 st tid t i : tr_tid t = tid -> at1 (set1 st tid (set_index t i)) tid i (tr_max t).
Proof. intros H. exists (set_index t i). repeat split. exact H. Qed.

Lemma trace_of_1 st tid t : c_traces (st_cont st) = [(tid, t)] -> trace_of tid st = Ok t st.
Proof. intros H. unfold trace_of, bind, get_st. rewrite H. cbn [alookup]. rewrite String.eqb_refl. reflexivity. Qed.

Lemma replace_1 st tid t t' : c_traces (st_cont st) = [(tid, t)] -> tr_tid t' = tid ->
  replace_trace t' st = Ok tt (set1 st tid t').
Proof.
  intros H E. unfold replace_trace, modify, set1. rewrite H, E. cbn [aset]. rewrite String.eqb_refl. reflexivity.
Qed.

Lemma set1_same st tid t : c_traces (st_cont st) = [(tid, t)] -> set1 st tid t = st.
Proof.
  intros H. unfold set1, upd_cont, with_traces. destruct st as [fr cu ar co sc gr al ge ou fs].
  cbn [st_cont st_frames st_cur st_arrays st_scope st_group st_aliases st_gensym st_out st_fs] in *.
  destruct co as [tr nt sk]. cbn [c_traces c_ntraces c_stack] in *. rewrite H. reflexivity.
Qed.

Lemma set_index_same t : set_index t (tr_index t) = t.
Proof. destruct t. reflexivity. Qed.

Lemma set1_set1 st tid t t' : set1 (set1 st tid t) tid t' = set1 st tid t'.
Proof. reflexivity. Qed.

(** stepping all traces by one when there is one trace *)
Lemma step_all_1 st tid t :
  c_traces (st_cont st) = [(tid, t)] -> tr_tid t = tid -> 0 <= tr_index t <= tr_max t ->
  step_all_m 1 st =
  if tr_index t <? tr_max t then Ok [] (set1 st tid (set_index t (tr_index t + 1)))
  else Ok [tid] st.
Proof.
  intros H E Hr. unfold step_all_m, bind, get_st, cont_step. rewrite H. cbn [step_all]. unfold trace_step.
  destruct (Z.ltb_spec (tr_index t) (tr_max t)) as [Hlt|Hge].
  - assert (X : ((tr_index t + 1 <? 0) || (tr_max t <? tr_index t + 1)) = false) by lia. rewrite X.
    unfold modify, ret. reflexivity.
  - assert (X : ((tr_index t + 1 <? 0) || (tr_max t <? tr_index t + 1)) = true) by lia. rewrite X.
    unfold modify, ret. rewrite E. f_equal. apply (set1_same st tid t H).
Qed.

(** strictly ascending lists of integers, all >= lo *)
Fixpoint asc_from (lo : Z) (l : list Z) : Prop :=
  match l with [] => True | x :: r => lo <= x /\ asc_from (x + 1) r end.

Lemma asc_from_weaken l : forall lo lo', lo' <= lo -> asc_from lo l -> asc_from lo' l.
Proof. destruct l as [|x r]; cbn [asc_from]; intros lo lo' H; [tauto|]. intros [H1 H2]. split; [lia|exact H2]. Qed.

Lemma filter_range_asc (P : Z -> bool) n : forall i, asc_from i (filter P (zrange_nat i n)).
Proof.
  induction n as [|n IH]; intros i; cbn [zrange_nat filter]; [exact I|].
  destruct (P i); cbn [asc_from].
  - split; [lia|apply IH].
  - apply asc_from_weaken with (lo := i + 1); [lia|apply IH].
Qed.

Lemma asc_dedup l : forall lo seen, (forall x, In x seen -> x < lo) -> asc_from lo l -> dedup_Z l seen = l.
Proof.
  induction l as [|x r IH]; intros lo seen Hs Ha; [reflexivity|]. cbn [dedup_Z]. destruct Ha as [H1 H2].
  assert (E : zmem x seen = false).
  { clear - Hs H1. induction seen as [|y s IHs]; [reflexivity|]. cbn [zmem].
    assert (y < lo) by (apply Hs; left; reflexivity).
    destruct (Z.eqb_spec x y); [lia|]. apply IHs. intros z Hz. apply Hs. right. exact Hz. }
  rewrite E. f_equal. apply (IH (x + 1)); [|exact H2].
  intros z [<-|Hz]; [lia|]. specialize (Hs z Hz). lia.
Qed.

Lemma asc_isort l : forall lo, asc_from lo l -> isort Z.ltb l = l.
Proof.
  induction l as [|x r IH]; intros lo Ha; [reflexivity|]. cbn [isort]. destruct Ha as [H1 H2].
  rewrite (IH _ H2). destruct r as [|y r']; [reflexivity|]. cbn [insert_sorted].
  destruct H2 as [H3 _]. assert (E : (x <? y) = true) by lia. rewrite E. reflexivity.
Qed.

Section Scan.
  Variable ev : val -> M val.
  Variable tid : string.
  Variable c : val.
  (** the condition reads the trace at the current index: it yields a value whose truth depends on
      the index only and leaves the position alone (it may change other state, e.g. fill caches) *)
  Variable P : Z -> bool.
  (** [Inv] is whatever the condition relies on and nothing in a scan disturbs - typically "the
      signal data of the trace is D"; moving the index keeps it.  [Inv := fun _ => True] is allowed. *)
  Variable Inv : state -> Prop.
  Hypothesis Inv_move : forall st t j, Inv st -> c_traces (st_cont st) = [(tid, t)] -> 0 <= j <= tr_max t ->
    Inv (set1 st tid (set_index t j)).
  Definition at1i (st : state) (i m : Z) : Prop := Inv st /\ at1 st tid i m.
  Hypothesis Hc : forall st i m, at1i st i m ->
    exists v st', ev c st = Ok v st' /\ at1i st' i m /\ truthy st' v = P i.

  Lemma at1i_set1 st t i : Inv st -> c_traces (st_cont st) = [(tid, t)] -> tr_tid t = tid -> 0 <= i <= tr_max t ->
    at1i (set1 st tid (set_index t i)) i (tr_max t).
  Proof. intros HI Ht E Hr. split; [apply Inv_move; assumption|apply at1_set1, E]. Qed.

  Lemma find_walk_spec n : forall st i m acc,
    at1i st i m -> 0 <= i <= m -> (Z.to_nat (m - i) < n)%nat ->
    exists st', find_walk ev n tid c acc st = Ok (acc +++ filter P (zrange_nat i (S (Z.to_nat (m - i))))) st'
                /\ at1i st' m m.
  Proof.
    induction n as [|n IH]; intros st i m acc Hat Hr Hn; [lia|].
    destruct (Hc _ _ _ Hat) as (v & st1 & Hev & (HI1 & t1 & Ht1 & Etid & Ei & Em) & Htr).
    cbn [find_walk]. unfold bind at 1. rewrite Hev. unfold bind at 1, get_st at 1.
    unfold bind at 1. rewrite (trace_of_1 _ _ _ Ht1). rewrite Htr. unfold trace_step. rewrite Ei, Em.
    destruct (Z.ltb_spec i m) as [Hlt|Hge].
    - assert (X : ((i + 1 <? 0) || (m <? i + 1)) = false) by lia. rewrite X.
      unfold bind at 1. rewrite (replace_1 _ _ _ _ Ht1) by exact Etid.
      destruct (IH (set1 st1 tid (set_index t1 (i + 1))) (i + 1) m (if P i then acc +++ [i] else acc)) as (st' & Hw & Hat');
        [subst m; apply at1i_set1; try assumption; lia|lia|lia|].
      exists st'. split; [|exact Hat']. rewrite Hw. f_equal.
      replace (Z.to_nat (m - i)) with (S (Z.to_nat (m - (i + 1)))) by lia.
      cbn [zrange_nat filter]. destruct (P i); [rewrite <- app_assoc|]; reflexivity.
    - assert (X : ((i + 1 <? 0) || (m <? i + 1)) = true) by lia. rewrite X.
      assert (Him : i = m) by lia. rewrite Him in *. exists st1. split; [|split; [assumption|exists t1; repeat split; assumption]].
      rewrite Z.sub_diag. cbn [Z.to_nat zrange_nat filter]. unfold ret. destruct (P m); [reflexivity|rewrite app_nil_r; reflexivity].
  Qed.

  Lemma set_trace_index_1 st t i : c_traces (st_cont st) = [(tid, t)] -> tr_tid t = tid ->
    set_trace_index tid i st = Ok tt (set1 st tid (set_index t i)).
  Proof.
    intros H E. unfold set_trace_index, bind, get_st. rewrite H. cbn [alookup]. rewrite String.eqb_refl.
    apply (replace_1 _ _ _ _ H). exact E.
  Qed.

  (** (find c), one trace: exactly the indices >= the current one at which c is truthy, ascending,
      without duplicates; the index is what it was *)
  Theorem find_single fuel st i m :
    at1i st i m -> 0 <= i <= m -> (Z.to_nat (m - i) < fuel)%nat ->
    exists st', op_find fuel ev [c] st = Ok (PL (map VInt (filter P (zrange_nat i (S (Z.to_nat (m - i))))))) st'
                /\ at1i st' i m.
  Proof.
    intros Hat Hr Hf. pose proof Hat as (HI & t & Ht & Etid & Ei & Em).
    destruct (find_walk_spec fuel st i m [] Hat Hr Hf) as (st1 & Hw & (HI1 & t1 & Ht1 & Etid1 & Ei1 & Em1)).
    unfold op_find. cbn [List.length Nat.eqb assert arg0]. unfold bind at 1. unfold ret at 1. cbv beta iota.
    unfold bind at 1. unfold ret at 1. cbv beta iota. unfold bind at 1, get_st at 1. rewrite Ht.
    cbn [mapM fst]. unfold bind at 1. unfold bind at 1. unfold bind at 1. rewrite (trace_of_1 _ _ _ Ht).
    unfold bind at 1. rewrite Hw. unfold bind at 1. rewrite (set_trace_index_1 _ _ _ Ht1 Etid1).
    unfold ret, bind. cbn [List.concat app]. rewrite app_nil_r.
    eexists. split.
    - rewrite (asc_dedup _ i []), (asc_isort _ i); try apply filter_range_asc; [reflexivity|intros x []].
    - rewrite Ei, <- Em1. apply at1i_set1; try assumption; lia.
  Qed.

  Lemma cont_indices_1 st t : c_traces (st_cont st) = [(tid, t)] -> tr_tid t = tid ->
    cont_indices (st_cont st) = [(tid, tr_index t)].
  Proof. intros H E. unfold cont_indices. rewrite H. cbn [map snd]. rewrite E. reflexivity. Qed.

  Lemma findg_loop_spec n : forall st i m acc,
    at1i st i m -> 0 <= i <= m -> (Z.to_nat (m - i) < n)%nat ->
    exists st', findg_loop ev n c acc st = Ok (acc +++ map VInt (filter P (zrange_nat i (S (Z.to_nat (m - i)))))) st'
                /\ at1i st' m m.
  Proof.
    induction n as [|n IH]; intros st i m acc Hat Hr Hn; [lia|].
    destruct (Hc _ _ _ Hat) as (v & st1 & Hev & (HI1 & t1 & Ht1 & Etid & Ei & Em) & Htr).
    cbn [findg_loop]. unfold bind at 1. rewrite Hev. unfold bind at 1, get_st at 1. rewrite Htr.
    rewrite (cont_indices_1 _ _ Ht1 Etid).
    set (acc' := if P i then acc +++ [VInt i] else acc).
    assert (Hacc : (if P i then ret (acc +++ [VInt (tr_index t1)]) else ret acc) st1 = Ok acc' st1).
    { unfold acc'. rewrite Ei. destruct (P i); reflexivity. }
    unfold bind at 1. rewrite Hacc. unfold bind at 1. rewrite (step_all_1 _ _ _ Ht1 Etid) by lia. rewrite Ei, Em.
    destruct (Z.ltb_spec i m) as [Hlt|Hge].
    - destruct (IH (set1 st1 tid (set_index t1 (i + 1))) (i + 1) m acc') as (st' & Hw & Hat');
        [subst m; apply at1i_set1; try assumption; lia|lia|lia|].
      exists st'. split; [|exact Hat']. rewrite Hw. f_equal.
      replace (Z.to_nat (m - i)) with (S (Z.to_nat (m - (i + 1)))) by lia.
      cbn [zrange_nat filter]. unfold acc'. destruct (P i); [rewrite <- app_assoc|]; reflexivity.
    - assert (Him : i = m) by lia. subst acc'. rewrite Him in *. exists st1. split; [|split; [assumption|exists t1; repeat split; assumption]].
      rewrite Z.sub_diag. cbn [Z.to_nat zrange_nat filter]. unfold ret.
      destruct (P m); [reflexivity|rewrite app_nil_r; reflexivity].
  Qed.

  Lemma restore_saved_1 st t i : c_traces (st_cont st) = [(tid, t)] -> tr_tid t = tid ->
    restore_saved [(tid, i)] st = Ok tt (set1 st tid (set_index t i)).
  Proof.
    intros H E. unfold restore_saved, bind at 1, get_st at 1. rewrite H. cbn [alookup]. rewrite String.eqb_refl.
    unfold bind. rewrite (set_trace_index_1 _ _ _ H E). reflexivity.
  Qed.

  (** (find/g c), one trace: the same positions, as indices, in ascending order; index restored *)
  Theorem find_g_single fuel st i m :
    at1i st i m -> 0 <= i <= m -> (Z.to_nat (m - i) < fuel)%nat ->
    exists st', op_find_g fuel ev [c] st = Ok (PL (map VInt (filter P (zrange_nat i (S (Z.to_nat (m - i))))))) st'
                /\ at1i st' i m.
  Proof.
    intros Hat Hr Hf. pose proof Hat as (HI & t & Ht & Etid & Ei & Em).
    destruct (findg_loop_spec fuel st i m [] Hat Hr Hf) as (st1 & Hw & (HI1 & t1 & Ht1 & Etid1 & Ei1 & Em1)).
    unfold op_find_g. cbn [List.length Nat.eqb assert arg0]. unfold bind at 1. unfold ret at 1. cbv beta iota.
    unfold bind at 1. unfold ret at 1. cbv beta iota. unfold bind at 1, get_st at 1.
    rewrite (cont_indices_1 _ _ Ht Etid). unfold bind at 1. rewrite Hw. unfold bind.
    rewrite (restore_saved_1 _ _ _ Ht1 Etid1). unfold ret. cbn [app].
    eexists. split; [reflexivity|]. rewrite Ei, <- Em1. apply at1i_set1; try assumption; lia.
  Qed.

  (** * whenever: refinement to a for-loop over the indices i..m with absolute positioning *)
  Variable body : list val.
  (** the body may print, define and assign, but is back at the index when it is done *)
  Hypothesis Hb : forall st i m vs st', at1i st i m -> eval_args ev body st = Ok vs st' -> at1i st' i m.

  (** one visit: evaluate the condition, and the body exactly when it is truthy *)
  Definition visit (last : val) : M val :=
    v <- ev c ;; st <- get_st ;;
    (if truthy st v then vs <- eval_args ev body ;; last_or_index_error vs else ret last).

  Fixpoint wh_spec (idxs : list Z) (last : val) : M val :=
    match idxs with
    | [] => ret last
    | i :: r => set_trace_index tid i ;;; last' <- visit last ;; wh_spec r last'
    end.

  Lemma whenever_loop_unfold k last st :
    whenever_loop ev (S k) c body last st =
    match visit last st with
    | Ok last' st2 =>
        match step_all_m 1 st2 with
        | Ok [] st3 => whenever_loop ev k c body last' st3
        | Ok _ st3 => Ok last' st3
        | Er e s => Er e s | Unm u => Unm u | Fuel => Fuel
        end
    | Er e s => Er e s | Unm u => Unm u | Fuel => Fuel
    end.
  Proof.
    cbn [whenever_loop]. unfold visit, bind. destruct (ev c st) as [v st1| | |]; try reflexivity.
    unfold get_st. destruct (truthy st1 v).
    - destruct (eval_args ev body st1) as [vs st2| | |]; try reflexivity.
      destruct (last_or_index_error vs st2) as [l st2'| | |]; try reflexivity.
      destruct (step_all_m 1 st2') as [[|x r] st3| | |]; reflexivity.
    - unfold ret. destruct (step_all_m 1 st1) as [[|x r] st3| | |]; reflexivity.
  Qed.

  Lemma visit_keeps last st i m : at1i st i m ->
    match visit last st with Ok _ st' => at1i st' i m | _ => True end.
  Proof.
    intros Hat. destruct (Hc _ _ _ Hat) as (v & st1 & Hev & Hat1 & _).
    unfold visit, bind. rewrite Hev. unfold get_st. destruct (truthy st1 v); [|exact Hat1].
    destruct (eval_args ev body st1) as [vs st2| | |] eqn:E; try exact I.
    unfold last_or_index_error. destruct (last_opt vs); [|exact I]. unfold ret. exact (Hb _ _ _ _ _ Hat1 E).
  Qed.

  Lemma wh_spec_reposition j r last st t : c_traces (st_cont st) = [(tid, t)] -> tr_tid t = tid ->
    wh_spec (j :: r) last (set1 st tid (set_index t j)) = wh_spec (j :: r) last st.
  Proof.
    intros H E. cbn [wh_spec]. unfold bind.
    rewrite (set_trace_index_1 st t j H E).
    rewrite (set_trace_index_1 (set1 st tid (set_index t j)) (set_index t j) j); [reflexivity|reflexivity|exact E].
  Qed.

  Lemma wh_spec_keeps m k : forall i st last r st1,
    0 <= i -> i + Z.of_nat k <= m + 1 ->
    at1i st i m -> wh_spec (zrange_nat i k) last st = Ok r st1 -> exists j, at1i st1 j m.
  Proof.
    induction k as [|k IHk]; intros i st last r st1 Hi0 Hik Hat Ew.
    - cbn [zrange_nat wh_spec] in Ew. injection Ew as _ <-. exists i. exact Hat.
    - cbn [zrange_nat wh_spec] in Ew. unfold bind at 1 in Ew. pose proof Hat as (HI & t & Ht & Etid & Ei & Em).
      rewrite (set_trace_index_1 _ _ _ Ht Etid) in Ew. rewrite <- Ei, set_index_same, (set1_same _ _ _ Ht) in Ew.
      unfold bind at 1 in Ew. pose proof (visit_keeps last st i m Hat) as Hv.
      destruct (visit last st) as [l st2| | |]; try discriminate.
      destruct Hv as (HI2 & t2 & Ht2 & Etid2 & Ei2 & Em2).
      destruct k as [|k'].
      + cbn [zrange_nat wh_spec] in Ew. injection Ew as _ <-. exists i. split; [assumption|exists t2; repeat split; assumption].
      + apply (IHk (i + 1) (set1 st2 tid (set_index t2 (i + 1))) l r st1); [lia|lia| |].
        * rewrite <- Em2. apply at1i_set1; try assumption; lia.
        * cbn [zrange_nat]. cbn [zrange_nat] in Ew. rewrite (wh_spec_reposition _ _ _ _ _ Ht2 Etid2). rewrite Ei in Ew. exact Ew.
  Qed.

  Theorem whenever_loop_refines n : forall st i m last,
    at1i st i m -> 0 <= i <= m -> (Z.to_nat (m - i) < n)%nat ->
    whenever_loop ev n c body last st = wh_spec (zrange_nat i (S (Z.to_nat (m - i)))) last st.
  Proof.
    induction n as [|n IH]; intros st i m last Hat Hr Hn; [lia|].
    rewrite whenever_loop_unfold. cbn [zrange_nat wh_spec]. unfold bind at 1.
    pose proof Hat as (HI & t & Ht & Etid & Ei & Em).
    rewrite (set_trace_index_1 _ _ _ Ht Etid). rewrite <- Ei, set_index_same, (set1_same _ _ _ Ht). rewrite Ei.
    unfold bind at 1. pose proof (visit_keeps last st i m Hat) as Hv.
    destruct (visit last st) as [last' st2| | |]; try reflexivity.
    destruct Hv as (HI2 & t2 & Ht2 & Etid2 & Ei2 & Em2).
    rewrite (step_all_1 _ _ _ Ht2 Etid2) by lia. rewrite Ei2, Em2.
    destruct (Z.ltb_spec i m) as [Hlt|Hge].
    - rewrite (IH _ (i + 1) m); [|rewrite <- Em2; apply at1i_set1; try assumption; lia|lia|lia].
      replace (Z.to_nat (m - i)) with (S (Z.to_nat (m - (i + 1)))) by lia.
      cbn [zrange_nat]. apply (wh_spec_reposition _ _ _ _ _ Ht2 Etid2).
    - assert (Him : i = m) by lia. rewrite Him, Z.sub_diag. reflexivity.
  Qed.

  (** (whenever c body...), one trace: the loop over i..m, then the index is put back *)
  Theorem whenever_single fuel st i m :
    at1i st i m -> 0 <= i <= m -> (Z.to_nat (m - i) < fuel)%nat -> body <> [] ->
    op_whenever fuel ev (c :: body) st =
    (r <- wh_spec (zrange_nat i (S (Z.to_nat (m - i)))) VNone ;; set_trace_index tid i ;;; ret r) st.
  Proof.
    intros Hat Hr Hf Hne.
    pose proof Hat as (HI & t & Ht & Etid & Ei & Em).
    unfold op_whenever.
    assert (Hlen : (2 <=? zlen (c :: body)) = true).
    { clear - Hne. destruct body; [contradiction|]. unfold zlen. cbn [List.length]. lia. }
    rewrite Hlen. cbn [assert]. unfold bind at 1. unfold ret at 1. cbv beta iota.
    unfold bind at 1, get_st at 1. rewrite (cont_indices_1 _ _ Ht Etid), Ei.
    unfold bind. rewrite (whenever_loop_refines fuel st i m VNone Hat Hr Hf).
    destruct (wh_spec (zrange_nat i (S (Z.to_nat (m - i)))) VNone st) as [r st1| | |] eqn:Ew; try reflexivity.
    destruct (wh_spec_keeps m (S (Z.to_nat (m - i))) i st VNone r st1 ltac:(lia) ltac:(lia) Hat Ew) as (j & HI1 & t1 & Ht1 & Etid1 & Ei1 & Em1).
    rewrite (restore_saved_1 _ _ _ Ht1 Etid1), (set_trace_index_1 _ _ _ Ht1 Etid1). reflexivity.
  Qed.
End Scan.

(** * (find c) is pointwise: the indices at which c, evaluated on its own at that index, is truthy *)
Section Pointwise.
  Variable ev : val -> M val.
  Variable tid : string.
  Variable c : val.
  Variable st0 : state.
  Variable t0 : trace.
  Hypothesis H0 : c_traces (st_cont st0) = [(tid, t0)].
  Hypothesis Htid : tr_tid t0 = tid.
  (** the interpreter state with the trace moved to index j, nothing else changed *)
  Definition at_idx (j : Z) : state := set1 st0 tid (set_index t0 j).
  (** c can be evaluated at every index and leaves the state exactly as it was *)
  Hypothesis Hpure : forall j, 0 <= j <= tr_max t0 -> exists v, ev c (at_idx j) = Ok v (at_idx j).
  Definition truth_at (j : Z) : bool :=
    match ev c (at_idx j) with Ok v s => truthy s v | _ => false end.

  Definition on_orbit (st : state) : Prop := exists j, 0 <= j <= tr_max t0 /\ st = at_idx j.

  Lemma orbit_move st t j : on_orbit st -> c_traces (st_cont st) = [(tid, t)] -> 0 <= j <= tr_max t ->
    on_orbit (set1 st tid (set_index t j)).
  Proof.
    intros (j0 & Hj0 & ->) Ht Hj. unfold at_idx, set1 in Ht. simpl in Ht. injection Ht as <-.
    exists j. split; [exact Hj|]. reflexivity.
  Qed.

  Lemma orbit_cond : forall st i m, at1i tid on_orbit st i m ->
    exists v st', ev c st = Ok v st' /\ at1i tid on_orbit st' i m /\ truthy st' v = truth_at i.
  Proof.
    intros st i m ((j & Hj & ->) & t & Ht & Et & Ei & Em).
    unfold at_idx, set1 in Ht. simpl in Ht. injection Ht as <-. cbn [tr_index set_index] in Ei. subst j.
    destruct (Hpure i Hj) as [v Hv]. exists v, (at_idx i). split; [exact Hv|]. split.
    - split; [exists i; split; [exact Hj|reflexivity]|]. exists (set_index t0 i). repeat split; [exact Htid|exact Em].
    - unfold truth_at. rewrite Hv. reflexivity.
  Qed.

  Theorem find_pointwise fuel i :
    0 <= i <= tr_max t0 -> (Z.to_nat (tr_max t0 - i) < fuel)%nat ->
    op_find fuel ev [c] (at_idx i) =
    Ok (PL (map VInt (filter truth_at (zrange_nat i (S (Z.to_nat (tr_max t0 - i))))))) (at_idx i).
  Proof.
    intros Hr Hf.
    destruct (find_single ev tid c truth_at on_orbit orbit_move orbit_cond fuel (at_idx i) i (tr_max t0))
      as (st' & Hfind & (j & Hj & ->) & t & Ht & Et & Ei & Em); [|exact Hr|exact Hf|].
    - split; [exists i; split; [exact Hr|reflexivity]|]. exists (set_index t0 i). repeat split. exact Htid.
    - unfold at_idx, set1 in Ht. simpl in Ht. injection Ht as <-. cbn [tr_index set_index] in Ei. subst j. exact Hfind.
  Qed.
End Pointwise.

(** * position neutrality with any number of traces *)
Definition trs (st : state) : list (string * trace) := c_traces (st_cont st).
Definition tshape (t : trace) := (tr_tid t, tr_max t).
Definition tframe (t : trace) := (tr_tid t, tr_index t, tr_max t).
Definition wfl (l : list (string * trace)) : Prop := forall k t, alookup k l = Some t -> tr_tid t = k.
(** same traces under the same names with the same extent; indices may differ *)
Definition same_shape (l l' : list (string * trace)) : Prop :=
  map fst l' = map fst l /\ forall k, option_map tshape (alookup k l') = option_map tshape (alookup k l).
(** ... and the same indices *)
Definition same_frame (l l' : list (string * trace)) : Prop :=
  map fst l' = map fst l /\ forall k, option_map tframe (alookup k l') = option_map tframe (alookup k l).

Lemma same_shape_refl l : same_shape l l.
Proof. split; reflexivity. Qed.
Lemma same_shape_trans l1 l2 l3 : same_shape l1 l2 -> same_shape l2 l3 -> same_shape l1 l3.
Proof. intros [K1 L1] [K2 L2]. split; [congruence|]. intros k. rewrite L2. apply L1. Qed.

Lemma wfl_shape l l' : wfl l -> same_shape l l' -> wfl l'.
Proof.
  intros H [_ Hs] k t Hl. specialize (Hs k). rewrite Hl in Hs.
  destruct (alookup k l) as [t0|] eqn:E; [|discriminate]. cbn [option_map] in Hs. unfold tshape in Hs.
  injection Hs as Ht _. rewrite Ht. apply H, E.
Qed.

Lemma alookup_some_in {V} k (l : list (string * V)) v : alookup k l = Some v -> In (k, v) l.
Proof.
  induction l as [|[k' v'] l IH]; cbn [alookup]; [discriminate|].
  destruct (String.eqb_spec k k') as [->|_]; intros H; [injection H as ->; left; reflexivity|right; apply IH, H].
Qed.

Lemma in_alookup_some {V} k (l : list (string * V)) v : In (k, v) l -> exists v', alookup k l = Some v'.
Proof.
  induction l as [|[k' v'] l IH]; cbn [alookup In]; [intros []|].
  destruct (String.eqb_spec k k') as [->|Hne]; intros H; [eauto|].
  destruct H as [E|H]; [injection E as -> _; contradiction|apply IH, H].
Qed.

Lemma keys_lookup {V W} (l : list (string * V)) (l' : list (string * W)) k :
  map fst l' = map fst l -> (alookup k l = None <-> alookup k l' = None).
Proof. intros H. rewrite !RevalProofs.alookup_None_notin, H. tauto. Qed.

Lemma trace_step_shape t n : tshape (fst (trace_step t n)) = tshape t.
Proof. unfold trace_step. destruct ((tr_index t + n <? 0) || (tr_max t <? tr_index t + n)); reflexivity. Qed.

Lemma step_all_keys l n : map fst (fst (step_all l n)) = map fst l.
Proof.
  induction l as [|[k t] l IH]; [reflexivity|]. cbn [step_all].
  destruct (trace_step t n) as [t' e]. destruct (step_all l n) as [r' es]. cbn [fst map] in *. f_equal. exact IH.
Qed.

Lemma step_all_lookup l n k : alookup k (fst (step_all l n)) = option_map (fun t => fst (trace_step t n)) (alookup k l).
Proof.
  induction l as [|[k' t] l IH]; [reflexivity|]. cbn [step_all].
  destruct (trace_step t n) as [t' e] eqn:Et. destruct (step_all l n) as [r' es]. cbn [fst alookup] in *.
  destruct (String.eqb k k'); [cbn [option_map]; rewrite Et; reflexivity|exact IH].
Qed.

Lemma step_all_m_shape n st e st' : step_all_m n st = Ok e st' -> same_shape (trs st) (trs st').
Proof.
  unfold step_all_m, bind, get_st, cont_step. destruct (step_all (c_traces (st_cont st)) n) as [ts es] eqn:E.
  unfold modify, ret. intros H. injection H as _ <-. unfold trs. simpl.
  replace ts with (fst (step_all (c_traces (st_cont st)) n)) by (rewrite E; reflexivity).
  split; [apply step_all_keys|]. intros k. rewrite step_all_lookup.
  destruct (alookup k (c_traces (st_cont st))); [cbn [option_map]; rewrite trace_step_shape|]; reflexivity.
Qed.

Fixpoint restore_go (saved : list (string * Z)) (ts : list (string * trace)) : M unit :=
  match ts with
  | [] => ret tt
  | (tid, _) :: r =>
      match alookup tid saved with
      | Some i => set_trace_index tid i ;;; restore_go saved r
      | None => fail EOther
      end
  end.

Lemma restore_saved_go saved st : restore_saved saved st = restore_go saved (trs st) st.
Proof.
  unfold restore_saved, bind at 1, get_st at 1. unfold trs. generalize (c_traces (st_cont st)) as ts. intros ts. revert st.
  induction ts as [|[tid x] r IH]; intros st; [reflexivity|]. cbn [restore_go].
  destruct (alookup tid saved) as [i|]; [|reflexivity]. unfold bind. destruct (set_trace_index tid i st); try reflexivity. apply IH.
Qed.

Lemma set_trace_index_spec st tid i t : alookup tid (trs st) = Some t -> tr_tid t = tid ->
  set_trace_index tid i st = Ok tt (upd_cont st (with_traces (st_cont st) (aset tid (set_index t i) (trs st)))).
Proof.
  unfold trs. intros H E. unfold set_trace_index, bind, get_st. rewrite H. unfold replace_trace, modify. cbn [tr_tid set_index].
  rewrite E. reflexivity.
Qed.

Lemma restore_go_spec saved : forall ts st, wfl (trs st) ->
  (forall k t, In (k, t) ts -> (exists i, alookup k saved = Some i) /\ exists t', alookup k (trs st) = Some t') ->
  exists st', restore_go saved ts st = Ok tt st' /\ map fst (trs st') = map fst (trs st) /\
    forall k, option_map tframe (alookup k (trs st')) =
              match (if amem k ts then alookup k saved else None) with
              | Some i => option_map (fun t => (tr_tid t, i, tr_max t)) (alookup k (trs st))
              | None => option_map tframe (alookup k (trs st))
              end.
Proof.
  induction ts as [|[tid x] r IH]; intros st Hwf Hall.
  - exists st. split; [reflexivity|]. split; [reflexivity|]. intros k. reflexivity.
  - destruct (Hall tid x (or_introl eq_refl)) as [[i Hi] [t' Ht']].
    cbn [restore_go]. rewrite Hi. unfold bind at 1. rewrite (set_trace_index_spec _ _ _ _ Ht' (Hwf _ _ Ht')).
    set (st1 := upd_cont st (with_traces (st_cont st) (aset tid (set_index t' i) (trs st)))).
    assert (Htr1 : trs st1 = aset tid (set_index t' i) (trs st)) by reflexivity.
    destruct (IH st1) as (st' & Hgo & Hkeys & Hlk).
    + intros k t. rewrite Htr1. destruct (String.eqb_spec k tid) as [->|Hne].
      * rewrite alookup_aset_same. intros E. injection E as <-. cbn [tr_tid set_index]. apply (Hwf _ _ Ht').
      * rewrite alookup_aset_other by (apply String.eqb_neq; exact Hne). apply Hwf.
    + intros k t Hin. destruct (Hall k t (or_intror Hin)) as [Hs [t2 Ht2]]. split; [exact Hs|]. rewrite Htr1.
      destruct (String.eqb_spec k tid) as [->|Hne]; [rewrite alookup_aset_same; eauto|].
      rewrite alookup_aset_other by (apply String.eqb_neq; exact Hne). eauto.
    + exists st'. split; [exact Hgo|]. split.
      * rewrite Hkeys, Htr1. apply ListProofs.keys_aset_old. unfold amem. rewrite Ht'. reflexivity.
      * intros k. rewrite Hlk, Htr1. unfold amem. cbn [alookup]. destruct (String.eqb_spec k tid) as [->|Hne].
        -- rewrite alookup_aset_same, Hi, Ht'. destruct (alookup tid r); reflexivity.
        -- rewrite alookup_aset_other by (apply String.eqb_neq; exact Hne). reflexivity.
Qed.

Lemma wfl_of_cont_wf c : RevalProofs.cont_wf c -> wfl (c_traces c).
Proof. intros [_ H] k t Hl. apply H. apply alookup_some_in, Hl. Qed.

(** restoring the positions saved at the start puts every trace back, whatever moved meanwhile *)
Lemma restore_puts_all_back st0 st1 st2 :
  RevalProofs.cont_wf (st_cont st0) -> same_shape (trs st0) (trs st1) ->
  restore_saved (cont_indices (st_cont st0)) st1 = Ok tt st2 -> same_frame (trs st0) (trs st2).
Proof.
  intros Hwf Hsh Hr. pose proof (wfl_of_cont_wf _ Hwf) as Hw0. pose proof (wfl_shape _ _ Hw0 Hsh) as Hw1.
  rewrite restore_saved_go in Hr. destruct Hsh as [Hk Hl].
  destruct (restore_go_spec (cont_indices (st_cont st0)) (trs st1) st1 Hw1) as (st' & Hgo & Hkeys & Hlk).
  { intros k t Hin. destruct (in_alookup_some _ _ _ Hin) as [t1 Ht1]. split; [|eauto].
    rewrite (RevalProofs.cont_indices_lookup _ Hwf). specialize (Hl k). rewrite Ht1 in Hl.
    destruct (alookup k (c_traces (st_cont st0))) as [t0|] eqn:E0; [cbn [option_map]; eauto|].
    unfold trs in Hl. rewrite E0 in Hl. discriminate. }
  rewrite Hgo in Hr. injection Hr as <-. split; [congruence|]. intros k. rewrite Hlk. unfold amem.
  rewrite (RevalProofs.cont_indices_lookup _ Hwf). specialize (Hl k). unfold trs in *.
  destruct (alookup k (c_traces (st_cont st1))) as [t1|] eqn:E1; destruct (alookup k (c_traces (st_cont st0))) as [t0|] eqn:E0;
    cbn [option_map] in *; try discriminate; try reflexivity.
  unfold tshape in Hl. injection Hl as H1 H2. unfold tframe. rewrite H1, H2. reflexivity.
Qed.

Ltac binv H :=
  let a := fresh "a" in let s := fresh "s" in let E := fresh "E" in
  apply Balanced.bind_ok_inv in H; destruct H as (a & s & E & H).

Section Neutral.
  Variable ev : val -> M val.
  Variable c : val.
  Variable body : list val.
  (** condition and body keep the set of traces and their extent (they may move indices, as a
      body stepping inside a timeframe does transiently, and change anything else) *)
  Hypothesis Hc : forall st v st', ev c st = Ok v st' -> same_shape (trs st) (trs st').
  Hypothesis Hb : forall st vs st', eval_args ev body st = Ok vs st' -> same_shape (trs st) (trs st').

  Lemma visit_shape last st l st' : visit ev c body last st = Ok l st' -> same_shape (trs st) (trs st').
  Proof.
    unfold visit. intros H. binv H. binv H. unfold get_st in E0. injection E0 as <- <-.
    pose proof (Hc _ _ _ E) as S1. destruct (truthy s a).
    - binv H. unfold last_or_index_error in H. destruct (last_opt a0); [|discriminate]. injection H as _ <-.
      eapply same_shape_trans; [exact S1|apply (Hb _ _ _ E0)].
    - injection H as _ <-. exact S1.
  Qed.

  Lemma whenever_loop_shape n : forall last st r st',
    whenever_loop ev n c body last st = Ok r st' -> same_shape (trs st) (trs st').
  Proof.
    induction n as [|n IH]; intros last st r st' H; [discriminate|].
    rewrite whenever_loop_unfold in H. destruct (visit ev c body last st) as [l st2| | |] eqn:Ev; try discriminate.
    pose proof (visit_shape _ _ _ _ Ev) as S1.
    destruct (step_all_m 1 st2) as [e st3| | |] eqn:Es; try discriminate.
    pose proof (step_all_m_shape _ _ _ _ Es) as S2.
    destruct e as [|x e'].
    - eapply same_shape_trans; [exact S1|]. eapply same_shape_trans; [exact S2|]. apply (IH _ _ _ _ H).
    - injection H as _ <-. eapply same_shape_trans; eassumption.
  Qed.

  (** after (whenever c body...) every trace index is what it was before *)
  Theorem whenever_position_neutral fuel st r st' :
    cont_wf (st_cont st) -> op_whenever fuel ev (c :: body) st = Ok r st' -> same_frame (trs st) (trs st').
  Proof.
    intros Hwf H. unfold op_whenever in H. binv H.
    unfold assert in E. destruct (2 <=? zlen (c :: body)); [|discriminate]. injection E as _ <-.
    binv H. unfold get_st in E. injection E as <- <-.
    binv H. binv H. injection H as _ <-.
    match goal with X : restore_saved _ ?sa = Ok ?u ?sb |- _ => destruct u; apply (restore_puts_all_back st sa sb Hwf); [|exact X] end.
    match goal with X : whenever_loop _ _ _ _ _ _ = _ |- _ => apply (whenever_loop_shape _ _ _ _ _ X) end.
  Qed.


  Lemma findg_loop_shape n : forall acc st r st',
    findg_loop ev n c acc st = Ok r st' -> same_shape (trs st) (trs st').
  Proof.
    induction n as [|n IH]; intros acc st r st' H; [discriminate|].
    cbn [findg_loop] in H. binv H. binv H. unfold get_st in E0. injection E0 as <- <-.
    pose proof (Hc _ _ _ E) as S1. binv H.
    assert (S2 : same_shape (trs s) (trs s0)).
    { destruct (truthy s a).
      - destruct (cont_indices (st_cont s)) as [|[k i] [|p q]].
        + binv E0. unfold new_array in E0. injection E0 as _ <-. injection E1 as _ <-. apply same_shape_refl.
        + injection E0 as _ <-. apply same_shape_refl.
        + binv E0. unfold new_array in E0. injection E0 as _ <-. injection E1 as _ <-. apply same_shape_refl.
      - injection E0 as _ <-. apply same_shape_refl. }
    binv H. pose proof (step_all_m_shape _ _ _ _ E1) as S3.
    destruct a1 as [|x e'].
    - eapply same_shape_trans; [exact S1|]. eapply same_shape_trans; [exact S2|]. eapply same_shape_trans; [exact S3|].
      apply (IH _ _ _ _ H).
    - injection H as _ <-. eapply same_shape_trans; [exact S1|]. eapply same_shape_trans; eassumption.
  Qed.

  Theorem find_g_position_neutral fuel st r st' :
    cont_wf (st_cont st) -> op_find_g fuel ev [c] st = Ok r st' -> same_frame (trs st) (trs st').
  Proof.
    intros Hwf H. unfold op_find_g in H. cbn [List.length Nat.eqb assert arg0] in H.
    binv H. injection E as <- <-. binv H. injection E as <- <-. binv H. unfold get_st in E. injection E as <- <-.
    binv H. binv H. injection H as _ <-.
    match goal with X : restore_saved _ ?sa = Ok ?u ?sb |- _ => destruct u; apply (restore_puts_all_back st sa sb Hwf); [|exact X] end.
    match goal with X : findg_loop _ _ _ _ _ = _ |- _ => apply (findg_loop_shape _ _ _ _ _ X) end.
  Qed.
End Neutral.

(** * non-vacuity: a condition satisfying the hypotheses, and the result on a concrete trace *)
Definition ev_even (_ : val) : M val :=
  fun st => match trs st with
            | [(_, t)] => Ok (VBool (Z.even (tr_index t))) st
            | _ => Er EOther st
            end.

Lemma ev_even_ok tid c : forall st i m, at1i tid (fun _ => True) st i m ->
  exists v st', ev_even c st = Ok v st' /\ at1i tid (fun _ => True) st' i m /\ truthy st' v = Z.even i.
Proof.
  intros st i m (_ & t & Ht & Etid & Ei & Em). exists (VBool (Z.even i)), st. unfold ev_even, trs. rewrite Ht, Ei.
  split; [reflexivity|]. split; [split; [exact I|exists t; repeat split; assumption]|reflexivity].
Qed.

Definition demo_trace : trace := mkTrace "t" "f" 1 4 [0;1;2;3;4] [0;1;2;3;4] None [] [] [] [] [].
Definition demo_state : state :=
  mkState [] O [] (mkCont [("t", demo_trace)] 1 []) "" "" [] 0 [] [].

Example find_demo : exists st', op_find 10 ev_even [VNone] demo_state = Ok (PL [VInt 2; VInt 4]) st' /\ at1 st' "t" 1 4.
Proof.
  destruct (find_single ev_even "t" VNone Z.even (fun _ => True) (fun _ _ _ _ _ _ => I) (ev_even_ok "t" VNone) 10 demo_state 1 4)
    as (st' & H & _ & Hat).
  - split; [exact I|]. exists demo_trace. repeat split.
  - lia.
  - cbn. lia.
  - exists st'. split; assumption.
Qed.

(** * the premise of [find_pointwise] is met by the real evaluator on a real condition *)
From WalModel Require Import Api.
Definition sig_trace : trace :=
  mkTrace "t" "f" 0 4 [0;10;20;30;40] [0;10;20;30;40] None ["a"] [("a", ["0";"1";"1";"0";"1"]%string)] [] [("a", 1)] [].
Definition sig_state : state := mkState [] O [] (mkCont [("t", sig_trace)] 1 []) "" "" [] 0 [] [].
Definition sig_cond : val := WL [VOp OEq; VSym "a" None; VInt 1].

Lemma sig_cond_pure : forall j, 0 <= j <= tr_max sig_trace ->
  exists v, ev0 sig_cond (at_idx "t" sig_state sig_trace j) = Ok v (at_idx "t" sig_state sig_trace j).
Proof.
  intros j Hj. cbn [tr_max sig_trace] in Hj.
  assert (E : j = 0 \/ j = 1 \/ j = 2 \/ j = 3 \/ j = 4) by lia.
  destruct E as [->|[->|[->|[->| ->]]]]; eexists; vm_compute; reflexivity.
Qed.

Example find_on_real_evaluator :
  op_find 10 ev0 [sig_cond] (at_idx "t" sig_state sig_trace 0) =
  Ok (PL [VInt 1; VInt 2; VInt 4]) (at_idx "t" sig_state sig_trace 0).
Proof.
  rewrite (find_pointwise ev0 "t" sig_cond sig_state sig_trace eq_refl sig_cond_pure 10 0); [|cbn; lia|cbn; lia].
  f_equal.
Qed.

(** * for conditions of the read-only fragment purity is a theorem (ReadOnly.ro_pure): only success remains a premise *)
From WalModel.proofs Require Import ReadOnly.

Theorem find_pointwise_ro lf f tid c st0 t0 :
  tr_tid t0 = tid -> tr_virt t0 = [] -> is_ro c = true ->
  (forall j, 0 <= j <= tr_max t0 -> exists v st', eval lf f c (at_idx tid st0 t0 j) = Ok v st') ->
  forall fuel i, 0 <= i <= tr_max t0 -> (Z.to_nat (tr_max t0 - i) < fuel)%nat ->
  op_find fuel (eval lf f) [c] (at_idx tid st0 t0 i) =
  Ok (PL (map VInt (filter (truth_at (eval lf f) tid c st0 t0) (zrange_nat i (S (Z.to_nat (tr_max t0 - i))))))) (at_idx tid st0 t0 i).
Proof.
  intros Htid Hv Hro Hok. apply (find_pointwise (eval lf f) tid c st0 t0 Htid).
  intros j Hj. destruct (Hok j Hj) as (v & st' & E). exists v. rewrite E. f_equal.
  apply (ro_pure lf f c Hro _ _ _) in E; [exact E|].
  intros k t [H|[]]. injection H as _ <-. exact Hv.
Qed.
