(** WawkProofs.v — structure of the WAL program AST.emit produces from WAWK statements, and the
    meaning of its main loop (C20). *)
From WalModel Require Import Wawk.
From WalModel.proofs Require Import VcdProofs ListProofs ScanProofs.
Local Open Scope Z_scope.

(** * classification: every statement is a BEGIN action, an END action or a conditional statement,
      exactly one of them, and each class keeps the source order *)
Definition is_begin (s : wstmt) := is_marker "BEGIN" (fst s).
Definition is_end (s : wstmt) := negb (is_marker "BEGIN" (fst s)) && is_marker "END" (fst s).
Definition is_cond (s : wstmt) := negb (is_marker "BEGIN" (fst s)) && negb (is_marker "END" (fst s)).

Theorem classes_partition s :
  (is_begin s = true /\ is_end s = false /\ is_cond s = false) \/
  (is_begin s = false /\ is_end s = true /\ is_cond s = false) \/
  (is_begin s = false /\ is_end s = false /\ is_cond s = true).
Proof.
  unfold is_begin, is_end, is_cond. destruct (is_marker "BEGIN" (fst s)), (is_marker "END" (fst s)); cbn; tauto.
Qed.

Theorem classes_count p :
  (List.length (begin_actions p) + List.length (end_actions p) + List.length (cond_statements p))%nat = List.length p.
Proof.
  unfold begin_actions, end_actions, cond_statements. rewrite !map_length.
  induction p as [|s p IH]; [reflexivity|]. cbn [filter List.length].
  destruct (is_marker "BEGIN" (fst s)), (is_marker "END" (fst s)); cbn [negb andb List.length]; lia.
Qed.

Theorem classes_keep_order p q :
  begin_actions (p +++ q) = begin_actions p +++ begin_actions q /\
  end_actions (p +++ q) = end_actions p +++ end_actions q /\
  cond_statements (p +++ q) = cond_statements p +++ cond_statements q.
Proof.
  unfold begin_actions, end_actions, cond_statements. rewrite !filter_app, !map_app. repeat split.
Qed.

Theorem classes_members p s :
  (In s p /\ is_begin s = true -> In (snd s) (begin_actions p)) /\
  (In s p /\ is_end s = true -> In (snd s) (end_actions p)) /\
  (In s (cond_statements p) <-> In s p /\ is_cond s = true).
Proof.
  unfold begin_actions, end_actions, cond_statements, is_begin, is_end, is_cond. split; [|split; [|split]].
  - intros [H1 H2]. apply in_map. apply filter_In. split; assumption.
  - intros [H1 H2]. apply in_map. apply filter_In. split; assumption.
  - intros H. apply filter_In in H. tauto.
  - intros H. apply filter_In. tauto.
Qed.

(** * shape of the emitted program *)
Definition is_define (e : val) : bool :=
  match e with VList false [VOp ODefine; VSym _ None; _] => true | _ => false end.

Theorem emit_shape p forms :
  wawk_emit p = Some forms ->
  exists vars,
    forms = PL (VOp ODo :: map (fun kv => PL [VOp ODefine; VSym (fst kv) None; snd kv]) vars +++ begin_actions p)
            :: (match cond_statements p with [] => [] | _ => [emit_main_loop (cond_statements p)] end)
            +++ end_actions p.
Proof.
  unfold wawk_emit. cbv zeta.
  destruct (find_vars _ (PL (begin_actions p)) []) as [v1|]; [|discriminate].
  destruct (find_vars _ (PL (end_actions p)) v1) as [v2|]; [|discriminate].
  destruct (find_vars _ (emit_main_loop (cond_statements p)) v2) as [v3|]; [|discriminate].
  intros H. injection H as <-. exists v3. reflexivity.
Qed.

(** the main loop: one (when (&& c1 ... cn) action) per conditional statement, in source order,
    under (whenever #t ...) *)
Theorem main_loop_shape stmts :
  emit_main_loop stmts =
  PL (VOp OWhenever :: VBool true :: map (fun s => PL [VSym "when" None; PL (VOp OAnd :: fst s); snd s]) stmts).
Proof. reflexivity. Qed.

(** no main loop is emitted for a program without conditional statements *)
Theorem no_statements_no_loop p forms :
  wawk_emit p = Some forms -> cond_statements p = [] ->
  exists first, forms = first :: end_actions p.
Proof. intros H Hc. destruct (emit_shape _ _ H) as [vars ->]. rewrite Hc. eexists. reflexivity. Qed.

(** * variables are pre-defined once each: the keys collected by find_variables are distinct *)
Definition keys_nodup (v : list (string * val)) : Prop := NoDup (map fst v).

Lemma fold_opt_nodup {A} (g : list (string * val) -> A -> option (list (string * val))) :
  (forall v x v', g v x = Some v' -> keys_nodup v -> keys_nodup v') ->
  forall l v v', fold_left (fun acc x => match acc with Some v => g v x | None => None end) l (Some v) = Some v' ->
                 keys_nodup v -> keys_nodup v'.
Proof.
  intros Hg. induction l as [|x l IH]; cbn [fold_left]; intros v v' H Hn.
  - injection H as <-. exact Hn.
  - destruct (g v x) as [v1|] eqn:E.
    + apply (IH _ _ H). apply (Hg _ _ _ E Hn).
    + exfalso. clear - H. induction l as [|y l IHl]; cbn [fold_left] in H; [discriminate|apply IHl, H].
Qed.

Lemma fold_left_none {A B} (F : option A -> B -> option A) (HF : forall x, F None x = None) l : fold_left F l None = None.
Proof. induction l as [|x l IH]; cbn [fold_left]; [reflexivity|rewrite HF; exact IH]. Qed.

Theorem find_vars_nodup f : forall e v v', find_vars f e v = Some v' -> keys_nodup v -> keys_nodup v'.
Proof.
  induction f as [|f IH]; intros e v v' H Hn; [discriminate|].
  destruct e as [| | | | | | |w l| | | | |]; cbn [find_vars] in H; try (injection H as <-; exact Hn).
  cbv zeta in H.
  assert (Hsub : forall l0 va vb, fold_left (fun acc x => match acc with Some v => find_vars f x v | None => None end) l0 (Some va) = Some vb ->
                                  keys_nodup va -> keys_nodup vb).
  { intros l0. apply (fold_opt_nodup (fun v x => find_vars f x v)). intros v0 x v0' Hx. apply (IH _ _ _ Hx). }
  match type of H with match ?V1 with _ => _ end = _ => destruct V1 as [v1|] eqn:E1; [|discriminate] end.
  assert (Hn1 : keys_nodup v1).
  { destruct l as [|h bindings]; [injection E1 as <-; exact Hn|].
    destruct h; try (injection E1 as <-; exact Hn). destruct o; try (injection E1 as <-; exact Hn).
    destruct (Nat.ltb 1 (List.length (VOp OSet :: bindings))); [|injection E1 as <-; exact Hn].
    match type of E1 with fold_left ?F0 _ _ = _ => set (F := F0) in E1 end.
    assert (HF : forall x, F None x = None) by reflexivity.
    revert E1 Hn. generalize v. clear H. induction bindings as [|b bs IHb]; cbn [fold_left]; intros va E1 Hna.
    - injection E1 as <-. exact Hna.
    - destruct (F (Some va) b) as [vb|] eqn:Eb; [|rewrite (fold_left_none F HF) in E1; discriminate].
      apply (IHb _ E1). clear - Eb Hna IH. unfold F in Eb.
      destruct b as [| | | | | | |wb lb| | | | |]; try discriminate.
      destruct lb as [|k [|rhs r]]; try discriminate; destruct k as [| | | | |n stp| | | | | | |]; try discriminate.
      apply (IH _ _ _ Eb). apply nodup_aset, Hna. }
  destruct l as [|h rest]; [apply (Hsub _ _ _ H Hn1)|].
  destruct h; try (apply (Hsub _ _ _ H Hn1)). destruct o; try (apply (Hsub _ _ _ H Hn1)).
  destruct rest as [|a rest']; [apply (Hsub _ _ _ H Hn1)|].
  destruct a as [| | | | |n steps| | | | | | |]; try discriminate.
  destruct (Nat.ltb 1 (List.length (VOp OSeta :: VSym n steps :: rest'))); [|apply (Hsub _ _ _ H Hn1)].
  destruct (last_opt (VOp OSeta :: VSym n steps :: rest')) as [value|]; [|discriminate].
  apply (IH _ _ _ H). apply nodup_aset, Hn1.
Qed.

(** every pre-defined variable is defined exactly once (a second define of a name is an error in WAL) *)
Theorem emit_defines_distinct p forms :
  wawk_emit p = Some forms ->
  exists vars, NoDup (map fst vars) /\
    forms = PL (VOp ODo :: map (fun kv => PL [VOp ODefine; VSym (fst kv) None; snd kv]) vars +++ begin_actions p)
            :: (match cond_statements p with [] => [] | _ => [emit_main_loop (cond_statements p)] end)
            +++ end_actions p.
Proof.
  unfold wawk_emit. cbv zeta.
  destruct (find_vars _ (PL (begin_actions p)) []) as [v1|] eqn:E1; [|discriminate].
  destruct (find_vars _ (PL (end_actions p)) v1) as [v2|] eqn:E2; [|discriminate].
  destruct (find_vars _ (emit_main_loop (cond_statements p)) v2) as [v3|] eqn:E3; [|discriminate].
  intros H. injection H as <-. exists v3. split; [|reflexivity].
  apply (find_vars_nodup _ _ _ _ E3), (find_vars_nodup _ _ _ _ E2), (find_vars_nodup _ _ _ _ E1). constructor.
Qed.

(** an assignment target is collected *)
Theorem assignment_target_collected f n a rhs v v' :
  find_vars (S (S f)) (PL [VOp OSet; PL [VSym n a; rhs]]) v = Some v' ->
  exists v1, find_vars (S f) rhs (aset n (VInt 0) v) = Some v1.
Proof.
  remember (S f) as g eqn:Eg. intros H. unfold PL in H. cbn [find_vars] in H. cbv zeta in H.
  cbn [List.length Nat.ltb Nat.leb fold_left] in H.
  destruct (find_vars g rhs (aset n (VInt 0) v)) as [v1|]; [eauto|discriminate].
Qed.

(** * meaning of the main loop on one trace: every index from the current one to the last, in
      order; at each index the statements in source order *)
Section MainLoop.
  Variable ev : val -> M val.
  Variable tid : string.
  Hypothesis Htrue : forall st, ev (VBool true) st = Ok (VBool true) st.   (* a literal evaluates to itself: OptProofs.eval_literal *)
  Variable whens : list val.
  Hypothesis Hb : forall st i m vs st', at1 st tid i m -> eval_args ev whens st = Ok vs st' -> at1 st' tid i m.

  Lemma true_cond : forall st i m, at1i tid (fun _ => True) st i m ->
    exists v st', ev (VBool true) st = Ok v st' /\ at1i tid (fun _ => True) st' i m /\ truthy st' v = (fun _ : Z => true) i.
  Proof. intros st i m H. exists (VBool true), st. rewrite Htrue. repeat split; apply H. Qed.

  Lemma Hb' : forall st i m vs st', at1i tid (fun _ => True) st i m -> eval_args ev whens st = Ok vs st' -> at1i tid (fun _ => True) st' i m.
  Proof. intros st i m vs st' [_ H] E. split; [exact I|apply (Hb _ _ _ _ _ H E)]. Qed.

  Theorem main_loop_visits_every_index fuel st i m :
    at1 st tid i m -> 0 <= i <= m -> (Z.to_nat (m - i) < fuel)%nat -> whens <> [] ->
    op_whenever fuel ev (VBool true :: whens) st =
    (r <- wh_spec ev tid (VBool true) whens (zrange_nat i (S (Z.to_nat (m - i)))) VNone ;; set_trace_index tid i ;;; ret r) st.
  Proof. intros Hat. apply (whenever_single ev tid (VBool true) (fun _ => true) (fun _ => True) (fun _ _ _ _ _ _ => I) true_cond whens Hb'). split; [exact I|exact Hat]. Qed.

  (** one visit evaluates every statement's (when ...) form, in source order *)
  Theorem visit_runs_all_statements last st :
    visit ev (VBool true) whens last st = (vs <- eval_args ev whens ;; last_or_index_error vs) st.
  Proof. unfold visit, bind at 1. rewrite Htrue. reflexivity. Qed.
End MainLoop.
