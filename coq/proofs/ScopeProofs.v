(** ScopeProofs.v — scoped/grouped references denote the intended signal and the
    captured scope/group are restored (C05). *)
From WalModel Require Import Eval.
From WalModel.proofs Require Import VcdProofs Balanced.
Local Open Scope Z_scope.

(** * reading back what was written to a variable *)
Lemma replace_frame_nth : forall l id f, (id < List.length l)%nat -> nth_error (replace_frame l id f) id = Some f.
Proof.
  induction l as [|x l IH]; intros id f H; [cbn in H; lia|]. destruct id; [reflexivity|].
  cbn [replace_frame nth_error]. apply IH. cbn [List.length] in H. lia.
Qed.
Lemma replace_frame_other : forall l id f j, j <> id -> nth_error (replace_frame l id f) j = nth_error l j.
Proof.
  induction l as [|x l IH]; intros id f j H; [reflexivity|]. destruct id, j; try reflexivity; try congruence.
  cbn [replace_frame nth_error]. apply IH. congruence.
Qed.
Lemma replace_frame_length : forall l id f, List.length (replace_frame l id f) = List.length l.
Proof. induction l as [|x l IH]; intros id f; [reflexivity|]. destruct id; cbn [replace_frame List.length]; [reflexivity|]. f_equal. apply IH. Qed.

Lemma amem_aset_same {V} k (v : V) l : amem k (aset k v l) = true.
Proof. unfold amem. rewrite alookup_aset_same. reflexivity. Qed.
Lemma amem_aset_other {V} k k' (v : V) l : String.eqb k k' = false -> amem k (aset k' v l) = amem k l.
Proof. intros H. unfold amem. rewrite alookup_aset_other by exact H. reflexivity. Qed.

(** storing a value under a name that frame [fid] already binds does not change which frame any
    lookup finds *)
Lemma find_frame_store : forall fuel st fid n v f id name,
  get_frame st fid = Some f -> amem n (f_binds f) = true ->
  find_frame fuel (put_frame st fid (mkFrame (aset n v (f_binds f)) (f_parent f))) id name = find_frame fuel st id name.
Proof.
  induction fuel as [|k IH]; intros st fid n v f id name Hf Hn; [reflexivity|]. cbn [find_frame].
  unfold get_frame, put_frame in *. cbn [upd_frames st_frames].
  destruct (Nat.eq_dec id fid) as [->|Hne].
  - assert (Hlt : (fid < List.length (st_frames st))%nat) by (apply nth_error_Some; congruence).
    rewrite replace_frame_nth by exact Hlt. rewrite Hf. cbn [f_binds f_parent].
    destruct (String.eqb name n) eqn:E.
    + apply String.eqb_eq in E. subst name. rewrite amem_aset_same, Hn. reflexivity.
    + rewrite amem_aset_other by exact E. destruct (amem name (f_binds f)); [reflexivity|].
      destruct (f_parent f) as [p|] eqn:Ep; [|reflexivity]. rewrite <- Ep. apply (IH st fid n v f); assumption.
  - rewrite replace_frame_other by exact Hne. destruct (nth_error (st_frames st) id) as [g|]; [|reflexivity].
    destruct (amem name (f_binds g)); [reflexivity|]. destruct (f_parent g); [|reflexivity].
    apply (IH st fid n v f); assumption.
Qed.

Lemma find_frame_binds : forall fuel st id name fid,
  find_frame fuel st id name = Some fid -> exists f, get_frame st fid = Some f /\ amem name (f_binds f) = true.
Proof.
  induction fuel as [|k IH]; intros st id name fid H; [discriminate|]. cbn [find_frame] in H.
  destruct (get_frame st id) as [f|] eqn:E; [|discriminate].
  destruct (amem name (f_binds f)) eqn:Em.
  - injection H as <-. eauto.
  - destruct (f_parent f); [|discriminate]. eapply IH. exact H.
Qed.

Theorem write_then_read id n v st st' :
  env_write id n v st = Ok tt st' -> env_read id n st' = Ok v st'.
Proof.
  unfold env_write, env_read, lookup_frame. destruct (find_frame _ st id n) as [fid|] eqn:E; [|discriminate].
  destruct (find_frame_binds _ _ _ _ _ E) as [f [Hf Hm]].
  unfold frame_store. rewrite Hf. intros H. injection H as <-.
  unfold put_frame at 1. cbn [upd_frames st_frames]. rewrite replace_frame_length.
  rewrite (find_frame_store _ st fid n v f id n Hf Hm), E.
  unfold get_frame, put_frame. cbn [upd_frames st_frames].
  rewrite replace_frame_nth by (apply nth_error_Some; unfold get_frame in Hf; congruence).
  cbn [f_binds]. rewrite alookup_aset_same. reflexivity.
Qed.

Section WithEv.
  Variable ev : val -> M val.
  Hypothesis Hev : forall e, good (ev e).

  (** what ~n and #n denote *)
  Theorem scoped_ref_denotes n s st cs :
    read_global "CS" st = Ok (VStr cs) st ->
    op_resolve_scope ev [VSym n s] st =
    read_named_signal ev (if smem cs (cont_scopes (st_cont st)) then cs ++ "." ++ alias_of st n else cs ++ alias_of st n) st.
  Proof.
    intros Hcs. unfold op_resolve_scope. cbn [List.length Nat.eqb assert]. unfold bind at 1. cbn [ret].
    unfold bind at 1. unfold get_st at 1. unfold bind at 1. unfold cs_text. unfold bind at 1. rewrite Hcs. cbn [ret]. reflexivity.
  Qed.

  Theorem grouped_ref_denotes n s st :
    op_resolve_group ev [VSym n s] st = read_named_signal ev (st_group st ++ alias_of st n) st.
  Proof. unfold op_resolve_group. cbn [List.length Nat.eqb assert]. unfold bind at 1. cbn [ret]. reflexivity. Qed.

  (** a reference to a signal that does not exist raises an error *)
  Theorem missing_signal_raises name st :
    cont_contains (st_cont st) name = Some false -> read_named_signal ev name st = Er EEval st.
  Proof.
    intros H. unfold read_named_signal, contains_m, bind, get_st. rewrite H. reflexivity.
  Qed.

  (** an alias denotes the signal it names *)
  Theorem alias_denotes n a st :
    alookup n (st_aliases st) = Some a -> cont_contains (st_cont st) a = Some true ->
    eval_symbol ev n None st = signal_value_m ev a (st_scope st) st.
  Proof.
    intros Ha Hc. unfold eval_symbol, contains_m, bind, get_st. rewrite Ha, Hc. reflexivity.
  Qed.

  (** in-scope: the body runs with the captured scope S, and the scope and CS are restored afterwards *)
  Theorem in_scope_restores s e st v st' :
    op_in_scope ev [s; e] st = Ok v st' ->
    st_scope st' = st_scope st /\ read_global "CS" st' = Ok (VStr (st_scope st)) st'.
  Proof.
    unfold op_in_scope. cbn [List.length Nat.eqb assert]. intros H.
    apply bind_ok_inv in H as (u & s0 & E & H). injection E as _ <-.
    apply bind_ok_inv in H as (st0 & s1 & E & H). injection E as <- <-.
    apply bind_ok_inv in H as (nv & s1 & E & H).
    destruct (name_of nv) as [name|]; [|discriminate].
    apply bind_ok_inv in H as (u1 & s2 & E1 & H).
    apply bind_ok_inv in H as (r & s3 & E2 & H).
    apply bind_ok_inv in H as (u2 & s4 & E3 & H). injection H as _ <-.
    unfold set_scope_cs in E3. apply bind_ok_inv in E3 as (u3 & s5 & E4 & E3).
    unfold modify in E4. injection E4 as _ <-.
    destruct u2. pose proof (write_then_read _ _ _ _ _ E3) as Hr.
    assert (Hsc : st_scope s4 = st_scope st).
    { unfold write_global, env_write in E3. destruct (lookup_frame _ _ _); [|discriminate].
      unfold frame_store in E3. destruct (get_frame _ _); [|discriminate]. injection E3 as <-. reflexivity. }
    split; [exact Hsc|exact Hr].
  Qed.

  Theorem in_scope_body_runs_in_scope s e st sv st1 name :
    ev s st = Ok sv st1 -> name_of sv = Some name ->
    op_in_scope ev [s; e] st =
    (set_scope_cs name ;;; r <- ev e ;; set_scope_cs (st_scope st) ;;; ret r) st1.
  Proof.
    intros Hs Hn. unfold op_in_scope. cbn [List.length Nat.eqb assert]. unfold bind at 1. cbn [ret].
    unfold bind at 1. unfold get_st at 1. unfold bind at 1. rewrite Hs, Hn. reflexivity.
  Qed.

  (** in-group: group, scope, CG and CS are restored *)
  Theorem in_group_restores g body st v st' :
    op_in_group ev (g :: body) st = Ok v st' ->
    st_scope st' = st_scope st /\ st_group st' = st_group st /\
    read_global "CS" st' = Ok (VStr (st_scope st)) st'.
  Proof.
    unfold op_in_group. intros H.
    apply bind_ok_inv in H as (u & s0 & E & H). unfold assert in E. destruct (2 <=? zlen (g :: body)); [|discriminate]. injection E as _ <-.
    apply bind_ok_inv in H as (st0 & s1 & E & H). injection E as <- <-.
    apply bind_ok_inv in H as (gv & s1 & E & H).
    destruct (name_of gv) as [name|]; [|discriminate].
    apply bind_ok_inv in H as (u1 & s2 & E1 & H).
    apply bind_ok_inv in H as (u2 & s3 & E2 & H).
    apply bind_ok_inv in H as (u3 & s4 & E3 & H).
    apply bind_ok_inv in H as (vs & s5 & E4 & H).
    apply bind_ok_inv in H as (u4 & s6 & E5 & H). unfold modify in E5. injection E5 as _ <-.
    apply bind_ok_inv in H as (u5 & s7 & E6 & H).
    apply bind_ok_inv in H as (u6 & s8 & E7 & H).
    destruct u6. pose proof (write_then_read _ _ _ _ _ E7) as Hr.
    assert (Hk : forall nm vv a b, write_global nm vv a = Ok tt b -> st_scope b = st_scope a /\ st_group b = st_group a).
    { intros nm vv a b Hw. unfold write_global, env_write in Hw. destruct (lookup_frame _ _ _); [|discriminate].
      unfold frame_store in Hw. destruct (get_frame _ _); [|discriminate]. injection Hw as <-. split; reflexivity. }
    destruct u5. destruct (Hk _ _ _ _ E6) as [A1 A2]. destruct (Hk _ _ _ _ E7) as [B1 B2].
    assert (Hl : st' = s8).
    { unfold last_or_index_error in H. destruct (last_opt vs); [|discriminate]. injection H as _ <-. reflexivity. }
    subst st'. cbn [upd_group upd_scope st_scope st_group] in *.
    split; [congruence|]. split; [congruence|exact Hr].
  Qed.

  (** all-scopes: the captured scope and CS are restored *)
  Theorem all_scopes_restores body st v st' :
    op_all_scopes ev [body] st = Ok v st' ->
    st_scope st' = st_scope st /\ exists cs, read_global "CS" st = Ok cs st /\ read_global "CS" st' = Ok cs st'.
  Proof.
    unfold op_all_scopes. intros H.
    apply bind_ok_inv in H as (u & s0 & E & H). unfold assert in E. cbn [List.length Nat.eqb negb] in E. injection E as _ <-.
    apply bind_ok_inv in H as (u0 & s0 & E & H).
    assert (s0 = st) by (unfold assert in E; destruct body; try discriminate; injection E as _ <-; reflexivity). subst s0.
    apply bind_ok_inv in H as (st0 & s1 & E0 & H). injection E0 as <- <-.
    apply bind_ok_inv in H as (cs & s1 & E1 & H). pose proof (env_read_state _ _ _ _ _ E1). subst s1.
    apply bind_ok_inv in H as (rs & s2 & E2 & H).
    apply bind_ok_inv in H as (u1 & s3 & E3 & H). unfold modify in E3. injection E3 as _ <-.
    apply bind_ok_inv in H as (u2 & s4 & E4 & H). injection H as _ <-.
    destruct u2. pose proof (write_then_read _ _ _ _ _ E4) as Hr.
    assert (Hsc : st_scope s4 = st_scope st).
    { unfold write_global, env_write in E4. destruct (lookup_frame _ _ _); [|discriminate].
      unfold frame_store in E4. destruct (get_frame _ _); [|discriminate]. injection E4 as <-. reflexivity. }
    split; [exact Hsc|]. exists cs. split; [exact E1|exact Hr].
  Qed.
End WithEv.
