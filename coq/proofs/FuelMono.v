(** FuelMono.v — fuel is only a bound: a completed evaluation is unchanged by more fuel.
    [le m1 m2]: whenever m1 completes, m2 completes with the same value and state.  Every operator is monotone in
    the evaluator it is given (one lemma per operator, by the same structural traversal as Balanced.v), hence
    eval lf f <= eval lf (S f) and expand lf f <= expand lf (S f), by induction on f. *)
From WalModel Require Import Eval.
From WalModel.proofs Require Import Balanced.
Local Open Scope Z_scope.

Definition le {A} (m1 m2 : M A) : Prop := forall st a st', m1 st = Ok a st' -> m2 st = Ok a st'.

Lemma le_refl {A} (m : M A) : le m m.
Proof. intros st a st' H. exact H. Qed.
Lemma le_bind {A B} (m1 m2 : M A) (k1 k2 : A -> M B) : le m1 m2 -> (forall a, le (k1 a) (k2 a)) -> le (bind m1 k1) (bind m2 k2).
Proof.
  intros Hm Hk st b st' H. unfold bind in *. destruct (m1 st) as [a st1| | |] eqn:E; try discriminate.
  rewrite (Hm _ _ _ E). apply Hk, H.
Qed.
Lemma le_mapM {A B} (f1 f2 : A -> M B) l : (forall x, le (f1 x) (f2 x)) -> le (mapM f1 l) (mapM f2 l).
Proof.
  intros Hf. induction l as [|x l IH]; cbn [mapM]; [apply le_refl|].
  apply le_bind; [apply Hf|intros y]. apply le_bind; [exact IH|intros ys; apply le_refl].
Qed.
Lemma le_fuel {A} (m : M A) : le (fun _ : state => @Fuel A) m.
Proof. intros st a st' H. discriminate. Qed.

Lemma le_ret {A} (a : A) : le (ret a) (ret a). Proof. apply le_refl. Qed.
Lemma le_fail {A} e : le (@fail A e) (@fail A e). Proof. apply le_refl. Qed.
Lemma le_unm {A} w : le (@unm A w) (@unm A w). Proof. apply le_refl. Qed.
Lemma le_get_st : le get_st get_st. Proof. apply le_refl. Qed.
Lemma le_assert b : le (assert b) (assert b). Proof. apply le_refl. Qed.
Lemma le_require b e : le (require b e) (require b e). Proof. apply le_refl. Qed.
Lemma le_new_frame p : le (new_frame p) (new_frame p). Proof. apply le_refl. Qed.
Lemma le_env_define id n v : le (env_define id n v) (env_define id n v). Proof. apply le_refl. Qed.
Lemma le_env_read id n : le (env_read id n) (env_read id n). Proof. apply le_refl. Qed.
Lemma le_new_array d : le (new_array d) (new_array d). Proof. apply le_refl. Qed.

Ltac le_step :=
  lazymatch goal with
  | |- le ?m ?m => apply le_refl
  | |- le (bind _ _) (bind _ _) => apply le_bind; [|intros ?]
  | |- le (mapM _ _) (mapM _ _) => apply le_mapM; intros ?
  | |- le (match ?x with _ => _ end) (match ?x with _ => _ end) => destruct x
  | |- le (if ?b then _ else _) (if ?b then _ else _) => destruct b
  | |- le (let '(_, _) := ?x in _) (let '(_, _) := ?x in _) => destruct x
  | |- le _ _ => solve [auto with leb]
  end.
Ltac solve_le := repeat le_step.

Section WithEv.
  Variable loopfuel : nat.
  Variables ev1 ev2 : val -> M val.
  Variables ex1 ex2 : val -> option nat -> M val.
  Hypothesis Hev : forall e, le (ev1 e) (ev2 e).
  Hypothesis Hex : forall e p, le (ex1 e p) (ex2 e p).
  Hint Resolve Hev Hex : leb.

  Hint Resolve Hev Hex : leb.

  Lemma le_eval_args args : le (eval_args ev1 args) (eval_args ev2 args).
  Proof. unfold eval_args. apply le_mapM. exact Hev. Qed.
  Hint Resolve le_eval_args : leb.

  Lemma le_last_or l : le (last_or_index_error l) (last_or_index_error l).
  Proof. intros. apply le_refl. Qed.
  Lemma le_arg0 l : le (arg0 l) (arg0 l).
  Proof. intros. apply le_refl. Qed.
  Hint Resolve le_last_or le_arg0 : leb.

  Lemma le_printable v : le (printable v) (printable v).
  Proof. intros. apply le_refl. Qed.

  Hint Resolve le_printable : leb.

  Lemma le_contains_m n : le (contains_m n) (contains_m n).
  Proof. intros. apply le_refl. Qed.
  Hint Resolve le_contains_m : leb.

  Lemma le_virtual_value tid n : le (virtual_value ev1 tid n) (virtual_value ev2 tid n).
  Proof. (* MANUAL virtual_value *) unfold virtual_value. solve_le. Qed.
  Hint Resolve le_virtual_value : leb.

  Lemma le_signal_value_m n sc : le (signal_value_m ev1 n sc) (signal_value_m ev2 n sc).
  Proof. unfold signal_value_m. solve_le. Qed.
  Hint Resolve le_signal_value_m : leb.

  Lemma le_eval_symbol n s : le (eval_symbol ev1 n s) (eval_symbol ev2 n s).
  Proof. unfold eval_symbol. solve_le. Qed.
  Hint Resolve le_eval_symbol : leb.


  Lemma le_bind_params fid : forall ps args,
    le ((fix go (ps args : list val) : M unit :=
             match ps, args with
             | p :: pr, a :: ar =>
                 v <- ev1 a ;;
                 match p with
                 | VSym pn _ => env_define fid pn v ;;; go pr ar
                 | _ => fail EOther
                 end
             | _, _ => ret tt
             end) ps args) ((fix go (ps args : list val) : M unit :=
             match ps, args with
             | p :: pr, a :: ar =>
                 v <- ev2 a ;;
                 match p with
                 | VSym pn _ => env_define fid pn v ;;; go pr ar
                 | _ => fail EOther
                 end
             | _, _ => ret tt
             end) ps args).
  Proof.
    induction ps as [|p ps IH]; intros args; [destruct args; apply le_ret|].
    destruct args as [|a args]; [apply le_ret|].
    apply le_bind; [apply Hev|intros v]. destruct p; try apply le_fail.
    apply le_bind; [apply le_env_define|intros _; apply IH].
  Qed.

  Lemma le_eval_closure clos args : le (eval_closure ev1 clos args) (eval_closure ev2 clos args).
  Proof. unfold eval_closure. solve_le. apply le_bind_params. Qed.

  Hint Resolve le_eval_closure : leb.

  Lemma le_op_not args : le (op_not ev1 args) (op_not ev2 args).
  Proof. unfold op_not. solve_le. Qed.
  Lemma le_op_eq neg args : le (op_eq ev1 neg args) (op_eq ev2 neg args).
  Proof. unfold op_eq. solve_le. Qed.
  Lemma le_op_cmp t args : le (op_cmp ev1 t args) (op_cmp ev2 t args).
  Proof. unfold op_cmp. solve_le. Qed.
  Lemma le_and_loop args : le (and_loop ev1 args) (and_loop ev2 args).
  Proof. induction args as [|a r IH]; cbn [and_loop]; solve_le. Qed.
  Lemma le_or_loop args : le (or_loop ev1 args) (or_loop ev2 args).
  Proof. induction args as [|a r IH]; cbn [or_loop]; solve_le. Qed.
  Hint Resolve le_and_loop le_or_loop : leb.
  Lemma le_op_and args : le (op_and ev1 args) (op_and ev2 args).
  Proof. unfold op_and. solve_le. Qed.
  Lemma le_op_or args : le (op_or ev1 args) (op_or ev2 args).
  Proof. unfold op_or. solve_le. Qed.

  Lemma le_let_binds fid : forall ps,
    le ((fix go (ps : list val) : M unit :=
           match ps with
           | [] => ret tt
           | p :: r =>
               match p with
               | VList true items =>
                   match items with
                   | [] => fail EOther
                   | k :: _ =>
                       match k with
                       | VSym kn _ =>
                           assert (Nat.eqb (List.length items) 2) ;;;
                           match items with
                           | [_; e] => v <- ev1 e ;; env_define fid kn v ;;; go r
                           | _ => fail EEval
                           end
                       | _ => fail EEval
                       end
                   end
               | _ => fail EEval
               end
           end) ps) ((fix go (ps : list val) : M unit :=
           match ps with
           | [] => ret tt
           | p :: r =>
               match p with
               | VList true items =>
                   match items with
                   | [] => fail EOther
                   | k :: _ =>
                       match k with
                       | VSym kn _ =>
                           assert (Nat.eqb (List.length items) 2) ;;;
                           match items with
                           | [_; e] => v <- ev2 e ;; env_define fid kn v ;;; go r
                           | _ => fail EEval
                           end
                       | _ => fail EEval
                       end
                   end
               | _ => fail EEval
               end
           end) ps).
  Proof.
    induction ps as [|p ps IH]; [apply le_ret|].
    destruct p; try apply le_fail. destruct w; try apply le_fail.
    destruct l as [|k items]; [apply le_fail|]. destruct k; try apply le_fail.
    apply le_bind; [apply le_assert|intros _].
    destruct items as [|e items]; [apply le_fail|]. destruct items; [|apply le_fail].
    apply le_bind; [apply Hev|intros v]. apply le_bind; [apply le_env_define|intros _; exact IH].
  Qed.

  Lemma le_op_let args : le (op_let ev1 args) (op_let ev2 args).
  Proof. unfold op_let. solve_le. all: apply le_let_binds. Qed.


  Lemma le_op_set args : le (op_set ev1 args) (op_set ev2 args).
  Proof.
    unfold op_set. apply le_bind; [apply le_assert|intros _].
    generalize VNone. induction args as [|a r IH]; intros last; [apply le_ret|].
    destruct a; try apply le_fail. destruct w; try apply le_fail.
    destruct l as [|k l]; [apply le_fail|]. destruct l as [|e l]; [apply le_fail|]. destruct l; [|apply le_fail].
    destruct k; try apply le_fail.
    apply le_bind; [apply Hev|intros v]. apply le_bind; [apply le_get_st|intros st0].
    apply le_bind; [|intros _; apply IH].
    solve_le.
  Qed.

  Lemma le_op_define args : le (op_define ev1 args) (op_define ev2 args).
  Proof. unfold op_define. solve_le. Qed.
  Lemma le_to_text v : le (to_text v) (to_text v).
  Proof. intros. apply le_refl. Qed.
  Hint Resolve le_to_text : leb.
  Lemma le_op_print args : le (op_print ev1 args) (op_print ev2 args).
  Proof. unfold op_print. solve_le. Qed.
  Lemma le_printf_arg_s v : le (printf_arg_s v) (printf_arg_s v).
  Proof. intros. apply le_refl. Qed.
  Hint Resolve le_printf_arg_s : leb.
  Lemma le_printf_go n : forall fmt vs, le (printf_go n fmt vs) (printf_go n fmt vs).
  Proof. intros. apply le_refl. Qed.
  Hint Resolve le_printf_go : leb.
  Lemma le_op_printf args : le (op_printf ev1 args) (op_printf ev2 args).
  Proof. unfold op_printf. solve_le. Qed.
  Lemma le_op_if args : le (op_if ev1 args) (op_if ev2 args).
  Proof. unfold op_if. solve_le. Qed.
  Lemma le_op_do args : le (op_do ev1 args) (op_do ev2 args).
  Proof. unfold op_do. solve_le. Qed.
  Lemma le_while_loop n c body : forall last, le (while_loop ev1 n c body last) (while_loop ev2 n c body last).
  Proof. induction n as [|n IH]; intros last; cbn [while_loop]; solve_le. Qed.
  Hint Resolve le_while_loop : leb.
  Lemma le_op_while args : le (op_while loopfuel ev1 args) (op_while loopfuel ev2 args).
  Proof. unfold op_while. solve_le. Qed.

  Lemma le_op_case args : le (op_case ev1 args) (op_case ev2 args).
  Proof.
    unfold op_case. apply le_bind; [apply le_assert|intros _].
    destruct args as [|kf clauses]; [apply le_fail|].
    apply le_bind; [apply Hev|intros keyform].
    apply le_bind; [solve_le|intros keys].
    apply le_bind; [apply le_require|intros _].
    generalize (@None (list val)). induction clauses as [|c r IH]; intros default.
    - solve_le.
    - destruct c; try apply le_fail. destruct l as [|k body]; [apply le_fail|].
      destruct (py_eq keyform k) as [[|]|]; [solve_le| |apply le_unm].
      destruct k; try apply IH.
      match goal with |- le (match ?x with _ => _ end) _ => destruct x end; try apply IH.
      repeat match goal with |- le (match ?x with _ => _ end) _ => destruct x; try apply IH end.
  Qed.

  Lemma le_op_alias args : le (op_alias ev1 args) (op_alias ev2 args).
  Proof. unfold op_alias. solve_le. Qed.
  Lemma le_op_unalias args : le (op_unalias args) (op_unalias args).
  Proof. intros. apply le_refl. Qed.

  Lemma le_op_quote args : le (op_quote args) (op_quote args).
  Proof. intros. apply le_refl. Qed.

  Lemma le_unquote_inner (f1 f2 : val -> M val) : (forall e, le (f1 e) (f2 e)) -> forall l acc,
    le ((fix go (l : list val) (acc : list val) : M val :=
             match l with
             | [] => ret (WL acc)
             | x :: r =>
                 match x with
                 | VUnq c => c' <- f1 c ;; v <- ev1 c' ;; go r (acc +++ [v])
                 | VUnqS c =>
                     c' <- f1 c ;; v <- ev1 c' ;;
                     match v with
                     | VList _ items => go r (acc +++ items)
                     | VStr _ | VArr _ => unm "splice of non-list iterable"
                     | _ => fail EOther
                     end
                 | _ => x' <- f1 x ;; go r (acc +++ [x'])
                 end
             end) l acc)
       ((fix go (l : list val) (acc : list val) : M val :=
             match l with
             | [] => ret (WL acc)
             | x :: r =>
                 match x with
                 | VUnq c => c' <- f2 c ;; v <- ev2 c' ;; go r (acc +++ [v])
                 | VUnqS c =>
                     c' <- f2 c ;; v <- ev2 c' ;;
                     match v with
                     | VList _ items => go r (acc +++ items)
                     | VStr _ | VArr _ => unm "splice of non-list iterable"
                     | _ => fail EOther
                     end
                 | _ => x' <- f2 x ;; go r (acc +++ [x'])
                 end
             end) l acc).
  Proof.
    intros Hf. induction l as [|x r IHl]; intros acc; [apply le_refl|].
    destruct x; try (apply le_bind; [apply Hf|intros; apply IHl]).
    - apply le_bind; [apply Hf|intros c']. apply le_bind; [apply Hev|intros v]. apply IHl.
    - apply le_bind; [apply Hf|intros c']. apply le_bind; [apply Hev|intros v].
      destruct v; try apply le_refl. apply IHl.
  Qed.

  Lemma le_unquote_go n : forall e, le (unquote_go ev1 n e) (unquote_go ev2 n e).
  Proof.
    induction n as [|n IH]; intros e; cbn [unquote_go]; [apply le_fuel|].
    destruct e; try apply le_ret. destruct w; try apply le_ret.
    assert (Hl : l = [] \/ exists x r, l = x :: r) by (destruct l; eauto).
    destruct Hl as [->|(x0 & l0 & ->)]; [apply le_ret|].
    cbv match.
    exact (le_unquote_inner (unquote_go ev1 n) (unquote_go ev2 n) IH (x0 :: l0) []).
  Qed.
  Hint Resolve le_unquote_go : leb.
  Lemma le_op_quasiquote args : le (op_quasiquote loopfuel ev1 args) (op_quasiquote loopfuel ev2 args).
  Proof. unfold op_quasiquote. solve_le. Qed.

  Lemma le_run_passes e p start : le (run_passes ex1 e p start) (run_passes ex2 e p start).
  Proof. unfold run_passes. solve_le. Qed.
  Hint Resolve le_run_passes : leb.
  Lemma le_op_eval args : le (op_eval ev1 ex1 args) (op_eval ev2 ex2 args).
  Proof. unfold op_eval. solve_le. Qed.
  Lemma le_op_fn args : le (op_fn args) (op_fn args).
  Proof. intros. apply le_refl. Qed.
  Lemma le_op_defmacro args : le (op_defmacro ex1 args) (op_defmacro ex2 args).
  Proof. unfold op_defmacro. solve_le. Qed.
  Lemma le_op_macroexpand args : le (op_macroexpand ev1 ex1 args) (op_macroexpand ev2 ex2 args).
  Proof. unfold op_macroexpand. solve_le. Qed.
  Lemma le_op_gensym args : le (op_gensym args) (op_gensym args).
  Proof. intros. apply le_refl. Qed.
  Lemma le_op_get args : le (op_get ev1 args) (op_get ev2 args).
  Proof.
    unfold op_get. apply le_bind; [apply le_assert|intros _]. apply le_bind; [solve_le|intros vs].
    destruct vs as [|v [|? ?]]; try apply le_refl. destruct v; try apply le_refl; [|apply Hev].
    intros st a st' H. destruct (ev1 (VSym s None) st) as [x sx|e sx| |] eqn:E; try discriminate.
    - rewrite (Hev _ _ _ _ E). exact H.
    - destruct e; discriminate.
  Qed.

  Lemma le_step_all_m n : le (step_all_m n) (step_all_m n).
  Proof. intros. apply le_refl. Qed.

  Hint Resolve le_step_all_m : leb.

  Lemma le_restore_m : le restore_m restore_m.
  Proof. intros. apply le_refl. Qed.
  Hint Resolve le_restore_m : leb.
  Lemma le_op_reval args : le (op_reval ev1 args) (op_reval ev2 args).
  Proof. unfold op_reval. solve_le. Qed.


  Lemma le_set_scope_cs s : le (set_scope_cs s) (set_scope_cs s).
  Proof. intros. apply le_refl. Qed.
  Hint Resolve le_set_scope_cs : leb.
  Lemma le_op_in_scope args : le (op_in_scope ev1 args) (op_in_scope ev2 args).
  Proof. unfold op_in_scope. solve_le. Qed.
  Lemma le_op_all_scopes args : le (op_all_scopes ev1 args) (op_all_scopes ev2 args).
  Proof. unfold op_all_scopes. solve_le. Qed.
  Lemma le_cs_text : le cs_text cs_text.
  Proof. intros. apply le_refl. Qed.
  Hint Resolve le_cs_text : leb.
  Lemma le_read_named_signal n : le (read_named_signal ev1 n) (read_named_signal ev2 n).
  Proof. unfold read_named_signal. solve_le. Qed.
  Hint Resolve le_read_named_signal : leb.
  Lemma le_op_resolve_scope args : le (op_resolve_scope ev1 args) (op_resolve_scope ev2 args).
  Proof. unfold op_resolve_scope. solve_le. Qed.
  Lemma le_op_set_scope args : le (op_set_scope args) (op_set_scope args).
  Proof. intros. apply le_refl. Qed.
  Lemma le_op_unset_scope args : le (op_unset_scope args) (op_unset_scope args).
  Proof. intros. apply le_refl. Qed.
  Lemma le_op_groups args : le (op_groups ev1 args) (op_groups ev2 args).
  Proof. unfold op_groups. solve_le. Qed.
  Lemma le_op_in_group args : le (op_in_group ev1 args) (op_in_group ev2 args).
  Proof.
    unfold op_in_group. solve_le.
    all: try (intros W; exact W).
  Qed.
  Hint Resolve le_op_in_group : leb.
  Lemma le_op_in_groups args : le (op_in_groups ev1 args) (op_in_groups ev2 args).
  Proof.
    unfold op_in_groups. apply le_bind; [apply le_assert|intros _].
    destruct args as [|g body]; [apply le_fail|]. apply le_bind; [apply Hev|intros gs].
    destruct gs; try apply le_fail. generalize VNone.
    induction l as [|x r IH]; intros last; [apply le_ret|].
    apply le_bind; [apply le_op_in_group|intros v; apply IH].
  Qed.
  Lemma le_op_resolve_group args : le (op_resolve_group ev1 args) (op_resolve_group ev2 args).
  Proof. unfold op_resolve_group. solve_le. Qed.
  Lemma le_op_slice args : le (op_slice ev1 args) (op_slice ev2 args).
  Proof. unfold op_slice. solve_le. Qed.
  Lemma le_op_loaded_traces args : le (op_loaded_traces args) (op_loaded_traces args).
  Proof. intros. apply le_refl. Qed.
  Lemma le_op_exit args : le (op_exit ev1 args) (op_exit ev2 args).
  Proof. unfold op_exit. solve_le. Qed.

  Lemma le_py_str v : le (py_str v) (py_str v).
  Proof. intros. apply le_refl. Qed.
  Lemma le_py_sum vs : le (py_sum vs) (py_sum vs).
  Proof. intros. apply le_refl. Qed.
  Hint Resolve le_py_str le_py_sum : leb.
  Lemma le_op_add args : le (op_add ev1 args) (op_add ev2 args).
  Proof. unfold op_add. solve_le. Qed.
  Lemma le_op_sub args : le (op_sub ev1 args) (op_sub ev2 args).
  Proof. unfold op_sub. solve_le. Qed.
  Lemma le_op_mul args : le (op_mul ev1 args) (op_mul ev2 args).
  Proof. unfold op_mul. solve_le. Qed.
  Lemma le_op_div args : le (op_div ev1 args) (op_div ev2 args).
  Proof. unfold op_div. solve_le. Qed.
  Lemma le_op_exp args : le (op_exp ev1 args) (op_exp ev2 args).
  Proof. unfold op_exp. solve_le. Qed.
  Lemma le_op_mod args : le (op_mod ev1 args) (op_mod ev2 args).
  Proof. unfold op_mod. solve_le. Qed.
  Lemma le_op_bitwise f args : le (op_bitwise ev1 f args) (op_bitwise ev2 f args).
  Proof. unfold op_bitwise. solve_le. Qed.
  Lemma le_op_is_defined args : le (op_is_defined ev1 args) (op_is_defined ev2 args).
  Proof. unfold op_is_defined. solve_le. Qed.
  Lemma le_op_all_pred p args : le (op_all_pred ev1 p args) (op_all_pred ev2 p args).
  Proof. unfold op_all_pred. solve_le. Qed.
  Lemma le_op_convert_bin args : le (op_convert_bin ev1 args) (op_convert_bin ev2 args).
  Proof. unfold op_convert_bin. solve_le. Qed.
  Lemma le_of_int_parse p : le (of_int_parse p) (of_int_parse p).
  Proof. intros. apply le_refl. Qed.
  Hint Resolve le_of_int_parse : leb.
  Lemma le_op_string_to_int args : le (op_string_to_int ev1 args) (op_string_to_int ev2 args).
  Proof. unfold op_string_to_int. solve_le. Qed.
  Lemma le_op_bits_to_sint args : le (op_bits_to_sint ev1 args) (op_bits_to_sint ev2 args).
  Proof. unfold op_bits_to_sint. solve_le. Qed.
  Lemma le_op_symbol_to_string args : le (op_symbol_to_string ev1 args) (op_symbol_to_string ev2 args).
  Proof. unfold op_symbol_to_string. solve_le. Qed.
  Lemma le_op_string_to_symbol args : le (op_string_to_symbol ev1 args) (op_string_to_symbol ev2 args).
  Proof. unfold op_string_to_symbol. solve_le. Qed.
  Lemma le_op_int_to_string args : le (op_int_to_string ev1 args) (op_int_to_string ev2 args).
  Proof. unfold op_int_to_string. solve_le. Qed.

  Lemma le_op_list args : le (op_list ev1 args) (op_list ev2 args).
  Proof. unfold op_list. solve_le. Qed.
  Lemma le_eval_list1 args : le (eval_list1 ev1 args) (eval_list1 ev2 args).
  Proof. unfold eval_list1. solve_le. Qed.
  Hint Resolve le_eval_list1 : leb.
  Lemma le_op_first args : le (op_first ev1 args) (op_first ev2 args).
  Proof. unfold op_first. solve_le. Qed.
  Lemma le_op_second args : le (op_second ev1 args) (op_second ev2 args).
  Proof. unfold op_second. solve_le. Qed.
  Lemma le_op_last args : le (op_last ev1 args) (op_last ev2 args).
  Proof. unfold op_last. solve_le. Qed.
  Lemma le_op_rest args : le (op_rest ev1 args) (op_rest ev2 args).
  Proof. unfold op_rest. solve_le. Qed.
  Lemma le_key_text v : le (key_text v) (key_text v).
  Proof. intros. apply le_refl. Qed.
  Hint Resolve le_key_text : leb.
  Lemma le_op_in args : le (op_in ev1 args) (op_in ev2 args).
  Proof.
    unfold op_in. apply le_bind; [apply le_assert|intros _]. apply le_bind; [apply le_eval_args|intros vs].
    destruct (last_opt vs) as [v|]; [|apply le_fail]. destruct v; try apply le_fail.
    - induction (removelast vs) as [|c r IH]; [apply le_ret|]. destruct (py_in c l) as [[|]|]; [exact IH|apply le_ret|apply le_unm].
    - solve_le.
  Qed.
  Lemma le_op_map args : le (op_map ev1 args) (op_map ev2 args).
  Proof. unfold op_map. solve_le. Qed.
  Lemma le_op_maxmin b args : le (op_maxmin ev1 b args) (op_maxmin ev2 b args).
  Proof. unfold op_maxmin. solve_le. Qed.
  Lemma le_op_average args : le (op_average ev1 args) (op_average ev2 args).
  Proof. unfold op_average. solve_le. Qed.
  Lemma le_op_zip args : le (op_zip ev1 args) (op_zip ev2 args).
  Proof. unfold op_zip. solve_le. Qed.
  Lemma le_op_length args : le (op_length ev1 args) (op_length ev2 args).
  Proof. unfold op_length. solve_le. Qed.
  Lemma le_op_fold args : le (op_fold ev1 args) (op_fold ev2 args).
  Proof.
    unfold op_fold. apply le_bind; [apply le_assert|intros _].
    destruct args as [|f args]; [apply le_fail|]. destruct args as [|a args]; [apply le_fail|].
    destruct args as [|l args]; [apply le_fail|]. destruct args; [|apply le_fail].
    apply le_bind; [apply Hev|intros acc0]. apply le_bind; [apply Hev|intros lv].
    destruct lv; try apply le_fail.
    destruct f; try (apply le_bind; [apply Hev|intros fv]; destruct fv; try apply le_fail;
                     revert acc0; induction l0 as [|el r IH]; intros acc0; [apply le_ret|];
                     apply le_bind; [apply le_eval_closure|intros acc'; apply IH]).
    revert acc0. induction l0 as [|el r IH]; intros acc0; [apply le_ret|].
    apply le_bind; [apply Hev|intros acc'; apply IH].
  Qed.
  Lemma le_op_range args : le (op_range ev1 args) (op_range ev2 args).
  Proof. unfold op_range. solve_le. Qed.

  Lemma le_array_key v : le (array_key v) (array_key v).
  Proof. intros. apply le_refl. Qed.
  Hint Resolve le_array_key : leb.
  Lemma le_op_array args : le (op_array ev1 args) (op_array ev2 args).
  Proof.
    unfold op_array. generalize (@nil (string * val)).
    induction args as [|a r IH]; intros d; [apply le_new_array|].
    destruct a; try apply le_fail; try apply le_unm.
    apply le_bind; [apply le_assert|intros _].
    destruct l as [|k l]; [apply le_fail|]. destruct l as [|e l]; [apply le_fail|]. destruct l; [|apply le_fail].
    apply le_bind; [apply Hev|intros kv]. apply le_bind; [apply le_array_key|intros key].
    apply le_bind; [apply Hev|intros v]. apply IH.
  Qed.
  Lemma le_eval_array a : le (eval_array ev1 a) (eval_array ev2 a).
  Proof. unfold eval_array. solve_le. Qed.
  Hint Resolve le_eval_array : leb.
  Lemma le_op_seta args : le (op_seta ev1 args) (op_seta ev2 args).
  Proof. unfold op_seta. solve_le. Qed.
  Lemma le_op_geta args : le (op_geta ev1 args) (op_geta ev2 args).
  Proof. unfold op_geta. solve_le. Qed.
  Lemma le_op_dela args : le (op_dela ev1 args) (op_dela ev2 args).
  Proof. unfold op_dela. solve_le. Qed.
  Lemma le_op_mapa args : le (op_mapa ev1 args) (op_mapa ev2 args).
  Proof. unfold op_mapa. solve_le. Qed.

  Lemma le_load_m file tid : le (load_m file tid) (load_m file tid).
  Proof. intros. apply le_refl. Qed.

  Hint Resolve le_load_m : leb.
  Lemma le_op_load args : le (op_load ev1 args) (op_load ev2 args).
  Proof. unfold op_load. solve_le. Qed.
  Lemma le_op_unload args : le (op_unload ev1 args) (op_unload ev2 args).
  Proof. (* MANUAL op_unload *) unfold op_unload. solve_le. Qed.

  Lemma le_step_tid tid n : le (step_tid tid n) (step_tid tid n).
  Proof. intros. apply le_refl. Qed.

  Hint Resolve le_step_tid : leb.
  Lemma le_op_step args : le (op_step ev1 args) (op_step ev2 args).
  Proof. unfold op_step. solve_le. Qed.
  Lemma le_op_is_signal args : le (op_is_signal ev1 args) (op_is_signal ev2 args).
  Proof. unfold op_is_signal. solve_le. Qed.

  Lemma le_set_trace_index tid i : le (set_trace_index tid i) (set_trace_index tid i).
  Proof. intros. apply le_refl. Qed.
  Lemma le_trace_of tid : le (trace_of tid) (trace_of tid).
  Proof. intros. apply le_refl. Qed.
  Hint Resolve le_set_trace_index le_trace_of : leb.
  Lemma le_find_walk n tid c : forall acc, le (find_walk ev1 n tid c acc) (find_walk ev2 n tid c acc).
  Proof. induction n as [|n IH]; intros acc; cbn [find_walk]; solve_le. Qed.
  Hint Resolve le_find_walk : leb.
  Lemma le_op_find args : le (op_find loopfuel ev1 args) (op_find loopfuel ev2 args).
  Proof. unfold op_find. solve_le. Qed.
  Lemma le_restore_saved saved : le (restore_saved saved) (restore_saved saved).
  Proof. intros. apply le_refl. Qed.
  Hint Resolve le_restore_saved : leb.
  Lemma le_findg_loop n c : forall acc, le (findg_loop ev1 n c acc) (findg_loop ev2 n c acc).
  Proof. induction n as [|n IH]; intros acc; cbn [findg_loop]; solve_le. Qed.
  Hint Resolve le_findg_loop : leb.
  Lemma le_op_find_g args : le (op_find_g loopfuel ev1 args) (op_find_g loopfuel ev2 args).
  Proof. unfold op_find_g. solve_le. Qed.
  Lemma le_whenever_loop n c body : forall last, le (whenever_loop ev1 n c body last) (whenever_loop ev2 n c body last).
  Proof. induction n as [|n IH]; intros last; cbn [whenever_loop]; solve_le. Qed.
  Hint Resolve le_whenever_loop : leb.
  Lemma le_op_whenever args : le (op_whenever loopfuel ev1 args) (op_whenever loopfuel ev2 args).
  Proof. unfold op_whenever. solve_le. Qed.
  Lemma le_op_signal_width args : le (op_signal_width ev1 args) (op_signal_width ev2 args).
  Proof. unfold op_signal_width. solve_le. Qed.
  Lemma le_sample_trace tid idx : le (sample_trace tid idx) (sample_trace tid idx).
  Proof. intros. apply le_refl. Qed.
  Hint Resolve le_sample_trace : leb.
  Lemma le_op_sample_at args : le (op_sample_at ev1 args) (op_sample_at ev2 args).
  Proof. unfold op_sample_at. solve_le. Qed.
  Lemma le_trim tid m : le (t <- trace_of tid ;; replace_trace (trace_trim t m) ;;; ret (VInt (tr_max (trace_trim t m)))) (t <- trace_of tid ;; replace_trace (trace_trim t m) ;;; ret (VInt (tr_max (trace_trim t m)))).
  Proof. intros. apply le_refl. Qed.
  Lemma le_op_trim_trace args : le (op_trim_trace ev1 args) (op_trim_trace ev2 args).
  Proof.
    unfold op_trim_trace. apply le_bind; [apply le_assert|intros _].
    destruct args as [|a [|b [|? ?]]]; try apply le_fail.
    apply le_bind; [apply Hev|intros tv]. apply le_bind; [apply Hev|intros mv].
    destruct (name_of tv); [|apply le_fail]. destruct (int_of mv); [|apply le_fail]. apply le_trim.
  Qed.
  Lemma le_op_defsig args : le (op_defsig args) (op_defsig args).
  Proof. intros. apply le_refl. Qed.

  Lemma le_dispatch o args : le (dispatch loopfuel ev1 ex1 o args) (dispatch loopfuel ev2 ex2 o args).
  Proof.
    destruct o; cbn [dispatch];
      first [ apply le_unm | apply le_fail
            | apply le_op_not | apply le_op_eq | apply le_op_cmp | apply le_op_and | apply le_op_or
            | apply le_op_let | apply le_op_define | apply le_op_set | apply le_op_print | apply le_op_printf
            | apply le_op_if | apply le_op_case | apply le_op_do | apply le_op_while | apply le_op_alias
            | apply le_op_unalias | apply le_op_quote | apply le_op_quasiquote | apply le_op_eval
            | apply le_op_defmacro | apply le_op_macroexpand | apply le_op_gensym | apply le_op_fn | apply le_op_get
            | apply le_op_reval | apply le_op_in_scope | apply le_op_resolve_scope | apply le_op_all_scopes
            | apply le_op_set_scope | apply le_op_unset_scope | apply le_op_groups | apply le_op_in_group
            | apply le_op_in_groups | apply le_op_resolve_group | apply le_op_slice | apply le_op_loaded_traces
            | apply le_op_exit | apply le_op_add | apply le_op_sub | apply le_op_mul | apply le_op_div
            | apply le_op_exp | apply le_op_mod | apply le_op_bitwise | apply le_op_is_defined | apply le_op_all_pred
            | apply le_op_convert_bin | apply le_op_string_to_int | apply le_op_bits_to_sint
            | apply le_op_string_to_symbol | apply le_op_symbol_to_string | apply le_op_int_to_string
            | apply le_op_list | apply le_op_first | apply le_op_second | apply le_op_last | apply le_op_rest
            | apply le_op_in | apply le_op_map | apply le_op_maxmin | apply le_op_average | apply le_op_zip
            | apply le_op_length | apply le_op_fold | apply le_op_range | apply le_op_array | apply le_op_seta
            | apply le_op_geta | apply le_op_dela | apply le_op_mapa | apply le_op_load | apply le_op_unload
            | apply le_op_step | apply le_op_is_signal | apply le_op_find | apply le_op_find_g | apply le_op_whenever
            | apply le_op_signal_width | apply le_op_sample_at | apply le_op_trim_trace | apply le_op_defsig ].
  Qed.
  Hint Resolve le_dispatch : leb.

  Lemma le_eval_body e : le (eval_body loopfuel ev1 ex1 e) (eval_body loopfuel ev2 ex2 e).
  Proof. unfold eval_body. solve_le. Qed.

  Lemma le_macro_params menv : forall ps vals,
    le ((fix go (ps vals : list val) : M unit :=
             match ps, vals with
             | VSym pn _ :: pr, v :: vr => env_define menv pn v ;;; go pr vr
             | _ :: _, _ :: _ => fail EOther
             | _, _ => ret tt
             end) ps vals) ((fix go (ps vals : list val) : M unit :=
             match ps, vals with
             | VSym pn _ :: pr, v :: vr => env_define menv pn v ;;; go pr vr
             | _ :: _, _ :: _ => fail EOther
             | _, _ => ret tt
             end) ps vals).
  Proof. intros. apply le_refl. Qed.

  Lemma le_expand_body e parent : le (expand_body ev1 ex1 e parent) (expand_body ev2 ex2 e parent).
  Proof. unfold expand_body. solve_le. all: apply le_macro_params. Qed.

End WithEv.

(** * more fuel never changes a completed evaluation *)
Theorem eval_expand_mono_step (lf : nat) : forall f,
  (forall e, le (eval lf f e) (eval lf (S f) e)) /\ (forall e p, le (expand lf f e p) (expand lf (S f) e p)).
Proof.
  induction f as [|f [IHe IHx]].
  - split; intros; intros st a st' H; discriminate.
  - split.
    + intros e. change (eval lf (S f) e) with (eval_body lf (fun x => eval lf f x) (fun x q => expand lf f x q) e).
      change (eval lf (S (S f)) e) with (eval_body lf (fun x => eval lf (S f) x) (fun x q => expand lf (S f) x q) e).
      apply le_eval_body; assumption.
    + intros e p. change (expand lf (S f) e p) with (expand_body (fun x => eval lf f x) (fun x q => expand lf f x q) e p).
      change (expand lf (S (S f)) e p) with (expand_body (fun x => eval lf (S f) x) (fun x q => expand lf (S f) x q) e p).
      apply le_expand_body; assumption.
Qed.

Theorem eval_fuel_monotone lf f g e st v st' : (f <= g)%nat -> eval lf f e st = Ok v st' -> eval lf g e st = Ok v st'.
Proof.
  intros Hle. induction Hle as [|g Hle IH]; intros H; [exact H|].
  apply (proj1 (eval_expand_mono_step lf g) e). apply IH, H.
Qed.

Theorem expand_fuel_monotone lf f g e p st v st' : (f <= g)%nat -> expand lf f e p st = Ok v st' -> expand lf g e p st = Ok v st'.
Proof.
  intros Hle. induction Hle as [|g Hle IH]; intros H; [exact H|].
  apply (proj2 (eval_expand_mono_step lf g) e p). apply IH, H.
Qed.

(** two completed evaluations of the same expression in the same state agree, whatever their fuel *)
Corollary eval_fuel_irrelevant lf f g e st v1 s1 v2 s2 :
  eval lf f e st = Ok v1 s1 -> eval lf g e st = Ok v2 s2 -> v1 = v2 /\ s1 = s2.
Proof.
  intros H1 H2. destruct (Nat.le_ge_cases f g) as [L|L].
  - rewrite (eval_fuel_monotone lf f g e st v1 s1 L H1) in H2. injection H2 as <- <-. split; reflexivity.
  - rewrite (eval_fuel_monotone lf g f e st v2 s2 L H2) in H1. injection H1 as <- <-. split; reflexivity.
Qed.
