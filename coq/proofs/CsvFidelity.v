(** CsvFidelity.v — the CSV reader as a whole (C18): for every table whose cells contain neither a comma nor a line
    break, rendered one row per line with cells separated by commas, [csv_parse] returns a trace whose time stamps
    are the converted time cells in row order and whose signals hold, at every index, the cell of that row — wherever
    the time column stands.  Splitting inverts joining (induction on the text), then the header walk and the table
    walk of CsvProofs.v. *)
From WalModel Require Import Csv.
From WalModel.proofs Require Import ArithProofs VcdProofs ListProofs CsvProofs.
Local Open Scope Z_scope.

(** * splitting inverts joining *)
Definition free (c : ascii) (s : string) : Prop := sall (fun a => negb (Ascii.eqb a c)) s = true.

Lemma split_free c s : free c s -> ssplit_char c s = [s].
Proof.
  unfold free. induction s as [|a s IH]; intros H; cbn [ssplit_char]; [reflexivity|].
  cbn [sall] in H. apply andb_prop in H as [Ha Hs]. destruct (Ascii.eqb a c); [discriminate|].
  rewrite (IH Hs). reflexivity.
Qed.

Lemma split_app c x r : free c x -> ssplit_char c (x ++ String c r) = x :: ssplit_char c r.
Proof.
  unfold free. induction x as [|a x IH]; intros H; cbn [append ssplit_char].
  - rewrite Ascii.eqb_refl. reflexivity.
  - cbn [sall] in H. apply andb_prop in H as [Ha Hs]. destruct (Ascii.eqb a c); [discriminate|].
    rewrite (IH Hs). reflexivity.
Qed.

Lemma split_join c l : l <> [] -> Forall (free c) l -> ssplit_char c (sjoin (String c "") l) = l.
Proof.
  induction l as [|x l IH]; intros Hne Hf; [congruence|].
  inversion Hf as [|? ? Hx Hl]; subst. destruct l as [|y l].
  - cbn [sjoin]. apply split_free, Hx.
  - change (sjoin (String c "") (x :: y :: l)) with (x ++ String c (sjoin (String c "") (y :: l))).
    rewrite (split_app c x _ Hx). rewrite IH; [reflexivity|discriminate|exact Hl].
Qed.

Lemma sall_app p a b : sall p (a ++ b) = sall p a && sall p b.
Proof. induction a as [|c a IH]; cbn [append sall]; [reflexivity|]. rewrite IH, andb_assoc. reflexivity. Qed.

Lemma free_join c d l : Ascii.eqb d c = false -> Forall (free c) l -> free c (sjoin (String d "") l).
Proof.
  intros Hd. induction l as [|x l IH]; intros Hf; [reflexivity|].
  inversion Hf as [|? ? Hx Hl]; subst. destruct l as [|y l]; [exact Hx|].
  change (sjoin (String d "") (x :: y :: l)) with (x ++ String d (sjoin (String d "") (y :: l))).
  unfold free in *. rewrite sall_app. cbn [sall]. rewrite Hx, Hd. apply (IH Hl).
Qed.

(** * tables and their text *)
Definition nl : ascii := ch 10.
Definition comma : ascii := ","%char.
Definition render (header : list string) (rows : list (list string)) : string :=
  sjoin (String nl "") (map (sjoin (String comma "")) (header :: rows)).

Definition cell_ok (s : string) : Prop := free comma s /\ free nl s.

(** a well-formed table with the time column at position p *)
Record wf_table (header : list string) (rows : list (list string)) (p : nat) : Prop := {
  wf_time : nth_error header p = Some time_header;
  wf_time_once : forall j, nth_error header j = Some time_header -> j = p;
  wf_names : ok_from [] header;
  wf_header_cells : Forall cell_ok header;
  wf_rows_cells : Forall (Forall cell_ok) rows;
  wf_width : forall row, In row rows -> List.length row = List.length header;
  wf_stamps : forall row, In row rows -> exists cell t, nth_error row p = Some cell /\ csv_time cell = Some t
}.

Lemma index_of_first x : forall l p, nth_error l p = Some x -> (forall j, nth_error l j = Some x -> j = p) ->
  index_of x l = Some p.
Proof.
  induction l as [|y l IH]; intros p Hp Hu; [destruct p; discriminate|]. cbn [index_of].
  destruct (String.eqb_spec x y) as [->|Hne].
  - rewrite (Hu O eq_refl). reflexivity.
  - destruct p as [|p]; [cbn in Hp; congruence|]. cbn [nth_error] in Hp.
    rewrite (IH p Hp); [reflexivity|]. intros j Hj. specialize (Hu (S j) Hj). congruence.
Qed.

Lemma lines_of_render header rows : Forall cell_ok header -> Forall (Forall cell_ok) rows ->
  ssplit_char nl (render header rows) = map (sjoin (String comma "")) (header :: rows).
Proof.
  intros Hh Hr. unfold render. apply split_join; [discriminate|].
  apply Forall_forall. intros line Hin. apply in_map_iff in Hin as (cells & <- & Hc).
  apply free_join; [reflexivity|].
  assert (Hcells : Forall cell_ok cells).
  { destruct Hc as [<-|Hc]; [exact Hh|]. rewrite Forall_forall in Hr. apply (Hr cells Hc). }
  apply Forall_forall. intros s Hs. rewrite Forall_forall in Hcells. apply (Hcells s Hs).
Qed.

Lemma cells_of_line cells : cells <> [] -> Forall cell_ok cells ->
  ssplit_char comma (sjoin (String comma "") cells) = cells.
Proof.
  intros Hne Hc. apply split_join; [exact Hne|]. apply Forall_forall. intros s Hs.
  rewrite Forall_forall in Hc. apply (Hc s Hs).
Qed.

Lemma znth_map {A B} (f : A -> B) l i : znth (map f l) i = option_map f (znth l i).
Proof. unfold znth. destruct (i <? 0); [reflexivity|]. generalize (Z.to_nat i). intros n. revert l.
  induction n as [|n IH]; intros [|x l]; cbn [map nth_error option_map]; try reflexivity. apply IH. Qed.

Lemma column_is_map (rows : list (list string)) k (n : nat) :
  (forall row, In row rows -> List.length row = n) -> (k < n)%nat ->
  flat_map (fun row => match nth_error row k with Some c => [c] | None => [] end) rows = map (fun row => nth k row "") rows.
Proof.
  intros Hw Hk. induction rows as [|row rows IH]; [reflexivity|]. cbn [flat_map map].
  rewrite IH by (intros r Hr; apply Hw; right; exact Hr).
  assert (Hl : (k < List.length row)%nat) by (rewrite (Hw row (or_introl eq_refl)); exact Hk).
  destruct (nth_error row k) as [c|] eqn:E.
  - rewrite (nth_error_nth _ _ "" E). reflexivity.
  - apply nth_error_None in E. lia.
Qed.

(** * the reader on the text of a well-formed table *)
Theorem csv_fidelity tid file text header rows p :
  csv_strip text = render header rows -> wf_table header rows p ->
  exists t times,
    csv_parse tid file text = POk t /\
    (* one time stamp per row: the converted time cell, in row order *)
    map (fun row => match nth_error row p with Some cell => csv_time cell | None => None end) rows = map Some times /\
    tr_ts t = times /\ tr_all_ts t = times /\ tr_lookup t = None /\ tr_index t = 0 /\ tr_max t = zlen rows - 1 /\
    tr_tid t = tid /\ tr_virt t = [] /\
    (* the signals are the normalised names of the other columns, in file order *)
    tr_raw t = map norm_csv_name (filter nontime header) /\
    (* and each holds, at index i, the cell of row i in its column *)
    forall k h, nth_error header k = Some h -> k <> p ->
      (forall j h', nth_error header j = Some h' -> j <> p -> j <> k -> norm_csv_name h' <> norm_csv_name h) ->
      forall i, access_data t (norm_csv_name h) i = option_map (fun row => nth k row "") (znth rows i).
Proof.
  intros Htext [Ht Honce Hnames Hhc Hrc Hw Hst].
  assert (Hhne : header <> []) by (destruct header; [destruct p; discriminate|discriminate]).
  unfold csv_parse. rewrite Htext. change (ch 10) with nl. rewrite (lines_of_render header rows Hhc Hrc). cbn [map].
  change ","%char with comma.
  rewrite (cells_of_line header Hhne Hhc).
  assert (Erows : map (ssplit_char comma) (map (sjoin (String comma "")) rows) = rows).
  { rewrite map_map. rewrite <- (map_id rows) at 2. apply map_ext_in. intros row Hin.
    apply cells_of_line.
    - intros ->. specialize (Hw [] Hin). cbn in Hw. destruct header; [congruence|discriminate].
    - rewrite Forall_forall in Hrc. apply (Hrc row Hin). }
  rewrite Erows. rewrite (index_of_first time_header header p Ht Honce).
  change (filter (fun v => negb (String.eqb v time_header)) header) with (filter nontime header).
  rewrite (csv_header_walk header Hnames).
  set (raw := map norm_csv_name (filter nontime header)).
  assert (Hren : forall k h, nth_error header k = Some h -> k <> p -> ren h = norm_csv_name h).
  { intros k h Hk Hne. unfold ren. destruct (String.eqb_spec h time_header) as [->|_]; [|reflexivity].
    exfalso. apply Hne, Honce, Hk. }
  destruct (csv_table_walk p (map ren header) raw rows) as (data & times & Hrows & Htimes & Hcols).
  - intros row Hin. rewrite map_length. split; [apply (Hw row Hin)|apply (Hst row Hin)].
  - intros k h Hk Hne. rewrite nth_error_map in Hk. destruct (nth_error header k) as [h0|] eqn:E; [|discriminate].
    injection Hk as <-. rewrite (Hren k h0 E Hne). unfold raw. apply in_map. apply filter_In. split.
    + apply (nth_error_In _ _ E).
    + unfold nontime. destruct (String.eqb_spec h0 time_header) as [->|_]; [exfalso; apply Hne, Honce, E|reflexivity].
  - change (fold_left (fun acc nm => aset nm [] acc) raw []) with (empty_cols raw). rewrite Hrows.
    eexists. exists times. split; [reflexivity|]. cbn [tr_ts tr_all_ts tr_lookup tr_index tr_max tr_tid tr_virt tr_raw].
    split; [exact Htimes|]. do 4 (split; [reflexivity|]).
    split.
    { assert (L : List.length times = List.length rows).
      { rewrite <- (map_length Some times), <- Htimes, map_length. reflexivity. }
      unfold zlen. rewrite L. reflexivity. }
    do 3 (split; [reflexivity|]).
    intros k h Hk Hne Huniq i. unfold access_data. cbn [tr_data tr_lookup].
    assert (Hk' : nth_error (map ren header) k = Some (norm_csv_name h)).
    { rewrite nth_error_map, Hk. cbn [option_map]. rewrite (Hren k h Hk Hne). reflexivity. }
    rewrite (Hcols k (norm_csv_name h) Hk' Hne).
    + rewrite (column_is_map rows k (List.length header) Hw).
      * apply znth_map.
      * apply nth_error_Some. rewrite Hk. discriminate.
    + intros j h' Hj Hjp Hjk. rewrite nth_error_map in Hj. destruct (nth_error header j) as [h0|] eqn:E; [|discriminate].
      injection Hj as <-. rewrite (Hren j h0 E Hjp). apply (Huniq j h0 E Hjp Hjk).
Qed.

(** * files usually end in a line break: white space after (and nothing but the table before) is stripped *)
Lemma sapp_assoc (a b c : string) : (a ++ b) ++ c = a ++ (b ++ c).
Proof. induction a as [|x a IH]; cbn [append]; [reflexivity|rewrite IH; reflexivity]. Qed.
Lemma sapp_nil_r (a : string) : a ++ "" = a.
Proof. induction a as [|x a IH]; cbn [append]; [reflexivity|rewrite IH; reflexivity]. Qed.
Lemma srev_app_acc t : forall acc, srev_app t acc = srev_app t "" ++ acc.
Proof.
  induction t as [|c t IH]; intros acc; cbn [srev_app]; [reflexivity|].
  rewrite (IH (String c acc)), (IH (String c "")). rewrite sapp_assoc. reflexivity.
Qed.
Lemma srev_cons c t : srev (String c t) = srev t ++ String c "".
Proof. unfold srev. cbn [srev_app]. apply srev_app_acc. Qed.
Lemma srev_append a b : srev (a ++ b) = srev b ++ srev a.
Proof.
  induction a as [|c a IH]; cbn [append].
  - unfold srev at 3. cbn [srev_app]. rewrite sapp_nil_r. reflexivity.
  - rewrite !srev_cons, IH, sapp_assoc. reflexivity.
Qed.
Lemma srev_involutive s : srev (srev s) = s.
Proof. induction s as [|c s IH]; [reflexivity|]. rewrite srev_cons, srev_append, IH. reflexivity. Qed.
Lemma sall_srev p s : sall p (srev s) = sall p s.
Proof.
  induction s as [|c s IH]; [reflexivity|]. rewrite srev_cons, sall_app, IH. cbn [sall]. rewrite andb_true_r, andb_comm. reflexivity.
Qed.
Lemma lstrip_spaces w x : sall is_pyspace w = true -> lstrip (w ++ x) = lstrip x.
Proof.
  induction w as [|c w IH]; intros H; [reflexivity|]. cbn [sall] in H. apply andb_prop in H as [Hc Hw].
  cbn [append lstrip]. rewrite Hc. apply IH, Hw.
Qed.

(** the text does not start with a line break and does not end with white space *)
Definition edges_ok (s : string) : bool :=
  match s with String a _ => negb (is_crlf a) | EmptyString => false end &&
  match srev s with String z _ => negb (is_pyspace z) | EmptyString => false end.

Lemma strip_trailing s w : edges_ok s = true -> sall is_pyspace w = true -> csv_strip (s ++ w) = s.
Proof.
  unfold edges_ok. intros He Hw. apply andb_prop in He as [H1 H2].
  unfold csv_strip, rstrip.
  assert (L : lstrip_lines (s ++ w) = s ++ w).
  { destruct s as [|a s]; [discriminate|]. cbn [append lstrip_lines]. destruct (is_crlf a); [discriminate|reflexivity]. }
  rewrite L, srev_append, lstrip_spaces by (rewrite sall_srev; exact Hw).
  destruct (srev s) as [|z r] eqn:E; [discriminate|]. cbn [lstrip]. destruct (is_pyspace z); [discriminate|].
  rewrite <- E. apply srev_involutive.
Qed.

Corollary csv_fidelity_of_a_file tid file header rows p w :
  edges_ok (render header rows) = true -> sall is_pyspace w = true -> wf_table header rows p ->
  exists t times,
    csv_parse tid file (render header rows ++ w) = POk t /\
    map (fun row => match nth_error row p with Some cell => csv_time cell | None => None end) rows = map Some times /\
    tr_ts t = times /\ tr_max t = zlen rows - 1 /\
    tr_raw t = map norm_csv_name (filter nontime header) /\
    forall k h, nth_error header k = Some h -> k <> p ->
      (forall j h', nth_error header j = Some h' -> j <> p -> j <> k -> norm_csv_name h' <> norm_csv_name h) ->
      forall i, access_data t (norm_csv_name h) i = option_map (fun row => nth k row "") (znth rows i).
Proof.
  intros He Hw Hwf.
  destruct (csv_fidelity tid file _ header rows p (strip_trailing _ w He Hw) Hwf)
    as (t & times & Hp & Ht & Hts & _ & _ & _ & Hm & _ & _ & Hraw & Hcol).
  exists t, times. repeat split; assumption.
Qed.

(** * a table that meets the premises: time column in the middle, a fraction, a bus column, trailing line break *)
Definition demo_header : list string := ["Chan 0"; time_header; "Data [7:0]"].
Definition demo_rows : list (list string) := [["0"; "0.000000000"; "a1"]; ["1"; "0.5"; "0.5"]; ["1"; "2"; "ff"]].
Lemma demo_wf : wf_table demo_header demo_rows 1.
Proof.
  split.
  - reflexivity.
  - intros [|[|[|j]]] H; try reflexivity; cbn in H; try discriminate. destruct j; discriminate.
  - cbn. repeat split; intros _ H; cbn in H; repeat (destruct H as [H|H]; [discriminate|]); exact H.
  - repeat constructor.
  - repeat constructor.
  - intros row [<-|[<-|[<-|[]]]]; reflexivity.
  - intros row [<-|[<-|[<-|[]]]]; do 2 eexists; (split; [reflexivity|vm_compute; reflexivity]).
Qed.
Example demo_reads_back : exists t,
  csv_parse "t" "f.csv" (render demo_header demo_rows ++ String nl "") = POk t /\
  tr_ts t = [0; 500000000; 2000000000] /\ tr_raw t = ["Chan_0"; "Data_"] /\
  access_data t "Data_" 1 = Some "0.5".
Proof. eexists. vm_compute. repeat split. Qed.
