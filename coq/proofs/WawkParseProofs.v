(** WawkParseProofs.v — the WAWK expression parser groups binary operators left to right, with * / tighter than + -,
    comparisons below them, && tighter than ||, ! tightest (C20): every expression tree, written out with parentheses
    only where a sub-expression has a lower level than its position requires (and around the right operand of an
    operator of the same level), is parsed back to exactly that tree.  For all trees, any depth. *)
From WalModel Require Import WawkParse.
Local Open Scope nat_scope.

(** * trees, levels, the token sequence of a tree *)
Definition lvl (e : wx) : nat :=
  match e with WBin o _ _ => lvl_op o | WNot _ => 6 | _ => 7 end.

Fixpoint fl (p : nat) (e : wx) : list tok :=
  let body :=
    match e with
    | WNum z => [TNum z]
    | WSym s => [TSym s]
    | WStr s => [TStr s]
    | WNot a => TBang :: fl 6 a
    | WBin o a b =>
        if Nat.eqb (lvl_op o) 3 then fl 4 a +++ TOp o :: fl 4 b
        else fl (lvl_op o) a +++ TOp o :: fl (S (lvl_op o)) b
    | WCall f args =>
        TSym f :: TLP ::
          match args with
          | [] => [TRP]
          | x :: r => fl 1 x +++ flat_map (fun y => TComma :: fl 1 y) r +++ [TRP]
          end
    end in
  if Nat.ltb (lvl e) p then TLP :: body +++ [TRP] else body.

Fixpoint wsize (e : wx) : nat :=
  match e with
  | WNot a => S (wsize a)
  | WBin _ a b => S (wsize a + wsize b)
  | WCall _ args => S (list_sum (map wsize args))
  | _ => 1
  end.

(** what may follow a complete operand at level L: the end, a closing parenthesis, a comma, or a weaker operator *)
Definition stop (L : nat) (r : list tok) : bool :=
  match r with
  | [] => true
  | TRP :: _ => true
  | TComma :: _ => true
  | TOp o :: _ => Nat.ltb (lvl_op o) L
  | _ => false
  end.

Lemma stop_mono L L' r : L <= L' -> stop L r = true -> stop L' r = true.
Proof.
  intros H. destruct r as [|t r]; [reflexivity|]. destruct t; cbn [stop]; try (intros X; exact X).
  intros X. apply Nat.ltb_lt in X. apply Nat.ltb_lt. lia.
Qed.

Lemma lvl_op_range o : 1 <= lvl_op o <= 5.
Proof. destruct o; cbn; lia. Qed.

(** * the parsers of the levels at fuel S f *)
Definition Pa f := p_atom (p_expr f) (S f).
Definition Pn f := p_neg (Pa f).
Definition P5 f := level (Pn f) 5 (S f).
Definition P4 f := level (P5 f) 4 (S f).
Definition P3 f := p_comp (P4 f).
Definition P2 f := level (P3 f) 2 (S f).
Definition P1 f := level (P2 f) 1 (S f).
Lemma p_expr_S f : p_expr (S f) = P1 f.
Proof. reflexivity. Qed.

Definition P (f L : nat) : list tok -> pres :=
  match L with
  | 0 | 1 => P1 f | 2 => P2 f | 3 => P3 f | 4 => P4 f | 5 => P5 f | 6 => Pn f | _ => Pa f
  end.

(** * one left-associative level *)
Section Chain.
  Variable next : list tok -> pres.
  Variable lv : nat.

  Definition nohead (r : list tok) : Prop := match r with TOp o :: _ => lvl_op o <> lv | _ => True end.

  Lemma chainl_stop n acc r : nohead r -> chainl next lv (S n) acc r = Some (acc, r).
  Proof.
    intros H. cbn [chainl]. destruct r as [|t r]; [reflexivity|]. destruct t; try reflexivity.
    cbn [nohead] in H. destruct (Nat.eqb_spec (lvl_op o) lv) as [E|_]; [contradiction|reflexivity].
  Qed.

  Lemma level_lift n ts e r : next ts = Some (e, r) -> nohead r -> level next lv (S n) ts = Some (e, r).
  Proof. intros H Hn. unfold level. rewrite H. apply chainl_stop, Hn. Qed.

  Lemma chainl_step n acc o ts b r :
    lvl_op o = lv -> next ts = Some (b, r) ->
    chainl next lv (S n) acc (TOp o :: ts) = chainl next lv n (WBin o acc b) r.
  Proof. intros E H. cbn [chainl]. rewrite E, Nat.eqb_refl, H. reflexivity. Qed.
End Chain.

Lemma stop_nohead L lv r : stop L r = true -> L <= lv -> nohead lv r.
Proof.
  intros H Hle. destruct r as [|t r]; [exact I|]. destruct t; try exact I. cbn [stop] in H. cbn [nohead].
  apply Nat.ltb_lt in H. lia.
Qed.

(** * lifting a result from a tighter level to a looser one *)
Lemma lift1 f l ts e r : 1 <= l <= 5 -> stop l r = true -> P f (S l) ts = Some (e, r) -> P f l ts = Some (e, r).
Proof.
  intros Hl Hs H.
  assert (Hn : nohead l r) by (eapply stop_nohead; [exact Hs|lia]).
  destruct l as [|[|[|[|[|[|l]]]]]]; try lia; cbn [P] in *.
  - apply level_lift; assumption.
  - apply level_lift; assumption.
  - unfold P3, p_comp. rewrite H. destruct r as [|t r]; [reflexivity|]. destruct t; try reflexivity.
    cbn [nohead] in Hn. destruct (Nat.eqb_spec (lvl_op o) 3) as [E|_]; [contradiction|reflexivity].
  - apply level_lift; assumption.
  - apply level_lift; assumption.
Qed.

Lemma lift_down f ts e r : forall d l L, l = L + d -> 1 <= L -> l <= 6 -> stop L r = true ->
  P f l ts = Some (e, r) -> P f L ts = Some (e, r).
Proof.
  induction d as [|d IH]; intros l L El HL Hl Hs H.
  - replace L with l by lia. exact H.
  - apply (lift1 f L ts e r); [lia|exact Hs|]. apply (IH l (S L)); try lia; [|exact H].
    apply (stop_mono L (S L)); [lia|exact Hs].
Qed.

Lemma lift f l L ts e r : 1 <= L -> L <= l -> l <= 6 -> stop L r = true -> P f l ts = Some (e, r) -> P f L ts = Some (e, r).
Proof. intros H1 H2 H3. apply (lift_down f ts e r (l - L) l L); lia. Qed.

Lemma P_zero f : P f 0 = P f 1.
Proof. reflexivity. Qed.
Lemma P_big f L : 7 <= L -> P f L = Pa f.
Proof. intros H. do 7 (destruct L as [|L]; [lia|]). reflexivity. Qed.

(** an atom-level result whose first token is not ! is a result of every level *)
Lemma from_atom f L ts e r :
  match ts with TBang :: _ => False | _ => True end ->
  stop L r = true -> Pa f ts = Some (e, r) -> P f L ts = Some (e, r).
Proof.
  intros Hb Hs H.
  assert (H6 : Pn f ts = Some (e, r)).
  { unfold Pn. destruct ts as [|t ts]; [exact H|]. destruct t; try exact H. contradiction. }
  destruct (Nat.le_gt_cases 7 L) as [H7|H7]; [rewrite P_big by exact H7; exact H|].
  destruct L as [|L].
  - rewrite P_zero. apply (lift f 6 1); try lia; [|exact H6]. apply (stop_mono 0); [lia|exact Hs].
  - apply (lift f 6 (S L)); try lia; [exact Hs|exact H6].
Qed.

(** * flattening facts *)
Definition body (e : wx) : list tok := fl 0 e.
Lemma fl_unfold p e : fl p e = if Nat.ltb (lvl e) p then TLP :: body e +++ [TRP] else body e.
Proof. unfold body. destruct e; reflexivity. Qed.
Lemma fl_noparen p e : p <= lvl e -> fl p e = body e.
Proof. intros H. rewrite fl_unfold. destruct (Nat.ltb_spec (lvl e) p); [lia|reflexivity]. Qed.
Lemma fl_paren p e : lvl e < p -> fl p e = TLP :: body e +++ [TRP].
Proof. intros H. rewrite fl_unfold. destruct (Nat.ltb_spec (lvl e) p); [reflexivity|lia]. Qed.
Lemma body_fl1 e : body e = fl 1 e.
Proof. symmetry. apply fl_noparen. destruct e; cbn [lvl]; try lia. apply lvl_op_range. Qed.

Lemma body_bin o a b :
  body (WBin o a b) = if Nat.eqb (lvl_op o) 3 then fl 4 a +++ TOp o :: fl 4 b else fl (lvl_op o) a +++ TOp o :: fl (S (lvl_op o)) b.
Proof. reflexivity. Qed.
Lemma body_not a : body (WNot a) = TBang :: fl 6 a.
Proof. reflexivity. Qed.

Lemma body_not_bang_paren e : lvl e = 7 -> match body e with TBang :: _ => False | _ => True end.
Proof. destruct e; cbn; try discriminate; intros; try exact I. destruct o; discriminate. Qed.

(** number of operators of level l on the left spine *)
Fixpoint sp (l : nat) (e : wx) : nat :=
  match e with
  | WBin o a _ => if Nat.eqb (lvl_op o) l then S (sp l a) else 0
  | _ => 0
  end.

Lemma sp_le_len l e : l <> 3 -> l <= lvl e -> sp l e <= List.length (fl l e).
Proof.
  intros H3. induction e as [| | | |o a IHa b _|]; intros Hl; cbn [sp]; try lia.
  destruct (Nat.eqb_spec (lvl_op o) l) as [E|_]; [|lia].
  rewrite fl_noparen by exact Hl. rewrite body_bin.
  destruct (Nat.eqb_spec (lvl_op o) 3) as [E3|_]; [lia|]. rewrite E. rewrite app_length. cbn [List.length].
  destruct (Nat.le_gt_cases l (lvl a)) as [Ha|Ha].
  - specialize (IHa Ha). lia.
  - destruct a; cbn [sp]; try lia. cbn [lvl] in Ha. destruct (Nat.eqb_spec (lvl_op o0) l); lia.
Qed.

(** * the statement proved for every tree *)
Definition Mstmt (e : wx) : Prop :=
  forall L f r, List.length (fl L e) <= f -> stop L r = true -> P f L (fl L e +++ r) = Some (e, r).

Lemma absorb_tight f l e r n :
  Mstmt e -> sp l e = 0 -> S l <= lvl e -> List.length (fl l e) <= f -> stop (S l) r = true ->
  level (P f (S l)) l (S (sp l e + n)) (fl l e +++ r) = chainl (P f (S l)) l (S n) e r.
Proof.
  intros HM Hsp Hle Hlen Hs. rewrite Hsp. cbn [Nat.add]. unfold level.
  assert (E : fl l e = fl (S l) e) by (rewrite !fl_noparen by lia; reflexivity).
  rewrite E in *. rewrite (HM (S l) f r Hlen Hs). reflexivity.
Qed.

(** the tokens of a tree whose top operator is at level l or tighter, followed by more input, are absorbed into the
    chain of level l *)
Lemma absorb f l (Hl : l = 1 \/ l = 2 \/ l = 4 \/ l = 5) : forall e,
  (forall e', wsize e' < wsize e -> Mstmt e') -> (S l <= lvl e -> Mstmt e) ->
  l <= lvl e -> forall r n, List.length (fl l e) <= f -> stop (S l) r = true ->
  level (P f (S l)) l (S (sp l e + n)) (fl l e +++ r) = chainl (P f (S l)) l (S n) e r.
Proof.
  induction e as [z|s|s|a _|o a IHa b _|g args]; intros HM Hself Hle r n Hlen Hs.
  1,2,3,4,6: apply absorb_tight; [apply Hself; cbn [lvl]; lia|reflexivity|cbn [lvl]; lia|exact Hlen|exact Hs].
  cbn [lvl] in Hle. cbn [sp]. destruct (Nat.eqb_spec (lvl_op o) l) as [E|Ne].
  - (* the top operator is of this level: left operand first, then one step of the chain *)
    assert (E3 : Nat.eqb (lvl_op o) 3 = false) by (apply Nat.eqb_neq; lia).
    assert (Hfl : fl l (WBin o a b) = fl l a +++ TOp o :: fl (S l) b).
    { rewrite fl_noparen by (cbn [lvl]; lia). rewrite body_bin, E3, E. reflexivity. }
    rewrite Hfl in *. rewrite app_length in Hlen. cbn [List.length] in Hlen. rewrite <- app_assoc. cbn [app].
    assert (HMb : P f (S l) (fl (S l) b +++ r) = Some (b, r)).
    { apply (HM b); [cbn [wsize]; lia|lia|exact Hs]. }
    destruct (Nat.le_gt_cases l (lvl a)) as [Ha|Ha].
    + replace (S (S (sp l a) + n)) with (S (sp l a + S n)) by lia.
      rewrite IHa; [|intros e' He'; apply HM; cbn [wsize]; lia|intros _; apply HM; cbn [wsize]; lia|exact Ha|lia|cbn [stop]; apply Nat.ltb_lt; lia].
      rewrite (chainl_step _ _ _ _ _ _ _ _ E HMb). reflexivity.
    + (* the left operand is in parentheses *)
      assert (Hsp : sp l a = 0).
      { destruct a; cbn [sp]; try reflexivity. cbn [lvl] in Ha. destruct (Nat.eqb_spec (lvl_op o0) l); [lia|reflexivity]. }
      rewrite Hsp. unfold level.
      assert (Hfa : fl l a = fl (S l) a) by (rewrite !fl_paren by lia; reflexivity).
      rewrite Hfa in *.
      rewrite (HM a (ltac:(cbn [wsize]; lia)) (S l) f (TOp o :: fl (S l) b +++ r)); [|lia|cbn [stop]; apply Nat.ltb_lt; lia].
      cbn [Nat.add]. rewrite (chainl_step _ _ _ _ _ _ _ _ E HMb). reflexivity.
  - (* a tighter operator on top: one operand of this level *)
    assert (Hsp : sp l (WBin o a b) = 0) by (cbn [sp]; destruct (Nat.eqb_spec (lvl_op o) l); [contradiction|reflexivity]).
    rewrite <- Hsp at 1. apply absorb_tight; [apply Hself; cbn [lvl]; lia|exact Hsp|cbn [lvl]; lia|exact Hlen|exact Hs].
Qed.

Lemma fl_head_not_rp : forall e p r, exists t ts, fl p e +++ r = t :: ts /\ t <> TRP.
Proof.
  induction e as [z|s|s|a IHa|o a IHa b _|g args]; intros p r; rewrite fl_unfold;
    (destruct (Nat.ltb (lvl _) p); [cbn [app]; eexists; eexists; split; [reflexivity|discriminate]|]).
  1,2,3,6: unfold body; cbn [fl lvl Nat.ltb Nat.leb app]; eexists; eexists; split; [reflexivity|discriminate].
  - rewrite body_not. cbn [app]. eexists; eexists; split; [reflexivity|discriminate].
  - rewrite body_bin. destruct (Nat.eqb (lvl_op o) 3); rewrite <- app_assoc; apply IHa.
Qed.

Lemma len_flat_args (rest : list wx) : List.length rest <= List.length (flat_map (fun y => TComma :: fl 1 y) rest).
Proof. induction rest as [|y rest IH]; [apply Nat.le_refl|]. cbn [flat_map List.length app]. rewrite app_length. lia. Qed.

Lemma in_size y (l : list wx) : In y l -> wsize y <= list_sum (map wsize l).
Proof.
  induction l as [|x l IH]; [intros []|]. change (list_sum (map wsize (x :: l))) with (wsize x + list_sum (map wsize l)).
  intros [->|H]; [lia|]. specialize (IH H). lia.
Qed.

(** * the arguments of a call *)
Lemma p_args_spec f : forall rest acc n r,
  (forall y, In y rest -> Mstmt y) ->
  List.length (flat_map (fun y => TComma :: fl 1 y) rest) <= f -> List.length rest < n ->
  p_args (p_expr (S f)) n acc (flat_map (fun y => TComma :: fl 1 y) rest +++ TRP :: r) = Some (rev acc +++ rest, r).
Proof.
  induction rest as [|y rest IH]; intros acc n r HM Hlen Hn.
  - destruct n; [cbn in Hn; lia|]. cbn [flat_map app p_args]. rewrite app_nil_r. reflexivity.
  - destruct n; [cbn in Hn; lia|]. cbn [flat_map app p_args]. cbn [flat_map] in Hlen. rewrite app_length in Hlen. cbn [List.length] in Hlen.
    rewrite <- app_assoc. rewrite p_expr_S.
    change (P1 f) with (P f 1).
    rewrite (HM y (or_introl eq_refl) 1 f); [|lia|].
    + rewrite IH; [|intros z Hz; apply HM; right; exact Hz|lia|cbn [List.length] in Hn; lia].
      cbn [rev]. rewrite <- app_assoc. reflexivity.
    + destruct rest; reflexivity.
Qed.

(** * every tree is parsed back from its tokens *)
Lemma all_trees : forall n e, wsize e <= n -> Mstmt e.
Proof.
  induction n as [|n IHn]; intros e Hsz; [destruct e; cbn in Hsz; lia|].
  (* first without parentheses around the whole tree *)
  assert (Hcore : forall L f r, L <= lvl e -> List.length (fl L e) <= f -> stop L r = true -> P f L (fl L e +++ r) = Some (e, r)).
  { intros L f r HL Hlen Hs. rewrite fl_noparen in * by exact HL.
    destruct e as [z|s|s|a|o a b|g args].
    - apply from_atom; [exact I|exact Hs|reflexivity].
    - apply from_atom; [exact I|exact Hs|]. cbn [body fl lvl Nat.ltb Nat.leb app]. unfold Pa, p_atom.
      destruct r as [|t r]; [reflexivity|]. destruct t; try reflexivity. destruct L; discriminate Hs.
    - apply from_atom; [exact I|exact Hs|reflexivity].
    - (* ! a *)
      rewrite body_not in *. cbn [List.length] in Hlen. cbn [lvl] in HL.
      assert (H6 : Pn f ((TBang :: fl 6 a) +++ r) = Some (WNot a, r)).
      { cbn [app]. unfold Pn. cbn [p_neg]. fold (Pn f). change (Pn f) with (P f 6).
        rewrite (IHn a (ltac:(cbn [wsize] in Hsz; lia)) 6 f r); [reflexivity|lia|].
        destruct r as [|t r]; [reflexivity|]. destruct t; try reflexivity; try (destruct L; discriminate Hs).
        cbn [stop]. apply Nat.ltb_lt. pose proof (lvl_op_range o). lia. }
      destruct L as [|L]; [rewrite P_zero; apply (lift f 6 1); try lia; [apply (stop_mono 0); [lia|exact Hs]|exact H6]|].
      apply (lift f 6 (S L)); try lia; [exact Hs|exact H6].
    - (* a o b *)
      cbn [lvl] in HL. pose proof (lvl_op_range o) as Ho. cbn [wsize] in Hsz.
      assert (Hl : P f (lvl_op o) (body (WBin o a b) +++ r) = Some (WBin o a b, r)).
      { assert (Hs' : stop (lvl_op o) r = true) by (apply (stop_mono L); [exact HL|exact Hs]).
        destruct (Nat.eqb_spec (lvl_op o) 3) as [E3|N3].
        - (* comparison: sum_s comp_op sum_s *)
          rewrite body_bin in *. rewrite E3 in *. cbn [Nat.eqb] in *. rewrite app_length in Hlen. cbn [List.length] in Hlen.
          cbn [P]. unfold P3, p_comp. rewrite <- app_assoc. cbn [app]. change (P4 f) with (P f 4).
          rewrite (IHn a (ltac:(lia)) 4 f); [|lia|cbn [stop]; rewrite E3; reflexivity].
          rewrite E3. cbn [Nat.eqb].
          rewrite (IHn b (ltac:(lia)) 4 f r); [reflexivity|lia|apply (stop_mono 3); [lia|exact Hs']].
        - (* a left-associative level *)
          assert (Hfl : body (WBin o a b) = fl (lvl_op o) (WBin o a b)) by (rewrite fl_noparen by (cbn [lvl]; lia); reflexivity).
          rewrite Hfl in *.
          assert (Hsp : sp (lvl_op o) (WBin o a b) <= List.length (fl (lvl_op o) (WBin o a b))) by (apply sp_le_len; [exact N3|cbn [lvl]; lia]).
          assert (HP : P f (lvl_op o) = level (P f (S (lvl_op o))) (lvl_op o) (S f)).
          { destruct (lvl_op o) as [|[|[|[|[|[|l]]]]]]; try lia; reflexivity. }
          rewrite HP.
          replace (S f) with (S (sp (lvl_op o) (WBin o a b) + (f - sp (lvl_op o) (WBin o a b)))) by lia.
          rewrite absorb.
          + apply chainl_stop. eapply stop_nohead; [exact Hs'|lia].
          + lia.
          + intros e' He'. apply IHn. cbn [wsize] in He'. lia.
          + cbn [lvl]. lia.
          + cbn [lvl]. lia.
          + exact Hlen.
          + apply (stop_mono (lvl_op o)); [lia|exact Hs']. }
      destruct L as [|L]; [rewrite P_zero; apply (lift f (lvl_op o) 1); try lia; [apply (stop_mono 0); [lia|exact Hs]|exact Hl]|].
      apply (lift f (lvl_op o) (S L)); try lia; [exact Hs|exact Hl].
    - (* g(args) *)
      apply from_atom; [exact I|exact Hs|]. cbn [wsize] in Hsz.
      unfold body in *. cbn [fl lvl Nat.ltb Nat.leb] in *. destruct args as [|x rest].
      + cbn [app]. reflexivity.
      + cbn [List.length] in Hlen. rewrite !app_length in Hlen. cbn [List.length] in Hlen. cbn [map list_sum] in Hsz.
        cbn [app]. unfold Pa, p_atom.
        destruct (fl_head_not_rp x 1 (flat_map (fun y => TComma :: fl 1 y) rest +++ [TRP] +++ r)) as (t & ts & Et & Hne).
        rewrite <- !app_assoc. rewrite Et. destruct t; try contradiction; rewrite <- Et.
        all: change (list_sum (wsize x :: map wsize rest)) with (wsize x + list_sum (map wsize rest)) in Hsz;
          (destruct f as [|f']; [lia|]);
          rewrite p_expr_S; change (P1 f') with (P f' 1);
          rewrite (IHn x (ltac:(lia)) 1 f'); [|lia|destruct rest; reflexivity];
          cbn [app]; change (P f' 1) with (p_expr (S f'));
          pose proof (len_flat_args rest) as Hlr;
          rewrite (p_args_spec f' rest [x] (S (S f')) r); [reflexivity| |lia|lia];
          intros y Hy; apply IHn; pose proof (in_size y rest Hy); lia. }
  (* then with parentheses, through the atom *)
  intros L f r Hlen Hs. destruct (Nat.le_gt_cases L (lvl e)) as [HL|HL]; [apply Hcore; assumption|].
  rewrite fl_paren in * by exact HL. cbn [List.length] in Hlen. rewrite app_length in Hlen. cbn [List.length] in Hlen.
  apply from_atom; [exact I|exact Hs|]. cbn [app]. unfold Pa, p_atom.
  destruct f as [|f']; [lia|]. rewrite p_expr_S. change (P1 f') with (P f' 1). rewrite <- app_assoc. cbn [app].
  rewrite body_fl1. rewrite (Hcore 1 f' (TRP :: r)); [reflexivity| | |reflexivity].
  - destruct e; cbn [lvl]; try lia. apply lvl_op_range.
  - rewrite <- body_fl1. lia.
Qed.

Theorem tokens_parse_back e : parse_tokens (fl 1 e) = Some e.
Proof.
  unfold parse_tokens. rewrite p_expr_S. change (P1 (List.length (fl 1 e))) with (P (List.length (fl 1 e)) 1).
  rewrite <- (app_nil_r (fl 1 e)) at 2.
  rewrite (all_trees (wsize e) e (Nat.le_refl _) 1 (List.length (fl 1 e)) []); [reflexivity|apply Nat.le_refl|reflexivity].
Qed.
