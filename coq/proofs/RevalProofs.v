(** RevalProofs.v — relative evaluation (C03): out of range -> #f without evaluating e;
    in range -> the value of e at the shifted position; positions restored. *)
From WalModel Require Import Eval.
From WalModel.proofs Require Import VcdProofs Balanced NavProofs.
Local Open Scope Z_scope.

Section WithEv.
  Variable ev : val -> M val.

  Definition valid_body (e : val) : bool :=
    match e with VSym _ _ | VInt _ | VBool _ | VStr _ | VList _ _ | VFloat _ => true | _ => false end.

  (** out of range: the result is #f and the state is the one left by evaluating the offset;
      e is never handed to the evaluator *)
  Theorem reval_out_of_range e o st ov off st1 :
    valid_body e = true ->
    ev o st = Ok ov st1 -> int_of ov = Some off ->
    all_in_range (c_traces (st_cont st1)) off = false ->
    op_reval ev [e; o] st = Ok (VBool false) st1.
  Proof.
    intros Hv Ho Hi Hr. unfold op_reval. cbn [List.length Nat.eqb assert].
    unfold bind at 1. cbn [ret]. fold (valid_body e). rewrite Hv. cbn [assert]. unfold bind at 1. cbn [ret].
    unfold bind at 1. rewrite Ho, Hi. unfold bind, get_st. rewrite Hr. reflexivity.
  Qed.

  Definition shifted (st1 : state) (off : Z) (c : container) : Prop :=
    cont_step (cont_store (st_cont st1)) off None = Some (c, []).

  (** [all_in_range] is exactly "every trace can move by off" *)
  Lemma all_in_range_spec ts off :
    all_in_range ts off = forallb (fun p => in_range (snd p) off) ts.
  Proof.
    induction ts as [|[k t] ts IH]; cbn [all_in_range forallb snd]; [reflexivity|].
    unfold in_range. rewrite IH.
    destruct (tr_max t <? tr_index t + off) eqn:E1; destruct (tr_index t + off <? 0) eqn:E2;
      destruct (0 <=? tr_index t + off) eqn:E3; destruct (tr_index t + off <=? tr_max t) eqn:E4;
      cbn [orb andb]; try reflexivity; lia.
  Qed.

  (** in range: the value is the one e yields in the state whose traces are all moved by off,
      with the saved positions on the stack; afterwards the saved positions are put back *)
  Theorem reval_in_range e o st ov off st1 :
    valid_body e = true ->
    ev o st = Ok ov st1 -> int_of ov = Some off ->
    all_in_range (c_traces (st_cont st1)) off = true ->
    exists c,
      shifted st1 off c /\
      (forall id, alookup id (c_traces c) =
                  option_map (fun t => set_index t (tr_index t + off)) (alookup id (c_traces (st_cont st1)))) /\
      op_reval ev [e; o] st =
        match ev e (upd_cont st1 c) with
        | Ok v st2 =>
            match cont_restore (st_cont st2) with
            | Some c' => Ok v (upd_cont st2 c')
            | None => Er EOther st2
            end
        | Er er s => Er er s
        | Unm w => Unm w
        | Fuel => Fuel
        end.
  Proof.
    intros Hv Ho Hi Hr.
    destruct (cont_step (cont_store (st_cont st1)) off None) as [[c ended]|] eqn:Ec.
    2:{ unfold cont_step in Ec. destruct (step_all _ _); discriminate. }
    destruct (cont_step_all _ _ _ _ Ec) as (Hl & He & _).
    assert (ended = []).
    { apply He. cbn [cont_store c_traces]. rewrite <- all_in_range_spec. exact Hr. }
    subst ended. exists c. split; [exact Ec|]. split.
    - intros id. rewrite Hl. cbn [cont_store c_traces].
      destruct (alookup id (c_traces (st_cont st1))) as [t|] eqn:El; [|reflexivity]. cbn [option_map].
      rewrite trace_step_spec.
      assert (Hin : in_range t off = true).
      { rewrite all_in_range_spec in Hr. rewrite forallb_forall in Hr.
        assert (Hm : exists k, In (k, t) (c_traces (st_cont st1))).
        { clear -El. induction (c_traces (st_cont st1)) as [|[k x] l IH]; [discriminate|]. cbn [alookup] in El.
          destruct (String.eqb id k); [injection El as <-; exists k; left; reflexivity|].
          destruct (IH El) as [k' Hk]. exists k'. right. exact Hk. }
        destruct Hm as [k Hk]. exact (Hr _ Hk). }
      rewrite Hin. reflexivity.
    - unfold op_reval. cbn [List.length Nat.eqb assert].
      unfold bind at 1. cbn [ret]. fold (valid_body e). rewrite Hv. cbn [assert]. unfold bind at 1. cbn [ret].
      unfold bind at 1. rewrite Ho, Hi. unfold bind at 1. unfold get_st at 1. rewrite Hr.
      unfold bind at 1. unfold modify at 1.
      unfold bind at 1. unfold step_all_m. unfold bind at 1. unfold get_st at 1.
      cbn [upd_cont st_cont]. rewrite Ec. unfold bind at 1. unfold modify at 1. unfold ret at 1.
      unfold bind at 1.
      replace (upd_cont (upd_cont st1 (cont_store (st_cont st1))) c) with (upd_cont st1 c) by reflexivity.
      destruct (ev e (upd_cont st1 c)) as [v st2|er s|w|]; try reflexivity.
      unfold bind at 1. unfold restore_m. unfold bind at 1. unfold get_st at 1.
      destruct (cont_restore (st_cont st2)) as [c'|]; reflexivity.
  Qed.
End WithEv.

(** * the saved positions are restored *)
Definition cont_wf (c : container) : Prop :=
  NoDup (map fst (c_traces c)) /\ forall k t, In (k, t) (c_traces c) -> tr_tid t = k.

Lemma alookup_None_notin {V} k (l : list (string * V)) : alookup k l = None <-> ~ In k (map fst l).
Proof.
  induction l as [|[k' v] l IH]; cbn [alookup map In fst]; [tauto|].
  destruct (String.eqb k k') eqn:E.
  - apply String.eqb_eq in E. subst. split; [discriminate|intros H; exfalso; apply H; left; reflexivity].
  - apply String.eqb_neq in E. rewrite IH. split; [intros H [H1|H1]; [congruence|tauto]|tauto].
Qed.

Lemma restore_list_lookup : forall saved ts ts',
  NoDup (map fst saved) ->
  restore_list ts saved = Some ts' ->
  forall k, alookup k ts' =
            match alookup k saved with
            | Some i => option_map (fun t => set_index t i) (alookup k ts)
            | None => alookup k ts
            end.
Proof.
  induction saved as [|[tid i] saved IH]; intros ts ts' Hnd H k; cbn [restore_list] in H.
  - injection H as <-. reflexivity.
  - destruct (alookup tid ts) as [t|] eqn:Et; [|discriminate].
    cbn [map fst] in Hnd. inversion Hnd as [|x l Hnotin Hnd']; subst.
    rewrite (IH _ _ Hnd' H k). cbn [alookup].
    destruct (String.eqb k tid) eqn:E.
    + apply String.eqb_eq in E. subst k.
      assert (Hn : alookup tid saved = None) by (apply alookup_None_notin; exact Hnotin).
      rewrite Hn, alookup_aset_same, Et. reflexivity.
    + rewrite alookup_aset_other by exact E. reflexivity.
Qed.

Lemma cont_indices_keys c : cont_wf c -> map fst (cont_indices c) = map fst (c_traces c).
Proof.
  intros [_ Hk]. unfold cont_indices.
  induction (c_traces c) as [|[k t] l IH]; cbn [map fst snd]; [reflexivity|].
  rewrite (Hk k t) by (left; reflexivity). f_equal. apply IH. intros k2 t2 H2. apply Hk. right. exact H2.
Qed.

Lemma cont_indices_lookup c : cont_wf c ->
  forall k, alookup k (cont_indices c) = option_map tr_index (alookup k (c_traces c)).
Proof.
  intros [_ Hk] k. unfold cont_indices.
  induction (c_traces c) as [|[k' t] l IH]; cbn [map alookup fst snd]; [reflexivity|].
  rewrite (Hk k' t) by (left; reflexivity).
  destruct (String.eqb k k'); [reflexivity|]. apply IH. intros k2 t2 H2. apply Hk. right. exact H2.
Qed.

(** popping positions that were saved from [c0] puts every trace back where it was in [c0] *)
Theorem restore_puts_back c0 ts n rest c' :
  cont_wf c0 ->
  cont_restore (mkCont ts n (cont_indices c0 :: rest)) = Some c' ->
  c_stack c' = rest /\ c_ntraces c' = n /\
  forall k t0 t, alookup k (c_traces c0) = Some t0 -> alookup k ts = Some t ->
                 alookup k (c_traces c') = Some (set_index t (tr_index t0)).
Proof.
  intros Hwf H. unfold cont_restore in H. cbn [c_stack c_traces c_ntraces] in H.
  destruct (restore_list ts (cont_indices c0)) as [ts'|] eqn:E; [|discriminate]. injection H as <-.
  cbn [c_stack c_ntraces c_traces]. repeat split.
  intros k t0 t H0 Ht.
  assert (Hnd : NoDup (map fst (cont_indices c0))) by (rewrite cont_indices_keys by exact Hwf; apply Hwf).
  rewrite (restore_list_lookup _ _ _ Hnd E k), (cont_indices_lookup _ Hwf), H0, Ht. reflexivity.
Qed.
