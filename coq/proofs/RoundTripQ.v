(** RoundTripQ.v — the structural print/read round trip with the quote forms inside (C11): expressions built from
    integers, strings, plain symbols, booleans, operators, lists, and 'x `x ,x ,@x at ANY nesting print to a text that
    reads back as the same expression.  Extends RoundTrip.v (same atoms, same list lemma shape); the new cases reuse
    the reader steps of Shorthand.v with the induction hypothesis in place of the finished theorem. *)
From WalModel Require Import Reader Printer.
From WalModel.proofs Require Import ArithProofs CsvProofs ReaderProofs RoundTrip Shorthand.
Local Open Scope string_scope.
Local Open Scope Z_scope.

(** the text the printer writes *)
Fixpoint showq (e : val) : string :=
  let fix join (l : list val) : string :=
    match l with
    | [] => ""
    | [x] => showq x
    | x :: r => showq x ++ " " ++ join r
    end in
  match e with
  | VInt z => dec_of_Z z
  | VStr s => quote_string s
  | VSym n _ => n
  | VBool b => if b then "true" else "false"
  | VOp o => op_name o
  | VList _ [VOp OQuote; x] => "'" ++ showq x
  | VList _ [VOp OQuasiquote; x] => "`" ++ showq x
  | VList _ l => "(" ++ join l ++ ")"
  | VUnq x => "," ++ showq x
  | VUnqS x => ",@" ++ showq x
  | _ => ""
  end.
Fixpoint showq_join (l : list val) : string :=
  match l with
  | [] => ""
  | [x] => showq x
  | x :: r => showq x ++ " " ++ showq_join r
  end.

(** the class: RoundTrip.simple plus quote, quasiquote, unquote and unquote-splice forms, nested arbitrarily *)
Fixpoint simpleq (e : val) : bool :=
  match e with
  | VInt z => (slen (numeral 10 (Z.abs z)) <=? 4000)%Z
  | VStr s => sall plain_char s
  | VSym n None => plain_sym n
  | VBool _ => true
  | VOp _ => true
  | VList true [VOp OQuote; x] => simpleq x
  | VList true [VOp OQuasiquote; x] => simpleq x
  | VList true l => forallb simpleq l && head_ok l
  | VUnq x => simpleq x
  | VUnqS x => simpleq x
  | _ => false
  end.

Fixpoint vsizeq (e : val) : nat :=
  match e with
  | VList _ [VOp OQuote; x] => S (vsizeq x)
  | VList _ [VOp OQuasiquote; x] => S (vsizeq x)
  | VList _ l => S (fold_right (fun x acc => (vsizeq x + acc)%nat) O l)
  | VUnq x => S (vsizeq x)
  | VUnqS x => S (vsizeq x)
  | _ => 1%nat
  end.
Definition sum_sizeq (l : list val) : nat := fold_right (fun x acc => (vsizeq x + acc)%nat) O l.
Lemma vsizeq_pos e : (1 <= vsizeq e)%nat.
Proof. destruct e as [| | | | | | |w l| | | | |]; cbn [vsizeq]; try lia. destruct l as [|h [|x [|? ?]]]; try lia; destruct h; try lia; destruct o; lia. Qed.

(** the fuel the reader needs for the printed text: three levels per atom and four per prefix or bracket pair *)
Fixpoint need (e : val) : nat :=
  match e with
  | VList _ [VOp OQuote; x] => (need x + 4)%nat
  | VList _ [VOp OQuasiquote; x] => (need x + 4)%nat
  | VList _ l => (fold_right (fun x acc => (need x + acc)%nat) O l + 4)%nat
  | VUnq x => (need x + 4)%nat
  | VUnqS x => (need x + 4)%nat
  | _ => 3%nat
  end.
Definition sum_need (l : list val) : nat := fold_right (fun x acc => (need x + acc)%nat) O l.
Lemma need_pos e : (3 <= need e)%nat.
Proof. destruct e as [| | | | | | |w l| | | | |]; cbn [need]; try lia. destruct l as [|h [|x [|? ?]]]; try lia; destruct h; try lia; destruct o; lia. Qed.

(** ordinary lists: anything but the two-element quote / quasiquote forms *)
Definition plain_list (l : list val) : bool :=
  match l with [VOp OQuote; _] | [VOp OQuasiquote; _] => false | _ => true end.
Lemma showq_plain_list w l : plain_list l = true -> showq (VList w l) = "(" ++ showq_join l ++ ")".
Proof.
  intros H. assert (J : forall l0, (fix join (l : list val) : string :=
                                      match l with [] => "" | [x] => showq x | x :: r => showq x ++ " " ++ join r end) l0 = showq_join l0).
  { induction l0 as [|x r IH]; [reflexivity|]. destruct r as [|v r]; [reflexivity|].
    change (showq_join (x :: v :: r)) with (showq x ++ " " ++ showq_join (v :: r)). rewrite <- IH. reflexivity. }
  rewrite <- J.
  destruct l as [|h t]; [reflexivity|].
  destruct h as [| | | | | |o| | | | | |]; try reflexivity.
  destruct o; try reflexivity; (destruct t as [|x [|y r]]; [reflexivity|discriminate H|reflexivity]).
Qed.
Lemma vsizeq_plain_list w l : plain_list l = true -> vsizeq (VList w l) = S (sum_sizeq l).
Proof.
  intros H. destruct l as [|h t]; [reflexivity|]. destruct h as [| | | | | |o| | | | | |]; try reflexivity.
  destruct o; try reflexivity; (destruct t as [|x [|y r]]; [reflexivity|discriminate H|reflexivity]).
Qed.
Lemma need_plain_list w l : plain_list l = true -> need (VList w l) = (sum_need l + 4)%nat.
Proof.
  intros H. destruct l as [|h t]; [reflexivity|]. destruct h as [| | | | | |o| | | | | |]; try reflexivity.
  destruct o; try reflexivity; (destruct t as [|x [|y r]]; [reflexivity|discriminate H|reflexivity]).
Qed.
Lemma simpleq_plain_list l : plain_list l = true -> simpleq (VList true l) = forallb simpleq l && head_ok l.
Proof.
  intros H. destruct l as [|h t]; [reflexivity|]. destruct h as [| | | | | |o| | | | | |]; try reflexivity.
  destruct o; try reflexivity; (destruct t as [|x [|y r]]; [reflexivity|discriminate H|reflexivity]).
Qed.

(** the first character of a printed expression of the class: fit to start an element, and neither '[' nor '@' *)
Definition first_ok (c : ascii) : Prop := good_first c /\ (aZ c =? 91) = false /\ (aZ c =? 64) = false.

Lemma atom_simple e : match e with VInt _ | VStr _ | VSym _ _ | VBool _ | VOp _ => True | _ => False end ->
  simpleq e = simple e /\ showq e = show e /\ vsizeq e = vsize e.
Proof. destruct e; intros H; try destruct H; repeat split; reflexivity. Qed.

Lemma showq_first e : simpleq e = true -> exists c t, showq e = String c t /\ first_ok c.
Proof.
  intros Hs. destruct e as [|b|z| |s0|nm st|o|w l| |x|x| |]; try discriminate Hs.
  - destruct b; eexists _, _; (split; [reflexivity|repeat split]).
  - cbn [showq]. unfold dec_of_Z. destruct (Z.ltb_spec z 0) as [Hn|Hp]; [eexists _, _; split; [reflexivity|repeat split]|].
    destruct (all_digits_first (numeral 10 z) (numeral10_digits z Hp) (numeral10_nonempty z Hp)) as (c & r & E & Hc).
    rewrite E. exists c, r. split; [reflexivity|]. split; [apply digit_first_char, Hc|].
    unfold is_digit, aZ in *. apply andb_prop in Hc as [H1 H2]. split; apply Z.eqb_neq; lia.
  - eexists _, _; (split; [reflexivity|repeat split]).
  - destruct st; [discriminate|]. cbn [simpleq showq] in *. unfold plain_sym, sym_shaped in Hs. destruct nm as [|c t]; [discriminate|].
    exists c, t. split; [reflexivity|].
    apply andb_prop in Hs as [H _]. apply andb_prop in H as [H _]. apply andb_prop in H as [H _]. apply andb_prop in H as [H _].
    split; [apply sym_first_good, H|].
    unfold is_sym_first, is_alpha, is_lower, is_upper, aZ in H.
    assert (Hc : (65 <= ascii_Z c <= 90) \/ (97 <= ascii_Z c <= 122) \/ ascii_Z c = 95 \/ ascii_Z c = 46) by lia.
    unfold aZ. split; apply Z.eqb_neq; lia.
  - cbn [showq]. destruct o; eexists _, _; (split; [reflexivity|repeat split]).
  - destruct (plain_list l) eqn:Hp.
    + rewrite (showq_plain_list w l Hp). eexists _, _; (split; [reflexivity|repeat split]).
    + destruct l as [|h t]; [discriminate Hp|]. destruct h; try discriminate Hp.
      destruct o; try discriminate Hp;
        (destruct t as [|y [|? ?]]; try discriminate Hp; eexists _, _; (split; [reflexivity|repeat split])).
  - eexists _, _; (split; [reflexivity|repeat split]).
  - eexists _, _; (split; [reflexivity|repeat split]).
Qed.

(** * the reader steps for the prefixes, given that the operand text reads as the operand *)
Section Steps.
  Variables (tx rest : string) (x : val) (f : nat).
  Hypothesis Hx : p_sexpr (S f) (tx ++ rest) = ROk x (inter rest).
  Hypothesis Hn : plain_next (inter rest).

  Lemma fin v : p_postfix (S (S f)) v (inter rest) = ROk v (inter rest).
  Proof. apply postfix_plain, Hn. Qed.
  Lemma tail_ok (v : val) :
    match inter rest with
    | String "@"%char r2 => match p_strict (S (S (S f))) r2 with ROk b r3 => ROk (WL [VOp OReval; v; b]) (inter r3) | y => y end
    | _ => ROk v (inter (inter rest))
    end = ROk v (inter rest).
  Proof.
    rewrite inter_idempotent. pose proof (not_at _ Hn) as Ha. destruct (inter rest) as [|c r]; [reflexivity|].
    destruct c as [b0 b1 b2 b3 b4 b5 b6 b7]. destruct b0, b1, b2, b3, b4, b5, b6, b7; try reflexivity. destruct Ha.
  Qed.

  Lemma step_quote : p_sexpr (S (S (S (S f)))) ("'" ++ tx ++ rest) = ROk (WL [VOp OQuote; x]) (inter rest).
  Proof.
    cbn [append p_sexpr]. rewrite inter_nonspace by reflexivity. cbn [p_strict p_primary].
    change (is_sym_first "'"%char) with false. change (aZ "'"%char =? 34) with false. cbn iota.
    assert (Hnum : lex_number (String "'"%char (tx ++ rest)) = None) by reflexivity. rewrite Hnum.
    change (aZ "'"%char =? 92) with false. cbn iota.
    assert (Hp1 : sprefix ",@" (String "'"%char (tx ++ rest)) = false) by reflexivity. rewrite Hp1.
    assert (Hp2 : first_prefix two_char_ops (String "'"%char (tx ++ rest)) = None) by reflexivity. rewrite Hp2.
    change (aZ "'"%char =? 96) with false. change (aZ "'"%char =? 44) with false. change (aZ "'"%char =? 39) with true. cbn iota.
    rewrite Hx, fin. apply tail_ok.
  Qed.
  Lemma step_quasi : p_sexpr (S (S (S (S f)))) ("`" ++ tx ++ rest) = ROk (WL [VOp OQuasiquote; x]) (inter rest).
  Proof.
    cbn [append p_sexpr]. rewrite inter_nonspace by reflexivity. cbn [p_strict p_primary].
    change (is_sym_first "`"%char) with false. change (aZ "`"%char =? 34) with false. cbn iota.
    assert (Hnum : lex_number (String "`"%char (tx ++ rest)) = None) by reflexivity. rewrite Hnum.
    change (aZ "`"%char =? 92) with false. cbn iota.
    assert (Hp1 : sprefix ",@" (String "`"%char (tx ++ rest)) = false) by reflexivity. rewrite Hp1.
    assert (Hp2 : first_prefix two_char_ops (String "`"%char (tx ++ rest)) = None) by reflexivity. rewrite Hp2.
    change (aZ "`"%char =? 96) with true. cbn iota.
    rewrite Hx, fin. apply tail_ok.
  Qed.
  Lemma step_unquote c t : tx = String c t -> Ascii.eqb c "@"%char = false ->
    p_sexpr (S (S (S (S f)))) ("," ++ tx ++ rest) = ROk (VUnq x) (inter rest).
  Proof.
    intros E Hc. cbn [append p_sexpr]. rewrite inter_nonspace by reflexivity. cbn [p_strict p_primary].
    change (is_sym_first ","%char) with false. change (aZ ","%char =? 34) with false. cbn iota.
    assert (Hnum : lex_number (String ","%char (tx ++ rest)) = None) by reflexivity. rewrite Hnum.
    change (aZ ","%char =? 92) with false. cbn iota.
    assert (Hp1 : sprefix ",@" (String ","%char (tx ++ rest)) = false).
    { rewrite E. cbn [append sprefix]. rewrite Ascii.eqb_refl. cbn [andb]. rewrite Ascii.eqb_sym, Hc. reflexivity. }
    rewrite Hp1.
    assert (Hp2 : first_prefix two_char_ops (String ","%char (tx ++ rest)) = None) by reflexivity. rewrite Hp2.
    change (aZ ","%char =? 96) with false. change (aZ ","%char =? 44) with true. cbn iota.
    rewrite Hx, fin. apply tail_ok.
  Qed.
  Lemma step_splice : p_sexpr (S (S (S (S f)))) (",@" ++ tx ++ rest) = ROk (VUnqS x) (inter rest).
  Proof.
    cbn [append p_sexpr]. rewrite inter_nonspace by reflexivity. cbn [p_strict p_primary].
    change (is_sym_first ","%char) with false. change (aZ ","%char =? 34) with false. cbn iota.
    assert (Hnum : lex_number (String ","%char (String "@"%char (tx ++ rest))) = None) by reflexivity. rewrite Hnum.
    change (aZ ","%char =? 92) with false. cbn iota.
    assert (Hp1 : sprefix ",@" (String ","%char (String "@"%char (tx ++ rest))) = true) by reflexivity. rewrite Hp1.
    change (sdrop 2 (String ","%char (String "@"%char (tx ++ rest)))) with (tx ++ rest).
    rewrite Hx, fin. apply tail_ok.
  Qed.
End Steps.

Lemma first_ok_next c t rest : first_ok c -> plain_next (inter (String " "%char (String c t ++ rest))).
Proof.
  intros ((H1 & H2 & _) & H3 & H4). cbn [append]. rewrite (inter_space c _ (conj H1 (conj H2 eq_refl))) || idtac.
  unfold inter. cbn [String.length skip_inter]. change (is_ws " "%char) with true. cbn iota. rewrite H1, H2. split; assumption.
Qed.

Lemma sum_sizeq_In x l : In x l -> (vsizeq x <= sum_sizeq l)%nat.
Proof.
  induction l as [|y l IH]; [intros []|]. cbn [sum_sizeq fold_right]. fold (sum_sizeq l). intros [->|H]; [lia|specialize (IH H); lia].
Qed.

(** atoms: three levels of fuel are enough *)
Lemma atom_reads e f rest : match e with VInt _ | VStr _ | VSym _ _ | VBool _ | VOp _ => True | _ => False end ->
  simpleq e = true -> delim rest -> p_sexpr (S (S (S f))) (showq e ++ rest) = ROk e (inter rest).
Proof.
  intros Ha Hs Hd. destruct e as [|b|z|fl|s|nm st|o|w l|x|x| | |]; try destruct Ha.
  - destruct b; cbn [showq];
      [apply (rt_atom f "t"%char "rue" (VBool true) rest) | apply (rt_atom f "f"%char "alse" (VBool false) rest)];
      try (repeat split); try exact Hd; intros g r Hr.
    + apply (primary_bool g true r Hr).
    + apply (primary_bool g false r Hr).
  - apply rt_int; assumption.
  - apply rt_str; assumption.
  - destruct st; [discriminate Hs|]. cbn [simpleq] in Hs.
    destruct (show_first (VSym nm None) Hs) as (c & t & E & Hc). cbn [show showq] in *. subst nm.
    apply (rt_atom f c t (VSym (String c t) None) rest Hc); [|exact Hd]. intros g r Hr. apply (primary_sym g _ r Hs Hr).
  - cbn [showq]. destruct (op_first_good o) as (c & t & E & Hc). rewrite E.
    apply (rt_atom f c t (VOp o) rest Hc); [|exact Hd]. intros g r Hr. rewrite <- E. apply (primary_op g o r Hr).
Qed.

(** the elements of a list *)
Lemma rtq_elements rest : forall l acc f,
  l <> [] -> forallb simpleq l = true ->
  (forall x, In x l -> forall g r, (need x <= g)%nat -> delim r -> plain_next (inter r) ->
                                   p_sexpr g (showq x ++ r) = ROk x (inter r)) ->
  (sum_need l + 1 <= f)%nat ->
  p_list f ")"%char (showq_join l ++ ")" ++ rest) acc = ROk (WL (rev acc +++ l)) rest.
Proof.
  induction l as [|x l IH]; intros acc f Hne Hs Hel Hf; [contradiction|].
  cbn [forallb] in Hs. apply andb_prop in Hs as [Hx Hl]. cbn [sum_need fold_right] in Hf. fold (sum_need l) in Hf.
  destruct f as [|f]; [lia|]. cbn [p_list].
  destruct l as [|y l'].
  - cbn [showq_join]. rewrite (Hel x (or_introl eq_refl) f (")" ++ rest)); [|cbn [sum_need fold_right] in Hf; lia|right; reflexivity|].
    + cbn [append]. rewrite inter_close. change (Ascii.eqb ")"%char ")"%char) with true. cbn iota. cbn [rev]. reflexivity.
    + cbn [append]. rewrite inter_close. split; reflexivity.
  - destruct (showq_first y) as (c & t & Ey & Hc); [cbn [forallb] in Hl; apply andb_prop in Hl as [H _]; exact H|].
    change (showq_join (x :: y :: l')) with (showq x ++ " " ++ showq_join (y :: l')).
    assert (Ej : exists t', showq_join (y :: l') = String c t').
    { destruct l'; cbn [showq_join]; rewrite Ey; eexists; reflexivity. }
    destruct Ej as [t' Ej].
    pose proof (need_pos y) as Hy3.
    rewrite sappend_assoc. rewrite (Hel x (or_introl eq_refl) f); [| cbn [sum_need fold_right] in Hf; lia | left; reflexivity |].
    2:{ rewrite sappend_assoc, Ej. cbn [append].
        destruct Hc as ((H1 & H2 & _) & H3 & H4). unfold inter. cbn [String.length skip_inter]. change (is_ws " "%char) with true. cbn iota.
        rewrite H1, H2. split; assumption. }
    rewrite sappend_assoc, Ej. cbn [append]. destruct Hc as (Hg & _). rewrite (inter_space c _ Hg).
    destruct Hg as (_ & _ & H41).
    assert (Hneq : Ascii.eqb c ")"%char = false).
    { destruct (Ascii.eqb_spec c ")"%char) as [->|]; [discriminate H41|reflexivity]. }
    rewrite Hneq. change (String c (t' ++ String ")"%char rest)) with (String c t' ++ ")" ++ rest). rewrite <- Ej.
    rewrite (IH (x :: acc) f); [cbn [rev]; rewrite <- app_assoc; reflexivity|discriminate|exact Hl| |].
    + intros z Hz. apply Hel. right. exact Hz.
    + pose proof (need_pos x). lia.
Qed.

(** * the printed text of an expression of the class, in every position *)
Theorem roundtripq_in_context n : forall e, (vsizeq e <= n)%nat -> simpleq e = true ->
  forall f rest, (need e <= f)%nat -> delim rest -> plain_next (inter rest) ->
  p_sexpr f (showq e ++ rest) = ROk e (inter rest).
Proof.
  induction n as [|n IH]; intros e Hn Hs f rest Hf Hd Hp; [pose proof (vsizeq_pos e); lia|].
  destruct e as [|b|z|fl|s|nm st|o|w l|x|x| | |]; try discriminate Hs.
  1-5: (cbn [need] in Hf; do 3 (destruct f as [|f]; [lia|]); apply atom_reads; [exact I|exact Hs|exact Hd]).
  - (* lists *)
    destruct (plain_list l) eqn:Hpl.
    + destruct w; [|destruct l as [|h t]; [discriminate Hs|]; destruct h; try discriminate Hs; destruct o; try discriminate Hs;
                    destruct t as [|? [|? ?]]; discriminate].
      rewrite (simpleq_plain_list l Hpl) in Hs. apply andb_prop in Hs as [Hs Hh].
      rewrite (vsizeq_plain_list true l Hpl) in Hn. rewrite (need_plain_list true l Hpl) in Hf. rewrite (showq_plain_list true l Hpl).
      do 3 (destruct f as [|f]; [lia|]).
      assert (Etext : ("(" ++ showq_join l ++ ")") ++ rest = String "("%char (showq_join l ++ ")" ++ rest)).
      { cbn [append]. rewrite sappend_assoc. reflexivity. }
      rewrite Etext. set (tail := showq_join l ++ ")" ++ rest).
      cbn [p_sexpr]. rewrite inter_good by (repeat split). cbn [p_strict p_primary].
      change (is_sym_first "("%char) with false. change (aZ "("%char =? 34) with false. cbn iota.
      assert (Hnum : lex_number (String "("%char tail) = None) by reflexivity.
      rewrite Hnum. change (aZ "("%char =? 92) with false. cbn iota.
      assert (Hp1 : sprefix ",@" (String "("%char tail) = false) by reflexivity. rewrite Hp1.
      assert (Hp2 : first_prefix two_char_ops (String "("%char tail) = None) by reflexivity. rewrite Hp2.
      change (aZ "("%char =? 96) with false. change (aZ "("%char =? 44) with false. change (aZ "("%char =? 39) with false.
      change (aZ "("%char =? 35) with false. change (aZ "("%char =? 126) with false. cbn iota.
      change (closer "("%char) with (Some ")"%char). cbv iota. unfold tail.
      assert (Hlist : match showq_join l ++ ")" ++ rest with
                      | String d r' => if Ascii.eqb d ")"%char then ROk (WL []) r' else p_list f ")"%char (showq_join l ++ ")" ++ rest) []
                      | EmptyString => RErr
                      end = ROk (VList true l) rest).
      { destruct l as [|x l'].
        - cbn [showq_join append]. reflexivity.
        - destruct (showq_first x) as (c & t & Ex & Hc); [cbn [forallb] in Hs; apply andb_prop in Hs as [H _]; exact H|].
          assert (Ej : exists t', showq_join (x :: l') = String c t').
          { destruct l'; cbn [showq_join]; rewrite Ex; eexists; reflexivity. }
          destruct Ej as [t' Ej]. rewrite Ej. cbn [append]. destruct Hc as ((_ & _ & H41) & _).
          assert (Hneq : Ascii.eqb c ")"%char = false).
          { destruct (Ascii.eqb_spec c ")"%char) as [->|]; [discriminate H41|reflexivity]. }
          rewrite Hneq. change (String c (t' ++ String ")"%char rest)) with (String c t' ++ ")" ++ rest). rewrite <- Ej.
          rewrite (rtq_elements rest (x :: l') [] f); [reflexivity|discriminate|exact Hs| |lia].
          intros y Hy g r Hg Hr Hpr. apply IH; [pose proof (sum_sizeq_In y _ Hy); lia|apply (forallb_In _ _ _ Hs Hy)|exact Hg|exact Hr|exact Hpr]. }
      rewrite Hlist. rewrite (delim_postfix f _ rest Hd).
      pose proof (delim_not_at rest Hd) as Ha. destruct rest as [|d r]; [reflexivity|].
      destruct d as [b0 b1 b2 b3 b4 b5 b6 b7]. destruct b0, b1, b2, b3, b4, b5, b6, b7; try reflexivity. destruct Ha.
    + (* 'x and `x *)
      destruct l as [|h t]; [discriminate Hpl|]. destruct h as [| | | | | |o| | | | | |]; try discriminate Hpl.
      destruct o; try discriminate Hpl; (destruct t as [|x [|? ?]]; try discriminate Hpl);
        (destruct w; [|discriminate Hs]); cbn [simpleq] in Hs; cbn [vsizeq] in Hn; cbn [need] in Hf; cbn [showq];
        do 4 (destruct f as [|f]; [lia|]); rewrite sappend_assoc;
        [apply step_quote|apply step_quasi]; try exact Hp; apply IH; try assumption; lia.
  - (* ,x *)
    cbn [simpleq] in Hs. cbn [vsizeq] in Hn. cbn [need] in Hf. cbn [showq]. do 4 (destruct f as [|f]; [lia|]). rewrite sappend_assoc.
    destruct (showq_first x Hs) as (c & t & Ex & (_ & _ & H64)).
    apply (step_unquote (showq x) rest x f) with (c := c) (t := t); [|exact Hp|exact Ex|].
    + apply IH; try assumption; lia.
    + destruct (Ascii.eqb_spec c "@"%char) as [->|]; [discriminate H64|reflexivity].
  - (* ,@x *)
    cbn [simpleq] in Hs. cbn [vsizeq] in Hn. cbn [need] in Hf. cbn [showq]. do 4 (destruct f as [|f]; [lia|]).
    change ((",@" ++ showq x) ++ rest) with (",@" ++ showq x ++ rest).
    apply step_splice; [|exact Hp]. apply IH; try assumption; lia.
Qed.

(** * whole texts *)
Lemma qform_cases w l : plain_list l = false ->
  exists x, (l = [VOp OQuote; x] /\ showq (VList w l) = "'" ++ showq x /\ vsizeq (VList w l) = S (vsizeq x) /\ need (VList w l) = (need x + 4)%nat) \/
            (l = [VOp OQuasiquote; x] /\ showq (VList w l) = "`" ++ showq x /\ vsizeq (VList w l) = S (vsizeq x) /\ need (VList w l) = (need x + 4)%nat).
Proof.
  intros H. destruct l as [|h t]; [discriminate H|]. destruct h as [| | | | | |o| | | | | |]; try discriminate H.
  destruct o; try discriminate H; (destruct t as [|x [|? ?]]; try discriminate H); exists x; [left|right]; repeat split.
Qed.

Lemma showq_join_need l : (forall x, In x l -> (need x <= 4 * String.length (showq x))%nat) ->
  (sum_need l <= 4 * String.length (showq_join l))%nat.
Proof.
  induction l as [|x l IH]; intros H; [cbn; lia|]. cbn [sum_need fold_right]. fold (sum_need l).
  pose proof (H x (or_introl eq_refl)) as Hx.
  destruct l as [|y l'].
  - cbn [showq_join sum_need fold_right]. lia.
  - change (showq_join (x :: y :: l')) with (showq x ++ " " ++ showq_join (y :: l')).
    rewrite !length_append. cbn [String.length].
    assert (IH' := IH (fun z Hz => H z (or_intror Hz))). lia.
Qed.

Lemma need_length n : forall e, (vsizeq e <= n)%nat -> simpleq e = true -> (need e <= 4 * String.length (showq e))%nat.
Proof.
  induction n as [|n IH]; intros e Hn Hs; [pose proof (vsizeq_pos e); lia|].
  destruct e as [|b|z|fl|s|nm st|o|w l|x|x| | |]; try discriminate Hs.
  1-5: (destruct (showq_first _ Hs) as (c & t & E & _); rewrite E; cbn [need String.length]; lia).
  - destruct (plain_list l) eqn:Hp.
    + destruct w; [|destruct l as [|h t]; [discriminate Hs|]; destruct h; try discriminate Hs; destruct o; try discriminate Hs;
                    destruct t as [|? [|? ?]]; discriminate].
      rewrite (simpleq_plain_list l Hp) in Hs. apply andb_prop in Hs as [Hs Hh].
      rewrite (vsizeq_plain_list true l Hp) in Hn. rewrite (need_plain_list true l Hp). rewrite (showq_plain_list true l Hp).
      assert (H := showq_join_need l
                     (fun y Hy => IH y ltac:(pose proof (sum_sizeq_In y _ Hy); lia) (forallb_In _ _ _ Hs Hy))).
      cbn [append String.length]. rewrite length_append. cbn [String.length]. lia.
    + destruct (qform_cases w l Hp) as (x & [(-> & E & V & N)|(-> & E & V & N)]); rewrite E, N; rewrite V in Hn;
        (destruct w; [|discriminate Hs]); cbn [simpleq] in Hs; cbn [append String.length];
        specialize (IH x ltac:(lia) Hs); lia.
  - cbn [simpleq] in Hs. cbn [vsizeq] in Hn. cbn [need showq append String.length]. specialize (IH x ltac:(lia) Hs). lia.
  - cbn [simpleq] in Hs. cbn [vsizeq] in Hn. cbn [need showq append String.length]. specialize (IH x ltac:(lia) Hs). lia.
Qed.

Lemma showq_join_plain l : (forall x, In x l -> sall plain_char (showq x) = true) -> sall plain_char (showq_join l) = true.
Proof.
  induction l as [|x l IH]; intros H; [reflexivity|]. destruct l as [|y l']; [apply H; left; reflexivity|].
  change (showq_join (x :: y :: l')) with (showq x ++ " " ++ showq_join (y :: l')).
  rewrite !sall_app. rewrite (H x (or_introl eq_refl)), (IH (fun z Hz => H z (or_intror Hz))). reflexivity.
Qed.

Lemma showq_plain n : forall e, (vsizeq e <= n)%nat -> simpleq e = true -> sall plain_char (showq e) = true.
Proof.
  induction n as [|n IH]; intros e Hn Hs; [pose proof (vsizeq_pos e); lia|].
  destruct e as [|b|z|fl|s|nm st|o|w l|x|x| | |]; try discriminate Hs.
  1-5: (match goal with |- context [showq ?a] =>
          destruct (atom_simple a I) as (E1 & E2 & E3); rewrite E1 in Hs; rewrite E2;
          apply (show_plain (vsize a) a (le_n _) Hs) end).
  - destruct (plain_list l) eqn:Hp.
    + destruct w; [|destruct l as [|h t]; [discriminate Hs|]; destruct h; try discriminate Hs; destruct o; try discriminate Hs;
                    destruct t as [|? [|? ?]]; discriminate].
      rewrite (simpleq_plain_list l Hp) in Hs. apply andb_prop in Hs as [Hs Hh].
      rewrite (vsizeq_plain_list true l Hp) in Hn. rewrite (showq_plain_list true l Hp).
      cbn [append sall]. rewrite sall_app. cbn [sall].
      rewrite (showq_join_plain l (fun y Hy => IH y ltac:(pose proof (sum_sizeq_In y _ Hy); lia) (forallb_In _ _ _ Hs Hy))). reflexivity.
    + destruct (qform_cases w l Hp) as (x & [(-> & E & V & _)|(-> & E & V & _)]); rewrite E; rewrite V in Hn;
        (destruct w; [|discriminate Hs]); cbn [simpleq] in Hs; cbn [append sall];
        rewrite (IH x ltac:(lia) Hs); reflexivity.
  - cbn [simpleq] in Hs. cbn [vsizeq] in Hn. cbn [showq append sall]. rewrite (IH x ltac:(lia) Hs). reflexivity.
  - cbn [simpleq] in Hs. cbn [vsizeq] in Hn. cbn [showq append sall]. rewrite (IH x ltac:(lia) Hs). reflexivity.
Qed.

(** what the printer of the implementation model writes *)
Lemma wjoin_showq l : (forall y, In y l -> wal_str0 y = Some (showq y)) -> wjoin l = Some (showq_join l).
Proof.
  induction l as [|x r IH]; intros H; [reflexivity|]. destruct r as [|y r'].
  - apply (H x). left. reflexivity.
  - change (wjoin (x :: y :: r')) with (opt_cat (wal_str0 x) (opt_cat (Some " ") (wjoin (y :: r')))).
    rewrite (IH (fun z Hz => H z (or_intror Hz))), (H x (or_introl eq_refl)). reflexivity.
Qed.

Lemma wal_str_showq n : forall e, (vsizeq e <= n)%nat -> simpleq e = true -> wal_str0 e = Some (showq e).
Proof.
  induction n as [|n IH]; intros e Hn Hs; [pose proof (vsizeq_pos e); lia|].
  destruct e as [|b|z|fl|s|nm st|o|w l|x|x| | |]; try discriminate Hs; try reflexivity.
  - destruct (plain_list l) eqn:Hp.
    + destruct w; [|destruct l as [|h t]; [discriminate Hs|]; destruct h; try discriminate Hs; destruct o; try discriminate Hs;
                    destruct t as [|? [|? ?]]; discriminate].
      rewrite (simpleq_plain_list l Hp) in Hs. apply andb_prop in Hs as [Hs Hh].
      rewrite (vsizeq_plain_list true l Hp) in Hn. rewrite (showq_plain_list true l Hp).
      assert (Hel : forall y, In y l -> wal_str0 y = Some (showq y)).
      { intros y Hy. apply IH; [pose proof (sum_sizeq_In y _ Hy); lia|apply (forallb_In _ _ _ Hs Hy)]. }
      destruct l as [|x l']; [reflexivity|].
      destruct x as [|b|z| |s|nm st|o|w lx| | | | |];
        try (rewrite wal_str_other_head by exact I; rewrite (wjoin_showq _ Hel); reflexivity).
      * cbn [head_ok] in Hh. apply negb_true_iff in Hh. rewrite (wal_str_sym_head nm st l' Hh), (wjoin_showq _ Hel). reflexivity.
      * rewrite wal_str_other_head; [rewrite (wjoin_showq _ Hel); reflexivity|]. destruct o; try exact I; discriminate Hh.
    + destruct (qform_cases w l Hp) as (x & [(-> & E & V & _)|(-> & E & V & _)]); rewrite E; rewrite V in Hn;
        (destruct w; [|discriminate Hs]); cbn [simpleq] in Hs;
        unfold wal_str0; cbn [wal_str]; change (wal_str (fun _ => None) x) with (wal_str0 x);
        rewrite (IH x ltac:(lia) Hs); reflexivity.
  - cbn [simpleq] in Hs. cbn [vsizeq] in Hn. unfold wal_str0. cbn [wal_str]. change (wal_str (fun _ => None) x) with (wal_str0 x).
    rewrite (IH x ltac:(lia) Hs). reflexivity.
  - cbn [simpleq] in Hs. cbn [vsizeq] in Hn. unfold wal_str0. cbn [wal_str]. change (wal_str (fun _ => None) x) with (wal_str0 x).
    rewrite (IH x ltac:(lia) Hs). reflexivity.
Qed.

Theorem print_read_roundtrip_q e : simpleq e = true ->
  wal_str0 e = Some (showq e) /\ read_sexpr (showq e) = ROk e EmptyString.
Proof.
  intros Hs. split; [apply (wal_str_showq (vsizeq e) e (le_n _) Hs)|].
  unfold read_sexpr. rewrite (plain_modelled _ (showq_plain (vsizeq e) e (le_n _) Hs)). cbn [negb].
  pose proof (roundtripq_in_context (vsizeq e) e (le_n _) Hs (reader_fuel (showq e)) EmptyString) as H.
  rewrite append_nil_r' in H. rewrite H; [reflexivity| |exact I|exact I].
  unfold reader_fuel. pose proof (need_length (vsizeq e) e (le_n _) Hs). lia.
Qed.

(** nested prefixes: ''x, `(a ,b ,@c), ... *)
Example nested_quotes :
  let e := WL [VOp OQuasiquote; WL [VSym "a" None; VUnq (VSym "b" None); VUnqS (WL [VOp OQuote; WL [VInt 1; VStr "s"]]);
                                    WL [VOp OQuote; WL [VOp OQuote; VSym "c" None]]]] in
  simpleq e = true /\ showq e = "`(a ,b ,@'(1 ""s"") ''c)".
Proof. split; reflexivity. Qed.
