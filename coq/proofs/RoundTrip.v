(** RoundTrip.v — structural print/read round trip: an expression built from integers, strings and (nested)
    lists prints to a text that reads back as the same expression, in every position (C11). *)
From WalModel Require Import Reader Printer.
From WalModel.proofs Require Import ArithProofs CsvProofs ReaderProofs.
Local Open Scope string_scope.
Local Open Scope Z_scope.

(** the text the printer writes for the class *)
Fixpoint show (e : val) : string :=
  let fix join (l : list val) : string :=
    match l with
    | [] => ""
    | [x] => show x
    | x :: r => show x ++ " " ++ join r
    end in
  match e with
  | VInt z => dec_of_Z z
  | VStr s => quote_string s
  | VSym n _ => n
  | VBool b => if b then "true" else "false"
  | VOp o => op_name o
  | VList _ l => "(" ++ join l ++ ")"
  | _ => ""
  end.
Fixpoint show_join (l : list val) : string :=
  match l with
  | [] => ""
  | [x] => show x
  | x :: r => show x ++ " " ++ show_join r
  end.
Lemma show_list w l : show (VList w l) = "(" ++ show_join l ++ ")".
Proof. reflexivity. Qed.

(** a symbol text: first character a letter, '_' or '.', then symbol characters (ASCII); not a keyword or an
    operator name (those read as booleans / operators) *)
Definition sym_shaped (n : string) : bool :=
  match n with String c t => is_sym_first c && sall is_sym_rest t | EmptyString => false end.
Definition plain_sym (n : string) : bool :=
  sym_shaped n && negb (String.eqb n "true") && negb (String.eqb n "false") &&
  match op_of_name n with None => true | Some _ => false end.

(** lists that the printer writes in a special form (quote forms, {array ...}, a@b) are not in the class *)
Definition head_ok (l : list val) : bool :=
  match l with
  | VOp OQuote :: _ | VOp OQuasiquote :: _ | VOp OUnquote :: _ | VOp OArray :: _ => false
  | VSym n _ :: _ => negb (String.eqb n "reval")
  | _ => true
  end.

(** integers of at most 4000 digits, strings over ASCII, plain symbols, booleans, operators, and lists of such
    (reader lists: WList) *)
Fixpoint simple (e : val) : bool :=
  match e with
  | VInt z => (slen (numeral 10 (Z.abs z)) <=? 4000)%Z
  | VStr s => sall plain_char s
  | VSym n None => plain_sym n
  | VBool _ => true
  | VOp _ => true
  | VList true l => forallb simple l && head_ok l
  | _ => false
  end.

Fixpoint vsize (e : val) : nat :=
  match e with
  | VList _ l => S (fold_right (fun x acc => (vsize x + acc)%nat) O l)
  | _ => 1%nat
  end.

(** what may follow a printed expression inside a list or at the end of the text *)
Definition delim (rest : string) : Prop :=
  match rest with EmptyString => True | String c _ => is_ws c = true \/ aZ c = 41 end.

Lemma delim_codes c : is_ws c = true \/ aZ c = 41 ->
  aZ c = 32 \/ aZ c = 9 \/ aZ c = 12 \/ aZ c = 13 \/ aZ c = 10 \/ aZ c = 41.
Proof.
  unfold is_ws. intros [H|H]; [|tauto].
  repeat match type of H with (_ || _) = true => apply orb_prop in H as [H|H] end; apply Z.eqb_eq in H; tauto.
Qed.

Lemma delim_number_end rest : delim rest -> number_end rest = true.
Proof.
  destruct rest as [|c r]; [reflexivity|]. cbn [delim number_end]. intros H. apply delim_codes in H.
  unfold is_hex, is_digit, aZ in *.
  destruct H as [H|[H|[H|[H|[H|H]]]]]; rewrite H; reflexivity.
Qed.

Lemma delim_postfix f v rest : delim rest -> p_postfix (S f) v rest = ROk v rest.
Proof.
  destruct rest as [|c r]; [reflexivity|]. cbn [delim p_postfix]. intros H.
  apply delim_codes in H.
  destruct c as [b0 b1 b2 b3 b4 b5 b6 b7]. destruct b0, b1, b2, b3, b4, b5, b6, b7; try reflexivity;
    exfalso; unfold aZ, ascii_Z in H; cbn in H; destruct H as [H|[H|[H|[H|[H|H]]]]]; discriminate H.
Qed.

Lemma delim_not_at rest : delim rest -> match rest with String "@"%char _ => False | _ => True end.
Proof.
  destruct rest as [|c r]; [trivial|]. cbn [delim]. intros H. apply delim_codes in H.
  destruct c as [b0 b1 b2 b3 b4 b5 b6 b7]. destruct b0, b1, b2, b3, b4, b5, b6, b7; try exact I;
    unfold aZ, ascii_Z in H; cbn in H; destruct H as [H|[H|[H|[H|[H|H]]]]]; discriminate H.
Qed.

(** a primary expression followed by a delimiter, read as an s-expression *)
Lemma sexpr_of_primary f c text v rest :
  is_ws c = false -> aZ c =? 59 = false ->
  (forall g, p_primary (S g) (String c text ++ rest) = ROk v rest) -> delim rest ->
  p_sexpr (S (S (S f))) (String c text ++ rest) = ROk v (inter rest).
Proof.
  intros H1 H2 Hp Hd. cbn [p_sexpr append]. rewrite (inter_nonspace c (text ++ rest) H1 H2).
  cbn [p_strict]. change (String c (text ++ rest)) with (String c text ++ rest). rewrite Hp, (delim_postfix f v rest Hd).
  pose proof (delim_not_at rest Hd) as Ha. destruct rest as [|d r]; [reflexivity|].
  destruct d as [b0 b1 b2 b3 b4 b5 b6 b7]. destruct b0, b1, b2, b3, b4, b5, b6, b7; try reflexivity. destruct Ha.
Qed.

Lemma digit_first_char c : is_digit c = true -> is_ws c = false /\ (aZ c =? 59) = false /\ (aZ c =? 41) = false.
Proof.
  unfold is_digit, is_ws, aZ. intros H. apply andb_prop in H as [H1 H2].
  repeat split; try (apply Z.eqb_neq; lia). repeat (apply orb_false_iff; split); apply Z.eqb_neq; lia.
Qed.

(** integers *)
Lemma rt_int f z rest : simple (VInt z) = true -> delim rest ->
  p_sexpr (S (S (S f))) (dec_of_Z z ++ rest) = ROk (VInt z) (inter rest).
Proof.
  cbn [simple]. intros Hs Hd. apply Z.leb_le in Hs. unfold dec_of_Z. destruct (Z.ltb_spec z 0) as [Hneg|Hpos].
  - assert (Hn : 0 <= - z) by lia. replace (Z.abs z) with (- z) in Hs by lia.
    cbn [append]. apply (sexpr_of_primary f "-"%char (numeral 10 (- z)) (VInt z) rest); try reflexivity; [|exact Hd].
    intros g. pose proof (signed_literal_anywhere g true (numeral 10 (- z)) rest (numeral10_digits _ Hn) (numeral10_nonempty _ Hn) Hs
                            (delim_number_end rest Hd)) as H.
    cbn iota in H. cbn [append]. rewrite H, dv_numeral10 by exact Hn. f_equal. f_equal. lia.
  - replace (Z.abs z) with z in Hs by lia.
    destruct (all_digits_first (numeral 10 z) (numeral10_digits z Hpos) (numeral10_nonempty z Hpos)) as (c & r & E & Hc).
    rewrite E. destruct (digit_first_char c Hc) as (W1 & W2 & _).
    apply (sexpr_of_primary f c r (VInt z) rest W1 W2); [|exact Hd].
    intros g. rewrite <- E.
    rewrite (decimal_literal_anywhere g (numeral 10 z) rest (numeral10_digits z Hpos) (numeral10_nonempty z Hpos) Hs (delim_number_end rest Hd)).
    rewrite dv_numeral10 by exact Hpos. reflexivity.
Qed.

(** strings *)
Lemma rt_str f s rest : delim rest ->
  p_sexpr (S (S (S f))) (quote_string s ++ rest) = ROk (VStr s) (inter rest).
Proof.
  intros Hd. unfold quote_string.
  apply (sexpr_of_primary f (ch 34) (escape_string s ++ String (ch 34) "") (VStr s) rest); try reflexivity; [|exact Hd].
  intros g. apply (string_literal_roundtrip g s rest).
Qed.

(** the first character of a printed expression: never white space, ';' or ')' *)
Definition good_first (c : ascii) : Prop := is_ws c = false /\ (aZ c =? 59) = false /\ (aZ c =? 41) = false.

(** symbols, booleans, operators *)
Lemma delim_cases rest : delim rest ->
  rest = "" \/ exists c r, rest = String c r /\
    (c = " "%char \/ c = ascii_of_N 9 \/ c = ascii_of_N 12 \/ c = ascii_of_N 13 \/ c = ascii_of_N 10 \/ c = ")"%char).
Proof.
  destruct rest as [|c r]; [left; reflexivity|]. cbn [delim]. intros H. apply delim_codes in H. right. exists c, r. split; [reflexivity|].
  destruct H as [H|[H|[H|[H|[H|H]]]]]; [left|right;left|right;right;left|right;right;right;left|right;right;right;right;left|right;right;right;right;right];
    apply (ascii_of_code c _ H).
Qed.

Ltac delim_split Hd :=
  let c := fresh "c" in let r := fresh "r" in let E := fresh "E" in
  destruct (delim_cases _ Hd) as [->|(c & r & -> & [E|[E|[E|[E|[E|E]]]]])]; [|subst c..].

Lemma span_sym_app t rest : sall is_sym_rest t = true -> delim rest -> span_sym (t ++ rest) = (t, rest).
Proof.
  intros Ht Hd. induction t as [|c t IH].
  - cbn [append]. delim_split Hd; reflexivity.
  - cbn [sall] in Ht. apply andb_prop in Ht as [Hc Hr]. cbn [append span_sym]. rewrite Hc, (IH Hr). reflexivity.
Qed.

Lemma sym_first_good c : is_sym_first c = true -> good_first c.
Proof.
  unfold is_sym_first, is_alpha, is_lower, is_upper, good_first, is_ws, aZ. intros H.
  assert (Hc : (65 <= ascii_Z c <= 90) \/ (97 <= ascii_Z c <= 122) \/ ascii_Z c = 95 \/ ascii_Z c = 46) by lia.
  repeat split; try (apply Z.eqb_neq; lia). repeat (apply orb_false_iff; split); apply Z.eqb_neq; lia.
Qed.

Lemma primary_sym g n rest : plain_sym n = true -> delim rest -> p_primary (S g) (n ++ rest) = ROk (VSym n None) rest.
Proof.
  unfold plain_sym, sym_shaped. intros H Hd. destruct n as [|c t]; [discriminate|].
  apply andb_prop in H as [H Hop]. apply andb_prop in H as [H Hf]. apply andb_prop in H as [H Ht].
  apply andb_prop in H as [Hc Hr].
  cbn [append p_primary]. rewrite Hc, (span_sym_app t rest Hr Hd). unfold sym_or_op.
  apply negb_true_iff in Ht. apply negb_true_iff in Hf. rewrite Ht, Hf. destruct (op_of_name (String c t)); [discriminate|reflexivity].
Qed.

Lemma primary_bool g (b : bool) rest : delim rest ->
  p_primary (S g) (((if b then "true" else "false") : string) ++ rest) = ROk (VBool b) rest.
Proof. intros Hd. delim_split Hd; destruct b; reflexivity. Qed.

Lemma primary_op g o rest : delim rest -> p_primary (S g) (op_name o ++ rest) = ROk (VOp o) rest.
Proof. intros Hd. delim_split Hd; destruct o; reflexivity. Qed.

Lemma op_first_good o : exists c t, op_name o = String c t /\ good_first c.
Proof. destruct o; eexists _, _; (split; [reflexivity|repeat split]). Qed.

Lemma rt_atom f c text v rest : good_first c ->
  (forall g r, delim r -> p_primary (S g) (String c text ++ r) = ROk v r) -> delim rest ->
  p_sexpr (S (S (S f))) (String c text ++ rest) = ROk v (inter rest).
Proof. intros (H1 & H2 & _) Hp Hd. apply sexpr_of_primary; try assumption. intros g. apply Hp, Hd. Qed.


Lemma show_first e : simple e = true -> exists c t, show e = String c t /\ good_first c.
Proof.
  destruct e as [|b|z| |s|n st|o|w l| | | | |]; try discriminate; intros Hs.
  - destruct b; eexists _, _; (split; [reflexivity|repeat split]).
  - cbn [simple] in Hs. cbn [show]. unfold dec_of_Z. destruct (Z.ltb_spec z 0) as [Hn|Hp].
    + eexists _, _. split; [reflexivity|]. repeat split.
    + destruct (all_digits_first (numeral 10 z) (numeral10_digits z Hp) (numeral10_nonempty z Hp)) as (c & r & E & Hc).
      rewrite E. exists c, r. split; [reflexivity|]. apply digit_first_char, Hc.
  - eexists _, _. split; [reflexivity|]. repeat split.
  - destruct st; [discriminate|]. cbn [simple] in Hs. unfold plain_sym, sym_shaped in Hs. destruct n as [|c t]; [discriminate|].
    exists c, t. split; [reflexivity|]. apply sym_first_good.
    apply andb_prop in Hs as [H _]. apply andb_prop in H as [H _]. apply andb_prop in H as [H _]. apply andb_prop in H as [H _]. exact H.
  - cbn [show]. apply op_first_good.
  - rewrite show_list. eexists _, _. split; [reflexivity|]. repeat split.
Qed.

Lemma inter_good c r : good_first c -> inter (String c r) = String c r.
Proof. intros (H1 & H2 & _). apply inter_nonspace; assumption. Qed.

Lemma inter_space c r : good_first c -> inter (String " "%char (String c r)) = String c r.
Proof.
  intros (H1 & H2 & _). unfold inter. cbn [String.length skip_inter]. change (is_ws " "%char) with true. cbn iota.
  rewrite H1, H2. reflexivity.
Qed.

Lemma inter_close r : inter (String ")"%char r) = String ")"%char r.
Proof. apply inter_nonspace; reflexivity. Qed.

Definition sum_size (l : list val) : nat := fold_right (fun x acc => (vsize x + acc)%nat) O l.
Lemma vsize_pos e : (1 <= vsize e)%nat.
Proof. destruct e; cbn [vsize]; lia. Qed.

(** the elements of a list, given that each element round-trips with enough fuel *)
Lemma rt_elements rest : forall l acc f,
  l <> [] -> forallb simple l = true ->
  (forall x, In x l -> forall g r, (5 * vsize x + 4 <= g)%nat -> delim r -> p_sexpr g (show x ++ r) = ROk x (inter r)) ->
  (5 * sum_size l + 5 <= f)%nat ->
  p_list f ")"%char (show_join l ++ ")" ++ rest) acc = ROk (WL (rev acc +++ l)) rest.
Proof.
  induction l as [|x l IH]; intros acc f Hne Hs Hel Hf; [contradiction|].
  cbn [forallb] in Hs. apply andb_prop in Hs as [Hx Hl]. cbn [sum_size fold_right] in Hf. fold (sum_size l) in Hf.
  destruct f as [|f]; [lia|]. cbn [p_list].
  destruct l as [|y l'].
  - cbn [show_join]. rewrite (Hel x (or_introl eq_refl) f (")" ++ rest)); [|cbn [sum_size fold_right] in Hf; lia|right; reflexivity].
    cbn [append]. rewrite inter_close. change (Ascii.eqb ")"%char ")"%char) with true. cbn iota. cbn [rev]. reflexivity.
  - destruct (show_first y) as (c & t & Ey & Hc); [cbn [forallb] in Hl; apply andb_prop in Hl as [H _]; exact H|].
    change (show_join (x :: y :: l')) with (show x ++ " " ++ show_join (y :: l')).
    rewrite sappend_assoc. rewrite (Hel x (or_introl eq_refl) f); [| pose proof (vsize_pos x); lia | left; reflexivity].
    assert (Ej : exists t', show_join (y :: l') = String c t').
    { destruct l'; cbn [show_join]; rewrite Ey; eexists; reflexivity. }
    destruct Ej as [t' Ej]. rewrite sappend_assoc, Ej. cbn [append]. rewrite (inter_space c _ Hc).
    destruct Hc as (_ & _ & H41).
    assert (Hneq : Ascii.eqb c ")"%char = false).
    { destruct (Ascii.eqb_spec c ")"%char) as [->|]; [discriminate H41|reflexivity]. }
    rewrite Hneq. change (String c (t' ++ String ")"%char rest)) with (String c t' ++ ")" ++ rest). rewrite <- Ej.
    rewrite (IH (x :: acc) f); [cbn [rev]; rewrite <- app_assoc; reflexivity|discriminate|exact Hl| |].
    + intros z Hz. apply Hel. right. exact Hz.
    + pose proof (vsize_pos x). lia.
Qed.

Lemma forallb_In {A} (p : A -> bool) l x : forallb p l = true -> In x l -> p x = true.
Proof. intros H Hin. rewrite forallb_forall in H. apply H, Hin. Qed.

Lemma sum_size_In x l : In x l -> (vsize x <= sum_size l)%nat.
Proof.
  induction l as [|y l IH]; [intros []|]. cbn [sum_size fold_right]. fold (sum_size l). intros [->|H]; [lia|specialize (IH H); lia].
Qed.

(** the printed text of an expression of the class, followed by a delimiter, reads as that expression *)
Theorem roundtrip_in_context n : forall e, (vsize e <= n)%nat -> simple e = true ->
  forall f rest, (5 * vsize e + 4 <= f)%nat -> delim rest -> p_sexpr f (show e ++ rest) = ROk e (inter rest).
Proof.
  induction n as [|n IH]; intros e Hn Hs f rest Hf Hd; [pose proof (vsize_pos e); lia|].
  destruct e as [|b|z| |s|nm st|o|w l| | | | |]; try discriminate.
  - cbn [vsize] in Hf. do 3 (destruct f as [|f]; [lia|]).
    destruct b; cbn [show];
      [apply (rt_atom f "t"%char "rue" (VBool true) rest) | apply (rt_atom f "f"%char "alse" (VBool false) rest)];
      try (repeat split); try exact Hd; intros g r Hr.
    + apply (primary_bool g true r Hr).
    + apply (primary_bool g false r Hr).
  - cbn [vsize] in Hf. do 3 (destruct f as [|f]; [lia|]). apply rt_int; assumption.
  - cbn [vsize] in Hf. do 3 (destruct f as [|f]; [lia|]). apply rt_str; assumption.
  - destruct st; [discriminate|]. cbn [simple] in Hs. cbn [vsize] in Hf. do 3 (destruct f as [|f]; [lia|]).
    destruct (show_first (VSym nm None) Hs) as (c & t & E & Hc). cbn [show] in *. subst nm.
    apply (rt_atom f c t (VSym (String c t) None) rest Hc); [|exact Hd]. intros g r Hr. apply (primary_sym g _ r Hs Hr).
  - cbn [vsize] in Hf. do 3 (destruct f as [|f]; [lia|]). cbn [show].
    destruct (op_first_good o) as (c & t & E & Hc). rewrite E.
    apply (rt_atom f c t (VOp o) rest Hc); [|exact Hd]. intros g r Hr. rewrite <- E. apply (primary_op g o r Hr).
  - destruct w; [|discriminate]. cbn [simple] in Hs. apply andb_prop in Hs as [Hs Hh]. cbn [vsize] in Hn, Hf. fold (sum_size l) in Hn, Hf.
    rewrite show_list. do 3 (destruct f as [|f]; [lia|]).
    assert (Etext : ("(" ++ show_join l ++ ")") ++ rest = String "("%char (show_join l ++ ")" ++ rest)).
    { cbn [append]. rewrite sappend_assoc. reflexivity. }
    rewrite Etext. set (tail := show_join l ++ ")" ++ rest).
    cbn [p_sexpr]. rewrite inter_good by (repeat split). cbn [p_strict p_primary].
    change (is_sym_first "("%char) with false. change (aZ "("%char =? 34) with false. cbn iota.
    assert (Hnum : lex_number (String "("%char tail) = None) by reflexivity.
    rewrite Hnum. change (aZ "("%char =? 92) with false. cbn iota.
    assert (Hp1 : sprefix ",@" (String "("%char tail) = false) by reflexivity. rewrite Hp1.
    assert (Hp2 : first_prefix two_char_ops (String "("%char tail) = None) by reflexivity. rewrite Hp2.
    change (aZ "("%char =? 96) with false. change (aZ "("%char =? 44) with false. change (aZ "("%char =? 39) with false.
    change (aZ "("%char =? 35) with false. change (aZ "("%char =? 126) with false. cbn iota.
    change (closer "("%char) with (Some ")"%char). cbv iota. unfold tail.
    assert (Hlist : match show_join l ++ ")" ++ rest with
                    | String d r' => if Ascii.eqb d ")"%char then ROk (WL []) r' else p_list f ")"%char (show_join l ++ ")" ++ rest) []
                    | EmptyString => RErr
                    end = ROk (VList true l) rest).
    { destruct l as [|x l'].
      - cbn [show_join append]. reflexivity.
      - destruct (show_first x) as (c & t & Ex & Hc); [cbn [forallb] in Hs; apply andb_prop in Hs as [H _]; exact H|].
        assert (Ej : exists t', show_join (x :: l') = String c t').
        { destruct l'; cbn [show_join]; rewrite Ex; eexists; reflexivity. }
        destruct Ej as [t' Ej]. rewrite Ej. cbn [append]. destruct Hc as (_ & _ & H41).
        assert (Hneq : Ascii.eqb c ")"%char = false).
        { destruct (Ascii.eqb_spec c ")"%char) as [->|]; [discriminate H41|reflexivity]. }
        rewrite Hneq. change (String c (t' ++ String ")"%char rest)) with (String c t' ++ ")" ++ rest). rewrite <- Ej.
        rewrite (rt_elements rest (x :: l') [] f); [reflexivity|discriminate|exact Hs| |lia].
        intros y Hy g r Hg Hr. apply IH; [pose proof (sum_size_In y _ Hy); lia|apply (forallb_In _ _ _ Hs Hy)|exact Hg|exact Hr]. }
    rewrite Hlist. rewrite (delim_postfix f _ rest Hd).
    pose proof (delim_not_at rest Hd) as Ha. destruct rest as [|d r]; [reflexivity|].
    destruct d as [b0 b1 b2 b3 b4 b5 b6 b7]. destruct b0, b1, b2, b3, b4, b5, b6, b7; try reflexivity. destruct Ha.
Qed.

(** * whole texts *)
Lemma length_append (a b : string) : String.length (a ++ b) = (String.length a + String.length b)%nat.
Proof. induction a as [|c a IH]; cbn [append String.length]; [reflexivity|rewrite IH; reflexivity]. Qed.

Lemma show_join_length l : (forall x, In x l -> (2 * vsize x <= String.length (show x) + 1)%nat) ->
  l <> [] -> (2 * sum_size l <= String.length (show_join l) + 1)%nat.
Proof.
  induction l as [|x l IH]; intros H Hne; [contradiction|]. cbn [sum_size fold_right]. fold (sum_size l).
  pose proof (H x (or_introl eq_refl)) as Hx.
  destruct l as [|y l'].
  - cbn [show_join sum_size fold_right]. lia.
  - change (show_join (x :: y :: l')) with (show x ++ " " ++ show_join (y :: l')).
    rewrite !length_append. cbn [String.length].
    assert (IH' := IH (fun z Hz => H z (or_intror Hz)) ltac:(discriminate)). lia.
Qed.

Lemma show_length n : forall e, (vsize e <= n)%nat -> simple e = true -> (2 * vsize e <= String.length (show e) + 1)%nat.
Proof.
  induction n as [|n IH]; intros e Hn Hs; [pose proof (vsize_pos e); lia|].
  destruct e as [|b|z| |s|nm st|o|w l| | | | |]; try discriminate;
    try (destruct (show_first _ Hs) as (c & t & E & _); rewrite E; cbn [vsize String.length]; lia).
  - destruct w; [|discriminate]. cbn [simple] in Hs. apply andb_prop in Hs as [Hs Hh]. cbn [vsize] in *. fold (sum_size l) in *. rewrite show_list.
    destruct l as [|x l']; [cbn; lia|].
    assert (H := show_join_length (x :: l')
                   (fun y Hy => IH y ltac:(pose proof (sum_size_In y _ Hy); lia) (forallb_In _ _ _ Hs Hy)) ltac:(discriminate)).
    cbn [append String.length]. rewrite length_append. cbn [String.length]. lia.
Qed.

Lemma sall_app (p : ascii -> bool) a b : sall p (a ++ b) = sall p a && sall p b.
Proof. induction a as [|c a IH]; cbn [append sall]; [reflexivity|rewrite IH, andb_assoc; reflexivity]. Qed.

Lemma plain_modelled s : sall plain_char s = true -> modelled_text s = true.
Proof.
  induction s as [|c r IH]; [reflexivity|]. cbn [sall modelled_text]. intros H. apply andb_prop in H as [Hc Hr].
  unfold plain_char in Hc. rewrite Hc. apply IH, Hr.
Qed.

Lemma digits_plain ds : all_digits ds = true -> sall plain_char ds = true.
Proof.
  induction ds as [|c r IH]; [reflexivity|]. cbn [all_digits sall]. intros H. apply andb_prop in H as [Hc Hr].
  rewrite (IH Hr), andb_true_r. unfold is_digit, plain_char, aZ in *. apply andb_prop in Hc as [H1 H2]. apply Z.ltb_lt. lia.
Qed.

Lemma escape_plain s : sall plain_char s = true -> sall plain_char (escape_string s) = true.
Proof.
  induction s as [|c s IH]; [reflexivity|]. cbn [sall escape_string]. intros H. apply andb_prop in H as [Hc Hs]. specialize (IH Hs).
  destruct (ascii_Z c =? 92); [cbn [sall]; rewrite Hc, IH; reflexivity|].
  destruct (ascii_Z c =? 34); [cbn [sall]; rewrite Hc, IH; reflexivity|].
  destruct (ascii_Z c =? 10); [cbn [sall]; rewrite IH; reflexivity|].
  destruct (ascii_Z c =? 9); [cbn [sall]; rewrite IH; reflexivity|].
  destruct (ascii_Z c =? 13); [cbn [sall]; rewrite IH; reflexivity|].
  cbn [sall]. rewrite Hc, IH. reflexivity.
Qed.

Lemma show_join_plain l : (forall x, In x l -> sall plain_char (show x) = true) -> sall plain_char (show_join l) = true.
Proof.
  induction l as [|x l IH]; intros H; [reflexivity|]. destruct l as [|y l']; [apply H; left; reflexivity|].
  change (show_join (x :: y :: l')) with (show x ++ " " ++ show_join (y :: l')).
  rewrite !sall_app. rewrite (H x (or_introl eq_refl)), (IH (fun z Hz => H z (or_intror Hz))). reflexivity.
Qed.

Lemma sym_rest_plain c : is_sym_rest c = true -> plain_char c = true.
Proof.
  unfold is_sym_rest, is_word, is_alpha, is_lower, is_upper, is_digit, plain_char, aZ. intros H. apply Z.ltb_lt.
  repeat match type of H with (_ || _) = true => apply orb_prop in H as [H|H] end;
    try (apply andb_prop in H as [H1 H2]); try (apply Z.eqb_eq in H); lia.
Qed.
Lemma sym_chars_plain t : sall is_sym_rest t = true -> sall plain_char t = true.
Proof.
  induction t as [|c t IH]; [reflexivity|]. cbn [sall]. intros H. apply andb_prop in H as [Hc Ht].
  rewrite (sym_rest_plain c Hc), (IH Ht). reflexivity.
Qed.

Lemma show_plain n : forall e, (vsize e <= n)%nat -> simple e = true -> sall plain_char (show e) = true.
Proof.
  induction n as [|n IH]; intros e Hn Hs; [pose proof (vsize_pos e); lia|].
  destruct e as [|b|z| |s|nm st|o|w l| | | | |]; try discriminate.
  - destruct b; reflexivity.
  - cbn [show]. unfold dec_of_Z. destruct (Z.ltb_spec z 0).
    + cbn [sall]. rewrite digits_plain by (apply numeral10_digits; lia). reflexivity.
    + apply digits_plain, numeral10_digits. lia.
  - cbn [show simple] in *. unfold quote_string. cbn [sall]. rewrite sall_app, (escape_plain s Hs). reflexivity.
  - destruct st; [discriminate|]. cbn [simple show] in *. unfold plain_sym, sym_shaped in Hs. destruct nm as [|c t]; [discriminate|].
    apply andb_prop in Hs as [H _]. apply andb_prop in H as [H _]. apply andb_prop in H as [H _]. apply andb_prop in H as [Hc Ht].
    cbn [sall]. rewrite (sym_chars_plain t Ht), andb_true_r.
    unfold is_sym_first, is_alpha, is_lower, is_upper, aZ in Hc. unfold plain_char, aZ. apply Z.ltb_lt.
    repeat match type of Hc with (_ || _) = true => apply orb_prop in Hc as [Hc|Hc] end;
      try (apply andb_prop in Hc as [H1 H2]); try (apply Z.eqb_eq in Hc); lia.
  - destruct o; reflexivity.
  - destruct w; [|discriminate]. cbn [simple] in Hs. apply andb_prop in Hs as [Hs Hh]. cbn [vsize] in Hn. fold (sum_size l) in Hn. rewrite show_list.
    cbn [append sall]. rewrite sall_app. cbn [sall].
    rewrite (show_join_plain l (fun y Hy => IH y ltac:(pose proof (sum_size_In y _ Hy); lia) (forallb_In _ _ _ Hs Hy))). reflexivity.
Qed.

(** the class's text is what the printer of the implementation model writes *)
Fixpoint wjoin (l : list val) : option string :=
  match l with [] => Some "" | [x] => wal_str0 x | x :: r => opt_cat (wal_str0 x) (opt_cat (Some " ") (wjoin r)) end.

Ltac crack n :=
  let c := fresh "c" in let n' := fresh "n" in
  destruct n as [|c n']; [try reflexivity|];
  [destruct c as [[] [] [] [] [] [] [] []]; try reflexivity].

(** a list headed by a symbol other than reval prints as an ordinary list *)
Lemma wal_str_sym_head n st t : String.eqb n "reval" = false ->
  wal_str0 (VList true (VSym n st :: t)) = opt_cat (Some "(") (opt_cat (wjoin (VSym n st :: t)) (Some ")")).
Proof.
  intros Hn. unfold wal_str0. cbn [wal_str].
  destruct t as [|a [|b [|c r]]]; try reflexivity.
  all: crack n; crack n0; crack n; crack n0; crack n.
  all: destruct n0 as [|c' n']; [|reflexivity]; try discriminate Hn; destruct st; reflexivity.
Qed.

Lemma wal_str_other_head x t :
  match x with VSym _ _ => False | VOp OQuote | VOp OQuasiquote | VOp OUnquote | VOp OArray => False | _ => True end ->
  wal_str0 (VList true (x :: t)) = opt_cat (Some "(") (opt_cat (wjoin (x :: t)) (Some ")")).
Proof.
  intros H. unfold wal_str0. cbn [wal_str].
  destruct x as [| | | | | |o| | | | | |]; try destruct H; try reflexivity.
  destruct o; try destruct H; reflexivity.
Qed.

Lemma wjoin_show l : (forall y, In y l -> wal_str0 y = Some (show y)) -> wjoin l = Some (show_join l).
Proof.
  induction l as [|x r IH]; intros H; [reflexivity|]. destruct r as [|y r'].
  - apply (H x). left. reflexivity.
  - change (wjoin (x :: y :: r')) with (opt_cat (wal_str0 x) (opt_cat (Some " ") (wjoin (y :: r')))).
    rewrite (IH (fun z Hz => H z (or_intror Hz))), (H x (or_introl eq_refl)). reflexivity.
Qed.

Lemma wal_str_show n : forall e, (vsize e <= n)%nat -> simple e = true -> wal_str0 e = Some (show e).
Proof.
  induction n as [|n IH]; intros e Hn Hs; [pose proof (vsize_pos e); lia|].
  destruct e as [|b|z| |s|nm st|o|w l| | | | |]; try discriminate; try reflexivity.
  destruct w; [|discriminate]. cbn [simple] in Hs. apply andb_prop in Hs as [Hs Hh].
  cbn [vsize] in Hn. fold (sum_size l) in Hn. rewrite show_list.
  assert (Hel : forall y, In y l -> wal_str0 y = Some (show y)).
  { intros y Hy. apply IH; [pose proof (sum_size_In y _ Hy); lia|apply (forallb_In _ _ _ Hs Hy)]. }
  destruct l as [|x l']; [reflexivity|].
  destruct x as [|b|z| |s|nm st|o|w lx| | | | |];
    try (rewrite wal_str_other_head by exact I; rewrite (wjoin_show _ Hel); reflexivity).
  - cbn [head_ok] in Hh. apply negb_true_iff in Hh. rewrite (wal_str_sym_head nm st l' Hh), (wjoin_show _ Hel). reflexivity.
  - rewrite wal_str_other_head; [rewrite (wjoin_show _ Hel); reflexivity|]. destruct o; try exact I; discriminate Hh.
Qed.

Theorem print_read_roundtrip e : simple e = true ->
  wal_str0 e = Some (show e) /\ read_sexpr (show e) = ROk e EmptyString.
Proof.
  intros Hs. split; [apply (wal_str_show (vsize e) e (le_n _) Hs)|].
  unfold read_sexpr. rewrite (plain_modelled _ (show_plain (vsize e) e (le_n _) Hs)). cbn [negb].
  pose proof (roundtrip_in_context (vsize e) e (le_n _) Hs (reader_fuel (show e)) EmptyString) as H.
  rewrite append_nil_r' in H. rewrite H; [reflexivity| |exact I].
  unfold reader_fuel. pose proof (show_length (vsize e) e (le_n _) Hs). lia.
Qed.
