(** GroupScope.v — the scope captured inside (in-group g body): the part of g up to its last dot, and the scope captured
    before when g has no dot (C05). *)
From WalModel Require Import Eval.
Local Open Scope Z_scope.

Definition group_scope (name prev : string) : string :=
  let i := srfind "."%char name in if i =? -1 then prev else stake (Z.to_nat (i + 1)) name.

Theorem in_group_body_runs_with ev g b body st v st1 name :
  ev g st = Ok v st1 -> name_of v = Some name ->
  op_in_group ev (g :: b :: body) st =
  (modify (fun s => upd_group s name) ;;;
   write_global "CG" (VStr name) ;;;
   set_scope_cs (group_scope name (st_scope st)) ;;;
   vs <- eval_args ev (b :: body) ;;
   modify (fun s => upd_group (upd_scope s (st_scope st)) (st_group st)) ;;;
   write_global "CG" (VStr (st_group st)) ;;;
   write_global "CS" (VStr (st_scope st)) ;;;
   last_or_index_error vs) st1.
Proof.
  intros Hg Hn. unfold op_in_group.
  assert (Hz : (2 <=? zlen (g :: b :: body)) = true).
  { unfold zlen. cbn [List.length]. apply Z.leb_le. lia. }
  rewrite Hz. cbn [assert]. unfold bind at 1. cbn [ret]. unfold bind at 1. unfold get_st at 1. unfold bind at 1. rewrite Hg, Hn. reflexivity.
Qed.

Theorem group_without_a_dot_keeps_the_scope name prev : srfind "."%char name = -1 -> group_scope name prev = prev.
Proof. intros H. unfold group_scope. rewrite H. reflexivity. Qed.

Example group_scope_examples :
  group_scope "p_" "top" = "top"%string /\ group_scope "top.u.r_" "x" = "top.u."%string /\ group_scope "top." "" = "top."%string.
Proof. vm_compute. repeat split. Qed.
