(** ReadOnly.v — T-ro: expressions of the read-only fragment (literals, names, arithmetic, comparison, logic,
    bitwise, slice, if, do) leave the interpreter state exactly as it was, on every state without virtual
    signals (reading a virtual signal fills its cache).  Used to discharge the premises of the scan theorems
    (C04) for a syntactic class of conditions. *)
From WalModel Require Import Eval.
From WalModel.proofs Require Import Balanced.
Local Open Scope Z_scope.

Definition novirt (st : state) : Prop := forall k t, In (k, t) (c_traces (st_cont st)) -> tr_virt t = [].

Definition pure {A} (m : M A) : Prop := forall st a st', novirt st -> m st = Ok a st' -> st' = st.

Lemma pure_ret {A} (a : A) : pure (ret a).
Proof. intros st x st' _ H. injection H as _ <-. reflexivity. Qed.
Lemma pure_fail {A} e : pure (@fail A e).
Proof. intros st x st' _ H. discriminate. Qed.
Lemma pure_unm {A} w : pure (@unm A w).
Proof. intros st x st' _ H. discriminate. Qed.
Lemma pure_fuel {A} : pure (fun _ : state => @Fuel A).
Proof. intros st x st' _ H. discriminate. Qed.
Lemma pure_bind {A B} (m : M A) (k : A -> M B) : pure m -> (forall a, pure (k a)) -> pure (bind m k).
Proof.
  intros Hm Hk st b st' Hn H. unfold bind in H. destruct (m st) as [a st1| | |] eqn:E; try discriminate.
  pose proof (Hm _ _ _ Hn E) as ->. apply (Hk a _ _ _ Hn H).
Qed.
Lemma pure_get_st : pure get_st.
Proof. intros st x st' _ H. injection H as _ <-. reflexivity. Qed.
Lemma pure_assert b : pure (assert b).
Proof. unfold assert. destruct b; [apply pure_ret|apply pure_fail]. Qed.
Lemma pure_require b e : pure (require b e).
Proof. unfold require. destruct b; [apply pure_ret|apply pure_fail]. Qed.
Lemma pure_of_opt {A} (o : option A) e : pure (of_opt o e).
Proof. unfold of_opt. destruct o; [apply pure_ret|apply pure_fail]. Qed.
Lemma pure_mapM {A B} (f : A -> M B) l : Forall (fun x => pure (f x)) l -> pure (mapM f l).
Proof.
  induction 1 as [|x l Hx Hl IH]; cbn [mapM]; [apply pure_ret|].
  apply pure_bind; [exact Hx|intros y]. apply pure_bind; [exact IH|intros ys; apply pure_ret].
Qed.
Lemma pure_mapM_all {A B} (f : A -> M B) l : (forall x, pure (f x)) -> pure (mapM f l).
Proof. intros H. apply pure_mapM. apply Forall_forall. intros x _. apply H. Qed.
Lemma pure_env_read id n : pure (env_read id n).
Proof.
  intros st x st' _ H. unfold env_read in H.
  destruct (lookup_frame st id n); [|discriminate]. destruct (get_frame st n0); [|discriminate].
  destruct (alookup n (f_binds f)); [|discriminate]. injection H as _ <-. reflexivity.
Qed.
#[global] Hint Resolve pure_ret pure_fail pure_unm pure_fuel pure_get_st pure_assert pure_require pure_of_opt pure_env_read : pureb.

Ltac pure_step :=
  lazymatch goal with
  | |- pure (bind _ _) => apply pure_bind; [|intros ?]
  | |- pure (mapM _ _) => first [apply pure_mapM; assumption | apply pure_mapM_all; intros ?]
  | |- pure (match ?x with _ => _ end) => destruct x
  | |- pure (if ?b then _ else _) => destruct b
  | |- pure (let '(_, _) := ?x in _) => destruct x
  | |- pure _ => solve [auto with pureb]
  end.
Ltac solve_pure := repeat pure_step.

Lemma alookup_in_ro {V} k (l : list (string * V)) v : alookup k l = Some v -> In (k, v) l.
Proof.
  induction l as [|[k' v'] l IH]; cbn [alookup]; [discriminate|].
  destruct (String.eqb_spec k k') as [->|_]; intros H; [injection H as ->; left; reflexivity|right; apply IH, H].
Qed.

(** a name read never reaches the virtual-signal path when no trace has virtual signals *)
Lemma no_virtual_read st name scope : novirt st ->
  forall n t, cont_signal_value (st_cont st) name scope <> (SVirtual n, t).
Proof.
  intros Hn n t H. unfold cont_signal_value in H. destruct (address (st_cont st) name) as [t0 sig| |] eqn:Ea; try discriminate.
  assert (Hin : exists k, In (k, t0) (c_traces (st_cont st))).
  { unfold address in Ea. destruct ((c_ntraces (st_cont st) =? 1) && negb (has_sep name)).
    - destruct (c_traces (st_cont st)) as [|[k t1] r]; [discriminate|]. injection Ea as <- _. exists k. left. reflexivity.
    - destruct (ssplit_first "^"%char name) as [[tid s]|]; [|discriminate].
      destruct (alookup tid (c_traces (st_cont st))) as [t1|] eqn:El; [|discriminate]. injection Ea as <- _.
      exists tid. apply alookup_in_ro, El. }
  destruct Hin as [k Hin]. pose proof (Hn _ _ Hin) as Hv.
  injection H as H _. unfold trace_signal_value in H. cbv zeta in H. rewrite Hv in H. unfold amem in H. cbn [alookup] in H.
  repeat match type of H with
         | (if ?b then _ else _) = _ => destruct b; try discriminate
         | match ?x with _ => _ end = _ => destruct x; try discriminate
         end.
Qed.

Section WithEv.
  Variable ev : val -> M val.

  Lemma pure_eval_args args : Forall (fun a => pure (ev a)) args -> pure (eval_args ev args).
  Proof. unfold eval_args. apply pure_mapM. Qed.
  Lemma pure_last_or l : pure (last_or_index_error l).
  Proof. unfold last_or_index_error. solve_pure. Qed.
  Lemma pure_arg0 l : pure (arg0 l).
  Proof. unfold arg0. solve_pure. Qed.
  Lemma pure_contains_m n : pure (contains_m n).
  Proof. unfold contains_m. solve_pure. Qed.
  Hint Resolve pure_eval_args pure_last_or pure_arg0 pure_contains_m : pureb.

  Lemma pure_signal_value_m name scope : pure (signal_value_m ev name scope).
  Proof.
    intros st a st' Hn H. unfold signal_value_m, bind, get_st in H.
    destruct (cont_signal_value (st_cont st) name scope) as [r t] eqn:E.
    destruct r as [v|n|e|]; try discriminate.
    - injection H as _ <-. reflexivity.
    - exfalso. apply (no_virtual_read st name scope Hn n t E).
  Qed.
  Hint Resolve pure_signal_value_m : pureb.

  Lemma pure_eval_symbol n s : pure (eval_symbol ev n s).
  Proof. unfold eval_symbol. solve_pure. Qed.

  Lemma pure_py_str v : pure (py_str v). Proof. unfold py_str. solve_pure. Qed.
  Lemma pure_py_sum vs : pure (py_sum vs). Proof. unfold py_sum. solve_pure. Qed.
  Hint Resolve pure_py_str pure_py_sum : pureb.

  Section Args.
    Variable args : list val.
    Hypothesis Hargs : Forall (fun a => pure (ev a)) args.
    Hint Resolve Hargs : pureb.
    Lemma pure_ea : pure (eval_args ev args). Proof. apply pure_eval_args, Hargs. Qed.
    Hint Resolve pure_ea : pureb.

    Lemma pure_op_not : pure (op_not ev args). Proof. unfold op_not. solve_pure. Qed.
    Lemma pure_op_eq neg : pure (op_eq ev neg args). Proof. unfold op_eq. solve_pure. Qed.
    Lemma pure_op_cmp t : pure (op_cmp ev t args). Proof. unfold op_cmp. solve_pure. Qed.
    Lemma pure_op_add : pure (op_add ev args). Proof. unfold op_add. solve_pure. Qed.
    Lemma pure_op_sub : pure (op_sub ev args). Proof. unfold op_sub. solve_pure. Qed.
    Lemma pure_op_mul : pure (op_mul ev args). Proof. unfold op_mul. solve_pure. Qed.
    Lemma pure_op_div : pure (op_div ev args). Proof. unfold op_div. solve_pure. Qed.
    Lemma pure_op_exp : pure (op_exp ev args). Proof. unfold op_exp. solve_pure. Qed.
    Lemma pure_op_mod : pure (op_mod ev args). Proof. unfold op_mod. solve_pure. Qed.
    Lemma pure_op_bitwise f : pure (op_bitwise ev f args). Proof. unfold op_bitwise. solve_pure. Qed.
    Lemma pure_op_slice : pure (op_slice ev args). Proof. unfold op_slice. solve_pure. Qed.
    Lemma pure_op_do : pure (op_do ev args). Proof. unfold op_do. solve_pure. Qed.
  End Args.

  Lemma pure_and_loop args : Forall (fun a => pure (ev a)) args -> pure (and_loop ev args).
  Proof. induction 1 as [|a r Ha Hr IH]; cbn [and_loop]; solve_pure. Qed.
  Lemma pure_or_loop args : Forall (fun a => pure (ev a)) args -> pure (or_loop ev args).
  Proof. induction 1 as [|a r Ha Hr IH]; cbn [or_loop]; solve_pure. Qed.
  Lemma pure_op_and args : Forall (fun a => pure (ev a)) args -> pure (op_and ev args).
  Proof. intros H. unfold op_and. apply pure_bind; [apply pure_assert|intros _; apply pure_and_loop, H]. Qed.
  Lemma pure_op_or args : Forall (fun a => pure (ev a)) args -> pure (op_or ev args).
  Proof. intros H. unfold op_or. apply pure_bind; [apply pure_assert|intros _; apply pure_or_loop, H]. Qed.
  Lemma pure_op_if args : Forall (fun a => pure (ev a)) args -> pure (op_if ev args).
  Proof.
    intros H. unfold op_if. apply pure_bind; [apply pure_assert|intros _].
    destruct args as [|c [|t r]]; try apply pure_fail.
    inversion H as [|? ? Hc H1]; subst. inversion H1 as [|? ? Ht Hr]; subst.
    apply pure_bind; [exact Hc|intros v]. apply pure_bind; [apply pure_get_st|intros st].
    destruct (truthy st v); [exact Ht|]. destruct r as [|e [|? ?]]; try apply pure_ret.
    inversion Hr; subst. assumption.
  Qed.
End WithEv.

(** * the read-only fragment *)
Definition ro_op (o : op) : bool :=
  match o with
  | ONot | OEq | ONeq | OGt | OLt | OGe | OLe | OAnd | OOr | OIf | ODo
  | OAdd | OSub | OMul | ODiv | OExp | OMod | OBor | OBand | OBxor | OSlice => true
  | _ => false
  end.

Fixpoint is_ro (e : val) : bool :=
  match e with
  | VInt _ | VBool _ | VStr _ | VFloat _ | VSym _ _ => true
  | VList _ (VOp o :: args) => ro_op o && forallb is_ro args
  | _ => false
  end.

Theorem ro_pure lf f : forall e, is_ro e = true -> pure (eval lf f e).
Proof.
  induction f as [|f IH]; intros e Hro; [apply pure_fuel|].
  change (eval lf (S f) e) with (eval_body lf (fun e' => eval lf f e') (fun e' p => expand lf f e' p) e).
  destruct e as [| | | | | | |w l| | | | |]; try discriminate; try apply pure_ret.
  - apply pure_eval_symbol.
  - destruct l as [|h args]; [discriminate|]. destruct h as [| | | | | |o| | | | | |]; try discriminate.
    cbn [is_ro] in Hro. apply andb_prop in Hro as [Ho Ha].
    assert (HF : Forall (fun a => pure (eval lf f a)) args).
    { apply Forall_forall. intros a Hin. apply IH. rewrite forallb_forall in Ha. apply Ha, Hin. }
    cbn [eval_body]. destruct o; try discriminate; unfold dispatch;
      first [ apply pure_op_not | apply pure_op_eq | apply pure_op_cmp | apply pure_op_and | apply pure_op_or
            | apply pure_op_if | apply pure_op_do | apply pure_op_add | apply pure_op_sub | apply pure_op_mul
            | apply pure_op_div | apply pure_op_exp | apply pure_op_mod | apply pure_op_bitwise | apply pure_op_slice ];
      exact HF.
Qed.
