(** EagerOps.v — the comparison and arithmetic operators evaluate every operand, left to right, before they look at any
    value (C06): they begin with [eval_args], so an error, an effect or an unbound name in a later operand is never
    skipped because an earlier operand already decided the result. *)
From WalModel Require Import Eval.
Local Open Scope Z_scope.

Section Eager.
  Variable ev : val -> M val.

  (** the computation starts by evaluating all operands in order *)
  Definition eager (m : M val) (args : list val) : Prop := exists k, m = bind (eval_args ev args) k.

  Theorem eq_is_eager neg args : eager (op_eq ev neg args) args.
  Proof. eexists. reflexivity. Qed.
  Theorem add_is_eager args : eager (op_add ev args) args.
  Proof. eexists. reflexivity. Qed.
  Theorem sub_is_eager args : eager (op_sub ev args) args.
  Proof. eexists. reflexivity. Qed.
  Theorem mul_is_eager args : eager (op_mul ev args) args.
  Proof. eexists. reflexivity. Qed.
  Theorem list_is_eager args : eager (op_list ev args) args.
  Proof. eexists. reflexivity. Qed.

  (** hence a failing operand fails the whole form, with the state reached so far *)
  Theorem eager_fails m args e st st' : eager m args -> eval_args ev args st = Er e st' -> m st = Er e st'.
  Proof. intros [k ->] H. unfold bind. rewrite H. reflexivity. Qed.

  (** and eval_args is one evaluation per operand, in order *)
  Theorem eval_args_cons a r st :
    eval_args ev (a :: r) st =
    match ev a st with
    | Ok v st1 => match eval_args ev r st1 with Ok vs st2 => Ok (v :: vs) st2 | Er e s => Er e s | Unm w => Unm w | Fuel => Fuel end
    | Er e s => Er e s | Unm w => Unm w | Fuel => Fuel
    end.
  Proof.
    unfold eval_args. cbn [mapM]. unfold bind. destruct (ev a st) as [v st1| | |]; try reflexivity.
  Qed.
End Eager.

