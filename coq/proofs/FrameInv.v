(** FrameInv.v — no frame ever binds a name twice: define refuses a bound name, assignment replaces in place, undefine
    removes, a new frame is empty — through every completed evaluation and every API operation (C06, C17).
    Same structure as Balanced.v / ContInv.v: [good m] for the relation "distinct keys before => distinct keys after",
    one lemma per monadic combinator and per operator, the whole evaluator by induction on fuel. *)
From WalModel Require Import Eval.
From WalModel.proofs Require Import ListProofs.
Local Open Scope Z_scope.

Definition keys_distinct (f : frame) : Prop := NoDup (map fst (f_binds f)).
Definition fwf (st : state) : Prop := Forall keys_distinct (st_frames st).
Definition R (st st' : state) : Prop := fwf st -> fwf st'.

Lemma R_refl st : R st st.
Proof. intros H. exact H. Qed.
Lemma R_trans a b c : R a b -> R b c -> R a c.
Proof. intros H1 H2 H. apply H2, H1, H. Qed.

Lemma forall_replace_frame (P : frame -> Prop) l : forall id f, Forall P l -> P f -> Forall P (replace_frame l id f).
Proof.
  induction l as [|x l IH]; intros id f Hl Hf; [constructor|]. inversion Hl as [|? ? Hx Hr]; subst.
  destruct id as [|k]; cbn [replace_frame]; constructor; auto.
Qed.
Lemma forall_get_frame (P : frame -> Prop) st id f : Forall P (st_frames st) -> get_frame st id = Some f -> P f.
Proof. intros H E. unfold get_frame in E. apply nth_error_In in E. rewrite Forall_forall in H. apply H, E. Qed.
Lemma amem_false_not_in {V} k (l : list (string * V)) : amem k l = false -> ~ In k (map fst l).
Proof.
  unfold amem. induction l as [|[k' v] l IH]; cbn [alookup map fst In]; [tauto|].
  destruct (String.eqb_spec k k') as [->|Hne]; [discriminate|]. intros H [E|Hin]; [congruence|]. exact (IH H Hin).
Qed.

Definition good {A} (m : M A) : Prop := forall st a st', m st = Ok a st' -> R st st'.

Lemma good_ret {A} (a : A) : good (ret a).
Proof. intros st x st' H. injection H as _ <-. apply R_refl. Qed.
Lemma good_fail {A} e : good (@fail A e).
Proof. intros st x st' H. discriminate. Qed.
Lemma good_unm {A} w : good (@unm A w).
Proof. intros st x st' H. discriminate. Qed.
Lemma good_fuel {A} : good (fun _ : state => @Fuel A).
Proof. intros st x st' H. discriminate. Qed.
Lemma good_bind {A B} (m : M A) (k : A -> M B) : good m -> (forall a, good (k a)) -> good (bind m k).
Proof.
  intros Hm Hk st b st' H. unfold bind in H. destruct (m st) as [a st1| | |] eqn:E; try discriminate.
  eapply R_trans; [eapply Hm; exact E|eapply Hk; exact H].
Qed.
Lemma good_get_st : good get_st.
Proof. intros st x st' H. injection H as _ <-. apply R_refl. Qed.
Lemma good_modify (f : state -> state) : (forall s, R s (f s)) -> good (modify f).
Proof. intros Hf st x st' H. injection H as _ <-. apply Hf. Qed.
Lemma good_assert b : good (assert b).
Proof. unfold assert. destruct b; [apply good_ret|apply good_fail]. Qed.
Lemma good_require b e : good (require b e).
Proof. unfold require. destruct b; [apply good_ret|apply good_fail]. Qed.
Lemma good_of_opt {A} (o : option A) e : good (of_opt o e).
Proof. unfold of_opt. destruct o; [apply good_ret|apply good_fail]. Qed.
Lemma good_mapM {A B} (f : A -> M B) l : (forall x, good (f x)) -> good (mapM f l).
Proof.
  intros Hf. induction l as [|x l IH]; cbn [mapM]; [apply good_ret|].
  apply good_bind; [apply Hf|intros y]. apply good_bind; [exact IH|intros ys; apply good_ret].
Qed.

(** a computation that does not touch the frames *)
Lemma good_keep {A} (m : M A) : (forall st a st', m st = Ok a st' -> st_frames st' = st_frames st) -> good m.
Proof. intros H st a st' E W. unfold fwf. rewrite (H _ _ _ E). exact W. Qed.

Lemma R_upd_arrays s x : R s (upd_arrays s x). Proof. intros H; exact H. Qed.
Lemma R_upd_scope s x : R s (upd_scope s x). Proof. intros H; exact H. Qed.
Lemma R_upd_group s x : R s (upd_group s x). Proof. intros H; exact H. Qed.
Lemma R_upd_aliases s x : R s (upd_aliases s x). Proof. intros H; exact H. Qed.
Lemma R_upd_gensym s x : R s (upd_gensym s x). Proof. intros H; exact H. Qed.
Lemma R_upd_out s x : R s (upd_out s x). Proof. intros H; exact H. Qed.
Lemma R_upd_cur s x : R s (upd_cur s x). Proof. intros H; exact H. Qed.
Lemma R_upd_cont s c : R s (upd_cont s c). Proof. intros H; exact H. Qed.
Lemma R_upd_frames s x : (fwf s -> Forall keys_distinct x) -> R s (upd_frames s x).
Proof. intros H W. exact (H W). Qed.
#[global] Hint Resolve R_refl R_upd_arrays R_upd_scope R_upd_group R_upd_aliases R_upd_gensym R_upd_out R_upd_cur R_upd_cont : goodb.

Lemma good_new_frame p : good (new_frame p).
Proof.
  intros st a st' H. unfold new_frame in H. injection H as _ <-. apply R_upd_frames. intros W.
  apply Forall_app. split; [exact W|]. constructor; [|constructor]. unfold keys_distinct. cbn. constructor.
Qed.
Lemma good_env_define id n v : good (env_define id n v).
Proof.
  intros st a st' H. unfold env_define in H. destruct (get_frame st id) as [f|] eqn:Ef; [|discriminate].
  destruct (amem n (f_binds f)) eqn:Em; [discriminate|]. injection H as _ <-. unfold put_frame. apply R_upd_frames. intros W.
  apply forall_replace_frame; [exact W|]. unfold keys_distinct. cbn [f_binds]. rewrite map_app. cbn [map fst].
  apply nodup_snoc; [exact (forall_get_frame _ _ _ _ W Ef)|apply amem_false_not_in, Em].
Qed.
Lemma good_env_undefine id n : good (env_undefine id n).
Proof.
  intros st a st' H. unfold env_undefine in H. destruct (get_frame st id) as [f|] eqn:Ef; [|discriminate].
  destruct (amem n (f_binds f)); [|discriminate]. injection H as _ <-. unfold put_frame. apply R_upd_frames. intros W.
  apply forall_replace_frame; [exact W|]. unfold keys_distinct. cbn [f_binds].
  apply nodup_adel. exact (forall_get_frame _ _ _ _ W Ef).
Qed.
Lemma good_env_read id n : good (env_read id n).
Proof.
  apply good_keep. intros st x st' H. unfold env_read in H.
  destruct (lookup_frame st id n); [|discriminate]. destruct (get_frame st n0); [|discriminate].
  destruct (alookup n (f_binds f)); [|discriminate]. injection H as _ <-. reflexivity.
Qed.
Lemma good_frame_store fid n v : good (frame_store fid n v).
Proof.
  intros st x st' H. unfold frame_store in H. destruct (get_frame st fid) as [f|] eqn:Ef; [|discriminate].
  injection H as _ <-. unfold put_frame. apply R_upd_frames. intros W.
  apply forall_replace_frame; [exact W|]. unfold keys_distinct. cbn [f_binds].
  apply nodup_aset. exact (forall_get_frame _ _ _ _ W Ef).
Qed.
Lemma good_env_write id n v : good (env_write id n v).
Proof.
  intros st x st' H. unfold env_write in H. destruct (lookup_frame st id n); [|discriminate].
  eapply good_frame_store. exact H.
Qed.
Lemma good_read_global n : good (read_global n). Proof. apply good_env_read. Qed.
Lemma good_write_global n v : good (write_global n v). Proof. apply good_env_write. Qed.
Lemma good_new_array d : good (new_array d).
Proof. intros st x st' H. unfold new_array in H. injection H as _ <-. apply R_upd_arrays. Qed.
Lemma good_get_array r : good (get_array r).
Proof.
  intros st x st' H. unfold get_array in H. destruct (nth_error (st_arrays st) r); [|discriminate].
  injection H as _ <-. apply R_refl.
Qed.
Lemma good_put_array r d : good (put_array r d).
Proof. unfold put_array. apply good_modify. intros s. apply R_upd_arrays. Qed.
Lemma good_emit s : good (emit s).
Proof. unfold emit. apply good_modify. intros x. apply R_upd_out. Qed.

#[global] Hint Resolve good_ret good_fail good_unm good_fuel good_get_st good_assert good_require good_of_opt
  good_new_frame good_env_define good_env_undefine good_env_read good_frame_store good_env_write good_read_global
  good_write_global good_new_array good_get_array good_put_array good_emit : goodb.

Lemma good_replace_trace t : good (replace_trace t).
Proof. unfold replace_trace. apply good_modify. intros s. apply R_upd_cont. Qed.
#[global] Hint Resolve good_replace_trace : goodb.

Ltac good_step :=
  lazymatch goal with
  | |- good (bind _ _) => apply good_bind; [|intros ?]
  | |- good (mapM _ _) => apply good_mapM; intros ?
  | |- good (modify _) => apply good_modify; intros ?; auto with goodb
  | |- good (match ?x with _ => _ end) => destruct x
  | |- good (if ?b then _ else _) => destruct b
  | |- good (let '(_, _) := ?x in _) => destruct x
  | |- good _ => solve [auto with goodb]
  end.
Ltac solve_good := repeat good_step.

Section WithEv.
  Variable loopfuel : nat.
  Variable ev : val -> M val.
  Variable ex : val -> option nat -> M val.
  Hypothesis Hev : forall e, good (ev e).
  Hypothesis Hex : forall e p, good (ex e p).
  Hint Resolve Hev Hex : goodb.

  Lemma good_eval_args args : good (eval_args ev args).
  Proof. unfold eval_args. apply good_mapM. exact Hev. Qed.
  Hint Resolve good_eval_args : goodb.

  Lemma good_last_or l : good (last_or_index_error l).
  Proof. unfold last_or_index_error. solve_good. Qed.
  Lemma good_arg0 l : good (arg0 l).
  Proof. unfold arg0. solve_good. Qed.
  Hint Resolve good_last_or good_arg0 : goodb.

  Lemma good_printable v : good (printable v).
    Proof.
    apply good_keep. intros st x st' H. unfold printable in H.
    match type of H with (match ?m with _ => _ end) = _ => destruct m end; [|discriminate].
    injection H as _ <-. reflexivity.
  Qed.

  Hint Resolve good_printable : goodb.

  Lemma good_contains_m n : good (contains_m n).
  Proof. unfold contains_m. solve_good. Qed.
  Hint Resolve good_contains_m : goodb.

  (** replacing a trace that was just looked up by a trace with the same id *)

  Lemma bind_ok_inv {A B} (m : M A) (k : A -> M B) st b st' :
    bind m k st = Ok b st' -> exists a st1, m st = Ok a st1 /\ k a st1 = Ok b st'.
  Proof. unfold bind. destruct (m st) as [a st1| | |] eqn:E; try discriminate. intros H. eauto. Qed.

  Ltac binv H :=
    let a := fresh "a" in let s := fresh "s" in let E := fresh "E" in
    apply bind_ok_inv in H; destruct H as (a & s & E & H).

  Lemma good_virtual_value tid n : good (virtual_value ev tid n).
  Proof. unfold virtual_value. solve_good. Qed.
  Hint Resolve good_virtual_value : goodb.

  Lemma good_signal_value_m n sc : good (signal_value_m ev n sc).
  Proof. unfold signal_value_m. solve_good. Qed.
  Hint Resolve good_signal_value_m : goodb.

  Lemma good_eval_symbol n s : good (eval_symbol ev n s).
  Proof. unfold eval_symbol. solve_good. Qed.
  Hint Resolve good_eval_symbol : goodb.


  (** parameter binding of a closure call *)
  Lemma good_bind_params fid : forall ps args,
    good ((fix go (ps args : list val) : M unit :=
             match ps, args with
             | p :: pr, a :: ar =>
                 v <- ev a ;;
                 match p with
                 | VSym pn _ => env_define fid pn v ;;; go pr ar
                 | _ => fail EOther
                 end
             | _, _ => ret tt
             end) ps args).
  Proof.
    induction ps as [|p ps IH]; intros args; [destruct args; apply good_ret|].
    destruct args as [|a args]; [apply good_ret|].
    apply good_bind; [apply Hev|intros v]. destruct p; try apply good_fail.
    apply good_bind; [apply good_env_define|intros _; apply IH].
  Qed.

  Lemma good_eval_closure clos args : good (eval_closure ev clos args).
    Proof. unfold eval_closure. solve_good. apply good_bind_params. Qed.

  Hint Resolve good_eval_closure : goodb.

  Lemma good_op_not args : good (op_not ev args). Proof. unfold op_not. solve_good. Qed.
  Lemma good_op_eq neg args : good (op_eq ev neg args). Proof. unfold op_eq. solve_good. Qed.
  Lemma good_op_cmp t args : good (op_cmp ev t args). Proof. unfold op_cmp. solve_good. Qed.
  Lemma good_and_loop args : good (and_loop ev args).
  Proof. induction args as [|a r IH]; cbn [and_loop]; solve_good. Qed.
  Lemma good_or_loop args : good (or_loop ev args).
  Proof. induction args as [|a r IH]; cbn [or_loop]; solve_good. Qed.
  Hint Resolve good_and_loop good_or_loop : goodb.
  Lemma good_op_and args : good (op_and ev args). Proof. unfold op_and. solve_good. Qed.
  Lemma good_op_or args : good (op_or ev args). Proof. unfold op_or. solve_good. Qed.

  Lemma good_let_binds fid : forall ps,
    good ((fix go (ps : list val) : M unit :=
           match ps with
           | [] => ret tt
           | p :: r =>
               match p with
               | VList true items =>
                   match items with
                   | [] => fail EOther
                   | k :: _ =>
                       match k with
                       | VSym kn _ =>
                           assert (Nat.eqb (List.length items) 2) ;;;
                           match items with
                           | [_; e] => v <- ev e ;; env_define fid kn v ;;; go r
                           | _ => fail EEval
                           end
                       | _ => fail EEval
                       end
                   end
               | _ => fail EEval
               end
           end) ps).
  Proof.
    induction ps as [|p ps IH]; [apply good_ret|].
    destruct p; try apply good_fail. destruct w; try apply good_fail.
    destruct l as [|k items]; [apply good_fail|]. destruct k; try apply good_fail.
    apply good_bind; [apply good_assert|intros _].
    destruct items as [|e items]; [apply good_fail|]. destruct items; [|apply good_fail].
    apply good_bind; [apply Hev|intros v]. apply good_bind; [apply good_env_define|intros _; exact IH].
  Qed.

  Lemma good_op_let args : good (op_let ev args).
    Proof. unfold op_let. solve_good. all: apply good_let_binds. Qed.


  Lemma good_op_set args : good (op_set ev args).
  Proof.
    unfold op_set. apply good_bind; [apply good_assert|intros _].
    generalize VNone. induction args as [|a r IH]; intros last; [apply good_ret|].
    destruct a; try apply good_fail. destruct w; try apply good_fail.
    destruct l as [|k l]; [apply good_fail|]. destruct l as [|e l]; [apply good_fail|]. destruct l; [|apply good_fail].
    destruct k; try apply good_fail.
    apply good_bind; [apply Hev|intros v]. apply good_bind; [apply good_get_st|intros st0].
    apply good_bind; [|intros _; apply IH].
    solve_good.
  Qed.

  Lemma good_op_define args : good (op_define ev args). Proof. unfold op_define. solve_good. Qed.
  Lemma good_to_text v : good (to_text v). Proof. unfold to_text. solve_good. Qed.
  Hint Resolve good_to_text : goodb.
  Lemma good_op_print args : good (op_print ev args). Proof. unfold op_print. solve_good. Qed.
  Lemma good_printf_arg_s v : good (printf_arg_s v). Proof. unfold printf_arg_s. solve_good. Qed.
  Hint Resolve good_printf_arg_s : goodb.
  Lemma good_printf_go n : forall fmt vs, good (printf_go n fmt vs).
  Proof. induction n as [|n IH]; intros fmt vs; cbn [printf_go]; solve_good. Qed.
  Hint Resolve good_printf_go : goodb.
  Lemma good_op_printf args : good (op_printf ev args). Proof. unfold op_printf. solve_good. Qed.
  Lemma good_op_if args : good (op_if ev args). Proof. unfold op_if. solve_good. Qed.
  Lemma good_op_do args : good (op_do ev args). Proof. unfold op_do. solve_good. Qed.
  Lemma good_while_loop n c body : forall last, good (while_loop ev n c body last).
  Proof. induction n as [|n IH]; intros last; cbn [while_loop]; solve_good. Qed.
  Hint Resolve good_while_loop : goodb.
  Lemma good_op_while args : good (op_while loopfuel ev args). Proof. unfold op_while. solve_good. Qed.

  Lemma good_op_case args : good (op_case ev args).
  Proof.
    unfold op_case. apply good_bind; [apply good_assert|intros _].
    destruct args as [|kf clauses]; [apply good_fail|].
    apply good_bind; [apply Hev|intros keyform].
    apply good_bind; [solve_good|intros keys].
    apply good_bind; [apply good_require|intros _].
    generalize (@None (list val)). induction clauses as [|c r IH]; intros default.
    - solve_good.
    - destruct c; try apply good_fail. destruct l as [|k body]; [apply good_fail|].
      destruct (py_eq keyform k) as [[|]|]; [solve_good| |apply good_unm].
      destruct k; try apply IH.
      match goal with |- good (match ?x with _ => _ end) => destruct x end; try apply IH.
      repeat match goal with |- good (match ?x with _ => _ end) => destruct x; try apply IH end.
  Qed.

  Lemma good_op_alias args : good (op_alias ev args). Proof. unfold op_alias. solve_good. Qed.
  Lemma good_op_unalias args : good (op_unalias args).
    Proof. unfold op_unalias. solve_good. induction args as [|x r IH]; [apply good_ret|]. destruct x; try apply good_fail. solve_good. Qed.

  Lemma good_op_quote args : good (op_quote args). Proof. unfold op_quote. solve_good. Qed.

  Lemma good_unquote_inner (f : val -> M val) : (forall e, good (f e)) -> forall l acc,
    good ((fix go (l : list val) (acc : list val) : M val :=
             match l with
             | [] => ret (WL acc)
             | x :: r =>
                 match x with
                 | VUnq c => c' <- f c ;; v <- ev c' ;; go r (acc +++ [v])
                 | VUnqS c =>
                     c' <- f c ;; v <- ev c' ;;
                     match v with
                     | VList _ items => go r (acc +++ items)
                     | VStr _ | VArr _ => unm "splice of non-list iterable"
                     | _ => fail EOther
                     end
                 | _ => x' <- f x ;; go r (acc +++ [x'])
                 end
             end) l acc).
  Proof.
    intros Hf. induction l as [|x r IHl]; intros acc; [apply good_ret|].
    destruct x; try (apply good_bind; [apply Hf|intros; apply IHl]).
    - apply good_bind; [apply Hf|intros c']. apply good_bind; [apply Hev|intros v]. apply IHl.
    - apply good_bind; [apply Hf|intros c']. apply good_bind; [apply Hev|intros v].
      destruct v; try apply good_fail; try apply good_unm. apply IHl.
  Qed.

  Lemma good_unquote_go n : forall e, good (unquote_go ev n e).
  Proof.
    induction n as [|n IH]; intros e; cbn [unquote_go]; [apply good_fuel|].
    destruct e; try apply good_ret. destruct w; try apply good_ret.
    assert (Hl : l = [] \/ exists x r, l = x :: r) by (destruct l; eauto).
    destruct Hl as [->|(x0 & l0 & ->)]; [apply good_ret|].
    cbv match.
    exact (good_unquote_inner (unquote_go ev n) IH (x0 :: l0) []).
  Qed.
  Hint Resolve good_unquote_go : goodb.
  Lemma good_op_quasiquote args : good (op_quasiquote loopfuel ev args). Proof. unfold op_quasiquote. solve_good. Qed.

  Lemma good_run_passes e p start : good (run_passes ex e p start). Proof. unfold run_passes. solve_good. Qed.
  Hint Resolve good_run_passes : goodb.
  Lemma good_op_eval args : good (op_eval ev ex args). Proof. unfold op_eval. solve_good. Qed.
  Lemma good_op_fn args : good (op_fn args). Proof. unfold op_fn. solve_good. Qed.
  Lemma good_op_defmacro args : good (op_defmacro ex args). Proof. unfold op_defmacro. solve_good. Qed.
  Lemma good_op_macroexpand args : good (op_macroexpand ev ex args). Proof. unfold op_macroexpand. solve_good. Qed.
  Lemma good_op_gensym args : good (op_gensym args).
  Proof. unfold op_gensym. solve_good. Qed.
  Lemma good_op_get args : good (op_get ev args).
  Proof.
    unfold op_get. apply good_bind; [apply good_assert|intros _]. apply good_bind; [apply good_eval_args|intros vs].
    destruct vs as [|v vs]; [apply good_ret|]. destruct vs; [|destruct v; apply good_ret].
    destruct v; try apply good_ret; try apply Hev.
    intros st a st' H. destruct (ev (VSym s None) st) as [x s1|e0 s1| |] eqn:E; try discriminate.
    - injection H as <- <-. eapply Hev. exact E.
    - destruct e0; discriminate.
  Qed.

  (** relative evaluation: the saved positions pushed here are popped here *)

  Lemma good_step_all_m n : good (step_all_m n).
    Proof. unfold step_all_m. solve_good. Qed.

  Hint Resolve good_step_all_m : goodb.


  Lemma R_store s : R s (upd_cont s (cont_store (st_cont s))).
  Proof. apply R_upd_cont. Qed.
  Hint Resolve R_store : goodb.
  Lemma good_restore_m : good restore_m.
  Proof. unfold restore_m. solve_good. Qed.
  Hint Resolve good_restore_m : goodb.
  Lemma good_op_reval args : good (op_reval ev args).
  Proof. unfold op_reval. solve_good. Qed.


  Lemma good_set_scope_cs s : good (set_scope_cs s). Proof. unfold set_scope_cs. solve_good. Qed.
  Hint Resolve good_set_scope_cs : goodb.
  Lemma good_op_in_scope args : good (op_in_scope ev args). Proof. unfold op_in_scope. solve_good. Qed.
  Lemma good_op_all_scopes args : good (op_all_scopes ev args). Proof. unfold op_all_scopes. solve_good. Qed.
  Lemma good_cs_text : good cs_text. Proof. unfold cs_text. solve_good. Qed.
  Hint Resolve good_cs_text : goodb.
  Lemma good_read_named_signal n : good (read_named_signal ev n). Proof. unfold read_named_signal. solve_good. Qed.
  Hint Resolve good_read_named_signal : goodb.
  Lemma good_op_resolve_scope args : good (op_resolve_scope ev args). Proof. unfold op_resolve_scope. solve_good. Qed.
  Lemma good_op_set_scope args : good (op_set_scope args). Proof. unfold op_set_scope. solve_good. Qed.
  Lemma good_op_unset_scope args : good (op_unset_scope args). Proof. unfold op_unset_scope. solve_good. Qed.
  Lemma good_op_groups args : good (op_groups ev args). Proof. unfold op_groups. solve_good. Qed.
  Lemma good_op_in_group args : good (op_in_group ev args).
  Proof. unfold op_in_group. solve_good. all: try (intros W; exact W). Qed.
  Hint Resolve good_op_in_group : goodb.
  Lemma good_op_in_groups args : good (op_in_groups ev args).
  Proof.
    unfold op_in_groups. apply good_bind; [apply good_assert|intros _].
    destruct args as [|g body]; [apply good_fail|]. apply good_bind; [apply Hev|intros gs].
    destruct gs; try apply good_fail. generalize VNone.
    induction l as [|x r IH]; intros last; [apply good_ret|].
    apply good_bind; [apply good_op_in_group|intros v; apply IH].
  Qed.
  Lemma good_op_resolve_group args : good (op_resolve_group ev args). Proof. unfold op_resolve_group. solve_good. Qed.
  Lemma good_op_slice args : good (op_slice ev args). Proof. unfold op_slice. solve_good. Qed.
  Lemma good_op_loaded_traces args : good (op_loaded_traces args). Proof. unfold op_loaded_traces. solve_good. Qed.
  Lemma good_op_exit args : good (op_exit ev args). Proof. unfold op_exit. solve_good. Qed.

  Lemma good_py_str v : good (py_str v). Proof. unfold py_str. solve_good. Qed.
  Lemma good_py_sum vs : good (py_sum vs). Proof. unfold py_sum. solve_good. Qed.
  Hint Resolve good_py_str good_py_sum : goodb.
  Lemma good_op_add args : good (op_add ev args). Proof. unfold op_add. solve_good. Qed.
  Lemma good_op_sub args : good (op_sub ev args). Proof. unfold op_sub. solve_good. Qed.
  Lemma good_op_mul args : good (op_mul ev args). Proof. unfold op_mul. solve_good. Qed.
  Lemma good_op_div args : good (op_div ev args). Proof. unfold op_div. solve_good. Qed.
  Lemma good_op_exp args : good (op_exp ev args). Proof. unfold op_exp. solve_good. Qed.
  Lemma good_op_mod args : good (op_mod ev args). Proof. unfold op_mod. solve_good. Qed.
  Lemma good_op_bitwise f args : good (op_bitwise ev f args). Proof. unfold op_bitwise. solve_good. Qed.
  Lemma good_op_is_defined args : good (op_is_defined ev args). Proof. unfold op_is_defined. solve_good. Qed.
  Lemma good_op_all_pred p args : good (op_all_pred ev p args). Proof. unfold op_all_pred. solve_good. Qed.
  Lemma good_op_convert_bin args : good (op_convert_bin ev args). Proof. unfold op_convert_bin. solve_good. Qed.
  Lemma good_of_int_parse p : good (of_int_parse p). Proof. unfold of_int_parse. solve_good. Qed.
  Hint Resolve good_of_int_parse : goodb.
  Lemma good_op_string_to_int args : good (op_string_to_int ev args). Proof. unfold op_string_to_int. solve_good. Qed.
  Lemma good_op_bits_to_sint args : good (op_bits_to_sint ev args). Proof. unfold op_bits_to_sint. solve_good. Qed.
  Lemma good_op_symbol_to_string args : good (op_symbol_to_string ev args). Proof. unfold op_symbol_to_string. solve_good. Qed.
  Lemma good_op_string_to_symbol args : good (op_string_to_symbol ev args). Proof. unfold op_string_to_symbol. solve_good. Qed.
  Lemma good_op_int_to_string args : good (op_int_to_string ev args). Proof. unfold op_int_to_string. solve_good. Qed.

  Lemma good_op_list args : good (op_list ev args). Proof. unfold op_list. solve_good. Qed.
  Lemma good_eval_list1 args : good (eval_list1 ev args). Proof. unfold eval_list1. solve_good. Qed.
  Hint Resolve good_eval_list1 : goodb.
  Lemma good_op_first args : good (op_first ev args). Proof. unfold op_first. solve_good. Qed.
  Lemma good_op_second args : good (op_second ev args). Proof. unfold op_second. solve_good. Qed.
  Lemma good_op_last args : good (op_last ev args). Proof. unfold op_last. solve_good. Qed.
  Lemma good_op_rest args : good (op_rest ev args). Proof. unfold op_rest. solve_good. Qed.
  Lemma good_key_text v : good (key_text v). Proof. unfold key_text. solve_good. Qed.
  Hint Resolve good_key_text : goodb.
  Lemma good_op_in args : good (op_in ev args).
  Proof.
    unfold op_in. apply good_bind; [apply good_assert|intros _]. apply good_bind; [apply good_eval_args|intros vs].
    destruct (last_opt vs) as [v|]; [|apply good_fail]. destruct v; try apply good_fail.
    - induction (removelast vs) as [|c r IH]; [apply good_ret|]. destruct (py_in c l) as [[|]|]; [exact IH|apply good_ret|apply good_unm].
    - solve_good.
  Qed.
  Lemma good_op_map args : good (op_map ev args). Proof. unfold op_map. solve_good. Qed.
  Lemma good_op_maxmin b args : good (op_maxmin ev b args). Proof. unfold op_maxmin. solve_good. Qed.
  Lemma good_op_average args : good (op_average ev args). Proof. unfold op_average. solve_good. Qed.
  Lemma good_op_zip args : good (op_zip ev args). Proof. unfold op_zip. solve_good. Qed.
  Lemma good_op_length args : good (op_length ev args). Proof. unfold op_length. solve_good. Qed.
  Lemma good_op_fold args : good (op_fold ev args).
  Proof.
    unfold op_fold. apply good_bind; [apply good_assert|intros _].
    destruct args as [|f args]; [apply good_fail|]. destruct args as [|a args]; [apply good_fail|].
    destruct args as [|l args]; [apply good_fail|]. destruct args; [|apply good_fail].
    apply good_bind; [apply Hev|intros acc0]. apply good_bind; [apply Hev|intros lv].
    destruct lv; try apply good_fail.
    destruct f; try (apply good_bind; [apply Hev|intros fv]; destruct fv; try apply good_fail;
                     revert acc0; induction l0 as [|el r IH]; intros acc0; [apply good_ret|];
                     apply good_bind; [apply good_eval_closure|intros acc'; apply IH]).
    revert acc0. induction l0 as [|el r IH]; intros acc0; [apply good_ret|].
    apply good_bind; [apply Hev|intros acc'; apply IH].
  Qed.
  Lemma good_op_range args : good (op_range ev args). Proof. unfold op_range. solve_good. Qed.

  Lemma good_array_key v : good (array_key v). Proof. unfold array_key. solve_good. Qed.
  Hint Resolve good_array_key : goodb.
  Lemma good_op_array args : good (op_array ev args).
  Proof.
    unfold op_array. generalize (@nil (string * val)).
    induction args as [|a r IH]; intros d; [apply good_new_array|].
    destruct a; try apply good_fail; try apply good_unm.
    apply good_bind; [apply good_assert|intros _].
    destruct l as [|k l]; [apply good_fail|]. destruct l as [|e l]; [apply good_fail|]. destruct l; [|apply good_fail].
    apply good_bind; [apply Hev|intros kv]. apply good_bind; [apply good_array_key|intros key].
    apply good_bind; [apply Hev|intros v]. apply IH.
  Qed.
  Lemma good_eval_array a : good (eval_array ev a). Proof. unfold eval_array. solve_good. Qed.
  Hint Resolve good_eval_array : goodb.
  Lemma good_op_seta args : good (op_seta ev args). Proof. unfold op_seta. solve_good. Qed.
  Lemma good_op_geta args : good (op_geta ev args). Proof. unfold op_geta. solve_good. Qed.
  Lemma good_op_dela args : good (op_dela ev args). Proof. unfold op_dela. solve_good. Qed.
  Lemma good_op_mapa args : good (op_mapa ev args). Proof. unfold op_mapa. solve_good. Qed.

  Lemma good_load_m file tid : good (load_m file tid).
    Proof. unfold load_m. solve_good. Qed.

  Hint Resolve good_load_m : goodb.
  Lemma good_op_load args : good (op_load ev args). Proof. unfold op_load. solve_good. Qed.
  Lemma good_op_unload args : good (op_unload ev args).
    Proof. unfold op_unload. solve_good. Qed.

  Lemma good_step_tid tid n : good (step_tid tid n).
    Proof. unfold step_tid. solve_good. Qed.

  Hint Resolve good_step_tid : goodb.
  Lemma good_op_step args : good (op_step ev args). Proof. unfold op_step. solve_good. Qed.
  Lemma good_op_is_signal args : good (op_is_signal ev args). Proof. unfold op_is_signal. solve_good. Qed.

  Lemma good_set_trace_index tid i : good (set_trace_index tid i).
  Proof. unfold set_trace_index. solve_good. Qed.
  Lemma good_trace_of tid : good (trace_of tid). Proof. unfold trace_of. solve_good. Qed.
  Hint Resolve good_set_trace_index good_trace_of : goodb.
  Lemma good_find_walk n tid c : forall acc, good (find_walk ev n tid c acc).
  Proof. induction n as [|n IH]; intros acc; cbn [find_walk]; solve_good. Qed.
  Hint Resolve good_find_walk : goodb.
  Lemma good_op_find args : good (op_find loopfuel ev args). Proof. unfold op_find. solve_good. Qed.
  Lemma good_restore_saved saved : good (restore_saved saved).
  Proof.
    unfold restore_saved. apply good_bind; [apply good_get_st|intros st0].
    induction (c_traces (st_cont st0)) as [|[tid t] r IH]; [apply good_ret|].
    destruct (alookup tid saved); [|apply good_fail].
    apply good_bind; [apply good_set_trace_index|intros _; exact IH].
  Qed.
  Hint Resolve good_restore_saved : goodb.
  Lemma good_findg_loop n c : forall acc, good (findg_loop ev n c acc).
  Proof. induction n as [|n IH]; intros acc; cbn [findg_loop]; solve_good. Qed.
  Hint Resolve good_findg_loop : goodb.
  Lemma good_op_find_g args : good (op_find_g loopfuel ev args). Proof. unfold op_find_g. solve_good. Qed.
  Lemma good_whenever_loop n c body : forall last, good (whenever_loop ev n c body last).
  Proof. induction n as [|n IH]; intros last; cbn [whenever_loop]; solve_good. Qed.
  Hint Resolve good_whenever_loop : goodb.
  Lemma good_op_whenever args : good (op_whenever loopfuel ev args). Proof. unfold op_whenever. solve_good. Qed.
  Lemma good_op_signal_width args : good (op_signal_width ev args). Proof. unfold op_signal_width. solve_good. Qed.
  Lemma good_sample_trace tid idx : good (sample_trace tid idx).
  Proof. unfold sample_trace. solve_good. Qed.
  Hint Resolve good_sample_trace : goodb.
  Lemma good_op_sample_at args : good (op_sample_at ev args). Proof. unfold op_sample_at. solve_good. Qed.
  Lemma good_trim tid m : good (t <- trace_of tid ;; replace_trace (trace_trim t m) ;;; ret (VInt (tr_max (trace_trim t m)))).
  Proof. solve_good. Qed.
  Lemma good_op_trim_trace args : good (op_trim_trace ev args).
  Proof.
    unfold op_trim_trace. apply good_bind; [apply good_assert|intros _].
    destruct args as [|a [|b [|? ?]]]; try apply good_fail.
    apply good_bind; [apply Hev|intros tv]. apply good_bind; [apply Hev|intros mv].
    destruct (name_of tv); [|apply good_fail]. destruct (int_of mv); [|apply good_fail]. apply good_trim.
  Qed.
  Lemma good_op_defsig args : good (op_defsig args).
  Proof. unfold op_defsig. solve_good. Qed.

  Lemma good_dispatch o args : good (dispatch loopfuel ev ex o args).
  Proof.
    destruct o; cbn [dispatch];
      first [ apply good_unm | apply good_fail
            | apply good_op_not | apply good_op_eq | apply good_op_cmp | apply good_op_and | apply good_op_or
            | apply good_op_let | apply good_op_define | apply good_op_set | apply good_op_print | apply good_op_printf
            | apply good_op_if | apply good_op_case | apply good_op_do | apply good_op_while | apply good_op_alias
            | apply good_op_unalias | apply good_op_quote | apply good_op_quasiquote | apply good_op_eval
            | apply good_op_defmacro | apply good_op_macroexpand | apply good_op_gensym | apply good_op_fn | apply good_op_get
            | apply good_op_reval | apply good_op_in_scope | apply good_op_resolve_scope | apply good_op_all_scopes
            | apply good_op_set_scope | apply good_op_unset_scope | apply good_op_groups | apply good_op_in_group
            | apply good_op_in_groups | apply good_op_resolve_group | apply good_op_slice | apply good_op_loaded_traces
            | apply good_op_exit | apply good_op_add | apply good_op_sub | apply good_op_mul | apply good_op_div
            | apply good_op_exp | apply good_op_mod | apply good_op_bitwise | apply good_op_is_defined | apply good_op_all_pred
            | apply good_op_convert_bin | apply good_op_string_to_int | apply good_op_bits_to_sint
            | apply good_op_string_to_symbol | apply good_op_symbol_to_string | apply good_op_int_to_string
            | apply good_op_list | apply good_op_first | apply good_op_second | apply good_op_last | apply good_op_rest
            | apply good_op_in | apply good_op_map | apply good_op_maxmin | apply good_op_average | apply good_op_zip
            | apply good_op_length | apply good_op_fold | apply good_op_range | apply good_op_array | apply good_op_seta
            | apply good_op_geta | apply good_op_dela | apply good_op_mapa | apply good_op_load | apply good_op_unload
            | apply good_op_step | apply good_op_is_signal | apply good_op_find | apply good_op_find_g | apply good_op_whenever
            | apply good_op_signal_width | apply good_op_sample_at | apply good_op_trim_trace | apply good_op_defsig ].
  Qed.
  Hint Resolve good_dispatch : goodb.

  Lemma good_eval_body e : good (eval_body loopfuel ev ex e).
  Proof. unfold eval_body. solve_good. Qed.

  Lemma good_macro_params menv : forall ps vals,
    good ((fix go (ps vals : list val) : M unit :=
             match ps, vals with
             | VSym pn _ :: pr, v :: vr => env_define menv pn v ;;; go pr vr
             | _ :: _, _ :: _ => fail EOther
             | _, _ => ret tt
             end) ps vals).
  Proof.
    induction ps as [|p ps IH]; intros vals; [destruct vals; apply good_ret|].
    destruct vals as [|v vals]; [destruct p; apply good_ret|].
    destruct p; try apply good_fail. apply good_bind; [apply good_env_define|intros _; apply IH].
  Qed.

  Lemma env_read_state id n st v st' : env_read id n st = Ok v st' -> st' = st.
  Proof.
    unfold env_read. destruct (lookup_frame st id n); [|discriminate]. destruct (get_frame st n0); [|discriminate].
    destruct (alookup n (f_binds f)); [|discriminate]. intros H. injection H as _ <-. reflexivity.
  Qed.

  Lemma good_expand_body e parent : good (expand_body ev ex e parent).
    Proof. unfold expand_body. solve_good. all: apply good_macro_params. Qed.

End WithEv.

(** * the frame invariant for the whole evaluator *)
Theorem eval_expand_fwf (lf : nat) : forall fuel,
  (forall e, good (eval lf fuel e)) /\ (forall e p, good (expand lf fuel e p)).
Proof.
  induction fuel as [|f [IHe IHx]].
  - split; intros; intros st a st' H; discriminate.
  - split.
    + intros e. cbn [eval]. apply good_eval_body; assumption.
    + intros e p. cbn [expand]. apply good_expand_body; assumption.
Qed.

Corollary eval_keeps_keys_distinct lf fuel e st v st' :
  eval lf fuel e st = Ok v st' -> fwf st -> fwf st'.
Proof. intros H. exact (proj1 (eval_expand_fwf lf fuel) e st v st' H). Qed.

(** * lifted to the API *)
From WalModel Require Import Api.
From WalModel.proofs Require ContInv.

Lemma good_ev0 e : good (ev0 e).
Proof. unfold ev0. apply (proj1 (eval_expand_fwf LF FUEL)). Qed.
Lemma good_ex0 e p : good (ex0 e p).
Proof. unfold ex0. apply (proj2 (eval_expand_fwf LF FUEL)). Qed.
#[global] Hint Resolve good_ev0 good_ex0 : goodb.
Lemma good_run_form fl e : good (run_form fl e).
Proof. unfold run_form. destruct fl as [[a b] c]. solve_good. Qed.
#[global] Hint Resolve good_run_form : goodb.
Lemma good_wal_eval_with fl e kw : good (wal_eval_with fl e kw).
Proof. unfold wal_eval_with. solve_good. Qed.
Lemma good_eval_forms forms : good (eval_forms forms).
Proof. unfold eval_forms. solve_good. Qed.
Lemma good_load_std : good load_std.
Proof. unfold load_std. apply good_bind; [apply good_eval_forms|intros; apply good_eval_forms]. Qed.
Lemma good_wal_load file tid : good (wal_load file tid).
Proof. unfold wal_load. apply good_load_m. Qed.
Lemma good_wal_step n tid : good (wal_step n tid).
Proof. unfold wal_step. solve_good. Qed.

Lemma fwf_globals : NoDup (map fst fresh_globals).
Proof. vm_compute. repeat constructor; cbn; intuition discriminate. Qed.
Lemma fwf_reset st : fwf (reset_state st).
Proof. unfold fwf, reset_state. cbn [st_frames]. constructor; [exact fwf_globals|constructor]. Qed.
Lemma good_wal_run e kw : good (wal_run e kw).
Proof.
  unfold wal_run. destruct (ast_truthy e); [|apply good_ret].
  apply good_bind; [|intros _]. { apply good_modify. intros s W. apply fwf_reset. }
  apply good_bind; [apply good_load_std|intros _]. apply good_bind; [|intros _; apply good_run_form].
  apply good_mapM. intros p. apply good_env_define.
Qed.

Lemma fwf_empty : fwf empty_state.
Proof. unfold fwf, empty_state. cbn [st_frames]. constructor; [exact fwf_globals|constructor]. Qed.

Theorem keys_always_distinct : forall ops st, fwf st -> fwf (fold_left ContInv.apply_api ops st).
Proof.
  induction ops as [|o ops IH]; intros st W; cbn [fold_left]; [exact W|]. apply IH.
  destruct o; cbn [ContInv.apply_api]; unfold ContInv.after.
  - destruct (wal_load file tid st) eqn:E; try exact W. apply (good_wal_load _ _ _ _ _ E W).
  - destruct (wal_step n tid st) eqn:E; try exact W. apply (good_wal_step _ _ _ _ _ E W).
  - destruct (wal_eval_with fl e kw st) eqn:E; try exact W. apply (good_wal_eval_with _ _ _ _ _ _ E W).
  - destruct (wal_run e kw st) eqn:E; try exact W. apply (good_wal_run _ _ _ _ _ E W).
Qed.

Corollary reachable_states_have_distinct_keys ops : fwf (fold_left ContInv.apply_api ops empty_state).
Proof. apply keys_always_distinct, fwf_empty. Qed.
