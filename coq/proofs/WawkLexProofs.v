(** WawkLexProofs.v — the lexer of the WAWK expression fragment reads back the tokens of a printed token sequence,
    hence (with WawkParseProofs.v) the text of every well-formed expression tree, printed with one space after each
    token, is read as that tree (C20). *)
From WalModel Require Import WawkParse.
From WalModel.proofs Require Import ArithProofs CsvProofs ReaderProofs WawkParseProofs.
Local Open Scope Z_scope.

(** * the text of a token *)
Definition bop_text (o : bop) : string :=
  match o with
  | BOr => "||" | BAnd => "&&" | BEq => "==" | BNe => "!=" | BGt => ">" | BLt => "<" | BGe => ">=" | BLe => "<="
  | BAdd => "+" | BSub => "-" | BMul => "*" | BDiv => "/"
  end.
Definition tok_text (t : tok) : string :=
  match t with
  | TNum z => dec_of_Z z
  | TSym s => s
  | TStr s => String (ch 34) (s ++ String (ch 34) EmptyString)
  | TOp o => bop_text o
  | TBang => "!"
  | TLP => "("
  | TRP => ")"
  | TComma => ","
  end.
Fixpoint render (ts : list tok) : string :=
  match ts with
  | [] => EmptyString
  | t :: r => tok_text t ++ String (ch 32) (render r)
  end.

(** * well-formed token sequences: operands and operators where the lexer expects them *)
Definition wf_sym (s : string) : bool :=
  match s with String c _ => is_sym_start c && sall is_sym_char s | EmptyString => false end.
Definition next_ok (r : list tok) : bool :=
  match r with [] => true | (TOp _ | TRP | TComma | TLP) :: _ => true | _ => false end.
Fixpoint seq_ok (operand : bool) (ts : list tok) : bool :=
  match ts with
  | [] => true
  | TNum _ :: r => negb operand && seq_ok true r
  | TSym s :: r => negb operand && wf_sym s && next_ok r && seq_ok true r
  | TStr s :: r => negb operand && sall plain_string_char s && seq_ok true r
  | TOp _ :: r => operand && seq_ok false r
  | TBang :: r => negb operand && seq_ok false r
  | TLP :: r => seq_ok false r
  | TRP :: r => seq_ok true r
  | TComma :: r => seq_ok false r
  end.

(** * character classes, by a sweep over the 256 characters *)
Definition all_chars : list ascii := map ascii_of_nat (seq 0 256).
Lemma in_all_chars c : In c all_chars.
Proof.
  unfold all_chars. rewrite <- (ascii_nat_embedding c). apply in_map. apply in_seq.
  pose proof (nat_ascii_bounded c). lia.
Qed.
Lemma char_sweep (p : ascii -> bool) : forallb p all_chars = true -> forall c, p c = true.
Proof. intros H c. rewrite forallb_forall in H. apply H, in_all_chars. Qed.

Lemma sym_start_facts_b : forall c,
  implb (is_sym_start c)
        (negb (is_ws c) && negb (ascii_Z c =? 47) && negb (is_digit c) && negb ((ascii_Z c =? 45) || (ascii_Z c =? 43))) = true.
Proof. apply char_sweep. vm_compute. reflexivity. Qed.
Lemma sym_start_facts c : is_sym_start c = true ->
  is_ws c = false /\ (ascii_Z c =? 47) = false /\ is_digit c = false /\ ((ascii_Z c =? 45) || (ascii_Z c =? 43)) = false.
Proof.
  intros H. pose proof (sym_start_facts_b c) as B. rewrite H in B. cbn [implb] in B.
  destruct (is_ws c), (ascii_Z c =? 47), (is_digit c), ((ascii_Z c =? 45) || (ascii_Z c =? 43)); try discriminate B. repeat split.
Qed.
Lemma digit_facts_b : forall c, implb (is_digit c) (negb (is_ws c) && negb (ascii_Z c =? 47)) = true.
Proof. apply char_sweep. vm_compute. reflexivity. Qed.
Lemma digit_facts c : is_digit c = true -> is_ws c = false /\ (ascii_Z c =? 47) = false.
Proof.
  intros H. pose proof (digit_facts_b c) as B. rewrite H in B. cbn [implb] in B.
  destruct (is_ws c), (ascii_Z c =? 47); try discriminate B. split; reflexivity.
Qed.

Lemma lex_unfold f operand c r :
  lex (S f) operand (String c r) =
          let n := ascii_Z c in
          if is_ws c then lex f operand r
          else if (n =? 47) && head_is (fun x => ascii_Z x =? 47) r then lex f operand (skip_line r)
          else if is_digit c then
            let '(ds, rest) := span_p is_digit (String c r) in
            match digits_val 10 ds with Some z => lcons (TNum z) (lex f true rest) | None => LUnm end
          else if ((n =? 45) || (n =? 43)) && negb operand && head_is is_digit r then
            let '(ds, rest) := span_p is_digit r in
            match digits_val 10 ds with
            | Some z => lcons (TNum (if n =? 45 then - z else z)) (lex f true rest)
            | None => LUnm
            end
          else if is_sym_start c then
            let '(name, rest) := span_p is_sym_char (String c r) in
            if head_is is_sym_char (skip_ignored (S (String.length rest)) rest) then LUnm
            else lcons (TSym name) (lex f true rest)
          else if n =? 34 then
            let '(body, rest) := span_p plain_string_char r in
            match rest with
            | String q rest' => if ascii_Z q =? 34 then lcons (TStr body) (lex f true rest') else LUnm
            | EmptyString => LErr
            end
          else if n =? 40 then lcons TLP (lex f false r)
          else if n =? 41 then lcons TRP (lex f true r)
          else if n =? 44 then lcons TComma (lex f false r)
          else
            let two (d : Z) (o : bop) (otherwise : lexres) :=
              match r with
              | String c2 r2 => if ascii_Z c2 =? d then lcons (TOp o) (lex f false r2) else otherwise
              | EmptyString => otherwise
              end in
            if n =? 33 then
              if operand then two 61 BNe LErr
              else if head_is (fun x => ascii_Z x =? 61) r then LUnm else lcons TBang (lex f false r)
            else if n =? 61 then two 61 BEq LUnm
            else if n =? 62 then two 61 BGe (lcons (TOp BGt) (lex f false r))
            else if n =? 60 then two 61 BLe (lcons (TOp BLt) (lex f false r))
            else if n =? 38 then two 38 BAnd LErr
            else if n =? 124 then two 124 BOr LErr
            else if n =? 43 then lcons (TOp BAdd) (lex f false r)
            else if n =? 45 then lcons (TOp BSub) (lex f false r)
            else if n =? 42 then lcons (TOp BMul) (lex f false r)
            else if n =? 47 then lcons (TOp BDiv) (lex f false r)
            else LUnm.
Proof. reflexivity. Qed.

(** a space is skipped *)
Lemma lex_space f operand r : lex (S f) operand (String (ch 32) r) = lex f operand r.
Proof. reflexivity. Qed.

(** * one token *)
Definition sp_ (r : string) : string := String (ch 32) r.

Lemma lex_fixed_tokens f operand r :
  lex (S f) operand ("(" ++ sp_ r) = lcons TLP (lex f false (sp_ r)) /\
  lex (S f) operand (")" ++ sp_ r) = lcons TRP (lex f true (sp_ r)) /\
  lex (S f) operand ("," ++ sp_ r) = lcons TComma (lex f false (sp_ r)) /\
  lex (S f) false ("!" ++ sp_ r) = lcons TBang (lex f false (sp_ r)).
Proof. repeat split; reflexivity. Qed.

Lemma lex_op f o r : lex (S (S f)) true (bop_text o ++ sp_ r) = lcons (TOp o) (lex f false r).
Proof. destruct o; reflexivity. Qed.

Lemma sappend_assoc' (a b c : string) : ((a ++ b) ++ c = a ++ b ++ c)%string.
Proof. induction a as [|x a IH]; [reflexivity|]. cbn [append]. rewrite IH. reflexivity. Qed.

(** the first character of the text of the next token *)
Definition starts_clean (x : string) : Prop :=
  match x with
  | EmptyString => True
  | String c r => is_ws c = false /\ is_sym_char c = false /\
                  ((ascii_Z c =? 47) && head_is (fun y => ascii_Z y =? 47) r) = false
  end.

Lemma skip_ignored_clean n x : starts_clean x -> skip_ignored (S n) x = x.
Proof.
  destruct x as [|c r]; [reflexivity|]. intros (Hw & _ & Hc). cbn [skip_ignored]. rewrite Hw, Hc. reflexivity.
Qed.

Lemma render_next_clean r : next_ok r = true -> starts_clean (render r).
Proof.
  destruct r as [|t r]; [intros _; exact I|]. destruct t; try discriminate; intros _; cbn [render tok_text].
  - destruct o; cbn; repeat split; reflexivity.
  - cbn. repeat split; reflexivity.
  - cbn. repeat split; reflexivity.
  - cbn. repeat split; reflexivity.
Qed.

Lemma skip_space n r : skip_ignored (S n) (String (ch 32) r) = skip_ignored n r.
Proof. reflexivity. Qed.

Lemma lex_sym f operand s r :
  wf_sym s = true -> starts_clean r ->
  lex (S (S f)) operand (s ++ sp_ r) = lcons (TSym s) (lex f true r).
Proof.
  intros Hw Hr. destruct s as [|c s]; [discriminate|]. cbn [wf_sym] in Hw. apply andb_prop in Hw as [Hc Hall].
  destruct (sym_start_facts c Hc) as (H1 & H2 & H3 & H4).
  cbn [append]. rewrite lex_unfold. cbv zeta. rewrite H1, H2, H3, H4, Hc. cbn [andb].
  change (String c (s ++ sp_ r)) with (String c s ++ sp_ r)%string.
  rewrite (span_p_app is_sym_char (String c s) (sp_ r) Hall eq_refl).
  unfold sp_ at 1 2. cbn [String.length]. rewrite skip_space.
  assert (Hsk : skip_ignored (S (String.length r)) r = r) by (apply skip_ignored_clean, Hr).
  assert (Hh : head_is is_sym_char r = false) by (destruct r as [|d r]; [reflexivity|]; destruct Hr as (_ & Hd & _); exact Hd).
  rewrite Hsk, Hh. unfold sp_. rewrite lex_space. reflexivity.
Qed.

Lemma lex_str f operand s r :
  sall plain_string_char s = true ->
  lex (S (S f)) operand (tok_text (TStr s) ++ sp_ r) = lcons (TStr s) (lex f true r).
Proof.
  intros Hs. cbn [tok_text append]. rewrite lex_unfold. cbv zeta.
  change (is_ws (ch 34)) with false. change (ascii_Z (ch 34)) with 34. cbn [Z.eqb Pos.eqb andb orb is_digit]. 
  change (is_digit (ch 34)) with false. change (is_sym_start (ch 34)) with false. cbv iota.
  rewrite sappend_assoc'. cbn [append]. rewrite (span_p_app plain_string_char s (String (ch 34) (sp_ r)) Hs eq_refl).
  cbn [append]. change (ascii_Z (ch 34) =? 34) with true. cbv iota. unfold sp_. rewrite lex_space. reflexivity.
Qed.

Lemma lex_num f z r : lex (S (S f)) false (dec_of_Z z ++ sp_ r) = lcons (TNum z) (lex f true r).
Proof.
  unfold dec_of_Z. destruct (Z.ltb_spec z 0) as [Hneg|Hpos].
  - (* -digits *)
    assert (Hz : 0 <= - z) by lia.
    pose proof (numeral10_digits (- z) Hz) as Hd. pose proof (numeral10_nonempty (- z) Hz) as Hne.
    pose proof (numeral_value 10 (- z) ltac:(lia) Hz) as Hv.
    cbn [append]. rewrite lex_unfold. cbv zeta.
    change (is_ws "-"%char) with false. change (ascii_Z "-"%char) with 45. change (is_digit "-"%char) with false.
    cbn [Z.eqb Pos.eqb andb orb negb]. cbv iota.
    destruct (numeral 10 (- z)) as [|c ds] eqn:E; [contradiction|].
    unfold all_digits in Hd. pose proof Hd as Hd'. cbn [sall] in Hd'. apply andb_prop in Hd' as [Hc _].
    cbn [append head_is]. rewrite Hc. cbv iota.
    change (String c (ds ++ sp_ r)) with (String c ds ++ sp_ r)%string.
    rewrite (span_p_app is_digit (String c ds) (sp_ r) Hd eq_refl). rewrite Hv.
    rewrite Z.opp_involutive. unfold sp_. rewrite lex_space. reflexivity.
  - pose proof (numeral10_digits z Hpos) as Hd. pose proof (numeral10_nonempty z Hpos) as Hne.
    pose proof (numeral_value 10 z ltac:(lia) Hpos) as Hv.
    destruct (numeral 10 z) as [|c ds] eqn:E; [contradiction|].
    unfold all_digits in Hd. pose proof Hd as Hd'. cbn [sall] in Hd'. apply andb_prop in Hd' as [Hc _].
    destruct (digit_facts c Hc) as [H1 H2].
    cbn [append]. rewrite lex_unfold. cbv zeta. rewrite H1, H2, Hc. cbn [andb]. cbv iota.
    change (String c (ds ++ sp_ r)) with (String c ds ++ sp_ r)%string.
    rewrite (span_p_app is_digit (String c ds) (sp_ r) Hd eq_refl). rewrite Hv.
    unfold sp_. rewrite lex_space. reflexivity.
Qed.

(** * a well-formed token sequence is read back from its text *)
Theorem lex_render : forall ts b f, seq_ok b ts = true -> (2 * List.length ts < f)%nat -> lex f b (render ts) = LOk ts.
Proof.
  induction ts as [|t r IH]; intros b f Hok Hf.
  - destruct f; [lia|]. reflexivity.
  - cbn [List.length] in Hf. destruct f as [|[|f]]; try lia.
    assert (Hf' : (2 * List.length r < f)%nat) by lia.
    cbn [render]. fold (sp_ (render r)). destruct t; cbn [seq_ok] in Hok.
    + apply andb_prop in Hok as [Hb Hr]. destruct b; [discriminate|]. cbn [tok_text]. rewrite lex_num, (IH true f Hr Hf'). reflexivity.
    + apply andb_prop in Hok as [Hok Hr]. apply andb_prop in Hok as [Hok Hn]. apply andb_prop in Hok as [Hb Hw].
      cbn [tok_text]. rewrite (lex_sym f b s (render r) Hw (render_next_clean r Hn)), (IH true f Hr Hf'). reflexivity.
    + apply andb_prop in Hok as [Hok Hr]. apply andb_prop in Hok as [Hb Hw].
      rewrite (lex_str f b s (render r) Hw), (IH true f Hr Hf'). reflexivity.
    + apply andb_prop in Hok as [Hb Hr]. destruct b; [|discriminate]. cbn [tok_text]. rewrite lex_op, (IH false f Hr Hf'). reflexivity.
    + apply andb_prop in Hok as [Hb Hr]. destruct b; [discriminate|]. cbn [tok_text].
      destruct (lex_fixed_tokens (S f) false (render r)) as (_ & _ & _ & E). rewrite E. unfold sp_. rewrite lex_space, (IH false f Hr Hf'). reflexivity.
    + cbn [tok_text]. destruct (lex_fixed_tokens (S f) b (render r)) as (E & _). rewrite E. unfold sp_. rewrite lex_space, (IH false f Hok Hf'). reflexivity.
    + cbn [tok_text]. destruct (lex_fixed_tokens (S f) b (render r)) as (_ & E & _). rewrite E. unfold sp_. rewrite lex_space, (IH true f Hok Hf'). reflexivity.
    + cbn [tok_text]. destruct (lex_fixed_tokens (S f) b (render r)) as (_ & _ & E & _). rewrite E. unfold sp_. rewrite lex_space, (IH false f Hok Hf'). reflexivity.
Qed.

Lemma slen_app (a b : string) : String.length (a ++ b) = (String.length a + String.length b)%nat.
Proof. induction a as [|c a IH]; [reflexivity|]. cbn [append String.length]. rewrite IH. reflexivity. Qed.

Lemma dec_nonempty z : (1 <= String.length (dec_of_Z z))%nat.
Proof.
  unfold dec_of_Z. destruct (Z.ltb_spec z 0) as [Hn|Hp]; [cbn [String.length]; lia|].
  pose proof (numeral10_nonempty z Hp). destruct (numeral 10 z); [contradiction|cbn [String.length]; lia].
Qed.

Lemma render_length : forall ts b, seq_ok b ts = true -> (2 * List.length ts <= String.length (render ts))%nat.
Proof.
  induction ts as [|t r IH]; intros b Hok; [apply Nat.le_refl|]. cbn [render List.length]. rewrite slen_app. cbn [String.length].
  assert (Ht : (1 <= String.length (tok_text t))%nat /\ exists b', seq_ok b' r = true).
  { destruct t; cbn [seq_ok] in Hok; cbn [tok_text].
    - apply andb_prop in Hok as [_ Hr]. split; [apply dec_nonempty|eauto].
    - apply andb_prop in Hok as [Hok Hr]. apply andb_prop in Hok as [Hok _]. apply andb_prop in Hok as [_ Hw].
      split; [destruct s; [discriminate|cbn [String.length]; lia]|eauto].
    - apply andb_prop in Hok as [_ Hr]. split; [cbn [String.length]; lia|eauto].
    - apply andb_prop in Hok as [_ Hr]. split; [destruct o; cbn; lia|eauto].
    - apply andb_prop in Hok as [_ Hr]. split; [cbn; lia|eauto].
    - split; [cbn; lia|eauto].
    - split; [cbn; lia|eauto].
    - split; [cbn; lia|eauto]. }
  destruct Ht as [Ht [b' Hr]]. specialize (IH b' Hr). lia.
Qed.

(** * the tokens of a well-formed tree form a well-formed sequence *)
Fixpoint wf_tree (e : wx) : bool :=
  match e with
  | WNum _ => true
  | WSym s => wf_sym s
  | WStr s => sall plain_string_char s
  | WNot a => wf_tree a
  | WBin _ a b => wf_tree a && wf_tree b
  | WCall f args => wf_sym f && forallb wf_tree args
  end.

Definition Sstmt (e : wx) : Prop :=
  wf_tree e = true -> forall p r, seq_ok true r = true -> next_ok r = true -> seq_ok false (fl p e +++ r) = true.

Lemma args_seq rest r :
  (forall y, In y rest -> Sstmt y) -> forallb wf_tree rest = true -> seq_ok true r = true ->
  seq_ok true (flat_map (fun y => TComma :: fl 1%nat y) rest +++ TRP :: r) = true /\
  next_ok (flat_map (fun y => TComma :: fl 1%nat y) rest +++ TRP :: r) = true.
Proof.
  induction rest as [|y rest IH]; intros HS Hw Hr; [split; [exact Hr|reflexivity]|].
  cbn [forallb] in Hw. apply andb_prop in Hw as [Hy Hw].
  destruct (IH (fun z Hz => HS z (or_intror Hz)) Hw Hr) as [I1 I2].
  split; [|reflexivity]. cbn [flat_map app seq_ok]. rewrite <- app_assoc.
  apply (HS y (or_introl eq_refl) Hy 1%nat); assumption.
Qed.

Lemma tree_tokens_ok : forall n e, (wsize e <= n)%nat -> Sstmt e.
Proof.
  induction n as [|n IHn]; intros e Hsz; [destruct e; cbn in Hsz; lia|].
  assert (Hbody : wf_tree e = true -> forall r, seq_ok true r = true -> next_ok r = true -> seq_ok false (body e +++ r) = true).
  { intros Hw r Hr Hn. destruct e as [z|s|s|a|o a b|g args]; cbn [wf_tree] in Hw; cbn [wsize] in Hsz.
    - cbn. exact Hr.
    - unfold body. cbn [fl lvl Nat.ltb Nat.leb app seq_ok negb andb]. rewrite Hw, Hn, Hr. reflexivity.
    - unfold body. cbn [fl lvl Nat.ltb Nat.leb app seq_ok negb andb]. rewrite Hw, Hr. reflexivity.
    - rewrite body_not. cbn [app seq_ok negb andb]. apply (IHn a ltac:(lia) Hw 6%nat); assumption.
    - apply andb_prop in Hw as [Ha Hb]. rewrite body_bin.
      destruct (Nat.eqb (lvl_op o) 3%nat); rewrite <- app_assoc; cbn [app];
        (apply (IHn a ltac:(lia) Ha); [|reflexivity]); cbn [seq_ok andb]; apply (IHn b ltac:(lia) Hb); assumption.
    - apply andb_prop in Hw as [Hg Hargs]. unfold body. cbn [fl lvl Nat.ltb Nat.leb]. destruct args as [|x rest].
      + cbn [app seq_ok negb andb next_ok]. rewrite Hg. exact Hr.
      + cbn [forallb] in Hargs. apply andb_prop in Hargs as [Hx Hrest]. cbn [map] in Hsz.
        change (list_sum (wsize x :: map wsize rest)) with (wsize x + list_sum (map wsize rest))%nat in Hsz.
        cbn [app seq_ok negb andb next_ok]. rewrite Hg. cbn [andb]. rewrite <- !app_assoc. cbn [app].
        destruct (args_seq rest r) as [I1 I2]; [|exact Hrest|exact Hr|].
        * intros y Hy. apply IHn. pose proof (in_size y rest Hy). lia.
        * apply (IHn x ltac:(lia) Hx 1%nat); assumption. }
  intros Hw p r Hr Hn. rewrite fl_unfold. destruct (Nat.ltb (lvl e) p); [|apply Hbody; assumption].
  cbn [app seq_ok]. rewrite <- app_assoc. cbn [app]. apply Hbody; [exact Hw|exact Hr|reflexivity].
Qed.

(** * the text of a tree is read as the tree *)
Definition expr_text (e : wx) : string := render (fl 1%nat e).

Theorem expression_text_reads_as_the_tree e : wf_tree e = true -> wawk_expr (expr_text e) = XOk (to_wal e).
Proof.
  intros Hw. unfold wawk_expr, expr_text.
  assert (Hok : seq_ok false (fl 1%nat e) = true).
  { rewrite <- (app_nil_r (fl 1%nat e)). apply (tree_tokens_ok (wsize e) e (Nat.le_refl _) Hw 1%nat []); reflexivity. }
  rewrite (lex_render (fl 1%nat e) false _ Hok); [|pose proof (render_length _ _ Hok); lia].
  rewrite tokens_parse_back. reflexivity.
Qed.
