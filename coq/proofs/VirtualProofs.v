(** VirtualProofs.v — virtual signals: the per-index cache never serves a value for another
    index; defsig naming, reference rewriting and registration (C13). *)
From WalModel Require Import Eval.
From WalModel.proofs Require Import VcdProofs TraceProofs.
Local Open Scope Z_scope.

Fixpoint cache_find (ts : Z) (l : list (Z * val)) : option val :=
  match l with
  | [] => None
  | (k, v) :: r => if k =? ts then Some v else cache_find ts r
  end.

(** the virtual signal [name] of trace [tid] in a state *)
Definition vs_at (st : state) (tid name : string) : option (trace * vsig) :=
  match alookup tid (c_traces (st_cont st)) with
  | None => None
  | Some t => match alookup name (tr_virt t) with None => None | Some vs => Some (t, vs) end
  end.

(** every cached value is the value [f] assigns to the time point it is stored under *)
Definition cache_ok (f : Z -> val) (vs : vsig) : Prop := forall ts v, In (ts, v) (vs_cache vs) -> v = f ts.

Lemma cache_find_in ts l v : cache_find ts l = Some v -> In (ts, v) l.
Proof.
  induction l as [|[k w] r IH]; cbn [cache_find]; [discriminate|].
  destruct (Z.eqb_spec k ts) as [->|_]; intros H.
  - injection H as <-. left. reflexivity.
  - right. apply IH, H.
Qed.

Lemma cache_find_notin ts l : cache_find ts l = None -> forall v, ~ In (ts, v) l.
Proof.
  induction l as [|[k w] r IH]; cbn [cache_find]; intros H v Hin; [destruct Hin|].
  destruct (Z.eqb_spec k ts) as [->|Hne]; [discriminate|].
  destruct Hin as [E|Hin]; [injection E as -> _; apply Hne; reflexivity|exact (IH H v Hin)].
Qed.

(** the state after a miss: the fresh value is appended under the current timestamp *)
Definition record_value (st : state) (tid name : string) (ts : Z) (v : val) (t2 : trace) (vs2 : vsig) : state :=
  upd_cont st (with_traces (st_cont st)
    (aset (tr_tid t2) (set_virt t2 (aset name (mkVsig (vs_body vs2) (vs_cache vs2 +++ [(ts, v)])) (tr_virt t2)))
          (c_traces (st_cont st)))).

Section Virtual.
  Variable ev : val -> M val.

  Lemma virtual_value_unfold tid name st t vs ts :
    vs_at st tid name = Some (t, vs) -> tr_index t = ts ->
    virtual_value ev tid name st =
    match cache_find ts (vs_cache vs) with
    | Some v => Ok v st
    | None =>
        match eval_args ev (vs_body vs) st with
        | Ok vals st2 =>
            match last_opt vals with
            | None => Er EOther st2
            | Some v =>
                match vs_at st2 tid name with
                | Some (t2, vs2) => Ok v (record_value st2 tid name ts v t2 vs2)
                | None => Er EOther st2
                end
            end
        | Er e s => Er e s | Unm m => Unm m | Fuel => Fuel
        end
    end.
  Proof.
    unfold vs_at. intros Hv Hts. unfold virtual_value. unfold bind at 1. unfold get_st at 1.
    destruct (alookup tid (c_traces (st_cont st))) as [t0|]; [|discriminate].
    destruct (alookup name (tr_virt t0)) as [vs0|]; [|discriminate]. injection Hv as -> ->.
    cbv zeta. rewrite Hts.
    match goal with |- context [match ?F (vs_cache vs) with _ => _ end] =>
      replace (F (vs_cache vs)) with (cache_find ts (vs_cache vs)) end.
    2:{ induction (vs_cache vs) as [|[k w] r IH]; [reflexivity|]. cbn [cache_find]. destruct (k =? ts); [reflexivity|apply IH]. }
    destruct (cache_find ts (vs_cache vs)); [reflexivity|].
    unfold bind at 1. destruct (eval_args ev (vs_body vs) st) as [vals st2| | |]; try reflexivity.
    unfold bind at 1. unfold last_or_index_error. destruct (last_opt vals) as [v|]; [|reflexivity].
    unfold ret at 1. unfold bind at 1. unfold get_st.
    destruct (alookup tid (c_traces (st_cont st2))) as [t2|]; [|reflexivity].
    destruct (alookup name (tr_virt t2)) as [vs2|]; [|reflexivity].
    reflexivity.
  Qed.

  (** a hit returns the value stored under the current timestamp and changes nothing *)
  Theorem virtual_hit tid name st t vs ts v :
    vs_at st tid name = Some (t, vs) -> tr_index t = ts ->
    cache_find ts (vs_cache vs) = Some v ->
    virtual_value ev tid name st = Ok v st.
  Proof. intros Hv Hts Hc. rewrite (virtual_value_unfold _ _ _ _ _ _ Hv Hts), Hc. reflexivity. Qed.

  (** a miss evaluates the body at the current index: the value is the body's last value *)
  Theorem virtual_miss tid name st t vs ts vals st2 v t2 vs2 :
    vs_at st tid name = Some (t, vs) -> tr_index t = ts ->
    cache_find ts (vs_cache vs) = None ->
    eval_args ev (vs_body vs) st = Ok vals st2 -> last_opt vals = Some v ->
    vs_at st2 tid name = Some (t2, vs2) ->
    virtual_value ev tid name st = Ok v (record_value st2 tid name ts v t2 vs2).
  Proof.
    intros Hv Hts Hc He Hl H2. rewrite (virtual_value_unfold _ _ _ _ _ _ Hv Hts), Hc, He, Hl, H2. reflexivity.
  Qed.

  (** an erroring body is reported and nothing is cached *)
  Theorem virtual_miss_error tid name st t vs ts e st2 :
    vs_at st tid name = Some (t, vs) -> tr_index t = ts ->
    cache_find ts (vs_cache vs) = None ->
    eval_args ev (vs_body vs) st = Er e st2 ->
    virtual_value ev tid name st = Er e st2.
  Proof. intros Hv Hts Hc He. rewrite (virtual_value_unfold _ _ _ _ _ _ Hv Hts), Hc, He. reflexivity. Qed.

  Lemma vs_at_record st tid name ts v t2 vs2 :
    tr_tid t2 = tid ->
    vs_at (record_value st tid name ts v t2 vs2) tid name =
    Some (set_virt t2 (aset name (mkVsig (vs_body vs2) (vs_cache vs2 +++ [(ts, v)])) (tr_virt t2)),
          mkVsig (vs_body vs2) (vs_cache vs2 +++ [(ts, v)])).
  Proof.
    intros <-. unfold vs_at, record_value, upd_cont, with_traces. simpl st_cont. simpl c_traces.
    rewrite alookup_aset_same. simpl tr_virt. rewrite alookup_aset_same. reflexivity.
  Qed.

  (** soundness of one read, for any visit order: if the cache is sound for [f] and the body's
      value at the current time point is [f ts], the value served is [f ts] *)
  Theorem virtual_value_sound (f : Z -> val) tid name st t vs ts v st' :
    vs_at st tid name = Some (t, vs) -> tr_index t = ts ->
    cache_ok f vs ->
    (forall vals st2, eval_args ev (vs_body vs) st = Ok vals st2 -> last_opt vals = Some (f ts)) ->
    virtual_value ev tid name st = Ok v st' -> v = f ts.
  Proof.
    intros Hv Hts Hok Hbody H. rewrite (virtual_value_unfold _ _ _ _ _ _ Hv Hts) in H.
    destruct (cache_find ts (vs_cache vs)) as [w|] eqn:Hc.
    - injection H as <- _. apply Hok. apply cache_find_in, Hc.
    - destruct (eval_args ev (vs_body vs) st) as [vals st2| | |] eqn:He; try discriminate.
      rewrite (Hbody _ _ eq_refl) in H. destruct (vs_at st2 tid name) as [[t2 vs2]|]; [|discriminate].
      injection H as <- _. reflexivity.
  Qed.

  (** ... and the cache is still sound afterwards (the invariant of every history of reads) *)
  Theorem virtual_value_keeps_cache_ok (f : Z -> val) tid name st t vs ts v st' :
    vs_at st tid name = Some (t, vs) -> tr_index t = ts ->
    cache_ok f vs ->
    (forall vals st2, eval_args ev (vs_body vs) st = Ok vals st2 -> last_opt vals = Some (f ts)) ->
    (forall vals st2 t2 vs2, eval_args ev (vs_body vs) st = Ok vals st2 -> vs_at st2 tid name = Some (t2, vs2) ->
                             tr_tid t2 = tid /\ cache_ok f vs2) ->
    virtual_value ev tid name st = Ok v st' ->
    forall t' vs', vs_at st' tid name = Some (t', vs') -> cache_ok f vs'.
  Proof.
    intros Hv Hts Hok Hbody Hkeep H t' vs' H'. rewrite (virtual_value_unfold _ _ _ _ _ _ Hv Hts) in H.
    destruct (cache_find ts (vs_cache vs)) as [w|] eqn:Hc.
    - injection H as _ <-. rewrite Hv in H'. injection H' as _ <-. exact Hok.
    - destruct (eval_args ev (vs_body vs) st) as [vals st2| | |] eqn:He; try discriminate.
      rewrite (Hbody _ _ eq_refl) in H. destruct (vs_at st2 tid name) as [[t2 vs2]|] eqn:H2; [|discriminate].
      injection H as _ <-. destruct (Hkeep _ _ _ _ eq_refl H2) as [Htid Hok2].
      rewrite (vs_at_record _ _ _ _ _ _ _ Htid) in H'. injection H' as _ <-.
      intros ts0 v0. cbn [vs_cache]. rewrite in_app_iff. cbn [In]. intros [Hin|[E|[]]].
      + apply Hok2, Hin.
      + injection E as <- <-. reflexivity.
  Qed.

  (** a value is cached under the timestamp of the index at which it was computed, and at most once *)
  Theorem cache_keys_unique_step tid name st t vs ts vals st2 v t2 vs2 :
    vs_at st tid name = Some (t, vs) -> tr_index t = ts ->
    cache_find ts (vs_cache vs) = None ->
    eval_args ev (vs_body vs) st = Ok vals st2 -> last_opt vals = Some v ->
    vs_at st2 tid name = Some (t2, vs2) -> tr_tid t2 = tid ->
    exists st' t' vs', virtual_value ev tid name st = Ok v st' /\ vs_at st' tid name = Some (t', vs') /\
                       vs_cache vs' = vs_cache vs2 +++ [(ts, v)] /\ vs_body vs' = vs_body vs2 /\
                       tr_index t' = tr_index t2 /\ tr_ts t' = tr_ts t2.
  Proof.
    intros Hv Hts Hc He Hl H2 Htid. eexists _, _, _. split; [eapply virtual_miss; eassumption|].
    split; [apply vs_at_record, Htid|]. repeat split; reflexivity.
  Qed.
End Virtual.

(** * sample-at drops every cached value and keeps the bodies *)
Theorem sample_clears_caches t L t' :
  trace_sample t L = Some t' ->
  map fst (tr_virt t') = map fst (tr_virt t) /\
  forall name vs', alookup name (tr_virt t') = Some vs' ->
                   vs_cache vs' = [] /\ exists vs, alookup name (tr_virt t) = Some vs /\ vs_body vs' = vs_body vs.
Proof.
  intros H. unfold trace_sample in H. destruct (map_opt _ _); [|discriminate]. injection H as <-. cbn [tr_virt].
  unfold clear_caches. split.
  - rewrite map_map. reflexivity.
  - induction (tr_virt t) as [|[k w] r IH]; cbn [map alookup fst snd]; intros name vs'; [discriminate|].
    destruct (String.eqb name k).
    + intros E. injection E as <-. split; [reflexivity|]. exists w. split; reflexivity.
    + apply IH.
Qed.

Corollary cache_ok_after_sample f t L t' name vs' :
  trace_sample t L = Some t' -> alookup name (tr_virt t') = Some vs' -> cache_ok f vs'.
Proof.
  intros H Hl. destruct (sample_clears_caches _ _ _ H) as [_ Hc]. destruct (Hc _ _ Hl) as [E _].
  intros ts v. rewrite E. intros [].
Qed.

(** * defsig *)
(** ~n and #n are replaced by the fixed names at definition; everything else is traversed *)
Theorem rewrite_scope_ref s g n a : defsig_rewrite s g (WL [VOp OResolveScope; VSym n a]) = VSym (s ++ n) None.
Proof. reflexivity. Qed.
Theorem rewrite_group_ref s g n a : defsig_rewrite s g (WL [VOp OResolveGroup; VSym n a]) = VSym (g ++ n) None.
Proof. reflexivity. Qed.
Theorem rewrite_atoms s g e : (forall w l, e <> VList w l) -> defsig_rewrite s g e = e.
Proof. intros H. destruct e as [| | | | | | |w l| | | | |]; try reflexivity. destruct (H w l eq_refl). Qed.
Theorem rewrite_descends s g o l : o <> OResolveScope -> o <> OResolveGroup ->
  defsig_rewrite s g (WL (VOp o :: l)) = WL (VOp o :: map (defsig_rewrite s g) l).
Proof.
  intros H1 H2. unfold WL. cbn [defsig_rewrite].
  destruct l as [|x [|y r]]; try reflexivity; destruct o; try reflexivity; try (destruct (H1 eq_refl)); try (destruct (H2 eq_refl));
    destruct x; reflexivity.
Qed.

(** the name a definition registers: relative to the captured scope, or to the captured group
    (a group already carries its scope) *)
Definition defsig_name (cs cg n : string) : string :=
  let scope0 := if String.eqb cs "" then "" else cs ++ "." in
  let scope := if String.eqb cg "" then scope0 else "" in
  scope ++ cg ++ n.

Theorem defsig_name_top n : defsig_name "" "" n = n.
Proof. reflexivity. Qed.
Theorem defsig_name_scope cs n : cs <> "" -> defsig_name cs "" n = cs ++ "." ++ n.
Proof.
  intros H. unfold defsig_name. destruct (String.eqb_spec cs ""); [contradiction|]. cbn [String.eqb append].
  apply append_assoc.
Qed.
Theorem defsig_name_group cs cg n : cg <> "" -> defsig_name cs cg n = cg ++ n.
Proof. intros H. unfold defsig_name. destruct (String.eqb_spec cg ""); [contradiction|]. reflexivity. Qed.

Definition defsig_scope (cs cg : string) : string :=
  if String.eqb cg "" then (if String.eqb cs "" then "" else cs ++ ".") else "".

(** with one trace loaded, a definition registers the rewritten body with an empty cache under
    the constructed name; nothing else in the state changes *)
Theorem defsig_registers st k t rest cs cg n a b body :
  c_ntraces (st_cont st) = 1 -> c_traces (st_cont st) = (k, t) :: rest ->
  read_global "CS" st = Ok (VStr cs) st -> read_global "CG" st = Ok (VStr cg) st ->
  op_defsig (VSym n a :: b :: body) st =
  Ok VNone (upd_cont st (with_traces (st_cont st)
     (aset (tr_tid t) (set_virt t (aset (defsig_name cs cg n)
                                        (mkVsig (map (defsig_rewrite (defsig_scope cs cg) cg) (b :: body)) [])
                                        (tr_virt t)))
           (c_traces (st_cont st))))).
Proof.
  intros Hn Ht Hcs Hcg. unfold op_defsig.
  assert (Hlen : (1 <? zlen (VSym n a :: b :: body)) = true).
  { unfold zlen. cbn [List.length]. apply Z.ltb_lt. lia. }
  rewrite Hlen. cbn [assert]. unfold bind at 1. unfold ret at 1. cbv beta iota.
  unfold bind at 1. rewrite Hcs. unfold bind at 1. rewrite Hcg.
  unfold bind at 1. unfold get_st at 1. cbv beta iota zeta. rewrite Hn. cbn [Z.eqb Pos.eqb]. rewrite Ht.
  unfold bind, replace_trace, modify, ret. unfold defsig_name, defsig_scope. rewrite Ht. reflexivity.
Qed.

(** the new signal is listed, and reading it goes to the virtual-signal evaluation *)
Theorem registered_is_listed t name vs :
  let t' := set_virt t (aset name vs (tr_virt t)) in
  trace_has t' name = true /\ In name (all_signal_names t') /\ alookup name (tr_virt t') = Some vs.
Proof.
  cbv zeta. unfold trace_has, all_signal_names. simpl tr_virt. simpl tr_raw.
  split; [|split].
  - unfold amem. rewrite alookup_aset_same. rewrite !orb_true_r. reflexivity.
  - apply in_or_app. right. clear. induction (tr_virt t) as [|[k w] r IH]; cbn [aset map fst In]; [left; reflexivity|].
    destruct (String.eqb_spec name k) as [->|_]; cbn [map fst In]; [left; reflexivity|right; exact IH].
  - apply alookup_aset_same.
Qed.

Section Dispatch.
  Variable ev : val -> M val.
  Theorem virtual_signal_dispatch st t name scope :
    address (st_cont st) name = AOne t name ->
    0 <= tr_index t <= tr_max t -> smem name special_signals = false -> amem name (tr_virt t) = true ->
    signal_value_m ev name scope st = virtual_value ev (tr_tid t) name st.
  Proof.
    intros Ha Hi Hs Hv. unfold signal_value_m, bind at 1. unfold get_st at 1. unfold cont_signal_value. rewrite Ha.
    unfold trace_signal_value. cbv zeta.
    assert (E : ((0 <=? tr_index t) && (tr_index t <=? tr_max t)) = true) by lia.
    rewrite E, Hs, Hv. reflexivity.
  Qed.
End Dispatch.
