(** VirtualOrder.v — reading a virtual signal at any sequence of indices, in any order and with repeats, yields
    at each index the value of its body at that index (C13), provided the body can be evaluated at every index,
    leaves the state as it was and does not depend on what the cache holds (timestamps may repeat: the cache key is the index). *)
From WalModel Require Import Eval.
From WalModel.proofs Require Import VcdProofs TraceProofs VirtualProofs ScanProofs.
Local Open Scope Z_scope.

Lemma aset_aset {V} k (x y : V) l : aset k x (aset k y l) = aset k x l.
Proof.
  induction l as [|[k' v'] l IH]; cbn [aset].
  - rewrite String.eqb_refl. reflexivity.
  - destruct (String.eqb k k') eqn:E; cbn [aset]; rewrite E; [reflexivity|rewrite IH; reflexivity].
Qed.

Section Order.
  Variable ev : val -> M val.
  Variable tid name : string.
  Variable st0 : state.
  Variable t0 : trace.
  Variable body : list val.
  Hypothesis Htid : tr_tid t0 = tid.

  (** the interpreter with the trace at index j and the signal's cache holding c; nothing else differs *)
  Definition vstate (j : Z) (c : list (Z * val)) : state :=
    set1 st0 tid (set_virt (set_index t0 j) (aset name (mkVsig body c) (tr_virt t0))).

  Definition in_range (j : Z) : Prop := 0 <= j <= tr_max t0.
  (** the body has a value at every index, whatever the cache holds, and leaves the state as it was *)
  Variable value_at : Z -> val.
  Hypothesis Hbody : forall j c, in_range j ->
    exists vals, eval_args ev body (vstate j c) = Ok vals (vstate j c) /\ last_opt vals = Some (value_at j).

  (** every cached value is the body's value at the index it is stored under (the cache key is the index) *)
  Definition sound (c : list (Z * val)) : Prop :=
    forall j v, In (j, v) c -> in_range j -> v = value_at j.

  Lemma vs_at_vstate j c :
    vs_at (vstate j c) tid name =
    Some (set_virt (set_index t0 j) (aset name (mkVsig body c) (tr_virt t0)), mkVsig body c).
  Proof.
    unfold vs_at, vstate, set1, upd_cont, with_traces. simpl st_cont. simpl c_traces. cbn [alookup]. rewrite String.eqb_refl.
    simpl tr_virt. rewrite alookup_aset_same. reflexivity.
  Qed.

  Lemma record_vstate j c ts v :
    record_value (vstate j c) tid name ts v
      (set_virt (set_index t0 j) (aset name (mkVsig body c) (tr_virt t0))) (mkVsig body c)
    = vstate j (c +++ [(ts, v)]).
  Proof.
    unfold record_value, vstate, set1, upd_cont, with_traces. simpl. rewrite Htid, String.eqb_refl, aset_aset. reflexivity.
  Qed.

  (** one read, wherever the trace stands and whatever was read before *)
  Theorem read_at_any_index j c : in_range j -> sound c ->
    exists c', virtual_value ev tid name (vstate j c) = Ok (value_at j) (vstate j c') /\ sound c'.
  Proof.
    intros Hj Hs.
    assert (Hz : tr_index (set_virt (set_index t0 j) (aset name (mkVsig body c) (tr_virt t0))) = j) by reflexivity.
    rewrite (virtual_value_unfold ev tid name _ _ _ _ (vs_at_vstate j c) Hz). cbn [vs_cache vs_body].
    destruct (cache_find j c) as [w|] eqn:Hc.
    - exists c. split; [|exact Hs]. f_equal. apply (Hs _ _ (cache_find_in _ _ _ Hc) Hj).
    - destruct (Hbody j c Hj) as (vals & He & Hl). rewrite He, Hl, (vs_at_vstate j c).
      exists (c +++ [(j, value_at j)]). split; [rewrite record_vstate; reflexivity|].
      intros j' v Hin Hj'. apply in_app_or in Hin as [Hin|[E|[]]].
      + apply (Hs j' v Hin Hj').
      + injection E as <- <-. reflexivity.
  Qed.

  (** a history of reads at the indices js: between reads the trace is moved to the next index by whatever means *)
  Inductive reads : list Z -> list (Z * val) -> list val -> list (Z * val) -> Prop :=
    | rd_nil c : reads [] c [] c
    | rd_cons j js c v c1 vs c2 :
        virtual_value ev tid name (vstate j c) = Ok v (vstate j c1) -> reads js c1 vs c2 -> reads (j :: js) c (v :: vs) c2.

  Theorem reads_in_any_order js : forall c, Forall in_range js -> sound c ->
    exists c2, reads js c (map value_at js) c2 /\ sound c2.
  Proof.
    induction js as [|j js IH]; intros c Hr Hs.
    - exists c. split; [constructor|exact Hs].
    - inversion Hr as [|? ? Hj Hjs]; subst. destruct (read_at_any_index j c Hj Hs) as (c1 & Hv & Hs1).
      destruct (IH c1 Hjs Hs1) as (c2 & Hrd & Hs2). exists c2. split; [|exact Hs2].
      cbn [map]. econstructor; eassumption.
  Qed.

  (** in particular from the empty cache of a fresh definition, or after sample-at *)
  Corollary reads_from_fresh_definition js : Forall in_range js -> exists c2, reads js [] (map value_at js) c2.
  Proof. intros Hr. destruct (reads_in_any_order js [] Hr) as (c2 & H & _); [intros ts v []|]. exists c2. exact H. Qed.
End Order.

(** * the premises are met by the real evaluator: v := (+ a 1) over the five-sample trace of ScanProofs *)
From WalModel Require Import Api.
Definition v_body : list val := [WL [VOp OAdd; VSym "a" None; VInt 1]].
Definition v_value (j : Z) : val :=
  VInt (match j with 0 => 1 | 1 => 2 | 2 => 2 | 3 => 1 | _ => 2 end).

Lemma v_body_pure : forall j c, in_range sig_trace j ->
  exists vals, eval_args ev0 v_body (vstate "t" "v" sig_state sig_trace v_body j c) = Ok vals (vstate "t" "v" sig_state sig_trace v_body j c)
               /\ last_opt vals = Some (v_value j).
Proof.
  intros j c Hj. unfold in_range in Hj. cbn [tr_max sig_trace] in Hj.
  assert (E : j = 0 \/ j = 1 \/ j = 2 \/ j = 3 \/ j = 4) by lia.
  destruct E as [->|[->|[->|[->| ->]]]]; eexists; (split; [vm_compute; reflexivity|reflexivity]).
Qed.

Example reads_with_the_real_evaluator :
  exists c2, reads ev0 "t" "v" sig_state sig_trace v_body [3; 0; 3; 4; 1; 0]
                   [] [VInt 1; VInt 1; VInt 1; VInt 2; VInt 2; VInt 1] c2.
Proof.
  apply (reads_from_fresh_definition ev0 "t" "v" sig_state sig_trace v_body eq_refl) with (value_at := v_value)
        (js := [3; 0; 3; 4; 1; 0]).
  - exact v_body_pure.
  - repeat constructor; unfold in_range; cbn; lia.
Qed.
