(** WawkGrammarTies.v — the expression rules of the WAWK grammar, regenerated from wawk/parser.py on every run
    (gen/translate.py -> Generated.v), are the rules the model parser implements: one left-associative rule per level
    for || && + - * /, a non-associative rule for the comparisons, the prefix rule for !, and operator sets that are
    exactly the operators of each level of [lvl_op] with the texts of [bop_text].  An edit to any of these rules in
    /repo re-opens these obligations. (C20) *)
From WalModel Require Import WawkParse Generated.
From WalModel.proofs Require Import WawkLexProofs.
Local Open Scope string_scope.

Definition all_bops : list bop := [BOr; BAnd; BEq; BNe; BGt; BLt; BGe; BLe; BAdd; BSub; BMul; BDiv].
Definition q (s : string) : string := String (ch 34) (s ++ String (ch 34) EmptyString).

Definition rule : Type := (string * string * list (list string))%type.
(** name: a_name | sub ;  a_name: name op sub   — operands group to the left *)
Definition left_assoc_rows (name a_name sub opname : string) : list rule :=
  [(name, "?", [[a_name]; [sub]]); (a_name, "", [[name; opname; sub]])].
(** name: a_name | sub ;  a_name: sub op sub   — at most one operator of this level *)
Definition nonassoc_rows (name a_name sub opname : string) : list rule :=
  [(name, "?", [[a_name]; [sub]]); (a_name, "", [[sub; opname; sub]])].
(** the operators of one level of the model, as a rule that keeps its tokens *)
Definition ops_row (name : string) (l : nat) : rule :=
  (name, "!", map (fun o => [q (bop_text o)]) (filter (fun o => Nat.eqb (lvl_op o) l) all_bops)).

Definition model_rules : list rule :=
  [("expr", "?", [["or_s"]])] +++
  left_assoc_rows "or_s" "a_or_s" "and_s" "or_op" +++
  left_assoc_rows "and_s" "a_and_s" "comp" "and_op" +++
  nonassoc_rows "comp" "a_comp" "sum_s" "comp_op" +++
  left_assoc_rows "sum_s" "a_sum_s" "mul" "a_s_op" +++
  left_assoc_rows "mul" "a_mul" "neg" "m_d_op" +++
  [("neg", "?", [["a_neg"]; ["atom"]]); ("a_neg", "", [["u_op"; "neg"]]); ("u_op", "!", [[q "!"]])] +++
  [ops_row "m_d_op" 5; ops_row "a_s_op" 4; ops_row "comp_op" 3; ops_row "and_op" 2; ops_row "or_op" 1] +++
  [("base_symbol", "!", [["("; "LETTER"; "|"; q "_"; ")"; "("; "LETTER"; "|"; "INT"; "|"; q "_"; "|"; q "$"; "|"; q "."; ")"; "*"]]);
   ("fcall", "", [["base_symbol"; q "("; "["; "expr"; "("; q ","; "expr"; ")"; "*"; "]"; q ")"]]);
   ("string", "", [["ESCAPED_STRING"]])].

Theorem expression_rules_are_the_repositorys : wawk_expression_rules = model_rules.
Proof. vm_compute. reflexivity. Qed.

(** the alternatives of atom: symbol (plain ones modelled), fcall, array_get (outside), parentheses, string, list
    (outside), the two number terminals *)
Theorem atom_alternatives_are_the_repositorys :
  wawk_atom_alternatives = [["symbol"]; ["fcall"]; ["array_get"]; [q "("; "expr"; q ")"]; ["string"]; ["list"]; ["SIGNED_INT"]; ["INT"]].
Proof. vm_compute. reflexivity. Qed.

Theorem ignored_text_is_the_repositorys : wawk_ignored = ["WS"; "COMMENT"] /\ wawk_comment_terminal = "/\/\/[^\n]*/".
Proof. split; reflexivity. Qed.

(** every binary operator of the model occurs in exactly one operator set, that of its level *)
Theorem operator_sets_cover_the_operators : forall o,
  In [q (bop_text o)] (snd (ops_row "" (lvl_op o))) /\ forall l, l <> lvl_op o -> ~ In [q (bop_text o)] (snd (ops_row "" l)).
Proof.
  intros o. split.
  - destruct o; vm_compute; tauto.
  - intros l Hl Hin. unfold ops_row in Hin. cbn [snd] in Hin. apply in_map_iff in Hin as (o' & E & Hf).
    apply filter_In in Hf as [_ Hf]. apply Nat.eqb_eq in Hf.
    assert (o' = o) by (destruct o, o'; try reflexivity; vm_compute in E; discriminate E).
    subst o'. congruence.
Qed.
