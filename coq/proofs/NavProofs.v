(** NavProofs.v — stepping is exact, bounds-safe and isolated (C02). *)
From WalModel Require Import Eval.
From WalModel.proofs Require Import VcdProofs EvalArith.
Local Open Scope Z_scope.

Definition in_range (t : trace) (n : Z) : bool :=
  (0 <=? tr_index t + n) && (tr_index t + n <=? tr_max t).

Definition trace_ok (t : trace) : Prop := 0 <= tr_index t <= tr_max t.

Lemma trace_step_spec (t : trace) (n : Z) :
  trace_step t n = if in_range t n then (set_index t (tr_index t + n), None) else (t, Some (tr_tid t)).
Proof.
  unfold trace_step, in_range.
  destruct (tr_index t + n <? 0) eqn:E1; destruct (tr_max t <? tr_index t + n) eqn:E2;
    destruct (0 <=? tr_index t + n) eqn:E3; destruct (tr_index t + n <=? tr_max t) eqn:E4;
    cbn [orb andb]; try reflexivity; lia.
Qed.

Lemma trace_step_ok (t : trace) (n : Z) : trace_ok t -> trace_ok (fst (trace_step t n)).
Proof.
  unfold trace_ok. rewrite trace_step_spec. unfold in_range.
  destruct ((0 <=? tr_index t + n) && (tr_index t + n <=? tr_max t)) eqn:E; cbn [fst]; [|auto].
  intros _. cbn [set_index tr_index tr_max]. apply andb_prop in E. lia.
Qed.

Lemma trace_step_moves (t : trace) (n : Z) :
  tr_index (fst (trace_step t n)) = (if in_range t n then tr_index t + n else tr_index t) /\
  tr_max (fst (trace_step t n)) = tr_max t /\ tr_tid (fst (trace_step t n)) = tr_tid t /\
  tr_data (fst (trace_step t n)) = tr_data t /\ tr_ts (fst (trace_step t n)) = tr_ts t /\
  (snd (trace_step t n) = None <-> in_range t n = true).
Proof.
  rewrite trace_step_spec. destruct (in_range t n); cbn [fst snd set_index tr_index tr_max tr_tid tr_data tr_ts];
    repeat split; auto; discriminate.
Qed.

(** all traces of the container *)
Definition cont_ok (c : container) : Prop :=
  forall tid t, alookup tid (c_traces c) = Some t -> trace_ok t.

Lemma step_all_lookup : forall ts n id,
  alookup id (fst (step_all ts n)) = option_map (fun t => fst (trace_step t n)) (alookup id ts).
Proof.
  induction ts as [|[tid t] ts IH]; intros n id; cbn [step_all]; [reflexivity|].
  destruct (trace_step t n) as [t' e] eqn:Et. destruct (step_all ts n) as [r' es] eqn:Er.
  cbn [fst alookup]. destruct (String.eqb id tid); [cbn [option_map]; rewrite Et; reflexivity|].
  specialize (IH n id). rewrite Er in IH. exact IH.
Qed.

Lemma step_all_ended : forall ts n,
  snd (step_all ts n) = [] <-> forallb (fun p => in_range (snd p) n) ts = true.
Proof.
  induction ts as [|[tid t] ts IH]; intros n; cbn [step_all forallb snd]; [tauto|].
  destruct (trace_step t n) as [t' e] eqn:Et. destruct (step_all ts n) as [r' es] eqn:Er.
  cbn [snd]. specialize (IH n). rewrite Er in IH. cbn [snd] in IH.
  pose proof (trace_step_moves t n) as (_ & _ & _ & _ & _ & Hm). rewrite Et in Hm. cbn [snd] in Hm.
  destruct e as [x|].
  - destruct (in_range t n); [destruct Hm as [_ Hm]; specialize (Hm eq_refl); discriminate|].
    cbn [andb]. split; discriminate.
  - destruct Hm as [Hm _]. rewrite (Hm eq_refl). cbn [andb]. exact IH.
Qed.

(** a step request: global (tid = None or "") or for one named trace *)
Theorem cont_step_all (c : container) (n : Z) c' ended :
  cont_step c n None = Some (c', ended) ->
  (forall id, alookup id (c_traces c') = option_map (fun t => fst (trace_step t n)) (alookup id (c_traces c))) /\
  (ended = [] <-> forallb (fun p => in_range (snd p) n) (c_traces c) = true) /\
  c_ntraces c' = c_ntraces c /\ c_stack c' = c_stack c.
Proof.
  unfold cont_step. destruct (step_all (c_traces c) n) as [ts e] eqn:E. intros H. injection H as <- <-.
  cbn [with_traces c_traces c_ntraces c_stack]. repeat split; auto.
  - intros id. pose proof (step_all_lookup (c_traces c) n id) as H. rewrite E in H. exact H.
  - pose proof (step_all_ended (c_traces c) n) as H. rewrite E in H. cbn [snd] in H. apply H.
  - pose proof (step_all_ended (c_traces c) n) as H. rewrite E in H. cbn [snd] in H. apply H.
Qed.

Theorem cont_step_named (c : container) (n : Z) (id : string) t c' ended :
  id <> "" -> alookup id (c_traces c) = Some t ->
  cont_step c n (Some id) = Some (c', ended) ->
  alookup id (c_traces c') = Some (fst (trace_step t n)) /\
  (forall id', id' <> id -> alookup id' (c_traces c') = alookup id' (c_traces c)) /\
  (ended = [] <-> in_range t n = true) /\
  c_ntraces c' = c_ntraces c /\ c_stack c' = c_stack c.
Proof.
  intros Hne Hl. unfold cont_step. destruct (String.eqb id "") eqn:E; [apply String.eqb_eq in E; congruence|].
  rewrite Hl. destruct (trace_step t n) as [t' e] eqn:Et. intros H. injection H as <- <-.
  cbn [with_traces c_traces c_ntraces c_stack fst]. repeat split; auto.
  - apply alookup_aset_same.
  - intros id' Hd. apply alookup_aset_other. apply String.eqb_neq. exact Hd.
  - pose proof (trace_step_moves t n) as (_ & _ & _ & _ & _ & Hm). rewrite Et in Hm. cbn [snd] in Hm.
    destruct e; [discriminate|]. intros _. apply Hm. reflexivity.
  - pose proof (trace_step_moves t n) as (_ & _ & _ & _ & _ & Hm). rewrite Et in Hm. cbn [snd] in Hm.
    intros H. apply Hm in H. subst e. reflexivity.
Qed.

(** invariant over every history of step requests *)
Definition nav_op : Type := (Z * option string)%type.
Definition apply_nav (c : container) (o : nav_op) : container :=
  match cont_step c (fst o) (snd o) with Some (c', _) => c' | None => c end.

Lemma cont_step_ok (c : container) n tid c' e :
  cont_ok c -> cont_step c n tid = Some (c', e) -> cont_ok c'.
Proof.
  intros Hok H. unfold cont_ok in *.
  assert (Hall : forall c' e, cont_step c n None = Some (c', e) -> forall tid t, alookup tid (c_traces c') = Some t -> trace_ok t).
  { intros c2 e2 H2 id t Ht. destruct (cont_step_all c n c2 e2 H2) as [Hl _]. rewrite Hl in Ht.
    destruct (alookup id (c_traces c)) as [t0|] eqn:E0; [|discriminate]. cbn [option_map] in Ht. injection Ht as <-.
    apply trace_step_ok. eapply Hok. exact E0. }
  destruct tid as [id|]; [|eapply Hall; exact H].
  destruct (String.eqb id "") eqn:Ee.
  - apply String.eqb_eq in Ee. subst id. eapply Hall. unfold cont_step in *. cbn [String.eqb] in H. exact H.
  - assert (Hne : id <> "") by (apply String.eqb_neq; exact Ee).
    unfold cont_step in H. rewrite Ee in H. destruct (alookup id (c_traces c)) as [t0|] eqn:E0; [|discriminate].
    assert (H' : cont_step c n (Some id) = Some (c', e)) by (unfold cont_step; rewrite Ee, E0; exact H).
    destruct (cont_step_named c n id t0 c' e Hne E0 H') as (Hs & Ho & _).
    intros id' t Ht. destruct (String.eqb id' id) eqn:E1.
    + apply String.eqb_eq in E1. subst id'. rewrite Hs in Ht. injection Ht as <-. apply trace_step_ok. eapply Hok; exact E0.
    + rewrite Ho in Ht by (apply String.eqb_neq; exact E1). eapply Hok; exact Ht.
Qed.

Theorem nav_invariant : forall ops c, cont_ok c -> cont_ok (fold_left apply_nav ops c).
Proof.
  induction ops as [|o ops IH]; intros c Hok; cbn [fold_left]; [exact Hok|].
  apply IH. unfold apply_nav. destruct (cont_step c (fst o) (snd o)) as [[c' e]|] eqn:E; [|exact Hok].
  eapply cont_step_ok; eassumption.
Qed.

(** what is observed afterwards is the resulting index *)
Theorem observe_index_ts (nt : Z) (t : trace) (scope : string) :
  trace_ok t ->
  trace_signal_value nt t "INDEX" scope = SVal (VInt (tr_index t)) /\
  trace_signal_value nt t "MAX-INDEX" scope = SVal (VInt (tr_max t)) /\
  trace_signal_value nt t "TS" scope =
    match znth (tr_ts t) (tr_index t) with Some ts => SVal (VInt ts) | None => SErr EOther end.
Proof.
  intros [H1 H2]. unfold trace_signal_value.
  assert (E : (0 <=? tr_index t) && (tr_index t <=? tr_max t) = true) by (apply andb_true_intro; split; lia).
  rewrite E. repeat split; reflexivity.
Qed.

(** the step operator: (step n) reports success iff every trace could move *)
Theorem op_step_amount (ev : val -> M val) (a : val) (n : Z) st st' :
  c_traces (st_cont st) <> [] ->
  ev a st = Ok (VInt n) st' ->
  exists c' ended,
    cont_step (st_cont st') n None = Some (c', ended) /\
    op_step ev [a] st = Ok (VBool (forallb (fun p => in_range (snd p) n) (c_traces (st_cont st')))) (upd_cont st' c').
Proof.
  intros Hne Hev. unfold op_step.
  assert (Hcs : exists c' ended, cont_step (st_cont st') n None = Some (c', ended)).
  { unfold cont_step. destruct (step_all (c_traces (st_cont st')) n). eauto. }
  destruct Hcs as [c' [ended Hcs]]. exists c', ended. split; [exact Hcs|].
  unfold bind at 1. unfold get_st at 1.
  destruct (c_traces (st_cont st)) as [|p l] eqn:El; [congruence|]. cbn [List.length Nat.eqb negb assert].
  unfold bind at 1. cbn [ret]. unfold bind at 1. rewrite Hev. cbn [int_of].
  unfold step_all_m. unfold bind at 1. unfold bind at 1. unfold get_st. rewrite Hcs.
  unfold bind, modify, ret.
  destruct (cont_step_all _ _ _ _ Hcs) as (_ & He & _).
  destruct ended as [|x ended].
  - destruct He as [He _]. rewrite (He eq_refl). reflexivity.
  - destruct (forallb (fun p => in_range (snd p) n) (c_traces (st_cont st'))) eqn:Ef.
    + destruct He as [_ He]. specialize (He eq_refl). discriminate.
    + reflexivity.
Qed.
