(** TraceProofs.v — resampling/trimming (C19) and the trace container (C12). *)
From WalModel Require Import Eval.
From WalModel.proofs Require Import VcdProofs NavProofs RevalProofs.
Local Open Scope Z_scope.

(** * de-duplication keeps first occurrences, in order *)
Lemma zmem_In k l : zmem k l = true <-> In k l.
Proof.
  induction l as [|x l IH]; cbn [zmem In]; [split; [discriminate|tauto]|].
  rewrite orb_true_iff, IH, Z.eqb_eq. split; intros [H|H]; auto.
Qed.

Lemma dedup_Z_spec : forall l seen,
  NoDup (dedup_Z l seen) /\
  (forall x, In x (dedup_Z l seen) <-> In x l /\ ~ In x seen).
Proof.
  induction l as [|a l IH]; intros seen; cbn [dedup_Z].
  - split; [constructor|]. intros x. cbn [In]. tauto.
  - destruct (zmem a seen) eqn:E.
    + apply zmem_In in E. destruct (IH seen) as [Hn Hi]. split; [exact Hn|].
      intros x. rewrite Hi. cbn [In]. split; [tauto|]. intros [[->|H] Hs]; [contradiction|tauto].
    + assert (Ha : ~ In a seen) by (intros H; apply zmem_In in H; congruence).
      destruct (IH (a :: seen)) as [Hn Hi]. split.
      * constructor; [|exact Hn]. rewrite Hi. cbn [In]. tauto.
      * intros x. cbn [In]. rewrite Hi. cbn [In]. split.
        -- intros [->|[H1 H2]]; [tauto|]. split; [tauto|]. tauto.
        -- intros [[->|H1] H2]; [left; reflexivity|].
           destruct (Z.eq_dec a x) as [->|Hne]; [left; reflexivity|right]. split; [exact H1|]. intros [H|H]; tauto.
Qed.

Lemma dedup_Z_nonempty l : l <> [] -> dedup_Z l [] <> [].
Proof. destruct l as [|a l]; [congruence|]. intros _. cbn [dedup_Z zmem]. discriminate. Qed.

(** * sample-at *)
Theorem trace_sample_spec t L t' :
  trace_sample t L = Some t' ->
  let D := dedup_Z L [] in
  tr_index t' = 0 /\ tr_max t' = zlen D - 1 /\ tr_lookup t' = Some D /\
  map_opt (znth (tr_all_ts t)) D = Some (tr_ts t') /\
  tr_all_ts t' = tr_all_ts t /\ tr_data t' = tr_data t /\ tr_tid t' = tr_tid t /\
  tr_raw t' = tr_raw t /\ tr_scopes t' = tr_scopes t /\ tr_widths t' = tr_widths t /\
  tr_virt t' = clear_caches (tr_virt t) /\
  NoDup D /\ (forall x, In x D <-> In x L).
Proof.
  unfold trace_sample. destruct (map_opt (znth (tr_all_ts t)) (dedup_Z L [])) as [ts|] eqn:E; [|discriminate].
  intros H. injection H as <-. cbn zeta. cbn [tr_index tr_max tr_lookup tr_ts tr_all_ts tr_data tr_tid tr_raw tr_scopes tr_widths tr_virt].
  assert (Hl : zlen ts = zlen (dedup_Z L [])).
  { clear -E. unfold zlen. f_equal. revert ts E. induction (dedup_Z L []) as [|x l IH]; intros ts E; cbn [map_opt] in E.
    - injection E as <-. reflexivity.
    - destruct (znth (tr_all_ts t) x); [|discriminate]. destruct (map_opt (znth (tr_all_ts t)) l); [|discriminate].
      injection E as <-. cbn [List.length]. f_equal. apply IH. reflexivity. }
  destruct (dedup_Z_spec L []) as [Hn Hi].
  repeat split; try reflexivity; try assumption; try (rewrite Hl; reflexivity).
  - intros Hx. apply Hi in Hx. tauto.
  - intros Hx. apply Hi. cbn [In]. tauto.
Qed.

(** the value at new index j is the original value at the j-th selected sample *)
Theorem sampled_value t L t' name j :
  trace_sample t L = Some t' -> L <> [] ->
  access_data t' name j =
  match alookup name (tr_data t) with
  | None => None
  | Some col => match znth (dedup_Z L []) j with Some i => znth col i | None => None end
  end.
Proof.
  intros H Hne. destruct (trace_sample_spec _ _ _ H) as (_ & _ & Hl & _ & _ & Hd & _).
  unfold access_data. rewrite Hl, Hd. destruct (alookup name (tr_data t)); [|reflexivity].
  destruct (dedup_Z L []) eqn:E; [exfalso; exact (dedup_Z_nonempty L Hne E)|]. reflexivity.
Qed.

(** indices given to a later sample-at refer to the original trace *)
Lemma clear_caches_idem v : clear_caches (clear_caches v) = clear_caches v.
Proof. unfold clear_caches. rewrite map_map. reflexivity. Qed.

Theorem resample_refers_to_original t L t' L2 :
  trace_sample t L = Some t' -> trace_sample t' L2 = trace_sample t L2.
Proof.
  intros H. destruct (trace_sample_spec _ _ _ H) as (_ & _ & _ & _ & Ha & Hd & Ht & Hr & Hs & Hw & Hv & _).
  assert (Hf : tr_file t' = tr_file t).
  { unfold trace_sample in H. destruct (map_opt _ _); [|discriminate]. injection H as <-. reflexivity. }
  unfold trace_sample. rewrite Ha, Hd, Ht, Hr, Hs, Hw, Hv, Hf, clear_caches_idem. reflexivity.
Qed.

(** * trim-trace only lowers MAX-INDEX *)
Theorem trace_trim_spec t m :
  tr_max (trace_trim t m) = Z.min m (tr_max t) /\ tr_index (trace_trim t m) = tr_index t /\
  tr_ts (trace_trim t m) = tr_ts t /\ tr_lookup (trace_trim t m) = tr_lookup t /\
  tr_data (trace_trim t m) = tr_data t /\ tr_virt (trace_trim t m) = tr_virt t /\
  (forall name i, access_data (trace_trim t m) name i = access_data t name i).
Proof. repeat split. Qed.

(** * the container *)
Lemma ssplit_first_app c (a b : string) :
  scontains_char c a = false -> ssplit_first c (a ++ String c b) = Some (a, b).
Proof.
  induction a as [|x a IH]; cbn [scontains_char append ssplit_first]; intros H.
  - rewrite Ascii.eqb_refl. reflexivity.
  - apply orb_false_iff in H as [H1 H2]. rewrite H1. rewrite (IH H2). reflexivity.
Qed.

Lemma has_sep_app (a b : string) : has_sep (a ++ String "^"%char b) = true.
Proof. unfold has_sep. induction a as [|x a IH]; cbn [append scontains_char]; [rewrite Ascii.eqb_refl; reflexivity|]. rewrite IH. apply orb_true_r. Qed.

(** tid^name addresses the signal [name] of trace [tid], whatever else is loaded *)
Theorem qualified_address c tid name t :
  has_sep tid = false -> alookup tid (c_traces c) = Some t ->
  address c (tid ++ String "^"%char name) = AOne t name.
Proof.
  intros Hs Hl. unfold address. rewrite has_sep_app. cbn [negb andb].
  rewrite andb_false_r. rewrite (ssplit_first_app _ _ _ Hs), Hl. reflexivity.
Qed.

(** with exactly that trace loaded, the unqualified name addresses the same signal *)
Theorem single_address tid t name stack :
  has_sep name = false -> address (mkCont [(tid, t)] 1 stack) name = AOne t name.
Proof. intros H. unfold address. cbn [c_ntraces c_traces]. rewrite H. reflexivity. Qed.

(** the number of loaded traces only matters for the listing specials *)
Lemma tsv_count_irrelevant n m t name scope :
  String.eqb name "SIGNALS" = false -> String.eqb name "VIRTUAL-SIGNALS" = false ->
  trace_signal_value n t name scope = trace_signal_value m t name scope.
Proof. intros H1 H2. unfold trace_signal_value. rewrite H1, H2. reflexivity. Qed.

Theorem qualified_equals_single c tid name t scope stack :
  has_sep tid = false -> has_sep name = false -> alookup tid (c_traces c) = Some t ->
  String.eqb name "SIGNALS" = false -> String.eqb name "VIRTUAL-SIGNALS" = false ->
  cont_signal_value c (tid ++ String "^"%char name) scope =
  cont_signal_value (mkCont [(tid, t)] 1 stack) name scope /\
  cont_signal_width c (tid ++ String "^"%char name) = cont_signal_width (mkCont [(tid, t)] 1 stack) name /\
  cont_contains c (tid ++ String "^"%char name) = cont_contains (mkCont [(tid, t)] 1 stack) name.
Proof.
  intros Ht Hn Hl H1 H2. unfold cont_signal_value, cont_signal_width, cont_contains.
  rewrite (qualified_address _ _ _ _ Ht Hl), (single_address _ _ _ _ Hn). cbn [c_traces].
  repeat split. f_equal. apply tsv_count_irrelevant; assumption.
Qed.

(** the loaded set: count = number of usable traces, over every history of container operations *)
Inductive cop : Type :=
  | CAdd (tid : string) (t : trace)      (* the success path of load (tid not in use) *)
  | CUnload (tid : string)
  | CStep (n : Z) (tid : option string).

Definition apply_cop (c : container) (o : cop) : container :=
  match o with
  | CAdd tid t => if amem tid (c_traces c) then c else cont_add c tid t
  | CUnload tid => cont_unload c tid
  | CStep n tid => match cont_step c n tid with Some (c', _) => c' | None => c end
  end.

Definition count_ok (c : container) : Prop := c_ntraces c = zlen (c_traces c).

Lemma aset_length_new {V} k (v : V) l : amem k l = false -> List.length (aset k v l) = S (List.length l).
Proof.
  unfold amem. induction l as [|[k' v'] l IH]; cbn [aset alookup List.length]; [reflexivity|].
  destruct (String.eqb k k'); [discriminate|]. intros H. cbn [List.length]. f_equal. apply IH. exact H.
Qed.
Lemma aset_length_old {V} k (v : V) l : amem k l = true -> List.length (aset k v l) = List.length l.
Proof.
  unfold amem. induction l as [|[k' v'] l IH]; cbn [aset alookup List.length]; [discriminate|].
  destruct (String.eqb k k'); [reflexivity|]. intros H. cbn [List.length]. f_equal. apply IH. exact H.
Qed.
Lemma adel_length {V} k (l : list (string * V)) : amem k l = true -> S (List.length (adel k l)) = List.length l.
Proof.
  unfold amem. induction l as [|[k' v'] l IH]; cbn [adel alookup List.length]; [discriminate|].
  destruct (String.eqb k k'); [reflexivity|]. intros H. cbn [List.length]. f_equal. apply IH. exact H.
Qed.
Lemma step_all_length ts n : List.length (fst (step_all ts n)) = List.length ts.
Proof.
  induction ts as [|[k t] ts IH]; cbn [step_all]; [reflexivity|].
  destruct (trace_step t n). destruct (step_all ts n). cbn [fst List.length] in *. f_equal. exact IH.
Qed.

Theorem loaded_count_invariant : forall ops c, count_ok c -> count_ok (fold_left apply_cop ops c).
Proof.
  induction ops as [|o ops IH]; intros c H; cbn [fold_left]; [exact H|]. apply IH. clear IH.
  unfold count_ok in *. destruct o as [tid t|tid|n tid]; cbn [apply_cop].
  - destruct (amem tid (c_traces c)) eqn:E; [exact H|].
    unfold cont_add. cbn [c_ntraces c_traces]. unfold zlen in *. rewrite aset_length_new by exact E. lia.
  - unfold cont_unload. destruct (amem tid (c_traces c)) eqn:E; [|exact H].
    cbn [c_ntraces c_traces]. unfold zlen in *. pose proof (adel_length tid (c_traces c) E). lia.
  - destruct (cont_step c n tid) as [[c' e]|] eqn:E; [|exact H].
    unfold cont_step in E.
    assert (Hall : forall ts e0, step_all (c_traces c) n = (ts, e0) -> zlen ts = zlen (c_traces c)).
    { intros ts e0 Hs. pose proof (step_all_length (c_traces c) n) as Hl. rewrite Hs in Hl. unfold zlen. cbn [fst] in Hl. congruence. }
    destruct tid as [id|].
    + destruct (String.eqb id "").
      * destruct (step_all (c_traces c) n) as [ts e0] eqn:Es. injection E as <- _.
        cbn [with_traces c_ntraces c_traces]. rewrite (Hall _ _ eq_refl). exact H.
      * destruct (alookup id (c_traces c)) as [t|] eqn:El; [|discriminate]. destruct (trace_step t n).
        injection E as <- _. cbn [with_traces c_ntraces c_traces]. unfold zlen in *.
        rewrite aset_length_old by (unfold amem; rewrite El; reflexivity). exact H.
    + destruct (step_all (c_traces c) n) as [ts e0] eqn:Es. injection E as <- _.
      cbn [with_traces c_ntraces c_traces]. rewrite (Hall _ _ eq_refl). exact H.
Qed.

(** loading or unloading one trace leaves every other trace as it was *)
Lemma alookup_adel_other {V} k k' (l : list (string * V)) : String.eqb k k' = false -> alookup k (adel k' l) = alookup k l.
Proof.
  intros Hne. induction l as [|[k2 v2] l IH]; cbn [adel alookup]; [reflexivity|].
  destruct (String.eqb k' k2) eqn:E.
  - apply String.eqb_eq in E. subst k2. rewrite Hne. reflexivity.
  - cbn [alookup]. destruct (String.eqb k k2); [reflexivity|exact IH].
Qed.

Theorem load_unload_isolated c tid t k :
  k <> tid ->
  alookup k (c_traces (cont_add c tid t)) = alookup k (c_traces c) /\
  alookup k (c_traces (cont_unload c tid)) = alookup k (c_traces c).
Proof.
  intros Hne. assert (E : String.eqb k tid = false) by (apply String.eqb_neq; exact Hne). split.
  - unfold cont_add. cbn [c_traces]. apply alookup_aset_other. exact E.
  - unfold cont_unload. destruct (amem tid (c_traces c)); [|reflexivity]. cbn [c_traces]. apply alookup_adel_other. exact E.
Qed.

(** a load that fails leaves everything as it was; an unsupported extension only prints a message *)
Theorem failed_loads_change_nothing file tid st :
  (amem tid (c_traces (st_cont st)) = true -> load_m file (Some tid) st = Er EEval st) /\
  (amem tid (c_traces (st_cont st)) = false ->
   (String.eqb (file_ext file) ".vcd" || String.eqb (file_ext file) ".csv") = true ->
   alookup file (st_fs st) = None -> load_m file (Some tid) st = Er EOther st) /\
  (amem tid (c_traces (st_cont st)) = false ->
   (String.eqb (file_ext file) ".vcd" || String.eqb (file_ext file) ".csv") = false ->
   String.eqb (file_ext file) ".fst" = false ->
   exists st', load_m file (Some tid) st = Ok tt st' /\ st_cont st' = st_cont st /\ st_frames st' = st_frames st).
Proof.
  unfold load_m, bind, get_st. repeat split.
  - intros H. rewrite H. reflexivity.
  - intros H He Hf. rewrite H. cbn [negb assert ret]. rewrite He, Hf. reflexivity.
  - intros H He Hf. rewrite H. cbn [negb assert ret]. rewrite He, Hf. eexists. split; [reflexivity|]. split; reflexivity.
Qed.
