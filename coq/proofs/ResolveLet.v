(** ResolveLet.v — T-res for programs built from literals, variables, the read-only operators, set and let nested to
    ANY depth (C07): the resolved program and the program with every name looked up dynamically give the same
    result and the same final state, for every fuel — in particular an assignment or a use any number of frames below
    its binding, with or without intervening shadowing, reaches the same binding.  Same structure as the other
    whole-fragment theorems: a relation on computations, one rule per combinator, one congruence lemma per operator,
    induction on the fuel; the binder cases carry the invariant "the static scope stack describes the dynamic frame
    chain" through the new frame. *)
From WalModel Require Import Eval Passes.
From WalModel.proofs Require Import VcdProofs Balanced ScopeProofs EnvProofs ReadOnly.
Local Open Scope Z_scope.


(** * frames: keys, parents, and states that keep them *)
Lemma amem_keys {A} x (l : list (string * A)) : amem x l = smem x (map fst l).
Proof.
  unfold amem. induction l as [|[k v] l IH]; [reflexivity|]. cbn [alookup map fst smem].
  destruct (String.eqb x k); [reflexivity|exact IH].
Qed.
Lemma smem_app x l1 l2 : smem x (l1 +++ l2) = smem x l1 || smem x l2.
Proof. induction l1 as [|y l1 IH]; [reflexivity|]. cbn [app smem]. rewrite IH, orb_assoc. reflexivity. Qed.
Lemma smem_dedup x : forall l seen, smem x (dedup_str l seen) = smem x l && negb (smem x seen).
Proof.
  induction l as [|y l IH]; intros seen; [reflexivity|]. cbn [dedup_str smem].
  destruct (smem y seen) eqn:Ey.
  - rewrite IH. destruct (String.eqb_spec x y) as [->|Hne]; [rewrite Ey; cbn; rewrite andb_false_r; reflexivity|reflexivity].
  - cbn [smem]. rewrite IH. cbn [smem]. destruct (String.eqb_spec x y) as [->|Hne]; [rewrite Ey; reflexivity|].
    cbn [orb]. destruct (smem x l); [|reflexivity]. cbn [andb]. reflexivity.
Qed.
Lemma smem_dedup0 x l : smem x (dedup_str l []) = smem x l.
Proof. rewrite smem_dedup. cbn [smem negb]. apply andb_true_r. Qed.

(** every frame of st is still there in st' with the same parent and the same names *)
Definition shape_le (st st' : state) : Prop :=
  forall id f, get_frame st id = Some f ->
    exists f', get_frame st' id = Some f' /\ f_parent f' = f_parent f /\ forall x, amem x (f_binds f') = amem x (f_binds f).
Lemma shape_le_refl st : shape_le st st.
Proof. intros id f H. exists f. repeat split. exact H. Qed.
Lemma shape_le_trans a b c : shape_le a b -> shape_le b c -> shape_le a c.
Proof.
  intros H1 H2 id f Hf. destruct (H1 id f Hf) as (f1 & E1 & P1 & K1). destruct (H2 id f1 E1) as (f2 & E2 & P2 & K2).
  exists f2. split; [exact E2|]. split; [congruence|]. intros x. rewrite K2. apply K1.
Qed.
Lemma hop_le st st' : shape_le st st' -> forall j id y, hop st id j = Some y -> hop st' id j = Some y.
Proof.
  intros Hs. induction j as [|j IH]; intros id y H; [exact H|]. cbn [hop] in *.
  destruct (get_frame st id) as [f|] eqn:Ef; [|discriminate]. destruct (Hs id f Ef) as (f' & E' & P' & _). rewrite E', P'.
  destruct (f_parent f) as [p|]; [apply IH, H|discriminate].
Qed.

(** the static scope stack describes the dynamic chain, and the frames on the chain exist *)
Definition chain_ok (st : state) (sc : list (list string)) : Prop :=
  forall j scj, nth_error sc j = Some scj ->
    exists fj f, hop st (st_cur st) j = Some fj /\ get_frame st fj = Some f /\ forall x, amem x (f_binds f) = smem x scj.
Lemma chain_ok_matches st sc : chain_ok st sc -> chain_matches st sc.
Proof.
  intros H j scj Hn. destruct (H j scj Hn) as (fj & f & Hh & Hf & Hb). exists fj. split; [exact Hh|].
  intros x. unfold binds. rewrite Hf. apply Hb.
Qed.
Lemma chain_ok_le st st' sc : chain_ok st sc -> st_cur st' = st_cur st -> shape_le st st' -> chain_ok st' sc.
Proof.
  intros H Hc Hs j scj Hn. destruct (H j scj Hn) as (fj & f & Hh & Hf & Hb). destruct (Hs fj f Hf) as (f' & E' & _ & K').
  exists fj, f'. rewrite Hc. split; [apply (hop_le st st' Hs), Hh|]. split; [exact E'|]. intros x. rewrite K'. apply Hb.
Qed.

Lemma get_frame_put_same st id f : (id < List.length (st_frames st))%nat -> get_frame (put_frame st id f) id = Some f.
Proof. intros H. unfold get_frame, put_frame. cbn [upd_frames st_frames]. apply replace_frame_nth, H. Qed.
Lemma get_frame_put_other st id f j : j <> id -> get_frame (put_frame st id f) j = get_frame st j.
Proof. intros H. unfold get_frame, put_frame. cbn [upd_frames st_frames]. apply replace_frame_other, H. Qed.
Lemma get_frame_lt st id f : get_frame st id = Some f -> (id < List.length (st_frames st))%nat.
Proof. unfold get_frame. intros H. apply nth_error_Some. rewrite H. discriminate. Qed.

(** replacing a frame by one with the same parent and the same names *)
Lemma shape_le_put st id f f2 : get_frame st id = Some f -> f_parent f2 = f_parent f ->
  (forall x, amem x (f_binds f2) = amem x (f_binds f)) -> shape_le st (put_frame st id f2).
Proof.
  intros Hf Hp Hk j g Hg. destruct (Nat.eq_dec j id) as [->|Hne].
  - rewrite Hf in Hg. injection Hg as <-. exists f2. split; [apply get_frame_put_same, (get_frame_lt _ _ _ Hf)|]. split; assumption.
  - exists g. rewrite (get_frame_put_other _ _ _ _ Hne). repeat split. exact Hg.
Qed.
Lemma amem_aset_bound {A} x k (v : A) l : amem k l = true -> amem x (aset k v l) = amem x l.
Proof.
  intros Hk. destruct (String.eqb_spec x k) as [->|Hne]; [rewrite amem_aset_same, Hk; reflexivity|].
  apply amem_aset_other. apply String.eqb_neq. exact Hne.
Qed.

Lemma replace_frame_twice : forall l id f1 f2, replace_frame (replace_frame l id f1) id f2 = replace_frame l id f2.
Proof. induction l as [|x l IH]; intros id f1 f2; [reflexivity|]. destruct id; cbn [replace_frame]; [reflexivity|rewrite IH; reflexivity]. Qed.
Lemma replace_frame_same : forall l id f, nth_error l id = Some f -> replace_frame l id (mkFrame (f_binds f) (f_parent f)) = l.
Proof.
  induction l as [|x l IH]; intros id f H; [reflexivity|]. destruct id; cbn [nth_error replace_frame] in *.
  - injection H as ->. destruct f; reflexivity.
  - rewrite (IH id f H). reflexivity.
Qed.
Lemma put_frame_same st id f : get_frame st id = Some f -> put_frame st id (mkFrame (f_binds f) (f_parent f)) = st.
Proof.
  intros H. unfold put_frame, get_frame in *. rewrite (replace_frame_same _ _ _ H). destruct st; reflexivity.
Qed.
Lemma put_put st id f1 f2 : put_frame (put_frame st id f1) id f2 = put_frame st id f2.
Proof. unfold put_frame. cbn [upd_frames st_frames]. rewrite replace_frame_twice. reflexivity. Qed.
Lemma hop_upd_cur x : forall j st id, hop (upd_cur st x) id j = hop st id j.
Proof.
  induction j as [|j IH]; intros st id; [reflexivity|]. cbn [hop]. change (get_frame (upd_cur st x) id) with (get_frame st id).
  destruct (get_frame st id) as [f|]; [|reflexivity]. destruct (f_parent f); [apply IH|reflexivity].
Qed.
Lemma parent_kept st st' id f : (exists extra, parents st' = parents st +++ extra) -> get_frame st id = Some f ->
  exists f', get_frame st' id = Some f' /\ f_parent f' = f_parent f.
Proof.
  intros [extra He] Hf. unfold parents in He. unfold get_frame in *.
  assert (Hn : nth_error (map f_parent (st_frames st')) id = Some (f_parent f)).
  { rewrite He. rewrite nth_error_app1 by (rewrite map_length; apply nth_error_Some; rewrite Hf; discriminate).
    rewrite nth_error_map, Hf. reflexivity. }
  rewrite nth_error_map in Hn. destruct (nth_error (st_frames st') id) as [f'|]; [|discriminate]. exists f'. split; [reflexivity|].
  cbn [option_map] in Hn. congruence.
Qed.

Section V.
  (** the variable names of the program: none is an alias or a signal name (the quantifier of C07) *)
  Variable V : list string.

  Definition Inv (sc : list (list string)) (st : state) : Prop :=
    novirt st /\ chain_ok st sc /\ (List.length sc <= List.length (st_frames st))%nat /\
    forall n, smem n V = true -> alookup n (st_aliases st) = None /\ cont_contains (st_cont st) n = Some false.

  (** the two computations agree on every state satisfying the invariant, which is kept, in a balanced context *)
  Definition eqI {A} (sc : list (list string)) (m1 m2 : M A) : Prop :=
    forall st, Inv sc st -> m1 st = m2 st /\ forall a st', m2 st = Ok a st' -> Inv sc st' /\ R st st'.

  Lemma eqI_pure {A} sc (m : M A) : pure m -> eqI sc m m.
  Proof.
    intros Hp st Hi. split; [reflexivity|]. intros a st' H. pose proof (Hp _ _ _ (proj1 Hi) H) as ->. split; [exact Hi|apply R_refl].
  Qed.
  Lemma eqI_bind {A B} sc (m1 m2 : M A) (k1 k2 : A -> M B) :
    eqI sc m1 m2 -> (forall a, eqI sc (k1 a) (k2 a)) -> eqI sc (bind m1 k1) (bind m2 k2).
  Proof.
    intros Hm Hk st Hi. destruct (Hm st Hi) as [E Hpost]. unfold bind. rewrite E.
    destruct (m2 st) as [a st1| | |] eqn:E2; try (split; [reflexivity|intros; discriminate]).
    destruct (Hpost a st1 eq_refl) as [Hi1 HR1]. destruct (Hk a st1 Hi1) as [Ek Hpk]. split; [exact Ek|].
    intros b st' H. destruct (Hpk b st' H) as [Hi2 HR2]. split; [exact Hi2|eapply R_trans; eassumption].
  Qed.
  Lemma eqI_get {A} sc (K1 K2 : state -> M A) : (forall s0, eqI sc (K1 s0) (K2 s0)) -> eqI sc (bind get_st K1) (bind get_st K2).
  Proof. intros H st Hi. unfold bind, get_st. apply (H st st Hi). Qed.

  Ltac eq_pure := apply eqI_pure; first [solve [auto with pureb] | solve [solve_pure]].
  Ltac eq_step :=
    lazymatch goal with
    | |- eqI _ (bind get_st _) (bind get_st _) => apply eqI_get; intros ?
    | |- eqI _ (bind _ _) (bind _ _) => apply eqI_bind; [first [assumption | eq_pure] | intros ?]
    | |- eqI _ (match ?x with _ => _ end) (match ?x with _ => _ end) => destruct x
    | |- eqI _ (if ?b then _ else _) (if ?b then _ else _) => destruct b
    | |- eqI _ (let '(_, _) := ?x in _) (let '(_, _) := ?x in _) => destruct x
    | |- eqI _ ?m ?m => eq_pure
    end.
  Ltac solve_eq := repeat eq_step.

  (** the invariant moves to a state that keeps the frames' shape *)
  Lemma inv_transfer sc st st' : Inv sc st -> st_cur st' = st_cur st -> shape_le st st' ->
    st_cont st' = st_cont st -> st_aliases st' = st_aliases st -> (List.length (st_frames st) <= List.length (st_frames st'))%nat ->
    Inv sc st'.
  Proof.
    intros (Hn & Hc & Hl & Hv) Hcur Hs Hcont Hal Hlen. split; [|split; [|split]].
    - unfold novirt. rewrite Hcont. exact Hn.
    - apply (chain_ok_le st st' sc Hc Hcur Hs).
    - lia.
    - intros n Hn'. rewrite Hal, Hcont. apply Hv, Hn'.
  Qed.

  Lemma steps_lt sc n k : scope_steps sc n O = Some k -> (k < List.length sc)%nat.
  Proof.
    intros H. destruct (scope_steps_spec _ _ _ _ H) as (j & Hj & (s0 & Hn & _) & _). cbn [Nat.add] in Hj. subst j.
    apply nth_error_Some. rewrite Hn. discriminate.
  Qed.

  (** a resolved name and the same name looked up dynamically *)
  Lemma eq_symbol ev sc n k : smem n V = true -> scope_steps sc n O = Some k ->
    eqI sc (eval_symbol ev n (Some k)) (eval_symbol ev n None).
  Proof.
    intros Hn Hs st Hi. pose proof Hi as (Hnv & Hc & Hl & Hv). destruct (Hv n Hn) as [Ha Hcc].
    destruct (resolution_agrees_with_dynamic_lookup ev sc st n k (chain_ok_matches _ _ Hc) Hs) as [E _]; [pose proof (steps_lt _ _ _ Hs); lia|exact Ha|exact Hcc|].
    split; [exact E|]. intros a st' H. pose proof (pure_eval_symbol ev n None _ _ _ Hnv H) as ->. split; [exact Hi|apply R_refl].
  Qed.

  (** storing into the frame that binds the name: the shape stays *)
  Lemma inv_store sc st fid f kn v : Inv sc st -> get_frame st fid = Some f -> amem kn (f_binds f) = true ->
    Inv sc (put_frame st fid (mkFrame (aset kn v (f_binds f)) (f_parent f))) /\
    R st (put_frame st fid (mkFrame (aset kn v (f_binds f)) (f_parent f))).
  Proof.
    intros Hi Hf Hk. split.
    - apply (inv_transfer sc st _ Hi); try reflexivity.
      + apply (shape_le_put st fid f _ Hf); [reflexivity|]. intros x. cbn [f_binds]. apply amem_aset_bound, Hk.
      + unfold put_frame. cbn [upd_frames st_frames]. rewrite replace_frame_length. lia.
    - apply (R_put_frame st fid f _ Hf). reflexivity.
  Qed.

  (** * congruence: the read-only operators use their operands only through the evaluator *)
  Section Cong.
    Variable ev : val -> M val.
    Variable sc : list (list string).
    Definition rel (a' a : val) : Prop := eqI sc (ev a') (ev a).
    Hint Resolve pure_last_or pure_arg0 pure_contains_m pure_py_str pure_py_sum : pureb.

    Lemma forall2_len {A B} (P : A -> B -> Prop) l l' : Forall2 P l l' -> List.length l = List.length l'.
    Proof. induction 1 as [|a a' r r' _ _ IH]; cbn [List.length]; [reflexivity|rewrite IH; reflexivity]. Qed.

    Lemma eq_eval_args args' args : Forall2 rel args' args -> eqI sc (eval_args ev args') (eval_args ev args).
    Proof.
      unfold eval_args. induction 1 as [|a' a r' r Ha Hr IH]; cbn [mapM]; [eq_pure|].
      apply eqI_bind; [exact Ha|intros v]. apply eqI_bind; [exact IH|intros vs; eq_pure].
    Qed.

    Section Args.
      Variables args' args : list val.
      Hypothesis H : Forall2 rel args' args.
      Lemma len_eq : List.length args' = List.length args. Proof. apply (forall2_len _ _ _ H). Qed.
      Lemma zlen_eq : zlen args' = zlen args. Proof. unfold zlen. rewrite len_eq. reflexivity. Qed.
      Lemma Hea : eqI sc (eval_args ev args') (eval_args ev args). Proof. apply eq_eval_args, H. Qed.
      Ltac go := pose proof Hea as Hea'; solve_eq.

      Lemma cong_not : eqI sc (op_not ev args') (op_not ev args). Proof. unfold op_not. go. Qed.
      Lemma cong_eq neg : eqI sc (op_eq ev neg args') (op_eq ev neg args). Proof. unfold op_eq. go. Qed.
      Lemma cong_cmp t : eqI sc (op_cmp ev t args') (op_cmp ev t args). Proof. unfold op_cmp. rewrite len_eq. go. Qed.
      Lemma cong_add : eqI sc (op_add ev args') (op_add ev args). Proof. unfold op_add. go. Qed.
      Lemma cong_sub : eqI sc (op_sub ev args') (op_sub ev args). Proof. unfold op_sub. go. Qed.
      Lemma cong_mul : eqI sc (op_mul ev args') (op_mul ev args). Proof. unfold op_mul. go. Qed.
      Lemma cong_div : eqI sc (op_div ev args') (op_div ev args). Proof. unfold op_div. try rewrite len_eq. go. Qed.
      Lemma cong_exp : eqI sc (op_exp ev args') (op_exp ev args). Proof. unfold op_exp. go. Qed.
      Lemma cong_mod : eqI sc (op_mod ev args') (op_mod ev args). Proof. unfold op_mod. rewrite len_eq. go. Qed.
      Lemma cong_bitwise f : eqI sc (op_bitwise ev f args') (op_bitwise ev f args). Proof. unfold op_bitwise. go. Qed.
      Lemma cong_slice : eqI sc (op_slice ev args') (op_slice ev args). Proof. unfold op_slice. rewrite zlen_eq. go. Qed.
      Lemma cong_do : eqI sc (op_do ev args') (op_do ev args).
      Proof.
        unfold op_do. pose proof Hea as E. destruct H as [|a' a r' r Ha Hr]; [eq_pure|].
        apply eqI_bind; [exact E|intros; eq_pure].
      Qed.
    End Args.

    Lemma cong_and_loop args' args : Forall2 rel args' args -> eqI sc (and_loop ev args') (and_loop ev args).
    Proof.
      induction 1 as [|a' a r' r Ha Hr IH]; cbn [and_loop]; [eq_pure|].
      apply eqI_bind; [exact Ha|intros v]. apply eqI_get. intros st. destruct (truthy st v); [exact IH|eq_pure].
    Qed.
    Lemma cong_or_loop args' args : Forall2 rel args' args -> eqI sc (or_loop ev args') (or_loop ev args).
    Proof.
      induction 1 as [|a' a r' r Ha Hr IH]; cbn [or_loop]; [eq_pure|].
      apply eqI_bind; [exact Ha|intros v]. apply eqI_get. intros st. destruct (truthy st v); [eq_pure|exact IH].
    Qed.
    Lemma cong_and args' args : Forall2 rel args' args -> eqI sc (op_and ev args') (op_and ev args).
    Proof. intros H. unfold op_and. rewrite (len_eq _ _ H). apply eqI_bind; [eq_pure|intros _; apply cong_and_loop, H]. Qed.
    Lemma cong_or args' args : Forall2 rel args' args -> eqI sc (op_or ev args') (op_or ev args).
    Proof. intros H. unfold op_or. rewrite (len_eq _ _ H). apply eqI_bind; [eq_pure|intros _; apply cong_or_loop, H]. Qed.
    Lemma cong_if args' args : Forall2 rel args' args -> eqI sc (op_if ev args') (op_if ev args).
    Proof.
      intros H. unfold op_if. rewrite (len_eq _ _ H). apply eqI_bind; [eq_pure|intros _].
      destruct H as [|c' c r' r Hc Hr]; [eq_pure|]. destruct Hr as [|t' t r2' r2 Ht Hr2]; [eq_pure|].
      apply eqI_bind; [exact Hc|intros v]. apply eqI_get. intros st. destruct (truthy st v); [exact Ht|].
      destruct Hr2 as [|e' e r3' r3 He Hr3]; [eq_pure|]. destruct Hr3; [exact He|eq_pure].
    Qed.

    (** ** loops and printing *)
    Lemma cong_while_loop c' c body' body : rel c' c -> Forall2 rel body' body ->
      forall n last, eqI sc (while_loop ev n c' body' last) (while_loop ev n c body last).
    Proof.
      intros Hc Hb. induction n as [|n IH]; intros last; cbn [while_loop].
      - intros st _. split; [reflexivity|intros; discriminate].
      - apply eqI_bind; [exact Hc|intros v]. apply eqI_get. intros st. destruct (truthy st v); [|eq_pure].
        apply eqI_bind; [apply eq_eval_args, Hb|intros vs]. apply eqI_bind; [eq_pure|intros r]. apply IH.
    Qed.
    Lemma cong_while n args' args : Forall2 rel args' args -> eqI sc (op_while n ev args') (op_while n ev args).
    Proof.
      intros H. unfold op_while. rewrite (zlen_eq _ _ H). apply eqI_bind; [eq_pure|intros _].
      destruct H as [|c' c r' r Hc Hr]; [eq_pure|]. apply cong_while_loop; assumption.
    Qed.

    Lemma pure_printable v : pure (printable v).
    Proof. intros st a st' _ H. unfold printable in H. match type of H with match ?x with _ => _ end = _ => destruct x end; [|discriminate]. injection H as _ <-. reflexivity. Qed.
    Lemma pure_to_text v : pure (to_text v).
    Proof. unfold to_text. destruct v; try apply pure_ret; apply pure_printable. Qed.
    Lemma eq_emit s : eqI sc (emit s) (emit s).
    Proof.
      intros st Hi. split; [reflexivity|]. intros a st' H. unfold emit, modify in H. injection H as _ <-. split.
      - apply (inv_transfer sc st _ Hi); try reflexivity. intros id f Hf. exists f. repeat split. exact Hf.
      - apply R_upd_out.
    Qed.
    Lemma cong_print args' args : Forall2 rel args' args -> eqI sc (op_print ev args') (op_print ev args).
    Proof.
      intros H. unfold op_print. apply eqI_bind; [apply eq_eval_args, H|intros vs].
      apply eqI_bind; [apply eqI_pure, pure_mapM_all; intros; apply pure_to_text|intros ss].
      apply eqI_bind; [apply eq_emit|intros _; eq_pure].
    Qed.

    (** ** assignment *)
    Definition set_go : list val -> val -> M val :=
      fix go (l : list val) (last : val) : M val :=
        match l with
        | [] => ret last
        | a :: r =>
            match a with
            | VList true [k; e] =>
                match k with
                | VSym kn steps =>
                    v <- ev e ;;
                    st <- get_st ;;
                    match steps with
                    | Some n =>
                        match hop st (st_cur st) n with
                        | None => fail EOther
                        | Some fid =>
                            match get_frame st fid with
                            | Some f => match f_binds f with [] => fail EEval | _ => frame_store fid kn v end
                            | None => fail EOther
                            end
                        end
                    | None =>
                        match lookup_frame st (st_cur st) kn with
                        | Some fid => frame_store fid kn v
                        | None => fail EEval
                        end
                    end ;;;
                    go r v
                | _ => fail EEval
                end
            | VList true [] => fail EEval
            | VList true _ => fail EEval
            | _ => fail EEval
            end
        end.
    Lemma op_set_unfold args : op_set ev args = (assert (negb (Nat.eqb (List.length args) 0)) ;;; set_go args VNone).
    Proof. reflexivity. Qed.

    (** a binding (x e): the target resolved or not, the value expressions related *)
    Definition brel (b' b : val) : Prop :=
      exists kn s e' e, b' = WL [VSym kn s; e'] /\ b = WL [VSym kn None; e] /\ smem kn V = true /\
                        (s = None \/ exists k, s = Some k /\ scope_steps sc kn O = Some k) /\ rel e' e.

    Lemma nonempty_binds {A} kn (l : list (string * A)) : amem kn l = true -> l <> [].
    Proof. intros H E. subst l. discriminate H. Qed.

    Definition store_at (steps : option nat) (kn : string) (v : val) (st : state) : M unit :=
      match steps with
      | Some n =>
          match hop st (st_cur st) n with
          | None => fail EOther
          | Some fid =>
              match get_frame st fid with
              | Some f => match f_binds f with [] => fail EEval | _ => frame_store fid kn v end
              | None => fail EOther
              end
          end
      | None =>
          match lookup_frame st (st_cur st) kn with
          | Some fid => frame_store fid kn v
          | None => fail EEval
          end
      end.

    Lemma eq_store_then {B} s kn v (k1 k2 : unit -> M B) : smem kn V = true ->
      (s = None \/ exists k, s = Some k /\ scope_steps sc kn O = Some k) ->
      (forall u, eqI sc (k1 u) (k2 u)) ->
      eqI sc (st <- get_st ;; store_at s kn v st ;;; k1 tt) (st <- get_st ;; store_at None kn v st ;;; k2 tt).
    Proof.
      intros Hkn Hs Hk st1 Hi1. unfold bind, get_st.
      pose proof Hi1 as (Hnv1 & Hc1 & Hl1 & Hv1). destruct (Hv1 kn Hkn) as [Ha Hcc].
      assert (Hdyn : forall fid, lookup_frame st1 (st_cur st1) kn = Some fid ->
                exists f, get_frame st1 fid = Some f /\ amem kn (f_binds f) = true).
      { intros fid Hlk. unfold lookup_frame in Hlk. destruct (lookup_innermost _ _ _ _ _ Hlk) as (k0 & _ & Hb & _).
        unfold binds in Hb. destruct (get_frame st1 fid) as [f|]; [|discriminate]. exists f. split; [reflexivity|exact Hb]. }
      assert (Estep : store_at s kn v st1 st1 = store_at None kn v st1 st1).
      { destruct Hs as [->|(k & -> & Hk')]; [reflexivity|]. unfold store_at.
        destruct (resolution_agrees_with_dynamic_lookup ev sc st1 kn k (chain_ok_matches _ _ Hc1) Hk') as [_ (fid & Hh & Hlk)];
          [pose proof (steps_lt _ _ _ Hk'); lia|exact Ha|exact Hcc|].
        rewrite Hh, Hlk. destruct (Hdyn fid Hlk) as (f & Hf & Hb). rewrite Hf.
        pose proof (nonempty_binds kn _ Hb) as Hne. destruct (f_binds f); [contradiction|reflexivity]. }
      rewrite Estep. unfold store_at.
      destruct (lookup_frame st1 (st_cur st1) kn) as [fid|] eqn:Hlk; [|split; [reflexivity|intros; discriminate]].
      destruct (Hdyn fid eq_refl) as (f & Hf & Hb). unfold frame_store. rewrite Hf.
      destruct (inv_store sc st1 fid f kn v Hi1 Hf Hb) as [Hi2 HR2].
      destruct (Hk tt _ Hi2) as [Eg Hpg]. split; [exact Eg|].
      intros a st' H. destruct (Hpg a st' H) as [Hi3 HR3]. split; [exact Hi3|]. eapply R_trans; [exact HR2|exact HR3].
    Qed.

    Lemma cong_set_go : forall bs' bs, Forall2 brel bs' bs -> forall last, eqI sc (set_go bs' last) (set_go bs last).
    Proof.
      induction 1 as [|b' b r' r (kn & s & e' & e & -> & -> & Hkn & Hs & He) Hr IH]; intros last; [cbn [set_go]; eq_pure|].
      cbn [set_go WL]. apply eqI_bind; [exact He|intros v].
      apply (eq_store_then s kn v (fun _ => set_go r' v) (fun _ => set_go r v) Hkn Hs). intros _. apply IH.
    Qed.

    Lemma cong_set bs' bs : Forall2 brel bs' bs -> eqI sc (op_set ev bs') (op_set ev bs).
    Proof.
      intros H. rewrite !op_set_unfold, (forall2_len _ _ _ H). apply eqI_bind; [eq_pure|intros _; apply cong_set_go, H].
    Qed.

    (** ** let *)
    Definition let_go (fid : nat) : list val -> M unit :=
      fix go (ps : list val) : M unit :=
        match ps with
        | [] => ret tt
        | p :: r =>
            match p with
            | VList true items =>
                match items with
                | [] => fail EOther
                | k :: _ =>
                    match k with
                    | VSym kn _ =>
                        assert (Nat.eqb (List.length items) 2) ;;;
                        match items with
                        | [_; e] => v <- ev e ;; env_define fid kn v ;;; go r
                        | _ => fail EEval
                        end
                    | _ => fail EEval
                    end
                end
            | _ => fail EEval
            end
        end.

    Definition let_run (body bs : list val) (st : state) : res val :=
      let save := st_cur st in
      let fid := List.length (st_frames st) in
      let st1 := upd_cur (upd_frames st (st_frames st +++ [mkFrame [] (Some save)])) fid in
      match let_go fid bs st1 with
      | Ok _ st2 =>
          match eval_args ev body st2 with
          | Ok vs st3 =>
              match last_or_index_error vs st3 with
              | Ok r st4 => Ok r (upd_cur st4 save)
              | Er e s => Er e s | Unm w => Unm w | Fuel => Fuel
              end
          | Er e s => Er e s | Unm w => Unm w | Fuel => Fuel
          end
      | Er e s => Er e s | Unm w => Unm w | Fuel => Fuel
      end.
    Lemma op_let_run body bs st : op_let ev (VList true bs :: body) st = let_run body bs st.
    Proof.
      unfold op_let, let_run. cbn [arg0 tl]. unfold bind at 1. cbn [ret]. unfold bind at 1. unfold get_st at 1.
      unfold bind at 1. unfold new_frame at 1. unfold bind at 1. unfold modify at 1. cbv zeta.
      fold (let_go (List.length (st_frames st))). unfold bind at 1.
      destruct (let_go _ bs _) as [u st2| | |]; reflexivity.
    Qed.

    (** a binding (x init) whose initialiser leaves the state alone *)
    Definition bind_ok (b : val) : Prop := exists kn s init, b = VList true [VSym kn s; init] /\ pure (ev init).
    Definition bnames (bs : list val) : list string :=
      flat_map (fun b => match b with VList _ (VSym kn _ :: _) => [kn] | _ => [] end) bs.

    Lemma let_go_spec fid : forall ps, Forall bind_ok ps -> forall st u st' f0, novirt st ->
      let_go fid ps st = Ok u st' -> get_frame st fid = Some f0 ->
      exists kvs, map fst kvs = bnames ps /\ st' = put_frame st fid (mkFrame (f_binds f0 +++ kvs) (f_parent f0)).
    Proof.
      induction 1 as [|p ps (kn & s & init & -> & Hp) Hps IH]; intros st u st' f0 Hnv H Hf.
      - cbn [let_go] in H. injection H as _ <-. exists []. split; [reflexivity|]. rewrite app_nil_r.
        symmetry. apply put_frame_same, Hf.
      - cbn [let_go List.length Nat.eqb assert] in H. unfold bind at 1 in H. cbn [ret] in H. unfold bind at 1 in H.
        destruct (ev init st) as [v st1| | |] eqn:Ei; try discriminate. pose proof (Hp _ _ _ Hnv Ei) as ->.
        unfold bind at 1 in H. unfold env_define at 1 in H. rewrite Hf in H.
        destruct (amem kn (f_binds f0)); [discriminate|].
        set (st1 := put_frame st fid (mkFrame (f_binds f0 +++ [(kn, v)]) (f_parent f0))) in *.
        assert (Hf1 : get_frame st1 fid = Some (mkFrame (f_binds f0 +++ [(kn, v)]) (f_parent f0))).
        { apply get_frame_put_same, (get_frame_lt _ _ _ Hf). }
        destruct (IH st1 u st' _ Hnv H Hf1) as (kvs & Hk & ->). exists ((kn, v) :: kvs). split.
        + cbn [map fst bnames flat_map app]. f_equal. exact Hk.
        + unfold st1. rewrite put_put. cbn [f_binds f_parent]. rewrite <- app_assoc. reflexivity.
    Qed.

    Lemma cong_let bs body' body : Forall bind_ok bs ->
      eqI (dedup_str (bnames bs) [] :: sc) (eval_args ev body') (eval_args ev body) ->
      eqI sc (op_let ev (VList true bs :: body')) (op_let ev (VList true bs :: body)).
    Proof.
      intros Hbs Hbody st Hi. rewrite !op_let_run. unfold let_run. cbv zeta.
      set (save := st_cur st). set (fid := List.length (st_frames st)).
      set (st1 := upd_cur (upd_frames st (st_frames st +++ [mkFrame [] (Some save)])) fid).
      destruct (let_go fid bs st1) as [u st2| | |] eqn:Eg; try (split; [reflexivity|intros; discriminate]).
      pose proof Hi as (Hnv & Hc & Hl & Hv).
      assert (Hf1 : get_frame st1 fid = Some (mkFrame [] (Some save))).
      { unfold get_frame, st1, fid. cbn [upd_cur upd_frames st_frames]. rewrite nth_error_app2 by lia. rewrite Nat.sub_diag. reflexivity. }
      destruct (let_go_spec fid bs Hbs st1 u st2 _ Hnv Eg Hf1) as (kvs & Hk & E2). cbn [f_binds f_parent app] in E2.
      (* old frames are untouched *)
      assert (Hold : forall id f, get_frame st id = Some f -> get_frame st2 id = Some f).
      { intros id f Hf. pose proof (get_frame_lt _ _ _ Hf) as Hlt. rewrite E2, get_frame_put_other by (unfold fid; lia).
        unfold get_frame, st1. cbn [upd_cur upd_frames st_frames]. rewrite nth_error_app1 by exact Hlt. exact Hf. }
      assert (Hs2 : shape_le st st2).
      { intros id f Hf. exists f. repeat split. apply (Hold id f Hf). }
      assert (Hnew : get_frame st2 fid = Some (mkFrame kvs (Some save))).
      { rewrite E2. apply get_frame_put_same. unfold st1, fid. cbn [upd_cur upd_frames st_frames]. rewrite app_length. cbn. lia. }
      assert (Hcur2 : st_cur st2 = fid) by (rewrite E2; reflexivity).
      assert (Hlen2 : List.length (st_frames st2) = S (List.length (st_frames st))).
      { rewrite E2. unfold put_frame. cbn [upd_frames st_frames]. rewrite replace_frame_length. unfold st1.
        cbn [upd_cur upd_frames st_frames]. rewrite app_length. cbn. lia. }
      assert (Hi2 : Inv (dedup_str (bnames bs) [] :: sc) st2).
      { split; [|split; [|split]].
        - unfold novirt. rewrite E2. exact Hnv.
        - intros j scj Hn. destruct j as [|j].
          + cbn [nth_error] in Hn. injection Hn as <-. exists fid, (mkFrame kvs (Some save)). rewrite Hcur2.
            split; [reflexivity|]. split; [exact Hnew|]. intros x. cbn [f_binds]. rewrite amem_keys, Hk, smem_dedup0. reflexivity.
          + cbn [nth_error] in Hn. destruct (Hc j scj Hn) as (fj & f & Hh & Hf & Hb). exists fj, f. rewrite Hcur2.
            split; [|split; [apply (Hold fj f Hf)|exact Hb]]. cbn [hop]. rewrite Hnew. cbn [f_parent].
            apply (hop_le st st2 Hs2), Hh.
        - cbn [List.length]. lia.
        - intros n Hn. rewrite E2. apply (Hv n Hn). }
      destruct (Hbody st2 Hi2) as [Eb Hpb]. rewrite Eb.
      destruct (eval_args ev body st2) as [vs st3| | |] eqn:E3; try (split; [reflexivity|intros; discriminate]).
      destruct (Hpb vs st3 eq_refl) as [Hi3 HR3].
      split; [reflexivity|]. intros a st' H.
      destruct (last_or_index_error vs st3) as [r st4| | |] eqn:E4; try discriminate.
      pose proof Hi3 as (Hnv3 & Hc3 & Hl3 & Hv3).
      pose proof (pure_last_or vs _ _ _ Hnv3 E4) as ->. injection H as _ <-.
      destruct HR3 as (Hcur3 & Hst3 & Hpar3).
      destruct (parent_kept st2 st3 fid _ Hpar3 Hnew) as (f3 & Hf3 & Hp3). cbn [f_parent] in Hp3.
      split.
      - split; [|split; [|split]].
        + exact Hnv3.
        + intros j scj Hn. destruct (Hc3 (S j) scj Hn) as (fj & f & Hh & Hf & Hb). exists fj, f.
          split; [|split; [exact Hf|exact Hb]]. cbn [upd_cur st_cur]. rewrite hop_upd_cur.
          rewrite Hcur3, Hcur2 in Hh. cbn [hop] in Hh. rewrite Hf3, Hp3 in Hh. exact Hh.
        + cbn [upd_cur st_frames]. cbn [List.length] in Hl3. lia.
        + exact Hv3.
      - split; [reflexivity|]. split.
        + cbn [upd_cur st_cont]. rewrite Hst3, E2. reflexivity.
        + destruct Hpar3 as [extra He]. exists (Some save :: extra). rewrite parents_upd_cur, He.
          assert (P2 : parents st2 = parents st +++ [Some save]).
          { rewrite E2. unfold parents, put_frame. cbn [upd_frames st_frames].
            rewrite (map_replace_frame _ _ (mkFrame [] (Some save)) (mkFrame kvs (Some save)) Hf1 eq_refl).
            unfold st1. cbn [upd_cur upd_frames st_frames]. rewrite map_app. reflexivity. }
          rewrite P2, <- app_assoc. reflexivity.
    Qed.
  End Cong.

  (** * the resolved program and the program *)
  (** the operators that use their operands only through the evaluator: the read-only ones, while, print *)
  Definition frag_op (o : op) : bool := ro_op o || match o with OWhile | OPrint => true | _ => false end.
  Definition lit (e : val) : bool := match e with VInt _ | VBool _ | VStr _ | VFloat _ => true | _ => false end.
  Definition let_binding (b : val) : bool := match b with VList true [VSym _ _; init] => is_ro init | _ => false end.

  (** [ann sc e' e]: e' is e with some names annotated by their distance in the static scope stack sc *)
  Inductive ann : list (list string) -> val -> val -> Prop :=
  | an_lit sc e : lit e = true -> ann sc e e
  | an_sym sc n : smem n V = true -> ann sc (VSym n None) (VSym n None)
  | an_res sc n k : smem n V = true -> scope_steps sc n O = Some k -> ann sc (VSym n (Some k)) (VSym n None)
  | an_op sc o args' args : frag_op o = true -> Forall2 (ann sc) args' args ->
      ann sc (VList true (VOp o :: args')) (VList true (VOp o :: args))
  | an_set sc bs' bs :
      Forall2 (fun b' b => exists kn s e' e, b' = VList true [VSym kn s; e'] /\ b = VList true [VSym kn None; e] /\ smem kn V = true /\
                                           (s = None \/ exists k, s = Some k /\ scope_steps sc kn O = Some k) /\ ann sc e' e) bs' bs ->
      ann sc (VList true (VOp OSet :: bs')) (VList true (VOp OSet :: bs))
  | an_let sc bs body' body : forallb let_binding bs = true ->
      Forall2 (ann (dedup_str (bnames bs) [] :: sc)) body' body ->
      ann sc (VList true (VOp OLet :: VList true bs :: body')) (VList true (VOp OLet :: VList true bs :: body)).

  Lemma forall2_impl {A B} (P Q : A -> B -> Prop) l l' : (forall a b, P a b -> Q a b) -> Forall2 P l l' -> Forall2 Q l l'.
  Proof. intros H. induction 1; constructor; auto. Qed.

  (** T-res for the fragment: for every fuel, on every state satisfying the invariant *)
  Theorem resolved_agrees lf f : forall sc e' e, ann sc e' e -> eqI sc (eval lf f e') (eval lf f e).
  Proof.
    induction f as [|f IH]; intros sc e' e Ha.
    { intros st _. split; [reflexivity|intros; discriminate]. }
    change (eval lf (S f) e') with (eval_body lf (fun x => eval lf f x) (fun x p => expand lf f x p) e').
    change (eval lf (S f) e) with (eval_body lf (fun x => eval lf f x) (fun x p => expand lf f x p) e).
    destruct Ha as [sc e Hl|sc n Hn|sc n k Hn Hk|sc o args' args Ho Hargs|sc bs' bs Hbs|sc bs body' body Hb Hbody].
    - destruct e; try discriminate Hl; cbn [eval_body]; apply eqI_pure, pure_ret.
    - cbn [eval_body]. apply eqI_pure, pure_eval_symbol.
    - cbn [eval_body]. apply (eq_symbol _ sc n k Hn Hk).
    - assert (HR : Forall2 (rel (fun x => eval lf f x) sc) args' args) by (apply (forall2_impl _ _ _ _ (IH sc) Hargs)).
      cbn [eval_body]. destruct o; try discriminate Ho; unfold dispatch;
        first [ apply cong_not | apply cong_eq | apply cong_cmp | apply cong_and | apply cong_or | apply cong_if | apply cong_do
              | apply cong_add | apply cong_sub | apply cong_mul | apply cong_div | apply cong_exp | apply cong_mod
              | apply cong_bitwise | apply cong_slice | apply cong_while | apply cong_print ]; exact HR.
    - cbn [eval_body]. unfold dispatch. apply cong_set.
      clear -Hbs IH.
      induction Hbs as [|b' b r' r (kn & s & e' & e & E1 & E2 & Hkn & Hs & He) Hr IHr]; constructor; [|exact IHr].
      exists kn, s, e', e. split; [exact E1|]. split; [exact E2|]. split; [exact Hkn|]. split; [exact Hs|]. apply (IH sc _ _ He).
    - cbn [eval_body]. unfold dispatch. apply cong_let.
      + apply Forall_forall. intros b Hin. rewrite forallb_forall in Hb. specialize (Hb b Hin).
        destruct b as [| | | | | | |w l| | | | |]; try discriminate Hb. destruct w; [|discriminate Hb].
        destruct l as [|k l]; [discriminate Hb|]. destruct k; try discriminate Hb. destruct l as [|init [|? ?]]; try discriminate Hb.
        eexists _, _, init. split; [reflexivity|]. apply ro_pure, Hb.
      + apply eq_eval_args. apply (forall2_impl _ _ _ _ (IH _) Hbody).
  Qed.

  (** * the pass produces such an annotation *)
  Definition set_binding (fr : val -> bool) (b : val) : bool :=
    match b with VList true [VSym kn None; e] => smem kn V && fr e | _ => false end.
  (** programs of the fragment, as written (no annotations) *)
  Fixpoint fragE (e : val) : bool :=
    match e with
    | VInt _ | VBool _ | VStr _ | VFloat _ => true
    | VSym n None => smem n V
    | VList true (VOp OLet :: VList true bs :: body) => forallb let_binding bs && forallb fragE body
    | VList true (VOp OSet :: bs) =>
        forallb (fun b => match b with VList true [VSym kn None; e] => smem kn V && fragE e | _ => false end) bs
    | VList true (VOp o :: args) => frag_op o && forallb fragE args
    | _ => false
    end.

  Lemma names_of_bindings bs : forallb let_binding bs = true ->
    map_opt (fun b => match b with VList _ (k :: _) => sym_name k | _ => None end) bs = Some (bnames bs).
  Proof.
    induction bs as [|b bs IH]; [reflexivity|]. cbn [forallb]. intros H. apply andb_prop in H as [Hb Hbs].
    cbn [map_opt bnames flat_map]. rewrite (IH Hbs).
    destruct b as [| | | | | | |w l| | | | |]; try discriminate Hb. destruct w; [|discriminate Hb].
    destruct l as [|k l]; [discriminate Hb|]. destruct k; try discriminate Hb. reflexivity.
  Qed.

  Section Lists.
    Variable rv : list (list string) -> val -> rres (val * list (list string)).
    Lemma rl_ann (P : val -> bool) (Q : list (list string) -> val -> val -> Prop) :
      (forall sc e e' sc', P e = true -> rv sc e = RsOk (e', sc') -> Q sc e' e /\ sc' = sc) ->
      forall l sc l' sc', forallb P l = true -> resolve_list rv sc l = RsOk (l', sc') -> Forall2 (Q sc) l' l /\ sc' = sc.
    Proof.
      intros Hrv. induction l as [|x r IH]; cbn [resolve_list]; intros sc l' sc' Hp H.
      - injection H as <- <-. split; [constructor|reflexivity].
      - cbn [forallb] in Hp. apply andb_prop in Hp as [Hx Hr].
        destruct (rv sc x) as [[x' sc1]|] eqn:Ex; [|discriminate].
        destruct (Hrv _ _ _ _ Hx Ex) as [Hq ->].
        destruct (resolve_list rv sc r) as [[r' sc2]|] eqn:Er; [|discriminate].
        destruct (IH _ _ _ Hr Er) as [Hf ->]. injection H as <- <-. split; [constructor; assumption|reflexivity].
    Qed.
  End Lists.

  Definition brel_ann (sc : list (list string)) (b' b : val) : Prop :=
    exists kn s e' e, b' = VList true [VSym kn s; e'] /\ b = VList true [VSym kn None; e] /\ smem kn V = true /\
                      (s = None \/ exists k, s = Some k /\ scope_steps sc kn O = Some k) /\ ann sc e' e.
  Definition is_set_binding (b : val) : bool :=
    match b with VList true [VSym kn None; e] => smem kn V && fragE e | _ => false end.

  Lemma default_ro f sc o rest e' sc' : frag_op o = true ->
    (forall sc e e' sc', fragE e = true -> resolve_vars f sc e = RsOk (e', sc') -> ann sc e' e /\ sc' = sc) ->
    forallb fragE rest = true ->
    resolve_vars (S f) sc (VList true (VOp o :: rest)) = RsOk (e', sc') -> ann sc e' (VList true (VOp o :: rest)) /\ sc' = sc.
  Proof.
    intros Ho IH1 Hf H.
    assert (Hd : resolve_vars (S f) sc (VList true (VOp o :: rest)) =
                 match resolve_list (resolve_vars f) sc (VOp o :: rest) with
                 | RsErr er => RsErr er
                 | RsOk (l', sc1) => RsOk (WL l', sc1)
                 end) by (destruct o; try discriminate Ho; reflexivity).
    rewrite Hd in H. clear Hd. cbn [resolve_list] in H. destruct f as [|f']; [discriminate H|].
    change (resolve_vars (S f') sc (VOp o)) with (@RsOk (val * list (list string)) (VOp o, sc)) in H. cbv beta iota in H.
    destruct (resolve_list (resolve_vars (S f')) sc rest) as [[r' sc2]|] eqn:Er; [|discriminate H].
    destruct (rl_ann (resolve_vars (S f')) fragE ann IH1 rest sc r' sc2 Hf Er) as [HF ->].
    injection H as <- <-. split; [apply an_op; [exact Ho|exact HF]|reflexivity].
  Qed.

  Lemma resolve_ann_aux f :
    (forall sc e e' sc', fragE e = true -> resolve_vars f sc e = RsOk (e', sc') -> ann sc e' e /\ sc' = sc) /\
    (forall sc b b' sc', is_set_binding b = true -> resolve_vars f sc b = RsOk (b', sc') -> brel_ann sc b' b /\ sc' = sc).
  Proof.
    induction f as [|f [IH1 IH2]]; [split; intros; discriminate|]. split.
    - intros sc e e' sc' Hf H.
      destruct e as [|b|z|fl|s0|n st|o|w l| | | | |]; try discriminate Hf; cbn [resolve_vars] in H;
        try (injection H as <- <-; split; [apply an_lit; reflexivity|reflexivity]).
      + destruct st; [discriminate Hf|]. cbn [fragE] in Hf.
        destruct (scope_steps sc n 0) as [k|] eqn:Ek; injection H as <- <-; (split; [|reflexivity]).
        * apply an_res; assumption.
        * apply an_sym; assumption.
      + destruct w; [|discriminate Hf]. destruct l as [|h rest]; [discriminate Hf|].
        destruct h as [| | | | | |o| | | | | |]; try discriminate Hf.
        destruct (frag_op o) eqn:Hro.
        { apply (default_ro f sc o rest e' sc' Hro IH1); [|exact H].
          destruct o; try discriminate Hro; cbn [fragE frag_op ro_op andb orb] in Hf; exact Hf. }
        destruct o; try discriminate Hro; try discriminate Hf.
        * (* set *)
          cbn [fragE] in Hf. cbn [resolve_list] in H. destruct f as [|f']; [discriminate H|].
          change (resolve_vars (S f') sc (VOp OSet)) with (@RsOk (val * list (list string)) (VOp OSet, sc)) in H. cbv beta iota in H.
          destruct (resolve_list (resolve_vars (S f')) sc rest) as [[r' sc2]|] eqn:Er; [|discriminate H].
          destruct (rl_ann (resolve_vars (S f')) is_set_binding brel_ann IH2 rest sc r' sc2 Hf Er) as [HF ->].
          injection H as <- <-. split; [apply an_set; exact HF|reflexivity].
        * (* let *)
          destruct rest as [|bindings body]; [discriminate Hf|].
          destruct bindings as [| | | | | | |wb bs| | | | |]; try discriminate Hf. destruct wb; [|discriminate Hf].
          cbn [fragE] in Hf. apply andb_prop in Hf as [Hb Hbody]. rewrite (names_of_bindings bs Hb) in H.
          destruct (resolve_list (resolve_vars f) (dedup_str (bnames bs) [] :: sc) body) as [[body' sc1]|] eqn:Eb; [|discriminate H].
          destruct (rl_ann (resolve_vars f) fragE ann IH1 body _ body' sc1 Hbody Eb) as [HF ->].
          injection H as <- <-. split; [apply an_let; assumption|reflexivity].
    - intros sc b b' sc' Hb H.
      destruct b as [| | | | | | |w l| | | | |]; try discriminate Hb. destruct w; [|discriminate Hb].
      destruct l as [|k l]; [discriminate Hb|]. destruct k as [| | | | |kn st| | | | | | |]; try discriminate Hb.
      destruct st; [discriminate Hb|]. destruct l as [|e [|? ?]]; try discriminate Hb.
      cbn [is_set_binding] in Hb. apply andb_prop in Hb as [Hkn He].
      cbn [resolve_vars resolve_list] in H.
      destruct (resolve_vars f sc (VSym kn None)) as [[k' sc1]|] eqn:Ek; [|discriminate H].
      assert (Hk' : exists s, k' = VSym kn s /\ sc1 = sc /\ (s = None \/ exists k, s = Some k /\ scope_steps sc kn O = Some k)).
      { destruct f as [|f']; [discriminate Ek|]. cbn [resolve_vars] in Ek.
        destruct (scope_steps sc kn 0) as [k|] eqn:Es; injection Ek as <- <-.
        - exists (Some k). split; [reflexivity|]. split; [reflexivity|]. right. exists k. split; reflexivity.
        - exists None. split; [reflexivity|]. split; [reflexivity|]. left. reflexivity. }
      destruct Hk' as (s & -> & -> & Hs).
      destruct (resolve_vars f sc e) as [[e' sc2]|] eqn:Ee; [|discriminate H].
      destruct (IH1 _ _ _ _ He Ee) as [Ha ->]. injection H as <- <-. split; [|reflexivity].
      exists kn, s, e', e. repeat split; assumption.
  Qed.

  Theorem resolve_annotates start e e' : fragE e = true -> resolve start e = RsOk e' -> ann [start] e' e.
  Proof.
    unfold resolve. intros Hf H. destruct (resolve_vars (S (val_depth e)) [start] e) as [[v sc']|] eqn:E; [|discriminate].
    injection H as <-. apply (proj1 (resolve_ann_aux _) _ _ _ _ Hf E).
  Qed.

  (** T-res: the resolved program and the program as written, any fuel *)
  Theorem resolution_preserves start e e' lf f st : fragE e = true -> resolve start e = RsOk e' -> Inv [start] st ->
    eval lf f e' st = eval lf f e st.
  Proof. intros Hf Hr Hi. apply (proj1 (resolved_agrees lf f [start] e' e (resolve_annotates start e e' Hf Hr) st Hi)). Qed.
End V.

(** * a program of the fragment as written is its own (empty) annotation; hence it keeps the binding structure *)
Lemma depth_in_list x w l : In x l -> (val_depth x < val_depth (VList w l))%nat.
Proof.
  cbn [val_depth]. induction l as [|y l IH]; [intros []|]. cbn [fold_right]. intros [->|H]; [lia|specialize (IH H); lia].
Qed.

Lemma ann_refl_n V : forall n sc e, (val_depth e <= n)%nat -> fragE V e = true -> ann V sc e e.
Proof.
  induction n as [|n IH]; intros sc e Hd Hf.
  { destruct e; cbn [val_depth] in Hd; lia. }
  assert (Hlist : forall sc0 l, (forall x, In x l -> (val_depth x <= n)%nat) -> forallb (fragE V) l = true -> Forall2 (ann V sc0) l l).
  { intros sc0. induction l as [|a r IHr]; intros Hdl Ha; [constructor|]. cbn [forallb] in Ha. apply andb_prop in Ha as [H1 H2].
    constructor; [apply IH; [apply Hdl; left; reflexivity|exact H1]|apply IHr; [intros x Hx; apply Hdl; right; exact Hx|exact H2]]. }
  destruct e as [| | | | |nm st| |w l| | | | |]; try discriminate Hf; try (apply an_lit; reflexivity).
  - destruct st; [discriminate Hf|]. apply an_sym. exact Hf.
  - destruct w; [|discriminate Hf]. destruct l as [|h rest]; [discriminate Hf|].
    destruct h as [| | | | | |o| | | | | |]; try discriminate Hf.
    assert (Hrest_d : forall x, In x rest -> (val_depth x <= n)%nat).
    { intros x Hx. pose proof (depth_in_list x true (VOp o :: rest) (or_intror Hx)). lia. }
    destruct (frag_op o) eqn:Hro.
    + apply an_op; [exact Hro|]. apply Hlist; [exact Hrest_d|].
      destruct o; try discriminate Hro; cbn [fragE frag_op ro_op andb orb] in Hf; exact Hf.
    + destruct o; try discriminate Hro; try discriminate Hf.
      * (* set *)
        apply an_set. cbn [fragE] in Hf. clear Hro Hd. revert Hrest_d Hf. induction rest as [|b r IHr]; intros Hrd Hf; [constructor|].
        cbn [forallb] in Hf. apply andb_prop in Hf as [Hb Hr]. constructor; [|apply IHr; [intros x Hx; apply Hrd; right; exact Hx|exact Hr]].
        pose proof (Hrd b (or_introl eq_refl)) as Hdb.
        destruct b as [| | | | | | |wb lb| | | | |]; try discriminate Hb. destruct wb; [|discriminate Hb].
        destruct lb as [|k lb]; [discriminate Hb|]. destruct k as [| | | | |kn ks| | | | | | |]; try discriminate Hb.
        destruct ks; [discriminate Hb|]. destruct lb as [|x [|? ?]]; try discriminate Hb.
        apply andb_prop in Hb as [Hkn Hx]. exists kn, None, x, x. split; [reflexivity|]. split; [reflexivity|]. split; [exact Hkn|].
        split; [left; reflexivity|]. apply IH; [|exact Hx].
        pose proof (depth_in_list x true [VSym kn None; x] (or_intror (or_introl eq_refl))). lia.
      * (* let *)
        destruct rest as [|bl body]; [discriminate Hf|].
        destruct bl as [| | | | | | |wb bs| | | | |]; try discriminate Hf. destruct wb; [|discriminate Hf].
        cbn [fragE] in Hf. apply andb_prop in Hf as [Hb Hbody]. apply an_let; [exact Hb|].
        apply Hlist; [intros x Hx; apply Hrest_d; right; exact Hx|exact Hbody].
Qed.
Lemma ann_refl V sc e : fragE V e = true -> ann V sc e e.
Proof. apply (ann_refl_n V (val_depth e) sc e (le_n _)). Qed.

(** let bindings vanish with the let, assignment creates no binding, the context is balanced: after a completed
    evaluation of a program of the fragment the frames on the chain bind exactly the names they bound before *)
Theorem fragment_keeps_binding_structure V lf f sc e st a st' :
  fragE V e = true -> Inv V sc st -> eval lf f e st = Ok a st' -> Inv V sc st' /\ R st st'.
Proof. intros Hf Hi H. apply (proj2 (resolved_agrees V lf f sc e e (ann_refl V sc e Hf) st Hi) a st' H). Qed.

(** * the premises are met: a global g, names x y z; assignments one and three frames below their binding, shadowing *)
Definition demo_V : list string := ["g"; "x"; "y"; "z"].
Definition demo_state : state :=
  mkState [mkFrame [("g", VInt 5)] None] O [] empty_container "" "" [] 0 [] [].
Lemma demo_inv : Inv demo_V [["g"]] demo_state.
Proof.
  split; [|split; [|split]].
  - intros k t [].
  - intros j scj Hn. destruct j as [|[|j]]; try discriminate Hn. injection Hn as <-.
    exists O, (mkFrame [("g", VInt 5)] None). split; [reflexivity|]. split; [reflexivity|].
    intros x. unfold amem. cbn [f_binds alookup smem]. destruct (String.eqb x "g"); reflexivity.
  - cbn. lia.
  - intros n Hn. split; [reflexivity|]. unfold demo_V in Hn. cbn [smem] in Hn.
    destruct (String.eqb_spec n "g") as [E|_]; [rewrite E; reflexivity|]. destruct (String.eqb_spec n "x") as [E|_]; [rewrite E; reflexivity|].
    destruct (String.eqb_spec n "y") as [E|_]; [rewrite E; reflexivity|]. destruct (String.eqb_spec n "z") as [E|_]; [rewrite E; reflexivity|].
    discriminate Hn.
Qed.

(** (let ([x 1]) (let ([y 2]) (let ([x 10]) (set (g (+ g x y)))) (set (x (+ x y)))) (+ x g)) *)
Definition sy (n : string) : val := VSym n None.
Definition demo_prog : val :=
  WL [VOp OLet; WL [WL [sy "x"; VInt 1]];
      WL [VOp OLet; WL [WL [sy "y"; VInt 2]];
          WL [VOp OLet; WL [WL [sy "x"; VInt 10]]; WL [VOp OSet; WL [sy "g"; WL [VOp OAdd; sy "g"; sy "x"; sy "y"]]]];
          WL [VOp OSet; WL [sy "x"; WL [VOp OAdd; sy "x"; sy "y"]]]];
      WL [VOp OAdd; sy "x"; sy "g"]].

Example demo_in_fragment : fragE demo_V demo_prog = true. Proof. reflexivity. Qed.
Example demo_resolved : exists e', resolve ["g"] demo_prog = RsOk e' /\ e' <> demo_prog.
Proof. eexists. split; [vm_compute; reflexivity|discriminate]. Qed.
Example demo_agrees : forall e' lf f, resolve ["g"] demo_prog = RsOk e' ->
  eval lf f e' demo_state = eval lf f demo_prog demo_state.
Proof. intros e' lf f H. apply (resolution_preserves demo_V ["g"] demo_prog e' lf f demo_state demo_in_fragment H demo_inv). Qed.
Example demo_value : exists st', eval 20 20 demo_prog demo_state = Ok (VInt 20) st'.
Proof. eexists. vm_compute. reflexivity. Qed.

(** (let ([i 0]) (while (< i 3) (set (i (+ i 1))) (set (g (+ g i)))) (print g) g) *)
Definition loop_prog : val :=
  WL [VOp OLet; WL [WL [sy "x"; VInt 0]];
      WL [VOp OWhile; WL [VOp OLt; sy "x"; VInt 3];
          WL [VOp OSet; WL [sy "x"; WL [VOp OAdd; sy "x"; VInt 1]]];
          WL [VOp OSet; WL [sy "g"; WL [VOp OAdd; sy "g"; sy "x"]]]];
      WL [VOp OPrint; sy "g"];
      sy "g"].
Example loop_agrees : forall e' lf f, resolve ["g"] loop_prog = RsOk e' ->
  eval lf f e' demo_state = eval lf f loop_prog demo_state.
Proof. intros e' lf f H. apply (resolution_preserves demo_V ["g"] loop_prog e' lf f demo_state eq_refl H demo_inv). Qed.
