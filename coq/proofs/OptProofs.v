(** OptProofs.v — every rewrite rule of the optimisation pass is sound for the evaluator (C08). *)
From WalModel Require Import Eval.
From WalModel.proofs Require Import EvalArith.
Local Open Scope Z_scope.

Lemma eval_literal lf f v st : is_lit v = true -> eval lf (S f) v st = Ok v st.
Proof. destruct v; try discriminate; reflexivity. Qed.

Section WithEv.
  Variable ev : val -> M val.
  (** the sub-evaluator returns literals unchanged, without touching the state *)
  Hypothesis Hlit : forall v st, is_lit v = true -> ev v st = Ok v st.

  Lemma eval_args_lits : forall args st, forallb is_lit args = true -> eval_args ev args st = Ok args st.
  Proof.
    induction args as [|a r IH]; intros st H; [reflexivity|]. cbn [forallb] in H. apply andb_prop in H as [Ha Hr].
    unfold eval_args in *. cbn [mapM]. unfold bind. rewrite (Hlit a st Ha), (IH st Hr). reflexivity.
  Qed.

  Lemma truthy_lit st v : is_lit v = true -> truthy st v = lit_truthy v.
  Proof. destruct v; try discriminate; reflexivity. Qed.

  (** (if c t e) with a literal condition is its selected branch *)
  Theorem if_literal_true c t rest st :
    is_lit c = true -> lit_truthy c = true -> (List.length rest <= 1)%nat ->
    op_if ev (c :: t :: rest) st = ev t st.
  Proof.
    intros Hc Ht Hl. unfold op_if.
    assert (E : (Nat.eqb (List.length (c :: t :: rest)) 2 || Nat.eqb (List.length (c :: t :: rest)) 3) = true).
    { destruct rest as [|x [|y r]]; cbn in *; try reflexivity; lia. }
    rewrite E. cbn [assert]. unfold bind at 1. cbn [ret]. unfold bind at 1. rewrite (Hlit c st Hc).
    unfold bind at 1. unfold get_st at 1. rewrite (truthy_lit st c Hc), Ht. reflexivity.
  Qed.

  Theorem if_literal_false c t e st :
    is_lit c = true -> lit_truthy c = false ->
    op_if ev [c; t; e] st = ev e st.
  Proof.
    intros Hc Ht. unfold op_if. cbn [List.length Nat.eqb orb assert]. unfold bind at 1. cbn [ret].
    unfold bind at 1. rewrite (Hlit c st Hc). unfold bind at 1. unfold get_st at 1.
    rewrite (truthy_lit st c Hc), Ht. reflexivity.
  Qed.

  (** (do x) is x *)
  Theorem do_single x st : op_do ev [x] st = ev x st.
  Proof.
    unfold op_do, eval_args. cbn [mapM]. unfold bind, ret, last_or_index_error. cbn [last_opt].
    destruct (ev x st); reflexivity.
  Qed.

  (** literal truthiness of && and || *)
  Lemma and_loop_lits : forall args st, forallb is_lit args = true ->
    and_loop ev args st = Ok (VBool (forallb lit_truthy args)) st.
  Proof.
    induction args as [|a r IH]; intros st H; [reflexivity|]. cbn [forallb] in H. apply andb_prop in H as [Ha Hr].
    cbn [and_loop forallb]. unfold bind at 1. rewrite (Hlit a st Ha). unfold bind at 1. unfold get_st at 1.
    rewrite (truthy_lit st a Ha). destruct (lit_truthy a); [apply IH; exact Hr|reflexivity].
  Qed.
  Lemma or_loop_lits : forall args st, forallb is_lit args = true ->
    or_loop ev args st = Ok (VBool (existsb lit_truthy args)) st.
  Proof.
    induction args as [|a r IH]; intros st H; [reflexivity|]. cbn [forallb] in H. apply andb_prop in H as [Ha Hr].
    cbn [or_loop existsb]. unfold bind at 1. rewrite (Hlit a st Ha). unfold bind at 1. unfold get_st at 1.
    rewrite (truthy_lit st a Ha). destruct (lit_truthy a); [reflexivity|apply IH; exact Hr].
  Qed.

  Theorem and_literals args st :
    forallb is_lit args = true -> args <> [] ->
    op_and ev args st = Ok (VBool (forallb lit_truthy args)) st.
  Proof.
    intros H Hne. unfold op_and. destruct args as [|a r]; [congruence|]. cbn [List.length Nat.eqb negb assert].
    unfold bind at 1. cbn [ret]. apply and_loop_lits. exact H.
  Qed.
  Theorem or_literals args st :
    forallb is_lit args = true -> args <> [] ->
    op_or ev args st = Ok (VBool (existsb lit_truthy args)) st.
  Proof.
    intros H Hne. unfold op_or. destruct args as [|a r]; [congruence|]. cbn [List.length Nat.eqb negb assert].
    unfold bind at 1. cbn [ret]. apply or_loop_lits. exact H.
  Qed.

  (** constant folding of + and * uses the evaluator's own arithmetic *)
  Lemma num_add_same a b : num_add' a b = num_add a b. Proof. reflexivity. Qed.
  Lemma num_mul_same a b : num_mul' a b = num_mul a b. Proof. reflexivity. Qed.
  Lemma fold_num_same f g (H : forall a b, f a b = g a b) : forall l acc, fold_num' f acc l = fold_num g acc l.
  Proof. induction l as [|x l IH]; intros acc; cbn [fold_num' fold_num]; [reflexivity|]. rewrite H. destruct (g acc x); [apply IH|reflexivity]. Qed.

  Lemma num_lit_is_lit args : forallb is_num_lit args = true -> forallb is_lit args = true.
  Proof. induction args as [|a r IH]; [reflexivity|]. cbn [forallb]. intros H. apply andb_prop in H as [Ha Hr]. rewrite (IH Hr). destruct a; try discriminate; reflexivity. Qed.
  Lemma num_lit_not_list_str args : forallb is_num_lit args = true -> existsb is_list_val args = false /\ existsb is_str_val args = false.
  Proof. induction args as [|a r IH]; [split; reflexivity|]. cbn [forallb existsb]. intros H. apply andb_prop in H as [Ha Hr]. destruct (IH Hr) as [H1 H2]. rewrite H1, H2. destruct a; try discriminate; split; reflexivity. Qed.

  Theorem add_numeric_literals args v st :
    forallb is_num_lit args = true -> lit_sum args = Some v ->
    op_add ev args st = Ok v st.
  Proof.
    intros H Hs. unfold op_add. unfold bind at 1. rewrite (eval_args_lits args st (num_lit_is_lit args H)).
    destruct (num_lit_not_list_str args H) as [H1 H2]. rewrite H1, H2.
    unfold lit_sum in Hs. unfold py_sum. destruct (map_opt as_num args) as [ns|]; [|discriminate].
    change (n_floats args) with (count_floats args) in Hs. destruct (Nat.leb 3 (count_floats args)); [discriminate|].
    rewrite (fold_num_same num_add' num_add num_add_same) in Hs. destruct (fold_num num_add (NInt 0) ns); [|discriminate].
    injection Hs as <-. reflexivity.
  Qed.

  Theorem add_string_literals args st :
    forallb is_str_lit args = true -> args <> [] ->
    op_add ev args st = Ok (VStr (sconcat (map str_of_lit args))) st.
  Proof.
    intros H Hne. unfold op_add.
    assert (Hl : forallb is_lit args = true).
    { clear Hne. induction args as [|a r IH]; [reflexivity|]. cbn [forallb] in *. apply andb_prop in H as [Ha Hr]. rewrite (IH Hr). destruct a; try discriminate; reflexivity. }
    unfold bind at 1. rewrite (eval_args_lits args st Hl).
    assert (H1 : existsb is_list_val args = false).
    { clear Hne Hl. induction args as [|a r IH]; [reflexivity|]. cbn [forallb existsb] in *. apply andb_prop in H as [Ha Hr]. rewrite (IH Hr). destruct a; try discriminate; reflexivity. }
    assert (H2 : existsb is_str_val args = true).
    { destruct args as [|a r]; [congruence|]. cbn [forallb existsb] in *. apply andb_prop in H as [Ha _]. destruct a; try discriminate; reflexivity. }
    rewrite H1, H2.
    assert (Hm : forall st, mapM py_str args st = Ok (map str_of_lit args) st).
    { clear Hne Hl H1 H2. induction args as [|a r IH]; intros st0; [reflexivity|]. cbn [forallb] in H. apply andb_prop in H as [Ha Hr].
      cbn [mapM map]. unfold bind. destruct a; try discriminate. cbn [py_str py_str_atom ret]. rewrite (IH Hr). reflexivity. }
    unfold bind. rewrite Hm. reflexivity.
  Qed.

  (** products of integer literals (a float operand makes the folded product start from the
      integer 1, i.e. 1*f: equal to f in IEEE arithmetic, which is not proved here) *)
  Lemma fold_mul_ints : forall zs acc, fold_num' num_mul' (NInt acc) (map NInt zs) = Some (NInt (fold_left Z.mul zs acc)).
  Proof. induction zs as [|z zs IH]; intros acc; cbn [map fold_num' fold_left num_mul']; [reflexivity|apply IH]. Qed.

  Lemma lit_prod_ints zs : lit_prod (ints zs) = Some (VInt (fold_left Z.mul zs 1)).
  Proof.
    unfold lit_prod.
    assert (E : map_opt as_num (ints zs) = Some (map NInt zs)).
    { induction zs as [|z zs IH]; [reflexivity|]. cbn [ints map map_opt as_num] in *. unfold ints in IH. rewrite IH. reflexivity. }
    rewrite E, fold_mul_ints. reflexivity.
  Qed.

  Theorem mul_integer_literals z z2 zs st :
    exists v, lit_prod (ints (z :: z2 :: zs)) = Some v /\ op_mul ev (ints (z :: z2 :: zs)) st = Ok v st.
  Proof.
    exists (VInt (fold_left Z.mul (z :: z2 :: zs) 1)). split; [apply lit_prod_ints|].
    assert (Hl : forallb is_lit (ints (z :: z2 :: zs)) = true).
    { generalize (z :: z2 :: zs). induction l as [|a r IH]; [reflexivity|]. cbn [ints map forallb is_lit]. exact IH. }
    rewrite (op_mul_ints ev (ints (z :: z2 :: zs)) z z2 zs st st (eval_args_lits _ st Hl)).
    cbn [fold_left]. replace (1 * z) with z by lia. reflexivity.
  Qed.
End WithEv.
