(** OptLet.v — T-opt for programs with binders and effects (C08): for every expression built from integer/boolean/
    string literals, names, the operators of OptRo.v, while, print, (set (x e) ...) and (let ([x init] ...) body ...),
    nested arbitrarily, the optimised expression completes whenever the original does, with the same value and the
    same final state (output, assignments, frames).  Extends OptRo.v: same folding lemmas, congruence lemmas for the
    binder and effect forms, induction on the fuel. *)
From WalModel Require Import Eval.
From WalModel.proofs Require Import EvalArith Balanced ReadOnly FuelMono OptProofs ResolveLet OptRo.
Local Open Scope Z_scope.

(** * congruence for let, set, while, print *)
Section CongX.
  Variables ev1 ev2 : val -> M val.
  Notation rel := (OptRo.rel ev1 ev2).

  (** bindings (k e) with related value expressions *)
  Definition brel (b b' : val) : Prop := exists k e e', b = VList true [k; e] /\ b' = VList true [k; e'] /\ rel e e'.

  Lemma cong_set_go : forall bs bs', Forall2 brel bs bs' -> forall last, le (set_go ev1 bs last) (set_go ev2 bs' last).
  Proof.
    induction 1 as [|b b' r r' (k & e & e' & -> & -> & He) Hr IH]; intros last; [apply le_refl|].
    cbn [set_go]. destruct k; try apply le_refl.
    apply le_bind; [exact He|intros v]. apply le_bind; [apply le_refl|intros st]. apply le_bind; [apply le_refl|intros _]. apply IH.
  Qed.
  Lemma cong_set bs bs' : Forall2 brel bs bs' -> le (op_set ev1 bs) (op_set ev2 bs').
  Proof.
    intros H. rewrite !op_set_unfold, (OptRo.forall2_len _ _ _ H). apply le_bind; [apply le_refl|intros _; apply cong_set_go, H].
  Qed.

  Lemma cong_let_go fid : forall bs bs', Forall2 brel bs bs' -> le (let_go ev1 fid bs) (let_go ev2 fid bs').
  Proof.
    induction 1 as [|b b' r r' (k & e & e' & -> & -> & He) Hr IH]; [apply le_refl|].
    cbn [let_go List.length Nat.eqb assert]. destruct k; try apply le_refl.
    apply le_bind; [apply le_refl|intros _]. apply le_bind; [exact He|intros v]. apply le_bind; [apply le_refl|intros _]. exact IH.
  Qed.
  Lemma cong_let bs bs' body body' : Forall2 brel bs bs' -> Forall2 rel body body' ->
    le (op_let ev1 (VList true bs :: body)) (op_let ev2 (VList true bs' :: body')).
  Proof.
    intros Hb Hbody st a st' H. rewrite op_let_run in *. unfold let_run in *. cbv zeta in *.
    destruct (let_go ev1 _ bs _) as [u st2| | |] eqn:Eg; try discriminate.
    rewrite (cong_let_go _ bs bs' Hb _ _ _ Eg).
    destruct (eval_args ev1 body st2) as [vs st3| | |] eqn:Eb; try discriminate.
    rewrite (le_eval_args2 ev1 ev2 body body' Hbody _ _ _ Eb). exact H.
  Qed.

  Lemma cong_while_loop c c' body body' : rel c c' -> Forall2 rel body body' ->
    forall n last, le (while_loop ev1 n c body last) (while_loop ev2 n c' body' last).
  Proof.
    intros Hc Hb. induction n as [|n IH]; intros last; cbn [while_loop]; [apply le_fuel|].
    apply le_bind; [exact Hc|intros v]. apply le_bind; [apply le_refl|intros st]. destruct (truthy st v); [|apply le_refl].
    apply le_bind; [apply le_eval_args2, Hb|intros vs]. apply le_bind; [apply le_refl|intros r]. apply IH.
  Qed.
  Lemma cong_while n args args' : Forall2 rel args args' -> le (op_while n ev1 args) (op_while n ev2 args').
  Proof.
    intros H. unfold op_while. rewrite (OptRo.zlen_eq ev1 ev2 _ _ H). apply le_bind; [apply le_refl|intros _].
    destruct H as [|c c' r r' Hc Hr]; [apply le_refl|]. apply cong_while_loop; assumption.
  Qed.
  Lemma cong_print args args' : Forall2 rel args args' -> le (op_print ev1 args) (op_print ev2 args').
  Proof.
    intros H. unfold op_print. apply le_bind; [apply le_eval_args2, H|intros vs]. apply le_refl.
  Qed.
End CongX.

(** * the fragment *)
Definition rox_op (o : op) : bool := ron_op o || match o with OWhile | OPrint => true | _ => false end.
Definition is_binding (p : val -> bool) (b : val) : bool :=
  match b with VList true [VSym _ _; e] => p e | _ => false end.
Fixpoint rox (e : val) : bool :=
  match e with
  | VInt _ | VBool _ | VStr _ | VSym _ _ => true
  | VList true (VOp OLet :: VList true bs :: body) =>
      forallb (fun b => match b with VList true [VSym _ _; e] => rox e | _ => false end) bs && forallb rox body
  | VList true (VOp OSet :: bs) =>
      forallb (fun b => match b with VList true [VSym _ _; e] => rox e | _ => false end) bs
  | VList _ (VOp o :: args) => rox_op o && forallb rox args
  | _ => false
  end.

Lemma rox_numlit_ilit args : forallb rox args = true -> forallb is_num_lit args = true -> forallb is_ilit args = true.
Proof.
  induction args as [|a r IH]; [reflexivity|]. cbn [forallb]. intros H1 H2. apply andb_prop in H1 as [Ha Hr]. apply andb_prop in H2 as [Na Nr].
  rewrite (IH Hr Nr), andb_true_r. destruct a; try discriminate; reflexivity.
Qed.

(** the node rule keeps the fragment and is sound, given that numeric literal operands are integers or booleans *)
Lemma node_rox w o args' e' : rox_op o = true -> forallb rox args' = true ->
  optimize_node w o (VOp o :: args') = Some e' -> rox e' = true.
Proof.
  intros Ho Ha Hn.
  assert (Hself : rox (VList true (VOp o :: args')) = true).
  { destruct o; try discriminate Ho; cbn [rox rox_op ron_op orb andb]; exact Ha. }
  assert (Hnum := rox_numlit_ilit args' Ha).
  destruct o; try discriminate Ho; unfold optimize_node in Hn; cbv zeta in Hn;
    try (cbv beta iota in Hn; injection Hn as <-; exact Hself).
  - (* + *)
    cbn [tl] in Hn. destruct (forallb is_num_lit args') eqn:En.
    + destruct (lit_sum args') as [v|] eqn:Es; [|discriminate]. cbv beta iota in Hn. injection Hn as <-.
      destruct (lit_sum_ilit args' v (Hnum eq_refl) Es) as [z ->]. reflexivity.
    + destruct (forallb is_str_lit args'); cbv beta iota in Hn; injection Hn as <-; [reflexivity|exact Hself].
  - (* * *)
    cbn [tl] in Hn. destruct (forallb is_num_lit args') eqn:En; [|cbv beta iota in Hn; injection Hn as <-; exact Hself].
    destruct (lit_prod args') as [v|] eqn:Es; [|discriminate]. cbv beta iota in Hn. injection Hn as <-.
    destruct (lit_prod_ilit args' v (Hnum eq_refl) Es) as [z ->]. reflexivity.
  - (* if *)
    destruct args' as [|c rest]; [cbv beta iota in Hn; injection Hn as <-; exact Hself|].
    cbn [forallb] in Ha. apply andb_prop in Ha as [Hc Hr].
    destruct (is_lit c); [|cbv beta iota in Hn; injection Hn as <-; exact Hself].
    destruct (lit_truthy c).
    + destruct rest as [|t r]; cbv beta iota in Hn; injection Hn as <-; [exact Hself|]. cbn [forallb] in Hr. apply andb_prop in Hr as [Ht _]. exact Ht.
    + destruct rest as [|t [|e r]]; cbv beta iota in Hn; injection Hn as <-; try exact Hself.
      cbn [forallb] in Hr. apply andb_prop in Hr as [_ Hr]. apply andb_prop in Hr as [He _]. exact He.
  - (* do *)
    destruct args' as [|x [|y r]]; cbv beta iota in Hn; injection Hn as <-; try exact Hself.
    cbn [forallb] in Ha. apply andb_prop in Ha as [Hx _]. exact Hx.
Qed.

Lemma node_sound_x lf f w o args' e' :
  rox_op o = true -> forallb rox args' = true -> optimize_node w o (VOp o :: args') = Some e' ->
  le (eval lf (S (S f)) (VList true (VOp o :: args'))) (eval lf (S (S f)) e').
Proof.
  intros Ho Ha Hn.
  set (ev := fun x : val => eval lf (S f) x).
  assert (Hlit : forall v st, is_lit v = true -> ev v st = Ok v st) by (intros; apply eval_literal; assumption).
  assert (Hup : forall x st v st', ev x st = Ok v st' -> eval lf (S (S f)) x st = Ok v st').
  { intros x st v st' H. apply (eval_fuel_monotone lf (S f) (S (S f)) x st v st' ltac:(lia) H). }
  assert (Hself : optimize_node w o (VOp o :: args') = Some (VList true (VOp o :: args')) -> e' = VList true (VOp o :: args')).
  { intros X. rewrite X in Hn. (cbv beta iota in Hn; injection Hn as <-). reflexivity. }
  assert (Hnum := rox_numlit_ilit args' Ha).
  change (eval lf (S (S f)) (VList true (VOp o :: args'))) with (dispatch lf ev (fun x q => expand lf (S f) x q) o args').
  destruct o; try discriminate Ho; try (rewrite (Hself eq_refl); apply le_refl).
  all: unfold optimize_node in Hn; cbv zeta in Hn; unfold dispatch.
  - (* + *)
    cbn [tl] in Hn. destruct (forallb is_num_lit args') eqn:En.
    + destruct (lit_sum args') as [v|] eqn:Es; [|discriminate]. (cbv beta iota in Hn; injection Hn as <-).
      intros st x st' H. rewrite (add_numeric_literals ev Hlit args' v st En Es) in H. injection H as <- <-.
      destruct (lit_sum_ilit args' v (Hnum eq_refl) Es) as [z ->]. reflexivity.
    + destruct (forallb is_str_lit args') eqn:Est; (cbv beta iota in Hn; injection Hn as <-); [|apply le_refl].
      intros st x st' H. destruct args' as [|a r]; [discriminate En|].
      rewrite (add_string_literals ev Hlit (a :: r) st Est ltac:(discriminate)) in H. injection H as <- <-. reflexivity.
  - (* * *)
    cbn [tl] in Hn. destruct (forallb is_num_lit args') eqn:En; [|(cbv beta iota in Hn; injection Hn as <-); apply le_refl].
    destruct (lit_prod args') as [v|] eqn:Es; [|discriminate]. (cbv beta iota in Hn; injection Hn as <-).
    intros st x st' H. destruct (mul_ilit ev Hlit args' v st x st' (Hnum eq_refl) Es H) as [-> ->].
    destruct (lit_prod_ilit args' v (Hnum eq_refl) Es) as [z ->]. reflexivity.
  - (* if *)
    destruct args' as [|c rest]; [(cbv beta iota in Hn; injection Hn as <-); apply le_refl|].
    destruct (is_lit c) eqn:Hc; [|(cbv beta iota in Hn; injection Hn as <-); apply le_refl].
    destruct (lit_truthy c) eqn:Ht.
    + destruct rest as [|t r]; (cbv beta iota in Hn; injection Hn as <-); [apply le_refl|].
      intros st x st' H. destruct (Nat.leb (List.length r) 1) eqn:El.
      * apply Nat.leb_le in El. rewrite (if_literal_true ev Hlit c t r st Hc Ht El) in H. apply Hup, H.
      * exfalso. apply Nat.leb_gt in El. unfold op_if in H. destruct r as [|r1 [|r2 r3]]; cbn [List.length] in El; try lia.
        cbn in H. discriminate H.
    + destruct rest as [|t [|e r]]; (cbv beta iota in Hn; injection Hn as <-); try apply le_refl.
      intros st x st' H. destruct r as [|r1 r2].
      * rewrite (if_literal_false ev Hlit c t e st Hc Ht) in H. apply Hup, H.
      * exfalso. cbn in H. discriminate H.
  - (* do *)
    destruct args' as [|x0 [|y r]]; (cbv beta iota in Hn; injection Hn as <-); try apply le_refl.
    intros st x st' H. rewrite (do_single ev x0 st) in H. apply Hup, H.
Qed.

(** what the pass does to a binding (x e) and to a list of bindings *)
Lemma opt_binding (P : val -> bool) b b' : is_binding P b = true -> optimize_opt b = Some b' ->
  exists n s e e', b = VList true [VSym n s; e] /\ b' = VList true [VSym n s; e'] /\ P e = true /\ optimize_opt e = Some e'.
Proof.
  intros Hb H. destruct b as [| | | | | | |w l| | | | |]; try discriminate Hb. destruct w; [|discriminate Hb].
  destruct l as [|k l]; [discriminate Hb|]. destruct k as [| | | | |n s| | | | | | |]; try discriminate Hb.
  destruct l as [|e [|? ?]]; try discriminate Hb. cbn [is_binding] in Hb.
  cbn [optimize_opt map_opt] in H. destruct (optimize_opt e) as [e'|] eqn:Ee; [|discriminate H]. injection H as <-.
  exists n, s, e, e'. repeat split; assumption.
Qed.
Lemma opt_binding_list bs : forall l', (forall b, In b bs -> exists P, is_binding P b = true) ->
  optimize_opt (VList true bs) = Some l' -> exists bs', l' = VList true bs' /\ map_opt optimize_opt bs = Some bs'.
Proof.
  intros l' Hb H. destruct bs as [|b r]; [injection H as <-; exists []; split; reflexivity|].
  destruct (Hb b (or_introl eq_refl)) as [P HP].
  destruct b as [| | | | | | |w l| | | | |]; try discriminate HP.
  cbn [optimize_opt] in H. destruct (map_opt optimize_opt (VList w l :: r)) as [bs'|] eqn:E; [|discriminate H].
  injection H as <-. exists bs'. split; reflexivity.
Qed.

Lemma opt_let_unfold x body : optimize_opt (VList true (VOp OLet :: x :: body)) =
  match optimize_opt x with
  | Some bl' => match map_opt optimize_opt body with
                | Some body' => Some (VList true (VOp OLet :: bl' :: body'))
                | None => None
                end
  | None => None
  end.
Proof.
  cbn [optimize_opt]. cbn [map_opt]. destruct (optimize_opt x); [|reflexivity].
  destruct (map_opt optimize_opt body); reflexivity.
Qed.
Lemma opt_set_unfold bs : optimize_opt (VList true (VOp OSet :: bs)) =
  match map_opt optimize_opt bs with Some bs' => Some (VList true (VOp OSet :: bs')) | None => None end.
Proof. cbn [optimize_opt]. destruct (map_opt optimize_opt bs); reflexivity. Qed.

(** the pass stays inside the fragment (induction on the depth of the expression) *)
Lemma depth_in x w l : In x l -> (val_depth x < val_depth (VList w l))%nat.
Proof.
  cbn [val_depth]. induction l as [|y l IH]; [intros []|]. cbn [fold_right]. intros [->|H]; [lia|specialize (IH H); lia].
Qed.

Lemma optimize_rox_n : forall n e e', (val_depth e <= n)%nat -> rox e = true -> optimize_opt e = Some e' -> rox e' = true.
Proof.
  induction n as [|n IH]; intros e e' Hd Hr.
  { destruct e; cbn [val_depth] in Hd; lia. }
  destruct e as [| | | | | | |w l| | | | |]; try discriminate Hr;
    try (intros X; injection X as <-; exact Hr).
  destruct l as [|h args]; [destruct w; discriminate Hr|]. destruct h as [| | | | | |o| | | | | |]; try (destruct w; discriminate Hr).
  assert (Hlist : forall l l', (forall x, In x l -> (val_depth x <= n)%nat) -> forallb rox l = true -> map_opt optimize_opt l = Some l' -> forallb rox l' = true).
  { induction l as [|a r IHr]; intros l' Hdl Ha E.
    - injection E as <-. reflexivity.
    - cbn [map_opt] in E. cbn [forallb] in Ha. apply andb_prop in Ha as [H1 H2].
      destruct (optimize_opt a) as [a'|] eqn:Ea; [|discriminate]. destruct (map_opt optimize_opt r) as [r'|] eqn:Er; [|discriminate].
      injection E as <-. cbn [forallb]. rewrite (IH a a' (Hdl a (or_introl eq_refl)) H1 Ea), (IHr r' (fun x Hx => Hdl x (or_intror Hx)) H2 eq_refl). reflexivity. }
  assert (Hbind : forall bs bs', (forall b, In b bs -> (val_depth b <= n)%nat) -> forallb (is_binding rox) bs = true -> map_opt optimize_opt bs = Some bs' -> forallb (is_binding rox) bs' = true).
  { induction bs as [|b r IHr]; intros bs' Hdl Hb E.
    - injection E as <-. reflexivity.
    - cbn [map_opt] in E. cbn [forallb] in Hb. apply andb_prop in Hb as [H1 H2].
      destruct (optimize_opt b) as [b'|] eqn:Eb; [|discriminate]. destruct (map_opt optimize_opt r) as [r'|] eqn:Er; [|discriminate].
      injection E as <-. cbn [forallb]. rewrite (IHr r' (fun x Hx => Hdl x (or_intror Hx)) H2 eq_refl), andb_true_r.
      pose proof (Hdl b (or_introl eq_refl)) as Hdb.
      destruct (opt_binding rox b b' H1 Eb) as (nm & s & x & x' & -> & -> & Hx & Ex). cbn [is_binding]. apply (IH x x'); [|exact Hx|exact Ex].
      pose proof (depth_in x true [VSym nm s; x] (or_intror (or_introl eq_refl))). lia. }
  assert (Hargs_d : forall x, In x args -> (val_depth x <= n)%nat).
  { intros x Hx. pose proof (depth_in x w (VOp o :: args) (or_intror Hx)). lia. }
  intros Ho. destruct (rox_op o) eqn:Hop.
  - (* an operator of the fragment *)
    assert (Ha : forallb rox args = true).
    { destruct o; try discriminate Hop; destruct w; cbn [rox rox_op ron_op orb andb] in Hr; exact Hr. }
    cbn [optimize_opt] in Ho. destruct o; try discriminate Hop.
    all: first
      [ (destruct w; cbv beta iota in Ho; [|injection Ho as <-; exact Hr];
         destruct (map_opt optimize_opt args) as [args'|] eqn:E; [|discriminate Ho];
         apply (node_rox _ _ _ _ Hop (Hlist _ _ Hargs_d Ha E) Ho))
      | (destruct w; cbv beta iota in Ho; destruct (forallb is_lit args && negb (Nat.eqb (List.length args) 0)); injection Ho as <-;
         first [reflexivity|exact Hr]) ].
  - (* let or set *)
    destruct o; try discriminate Hop; try (destruct w; discriminate Hr).
    + (* set *)
      destruct w; [|discriminate Hr]. change (forallb (is_binding rox) args = true) in Hr.
      rewrite opt_set_unfold in Ho. destruct (map_opt optimize_opt args) as [args'|] eqn:E; [|discriminate Ho].
      injection Ho as <-. change (forallb (is_binding rox) args' = true). apply (Hbind _ _ Hargs_d Hr E).
    + (* let *)
      destruct w; [|discriminate Hr]. destruct args as [|bl body]; [discriminate Hr|].
      destruct bl as [| | | | | | |wb bs| | | | |]; try discriminate Hr. destruct wb; [|discriminate Hr].
      change (forallb (is_binding rox) bs && forallb rox body = true) in Hr. apply andb_prop in Hr as [Hb Hbody].
      rewrite opt_let_unfold in Ho.
      destruct (optimize_opt (VList true bs)) as [bl'|] eqn:Ebl; [|discriminate Ho].
      destruct (map_opt optimize_opt body) as [body'|] eqn:Ebody; [|discriminate Ho].
      injection Ho as <-.
      destruct (opt_binding_list bs bl') as (bs' & -> & Ebs); [|exact Ebl|].
      { intros b Hin. exists rox. rewrite forallb_forall in Hb. apply Hb, Hin. }
      change (forallb (is_binding rox) bs' && forallb rox body' = true).
      rewrite (Hbind _ _ ltac:(intros b Hb'; pose proof (Hargs_d _ (or_introl eq_refl)); pose proof (depth_in b true bs Hb'); lia) Hb Ebs),
              (Hlist _ _ (fun x Hx => Hargs_d x (or_intror Hx)) Hbody Ebody). reflexivity.
Qed.
Lemma optimize_rox e e' : rox e = true -> optimize_opt e = Some e' -> rox e' = true.
Proof. apply (optimize_rox_n (val_depth e) e e' (le_n _)). Qed.

(** * T-opt for the fragment with binders and effects *)
Theorem optimize_sound_x lf : forall f e e',
  rox e = true -> optimize_opt e = Some e' -> le (eval lf f e) (eval lf (S f) e').
Proof.
  induction f as [|f IH]; intros e e' Hr Ho; [apply le_fuel|].
  destruct e as [| | | | | | |w l| | | | |]; try discriminate Hr;
    try (injection Ho as <-; intros st x st' H; apply (eval_fuel_monotone lf (S f) (S (S f)) _ st x st' ltac:(lia) H)).
  destruct l as [|h args]; [destruct w; discriminate Hr|]. destruct h as [| | | | | |o| | | | | |]; try (destruct w; discriminate Hr).
  pose (ev1 := fun x : val => eval lf f x). pose (ev2 := fun x : val => eval lf (S f) x).
  assert (Hsame : e' = VList w (VOp o :: args) -> le (eval lf (S f) (VList w (VOp o :: args))) (eval lf (S (S f)) e')).
  { intros ->. intros st x st' H. apply (eval_fuel_monotone lf (S f) (S (S f)) _ st x st' ltac:(lia) H). }
  assert (Hlist : forall l l', forallb rox l = true -> map_opt optimize_opt l = Some l' ->
            Forall2 (OptRo.rel ev1 ev2) l l' /\ forallb rox l' = true).
  { induction l as [|a r IHr]; intros l' Ha E.
    - injection E as <-. split; [constructor|reflexivity].
    - cbn [map_opt] in E. cbn [forallb] in Ha. apply andb_prop in Ha as [H1 H2].
      destruct (optimize_opt a) as [a'|] eqn:Ea; [|discriminate]. destruct (map_opt optimize_opt r) as [r'|] eqn:Er; [|discriminate].
      injection E as <-. destruct (IHr r' H2 eq_refl) as [F R]. split.
      + constructor; [apply (IH a a' H1 Ea)|exact F].
      + cbn [forallb]. rewrite (optimize_rox a a' H1 Ea), R. reflexivity. }
  assert (Hbind : forall bs bs', forallb (is_binding rox) bs = true -> map_opt optimize_opt bs = Some bs' -> Forall2 (brel ev1 ev2) bs bs').
  { induction bs as [|b r IHr]; intros bs' Hb E.
    - injection E as <-. constructor.
    - cbn [map_opt] in E. cbn [forallb] in Hb. apply andb_prop in Hb as [H1 H2].
      destruct (optimize_opt b) as [b'|] eqn:Eb; [|discriminate]. destruct (map_opt optimize_opt r) as [r'|] eqn:Er; [|discriminate].
      injection E as <-. constructor; [|apply (IHr r' H2 eq_refl)].
      destruct (opt_binding rox b b' H1 Eb) as (nm & s & x & x' & -> & -> & Hx & Ex).
      exists (VSym nm s), x, x'. split; [reflexivity|]. split; [reflexivity|]. apply (IH x x' Hx Ex). }
  change (eval lf (S f) (VList w (VOp o :: args))) with (dispatch lf ev1 (fun x q => expand lf f x q) o args) in *.
  destruct (rox_op o) eqn:Hop.
  - assert (Ha : forallb rox args = true).
    { destruct o; try discriminate Hop; destruct w; cbn [rox rox_op ron_op orb andb] in Hr; exact Hr. }
    cbn [optimize_opt] in Ho. destruct o; try discriminate Hop.
    all: try (match goal with |- le (dispatch _ _ _ ?o _) _ =>
      destruct w; cbv beta iota in Ho; [|injection Ho as <-; apply Hsame; reflexivity];
      destruct (map_opt optimize_opt args) as [args'|] eqn:E; [|discriminate];
      destruct (Hlist args args' Ha E) as [F R];
      eapply le_trans; [|apply (node_sound_x lf f _ _ args' e' Hop R Ho)];
      change (eval lf (S (S f)) (VList true (VOp o :: args'))) with (dispatch lf ev2 (fun x q => expand lf (S f) x q) o args');
      unfold dispatch;
      first [ apply cong_not | apply cong_eq | apply cong_cmp | apply cong_if | apply cong_do | apply cong_add | apply cong_sub
            | apply cong_mul | apply cong_exp | apply cong_mod | apply cong_bitwise | apply cong_slice
            | apply cong_while | apply cong_print ]; exact F end).
    + (* && *)
      assert (Hfold : forallb is_lit args && negb (Nat.eqb (List.length args) 0) = true ->
                      le (dispatch lf ev1 (fun x q => expand lf f x q) OAnd args) (eval lf (S (S f)) (VBool (forallb lit_truthy args)))).
      { intros Hc. apply andb_prop in Hc as [Hl Hn]. intros st x st' H. unfold dispatch in H.
        destruct args as [|a r]; [discriminate Hn|]. unfold ev1 in H. destruct f as [|f0].
        - unfold op_and in H. cbn in H. discriminate H.
        - rewrite (and_literals (fun x => eval lf (S f0) x) (fun v s Hv => eval_literal lf f0 v s Hv) (a :: r) st Hl ltac:(discriminate)) in H.
          injection H as <- <-. reflexivity. }
      destruct w; cbv beta iota in Ho; destruct (forallb is_lit args && negb (Nat.eqb (List.length args) 0)) eqn:Ec;
        injection Ho as <-; first [apply Hfold; reflexivity|apply Hsame; reflexivity].
    + (* || *)
      assert (Hfold : forallb is_lit args && negb (Nat.eqb (List.length args) 0) = true ->
                      le (dispatch lf ev1 (fun x q => expand lf f x q) OOr args) (eval lf (S (S f)) (VBool (existsb lit_truthy args)))).
      { intros Hc. apply andb_prop in Hc as [Hl Hn]. intros st x st' H. unfold dispatch in H.
        destruct args as [|a r]; [discriminate Hn|]. unfold ev1 in H. destruct f as [|f0].
        - unfold op_or in H. cbn in H. discriminate H.
        - rewrite (or_literals (fun x => eval lf (S f0) x) (fun v s Hv => eval_literal lf f0 v s Hv) (a :: r) st Hl ltac:(discriminate)) in H.
          injection H as <- <-. reflexivity. }
      destruct w; cbv beta iota in Ho; destruct (forallb is_lit args && negb (Nat.eqb (List.length args) 0)) eqn:Ec;
        injection Ho as <-; first [apply Hfold; reflexivity|apply Hsame; reflexivity].
  - destruct o; try discriminate Hop; try (destruct w; discriminate Hr).
    + (* set *)
      destruct w; [|discriminate Hr]. change (forallb (is_binding rox) args = true) in Hr.
      rewrite opt_set_unfold in Ho. destruct (map_opt optimize_opt args) as [args'|] eqn:E; [|discriminate Ho].
      injection Ho as <-.
      change (eval lf (S (S f)) (VList true (VOp OSet :: args'))) with (dispatch lf ev2 (fun x q => expand lf (S f) x q) OSet args').
      unfold dispatch. apply cong_set. apply (Hbind _ _ Hr E).
    + (* let *)
      destruct w; [|discriminate Hr]. destruct args as [|bl body]; [discriminate Hr|].
      destruct bl as [| | | | | | |wb bs| | | | |]; try discriminate Hr. destruct wb; [|discriminate Hr].
      change (forallb (is_binding rox) bs && forallb rox body = true) in Hr. apply andb_prop in Hr as [Hb Hbody].
      rewrite opt_let_unfold in Ho.
      destruct (optimize_opt (VList true bs)) as [bl'|] eqn:Ebl; [|discriminate Ho].
      destruct (map_opt optimize_opt body) as [body'|] eqn:Ebody; [|discriminate Ho].
      injection Ho as <-.
      destruct (opt_binding_list bs bl') as (bs' & -> & Ebs); [|exact Ebl|].
      { intros b Hin. exists rox. rewrite forallb_forall in Hb. apply Hb, Hin. }
      change (eval lf (S (S f)) (VList true (VOp OLet :: VList true bs' :: body')))
        with (dispatch lf ev2 (fun x q => expand lf (S f) x q) OLet (VList true bs' :: body')).
      unfold dispatch. apply cong_let; [apply (Hbind _ _ Hb Ebs)|apply (Hlist _ _ Hbody Ebody)].
Qed.

(** in the words of the property *)
Corollary optimize_preserves_x lf f e st v st' :
  rox e = true -> optimize_modelled e = true -> eval lf f e st = Ok v st' -> eval lf (S f) (optimize e) st = Ok v st'.
Proof.
  unfold optimize_modelled, optimize. intros Hr Hm H. destruct (optimize_opt e) as [e'|] eqn:E; [|discriminate].
  apply (optimize_sound_x lf f e e' Hr E st v st' H).
Qed.
