(** ContInv.v — the container stays well-formed through every completed evaluation: trace ids are distinct,
    every trace is filed under its own id, and the count of loaded traces equals the number of traces (C12; it
    discharges the [cont_wf] premises of the C03/C04 theorems for every reachable state).
    Same structure as Balanced.v: [good m] for the relation "well-formed before => well-formed after", one lemma
    per monadic combinator and per operator, the whole evaluator by induction on fuel. *)
From WalModel Require Import Eval.
From WalModel.proofs Require Import VcdProofs TraceProofs RevalProofs ListProofs ScanProofs.
Local Open Scope Z_scope.

Definition cwf (c : container) : Prop := cont_wf c /\ c_ntraces c = zlen (c_traces c).
Definition R (st st' : state) : Prop := cwf (st_cont st) -> cwf (st_cont st').

Lemma R_refl st : R st st.
Proof. intros H. exact H. Qed.
Lemma R_trans a b c : R a b -> R b c -> R a c.
Proof. intros H1 H2 H. apply H2, H1, H. Qed.

(** ** container lemmas *)
Definition tid_ok (l : list (string * trace)) : Prop := forall k t, In (k, t) l -> tr_tid t = k.

Lemma cwf_parts c : cwf c <-> NoDup (map fst (c_traces c)) /\ tid_ok (c_traces c) /\ c_ntraces c = zlen (c_traces c).
Proof. unfold cwf, cont_wf, tid_ok. tauto. Qed.

Lemma in_aset {V} k (v : V) l k2 v2 : In (k2, v2) (aset k v l) -> (k2 = k /\ v2 = v) \/ In (k2, v2) l.
Proof.
  induction l as [|[k' v'] l IH]; cbn [aset In].
  - intros [E|[]]. injection E as <- <-. left. split; reflexivity.
  - destruct (String.eqb_spec k k') as [->|_]; cbn [In].
    + intros [E|H]; [injection E as <- <-; left; split; reflexivity|right; right; exact H].
    + intros [E|H]; [right; left; exact E|]. destruct (IH H) as [X|X]; [left; exact X|right; right; exact X].
Qed.

Lemma zlen_keys {V W} (l : list (string * V)) (l' : list (string * W)) : map fst l' = map fst l -> zlen l' = zlen l.
Proof. intros H. unfold zlen. f_equal. rewrite <- (map_length fst l'), H, map_length. reflexivity. Qed.

Lemma cwf_aset_existing c k t0 t' :
  cwf c -> alookup k (c_traces c) = Some t0 -> tr_tid t' = k -> cwf (with_traces c (aset k t' (c_traces c))).
Proof.
  rewrite !cwf_parts. intros (Hn & Ht & Hc) Hl Et. unfold with_traces. cbn [c_traces c_ntraces].
  assert (Hk : map fst (aset k t' (c_traces c)) = map fst (c_traces c)).
  { apply keys_aset_old. unfold amem. rewrite Hl. reflexivity. }
  split; [rewrite Hk; exact Hn|]. split.
  - intros k2 t2 Hin. destruct (in_aset _ _ _ _ _ Hin) as [[-> ->]|H]; [exact Et|apply Ht, H].
  - rewrite Hc. symmetry. apply zlen_keys, Hk.
Qed.

Lemma cwf_lookup_tid c k t : cwf c -> alookup k (c_traces c) = Some t -> tr_tid t = k.
Proof. intros [[_ H] _] Hl. apply H. apply ScanProofs.alookup_some_in, Hl. Qed.

Lemma trace_step_tid t n : tr_tid (fst (trace_step t n)) = tr_tid t.
Proof. unfold trace_step. destruct ((tr_index t + n <? 0) || (tr_max t <? tr_index t + n)); reflexivity. Qed.

Lemma step_all_in l n k t' : In (k, t') (fst (step_all l n)) -> exists t, In (k, t) l /\ t' = fst (trace_step t n).
Proof.
  induction l as [|[k0 t0] l IH]; [intros []|]. cbn [step_all].
  destruct (trace_step t0 n) as [t1 e] eqn:E1. destruct (step_all l n) as [r es]. cbn [fst In] in *.
  intros [E|H].
  - injection E as <- <-. exists t0. split; [left; reflexivity|rewrite E1; reflexivity].
  - destruct (IH H) as (t & Hin & ->). exists t. split; [right; exact Hin|reflexivity].
Qed.

Lemma cwf_step_all c n : cwf c -> cwf (with_traces c (fst (step_all (c_traces c) n))).
Proof.
  rewrite !cwf_parts. intros (Hn & Ht & Hc). unfold with_traces. cbn [c_traces c_ntraces].
  pose proof (ScanProofs.step_all_keys (c_traces c) n) as Hk.
  split; [rewrite Hk; exact Hn|]. split.
  - intros k t' Hin. destruct (step_all_in _ _ _ _ Hin) as (t & Hi & ->). rewrite trace_step_tid. apply Ht, Hi.
  - rewrite Hc. symmetry. apply zlen_keys, Hk.
Qed.

Lemma cwf_cont_step c n tid c' e : cont_step c n tid = Some (c', e) -> cwf c -> cwf c'.
Proof.
  unfold cont_step. intros H W. destruct tid as [id|].
  - destruct (String.eqb id "").
    + destruct (step_all (c_traces c) n) as [ts es] eqn:E. injection H as <- _.
      replace ts with (fst (step_all (c_traces c) n)) by (rewrite E; reflexivity). apply cwf_step_all, W.
    + destruct (alookup id (c_traces c)) as [t|] eqn:El; [|discriminate].
      destruct (trace_step t n) as [t' e'] eqn:Et. injection H as <- _.
      apply (cwf_aset_existing c id t t' W El).
      replace t' with (fst (trace_step t n)) by (rewrite Et; reflexivity). rewrite trace_step_tid. apply (cwf_lookup_tid c id t W El).
  - destruct (step_all (c_traces c) n) as [ts es] eqn:E. injection H as <- _.
    replace ts with (fst (step_all (c_traces c) n)) by (rewrite E; reflexivity). apply cwf_step_all, W.
Qed.

Lemma restore_list_wf : forall saved l l', restore_list l saved = Some l' ->
  NoDup (map fst l) -> tid_ok l -> map fst l' = map fst l /\ tid_ok l'.
Proof.
  induction saved as [|[tid i] r IH]; intros l l' H Hn Ht.
  - injection H as <-. split; [reflexivity|exact Ht].
  - cbn [restore_list] in H. destruct (alookup tid l) as [t|] eqn:El; [|discriminate].
    assert (Hk : map fst (aset tid (set_index t i) l) = map fst l).
    { apply keys_aset_old. unfold amem. rewrite El. reflexivity. }
    destruct (IH _ _ H) as [K T].
    + rewrite Hk. exact Hn.
    + intros k2 t2 Hin. destruct (in_aset _ _ _ _ _ Hin) as [[-> ->]|X]; [|apply Ht, X].
      cbn [tr_tid set_index]. apply Ht. apply ScanProofs.alookup_some_in, El.
    + split; [congruence|exact T].
Qed.

Lemma cwf_cont_restore c c' : cont_restore c = Some c' -> cwf c -> cwf c'.
Proof.
  unfold cont_restore. intros H W. destruct (c_stack c) as [|top rest]; [injection H as <-; exact W|].
  destruct (restore_list (c_traces c) top) as [ts|] eqn:E; [|discriminate]. injection H as <-.
  apply cwf_parts in W as (Hn & Ht & Hc). destruct (restore_list_wf _ _ _ E Hn Ht) as [K T].
  apply cwf_parts. cbn [c_traces c_ntraces]. split; [rewrite K; exact Hn|]. split; [exact T|].
  rewrite Hc. symmetry. apply zlen_keys, K.
Qed.

Lemma cwf_cont_store c : cwf c -> cwf (cont_store c).
Proof. intros W. exact W. Qed.

Lemma cwf_cont_add c tid t : cwf c -> amem tid (c_traces c) = false -> tr_tid t = tid -> cwf (cont_add c tid t).
Proof.
  rewrite !cwf_parts. intros (Hn & Ht & Hc) Hm Et. unfold cont_add. cbn [c_traces c_ntraces].
  assert (Hk : map fst (aset tid t (c_traces c)) = map fst (c_traces c) +++ [tid]) by (apply keys_aset_new, Hm).
  split; [|split].
  - apply nodup_aset, Hn.
  - intros k2 t2 Hin. destruct (in_aset _ _ _ _ _ Hin) as [[-> ->]|X]; [exact Et|apply Ht, X].
  - rewrite Hc. unfold zlen. rewrite <- (map_length fst (aset tid t (c_traces c))), Hk, app_length, map_length. cbn [List.length]. lia.
Qed.

Lemma adel_length {V} k (l : list (string * V)) : amem k l = true -> NoDup (map fst l) ->
  zlen (adel k l) = zlen l - 1.
Proof.
  unfold amem, zlen. induction l as [|[k' v'] l IH]; cbn [alookup adel map fst List.length]; [discriminate|].
  intros Hm Hn. inversion Hn as [|x xs Hnot Hn']; subst. destruct (String.eqb_spec k k') as [->|Hd].
  - (* removed here; the rest does not contain k *)
    assert (E : adel k' l = l).
    { clear - Hnot. induction l as [|[k2 v2] l IH]; [reflexivity|]. cbn [adel map fst In] in *.
      destruct (String.eqb_spec k' k2) as [->|_]; [exfalso; apply Hnot; left; reflexivity|]. f_equal. apply IH. tauto. }
    cbn [adel] in *. lia.
  - cbn [List.length]. specialize (IH Hm Hn'). lia.
Qed.

Lemma in_adel {V} k (l : list (string * V)) k2 v2 : In (k2, v2) (adel k l) -> In (k2, v2) l.
Proof.
  induction l as [|[k' v'] l IH]; cbn [adel]; [intros []|].
  destruct (String.eqb k k'); cbn [In]; [intros H; right; exact H|intros [E|H]; [left; exact E|right; apply IH, H]].
Qed.

Lemma cwf_cont_unload c tid : cwf c -> cwf (cont_unload c tid).
Proof.
  intros W. unfold cont_unload. destruct (amem tid (c_traces c)) eqn:Hm; [|exact W].
  apply cwf_parts in W as (Hn & Ht & Hc). apply cwf_parts. cbn [c_traces c_ntraces].
  split; [apply nodup_adel, Hn|]. split.
  - intros k2 t2 Hin. apply Ht. eapply in_adel. exact Hin.
  - rewrite (adel_length _ _ Hm Hn). lia.
Qed.

Lemma vcd_parse_tid tid file text t : vcd_parse tid file text = POk t -> tr_tid t = tid.
Proof.
  unfold vcd_parse. cbv zeta.
  repeat match goal with |- context [match ?x with _ => _ end] => destruct x; try discriminate end.
  all: intros H; injection H as <-; reflexivity.
Qed.
Lemma csv_parse_tid tid file text t : csv_parse tid file text = POk t -> tr_tid t = tid.
Proof.
  unfold csv_parse. cbv zeta.
  repeat match goal with |- context [match ?x with _ => _ end] => destruct x; try discriminate end.
  all: intros H; injection H as <-; reflexivity.
Qed.

Definition good {A} (m : M A) : Prop := forall st a st', m st = Ok a st' -> R st st'.

Lemma good_ret {A} (a : A) : good (ret a).
Proof. intros st x st' H. injection H as _ <-. apply R_refl. Qed.
Lemma good_fail {A} e : good (@fail A e).
Proof. intros st x st' H. discriminate. Qed.
Lemma good_unm {A} w : good (@unm A w).
Proof. intros st x st' H. discriminate. Qed.
Lemma good_fuel {A} : good (fun _ : state => @Fuel A).
Proof. intros st x st' H. discriminate. Qed.
Lemma good_bind {A B} (m : M A) (k : A -> M B) : good m -> (forall a, good (k a)) -> good (bind m k).
Proof.
  intros Hm Hk st b st' H. unfold bind in H. destruct (m st) as [a st1| | |] eqn:E; try discriminate.
  eapply R_trans; [eapply Hm; exact E|eapply Hk; exact H].
Qed.
Lemma good_get_st : good get_st.
Proof. intros st x st' H. injection H as _ <-. apply R_refl. Qed.
Lemma good_modify (f : state -> state) : (forall s, R s (f s)) -> good (modify f).
Proof. intros Hf st x st' H. injection H as _ <-. apply Hf. Qed.
Lemma good_assert b : good (assert b).
Proof. unfold assert. destruct b; [apply good_ret|apply good_fail]. Qed.
Lemma good_require b e : good (require b e).
Proof. unfold require. destruct b; [apply good_ret|apply good_fail]. Qed.
Lemma good_of_opt {A} (o : option A) e : good (of_opt o e).
Proof. unfold of_opt. destruct o; [apply good_ret|apply good_fail]. Qed.
Lemma good_mapM {A B} (f : A -> M B) l : (forall x, good (f x)) -> good (mapM f l).
Proof.
  intros Hf. induction l as [|x l IH]; cbn [mapM]; [apply good_ret|].
  apply good_bind; [apply Hf|intros y]. apply good_bind; [exact IH|intros ys; apply good_ret].
Qed.

(** a computation that does not touch the container *)
Lemma good_keep {A} (m : M A) : (forall st a st', m st = Ok a st' -> st_cont st' = st_cont st) -> good m.
Proof. intros H st a st' E W. rewrite (H _ _ _ E). exact W. Qed.

Lemma R_upd_arrays s x : R s (upd_arrays s x). Proof. intros H; exact H. Qed.
Lemma R_upd_scope s x : R s (upd_scope s x). Proof. intros H; exact H. Qed.
Lemma R_upd_group s x : R s (upd_group s x). Proof. intros H; exact H. Qed.
Lemma R_upd_aliases s x : R s (upd_aliases s x). Proof. intros H; exact H. Qed.
Lemma R_upd_gensym s x : R s (upd_gensym s x). Proof. intros H; exact H. Qed.
Lemma R_upd_out s x : R s (upd_out s x). Proof. intros H; exact H. Qed.
Lemma R_upd_cur s x : R s (upd_cur s x). Proof. intros H; exact H. Qed.
Lemma R_upd_frames s x : R s (upd_frames s x). Proof. intros H; exact H. Qed.
Lemma R_upd_cont s c : (cwf (st_cont s) -> cwf c) -> R s (upd_cont s c).
Proof. intros H W. exact (H W). Qed.
#[global] Hint Resolve R_refl R_upd_arrays R_upd_scope R_upd_group R_upd_aliases R_upd_gensym R_upd_out R_upd_cur R_upd_frames : goodb.

Lemma good_new_frame p : good (new_frame p).
Proof. apply good_keep. intros st a st' H. unfold new_frame in H. injection H as _ <-. reflexivity. Qed.
Lemma good_env_define id n v : good (env_define id n v).
Proof.
  apply good_keep. intros st a st' H. unfold env_define in H. destruct (get_frame st id); [|discriminate].
  destruct (amem n (f_binds f)); [discriminate|]. injection H as _ <-. reflexivity.
Qed.
Lemma good_env_undefine id n : good (env_undefine id n).
Proof.
  apply good_keep. intros st a st' H. unfold env_undefine in H. destruct (get_frame st id); [|discriminate].
  destruct (amem n (f_binds f)); [|discriminate]. injection H as _ <-. reflexivity.
Qed.
Lemma good_env_read id n : good (env_read id n).
Proof.
  apply good_keep. intros st x st' H. unfold env_read in H.
  destruct (lookup_frame st id n); [|discriminate]. destruct (get_frame st n0); [|discriminate].
  destruct (alookup n (f_binds f)); [|discriminate]. injection H as _ <-. reflexivity.
Qed.
Lemma good_frame_store fid n v : good (frame_store fid n v).
Proof.
  apply good_keep. intros st x st' H. unfold frame_store in H. destruct (get_frame st fid); [|discriminate].
  injection H as _ <-. reflexivity.
Qed.
Lemma good_env_write id n v : good (env_write id n v).
Proof.
  intros st x st' H. unfold env_write in H. destruct (lookup_frame st id n); [|discriminate].
  eapply good_frame_store. exact H.
Qed.
Lemma good_read_global n : good (read_global n). Proof. apply good_env_read. Qed.
Lemma good_write_global n v : good (write_global n v). Proof. apply good_env_write. Qed.
Lemma good_new_array d : good (new_array d).
Proof. intros st x st' H. unfold new_array in H. injection H as _ <-. apply R_upd_arrays. Qed.
Lemma good_get_array r : good (get_array r).
Proof.
  intros st x st' H. unfold get_array in H. destruct (nth_error (st_arrays st) r); [|discriminate].
  injection H as _ <-. apply R_refl.
Qed.
Lemma good_put_array r d : good (put_array r d).
Proof. unfold put_array. apply good_modify. intros s. apply R_upd_arrays. Qed.
Lemma good_emit s : good (emit s).
Proof. unfold emit. apply good_modify. intros x. apply R_upd_out. Qed.

#[global] Hint Resolve good_ret good_fail good_unm good_fuel good_get_st good_assert good_require good_of_opt
  good_new_frame good_env_define good_env_undefine good_env_read good_frame_store good_env_write good_read_global
  good_write_global good_new_array good_get_array good_put_array good_emit : goodb.

Ltac good_step :=
  lazymatch goal with
  | |- good (bind _ _) => apply good_bind; [|intros ?]
  | |- good (mapM _ _) => apply good_mapM; intros ?
  | |- good (modify _) => apply good_modify; intros ?; auto with goodb
  | |- good (match ?x with _ => _ end) => destruct x
  | |- good (if ?b then _ else _) => destruct b
  | |- good (let '(_, _) := ?x in _) => destruct x
  | |- good _ => solve [auto with goodb]
  end.
Ltac solve_good := repeat good_step.

Section WithEv.
  Variable loopfuel : nat.
  Variable ev : val -> M val.
  Variable ex : val -> option nat -> M val.
  Hypothesis Hev : forall e, good (ev e).
  Hypothesis Hex : forall e p, good (ex e p).
  Hint Resolve Hev Hex : goodb.

  Lemma good_eval_args args : good (eval_args ev args).
  Proof. unfold eval_args. apply good_mapM. exact Hev. Qed.
  Hint Resolve good_eval_args : goodb.

  Lemma good_last_or l : good (last_or_index_error l).
  Proof. unfold last_or_index_error. solve_good. Qed.
  Lemma good_arg0 l : good (arg0 l).
  Proof. unfold arg0. solve_good. Qed.
  Hint Resolve good_last_or good_arg0 : goodb.

  Lemma good_printable v : good (printable v).
    Proof.
    apply good_keep. intros st x st' H. unfold printable in H.
    match type of H with (match ?m with _ => _ end) = _ => destruct m end; [|discriminate].
    injection H as _ <-. reflexivity.
  Qed.

  Hint Resolve good_printable : goodb.

  Lemma good_contains_m n : good (contains_m n).
  Proof. unfold contains_m. solve_good. Qed.
  Hint Resolve good_contains_m : goodb.

  (** replacing a trace that was just looked up by a trace with the same id *)
  Lemma replace_looked st tid t0 t' a st' :
    alookup tid (c_traces (st_cont st)) = Some t0 -> tr_tid t' = tr_tid t0 ->
    replace_trace t' st = Ok a st' -> R st st'.
  Proof.
    intros Hl Et H. unfold replace_trace, modify in H. injection H as _ <-. apply R_upd_cont. intros W.
    pose proof (cwf_lookup_tid _ _ _ W Hl) as E0. rewrite Et, E0. apply (cwf_aset_existing _ tid t0 t' W Hl). congruence.
  Qed.

  Lemma bind_ok_inv {A B} (m : M A) (k : A -> M B) st b st' :
    bind m k st = Ok b st' -> exists a st1, m st = Ok a st1 /\ k a st1 = Ok b st'.
  Proof. unfold bind. destruct (m st) as [a st1| | |] eqn:E; try discriminate. intros H. eauto. Qed.

  Ltac binv H :=
    let a := fresh "a" in let s := fresh "s" in let E := fresh "E" in
    apply bind_ok_inv in H; destruct H as (a & s & E & H).

  Lemma good_virtual_value tid n : good (virtual_value ev tid n).
  Proof.
    unfold virtual_value. apply good_bind; [apply good_get_st|intros st0].
    destruct (alookup tid (c_traces (st_cont st0))) as [t|]; [|apply good_fail].
    destruct (alookup n (tr_virt t)) as [vs|]; [|apply good_fail].
    cbv zeta. match goal with |- good (match ?x with _ => _ end) => destruct x end; [apply good_ret|].
    apply good_bind; [apply good_eval_args|intros vals]. apply good_bind; [apply good_last_or|intros v].
    intros st a st' H. binv H. injection E as <- <-.
    destruct (alookup tid (c_traces (st_cont st))) as [t2|] eqn:El; [|discriminate].
    destruct (alookup n (tr_virt t2)) as [vs2|]; [|discriminate].
    binv H. injection H as _ <-. eapply replace_looked; [exact El| |exact E]. reflexivity.
  Qed.
  Hint Resolve good_virtual_value : goodb.

  Lemma good_signal_value_m n sc : good (signal_value_m ev n sc).
  Proof. unfold signal_value_m. solve_good. Qed.
  Hint Resolve good_signal_value_m : goodb.

  Lemma good_eval_symbol n s : good (eval_symbol ev n s).
  Proof. unfold eval_symbol. solve_good. Qed.
  Hint Resolve good_eval_symbol : goodb.


  (** parameter binding of a closure call *)
  Lemma good_bind_params fid : forall ps args,
    good ((fix go (ps args : list val) : M unit :=
             match ps, args with
             | p :: pr, a :: ar =>
                 v <- ev a ;;
                 match p with
                 | VSym pn _ => env_define fid pn v ;;; go pr ar
                 | _ => fail EOther
                 end
             | _, _ => ret tt
             end) ps args).
  Proof.
    induction ps as [|p ps IH]; intros args; [destruct args; apply good_ret|].
    destruct args as [|a args]; [apply good_ret|].
    apply good_bind; [apply Hev|intros v]. destruct p; try apply good_fail.
    apply good_bind; [apply good_env_define|intros _; apply IH].
  Qed.

  Lemma good_eval_closure clos args : good (eval_closure ev clos args).
    Proof. unfold eval_closure. solve_good. apply good_bind_params. Qed.

  Hint Resolve good_eval_closure : goodb.

  Lemma good_op_not args : good (op_not ev args). Proof. unfold op_not. solve_good. Qed.
  Lemma good_op_eq neg args : good (op_eq ev neg args). Proof. unfold op_eq. solve_good. Qed.
  Lemma good_op_cmp t args : good (op_cmp ev t args). Proof. unfold op_cmp. solve_good. Qed.
  Lemma good_and_loop args : good (and_loop ev args).
  Proof. induction args as [|a r IH]; cbn [and_loop]; solve_good. Qed.
  Lemma good_or_loop args : good (or_loop ev args).
  Proof. induction args as [|a r IH]; cbn [or_loop]; solve_good. Qed.
  Hint Resolve good_and_loop good_or_loop : goodb.
  Lemma good_op_and args : good (op_and ev args). Proof. unfold op_and. solve_good. Qed.
  Lemma good_op_or args : good (op_or ev args). Proof. unfold op_or. solve_good. Qed.

  Lemma good_let_binds fid : forall ps,
    good ((fix go (ps : list val) : M unit :=
           match ps with
           | [] => ret tt
           | p :: r =>
               match p with
               | VList true items =>
                   match items with
                   | [] => fail EOther
                   | k :: _ =>
                       match k with
                       | VSym kn _ =>
                           assert (Nat.eqb (List.length items) 2) ;;;
                           match items with
                           | [_; e] => v <- ev e ;; env_define fid kn v ;;; go r
                           | _ => fail EEval
                           end
                       | _ => fail EEval
                       end
                   end
               | _ => fail EEval
               end
           end) ps).
  Proof.
    induction ps as [|p ps IH]; [apply good_ret|].
    destruct p; try apply good_fail. destruct w; try apply good_fail.
    destruct l as [|k items]; [apply good_fail|]. destruct k; try apply good_fail.
    apply good_bind; [apply good_assert|intros _].
    destruct items as [|e items]; [apply good_fail|]. destruct items; [|apply good_fail].
    apply good_bind; [apply Hev|intros v]. apply good_bind; [apply good_env_define|intros _; exact IH].
  Qed.

  Lemma good_op_let args : good (op_let ev args).
    Proof. unfold op_let. solve_good. all: apply good_let_binds. Qed.


  Lemma good_op_set args : good (op_set ev args).
  Proof.
    unfold op_set. apply good_bind; [apply good_assert|intros _].
    generalize VNone. induction args as [|a r IH]; intros last; [apply good_ret|].
    destruct a; try apply good_fail. destruct w; try apply good_fail.
    destruct l as [|k l]; [apply good_fail|]. destruct l as [|e l]; [apply good_fail|]. destruct l; [|apply good_fail].
    destruct k; try apply good_fail.
    apply good_bind; [apply Hev|intros v]. apply good_bind; [apply good_get_st|intros st0].
    apply good_bind; [|intros _; apply IH].
    solve_good.
  Qed.

  Lemma good_op_define args : good (op_define ev args). Proof. unfold op_define. solve_good. Qed.
  Lemma good_to_text v : good (to_text v). Proof. unfold to_text. solve_good. Qed.
  Hint Resolve good_to_text : goodb.
  Lemma good_op_print args : good (op_print ev args). Proof. unfold op_print. solve_good. Qed.
  Lemma good_printf_arg_s v : good (printf_arg_s v). Proof. unfold printf_arg_s. solve_good. Qed.
  Hint Resolve good_printf_arg_s : goodb.
  Lemma good_printf_go n : forall fmt vs, good (printf_go n fmt vs).
  Proof. induction n as [|n IH]; intros fmt vs; cbn [printf_go]; solve_good. Qed.
  Hint Resolve good_printf_go : goodb.
  Lemma good_op_printf args : good (op_printf ev args). Proof. unfold op_printf. solve_good. Qed.
  Lemma good_op_if args : good (op_if ev args). Proof. unfold op_if. solve_good. Qed.
  Lemma good_op_do args : good (op_do ev args). Proof. unfold op_do. solve_good. Qed.
  Lemma good_while_loop n c body : forall last, good (while_loop ev n c body last).
  Proof. induction n as [|n IH]; intros last; cbn [while_loop]; solve_good. Qed.
  Hint Resolve good_while_loop : goodb.
  Lemma good_op_while args : good (op_while loopfuel ev args). Proof. unfold op_while. solve_good. Qed.

  Lemma good_op_case args : good (op_case ev args).
  Proof.
    unfold op_case. apply good_bind; [apply good_assert|intros _].
    destruct args as [|kf clauses]; [apply good_fail|].
    apply good_bind; [apply Hev|intros keyform].
    apply good_bind; [solve_good|intros keys].
    apply good_bind; [apply good_require|intros _].
    generalize (@None (list val)). induction clauses as [|c r IH]; intros default.
    - solve_good.
    - destruct c; try apply good_fail. destruct l as [|k body]; [apply good_fail|].
      destruct (py_eq keyform k) as [[|]|]; [solve_good| |apply good_unm].
      destruct k; try apply IH.
      match goal with |- good (match ?x with _ => _ end) => destruct x end; try apply IH.
      repeat match goal with |- good (match ?x with _ => _ end) => destruct x; try apply IH end.
  Qed.

  Lemma good_op_alias args : good (op_alias ev args). Proof. unfold op_alias. solve_good. Qed.
  Lemma good_op_unalias args : good (op_unalias args).
    Proof. unfold op_unalias. solve_good. induction args as [|x r IH]; [apply good_ret|]. destruct x; try apply good_fail. solve_good. Qed.

  Lemma good_op_quote args : good (op_quote args). Proof. unfold op_quote. solve_good. Qed.

  Lemma good_unquote_inner (f : val -> M val) : (forall e, good (f e)) -> forall l acc,
    good ((fix go (l : list val) (acc : list val) : M val :=
             match l with
             | [] => ret (WL acc)
             | x :: r =>
                 match x with
                 | VUnq c => c' <- f c ;; v <- ev c' ;; go r (acc +++ [v])
                 | VUnqS c =>
                     c' <- f c ;; v <- ev c' ;;
                     match v with
                     | VList _ items => go r (acc +++ items)
                     | VStr _ | VArr _ => unm "splice of non-list iterable"
                     | _ => fail EOther
                     end
                 | _ => x' <- f x ;; go r (acc +++ [x'])
                 end
             end) l acc).
  Proof.
    intros Hf. induction l as [|x r IHl]; intros acc; [apply good_ret|].
    destruct x; try (apply good_bind; [apply Hf|intros; apply IHl]).
    - apply good_bind; [apply Hf|intros c']. apply good_bind; [apply Hev|intros v]. apply IHl.
    - apply good_bind; [apply Hf|intros c']. apply good_bind; [apply Hev|intros v].
      destruct v; try apply good_fail; try apply good_unm. apply IHl.
  Qed.

  Lemma good_unquote_go n : forall e, good (unquote_go ev n e).
  Proof.
    induction n as [|n IH]; intros e; cbn [unquote_go]; [apply good_fuel|].
    destruct e; try apply good_ret. destruct w; try apply good_ret.
    assert (Hl : l = [] \/ exists x r, l = x :: r) by (destruct l; eauto).
    destruct Hl as [->|(x0 & l0 & ->)]; [apply good_ret|].
    cbv match.
    exact (good_unquote_inner (unquote_go ev n) IH (x0 :: l0) []).
  Qed.
  Hint Resolve good_unquote_go : goodb.
  Lemma good_op_quasiquote args : good (op_quasiquote loopfuel ev args). Proof. unfold op_quasiquote. solve_good. Qed.

  Lemma good_run_passes e p start : good (run_passes ex e p start). Proof. unfold run_passes. solve_good. Qed.
  Hint Resolve good_run_passes : goodb.
  Lemma good_op_eval args : good (op_eval ev ex args). Proof. unfold op_eval. solve_good. Qed.
  Lemma good_op_fn args : good (op_fn args). Proof. unfold op_fn. solve_good. Qed.
  Lemma good_op_defmacro args : good (op_defmacro ex args). Proof. unfold op_defmacro. solve_good. Qed.
  Lemma good_op_macroexpand args : good (op_macroexpand ev ex args). Proof. unfold op_macroexpand. solve_good. Qed.
  Lemma good_op_gensym args : good (op_gensym args).
  Proof. unfold op_gensym. solve_good. Qed.
  Lemma good_op_get args : good (op_get ev args).
  Proof.
    unfold op_get. apply good_bind; [apply good_assert|intros _]. apply good_bind; [apply good_eval_args|intros vs].
    destruct vs as [|v vs]; [apply good_ret|]. destruct vs; [|destruct v; apply good_ret].
    destruct v; try apply good_ret; try apply Hev.
    intros st a st' H. destruct (ev (VSym s None) st) as [x s1|e0 s1| |] eqn:E; try discriminate.
    - injection H as <- <-. eapply Hev. exact E.
    - destruct e0; discriminate.
  Qed.

  (** relative evaluation: the saved positions pushed here are popped here *)
  Lemma cont_step_stack c n tid c' e : cont_step c n tid = Some (c', e) -> c_stack c' = c_stack c.
  Proof.
    unfold cont_step. destruct tid as [id|].
    - destruct (String.eqb id "").
      + destruct (step_all (c_traces c) n). intros H. injection H as <- _. reflexivity.
      + destruct (alookup id (c_traces c)); [|discriminate]. destruct (trace_step t n).
        intros H. injection H as <- _. reflexivity.
    - destruct (step_all (c_traces c) n). intros H. injection H as <- _. reflexivity.
  Qed.

  Lemma good_step_all_m n : good (step_all_m n).
    Proof.
    unfold step_all_m. intros st a st' H. binv H. injection E as <- <-.
    destruct (cont_step (st_cont st) n None) as [[c ended]|] eqn:Ec; [|discriminate].
    binv H. injection E as _ <-. injection H as _ <-.
    apply R_upd_cont. apply (cwf_cont_step _ _ _ _ _ Ec).
  Qed.

  Hint Resolve good_step_all_m : goodb.

  Lemma cont_restore_stack c c' top rest :
    cont_restore c = Some c' -> c_stack c = top :: rest -> c_stack c' = rest.
  Proof.
    unfold cont_restore. intros H Hs. rewrite Hs in H.
    destruct (restore_list (c_traces c) top); [|discriminate]. injection H as <-. reflexivity.
  Qed.

  Lemma R_store s : R s (upd_cont s (cont_store (st_cont s))).
  Proof. apply R_upd_cont. intros W. exact W. Qed.
  Hint Resolve R_store : goodb.
  Lemma good_restore_m : good restore_m.
  Proof.
    unfold restore_m. intros st a st' H. binv H. injection E as <- <-.
    destruct (cont_restore (st_cont st)) as [c|] eqn:Ec; [|discriminate].
    unfold modify in H. injection H as _ <-. apply R_upd_cont. apply (cwf_cont_restore _ _ Ec).
  Qed.
  Hint Resolve good_restore_m : goodb.
  Lemma good_op_reval args : good (op_reval ev args).
  Proof. unfold op_reval. solve_good. Qed.


  Lemma good_set_scope_cs s : good (set_scope_cs s). Proof. unfold set_scope_cs. solve_good. Qed.
  Hint Resolve good_set_scope_cs : goodb.
  Lemma good_op_in_scope args : good (op_in_scope ev args). Proof. unfold op_in_scope. solve_good. Qed.
  Lemma good_op_all_scopes args : good (op_all_scopes ev args). Proof. unfold op_all_scopes. solve_good. Qed.
  Lemma good_cs_text : good cs_text. Proof. unfold cs_text. solve_good. Qed.
  Hint Resolve good_cs_text : goodb.
  Lemma good_read_named_signal n : good (read_named_signal ev n). Proof. unfold read_named_signal. solve_good. Qed.
  Hint Resolve good_read_named_signal : goodb.
  Lemma good_op_resolve_scope args : good (op_resolve_scope ev args). Proof. unfold op_resolve_scope. solve_good. Qed.
  Lemma good_op_set_scope args : good (op_set_scope args). Proof. unfold op_set_scope. solve_good. Qed.
  Lemma good_op_unset_scope args : good (op_unset_scope args). Proof. unfold op_unset_scope. solve_good. Qed.
  Lemma good_op_groups args : good (op_groups ev args). Proof. unfold op_groups. solve_good. Qed.
  Lemma good_op_in_group args : good (op_in_group ev args).
  Proof.
    unfold op_in_group. solve_good.
    all: try (intros W; exact W).
  Qed.
  Hint Resolve good_op_in_group : goodb.
  Lemma good_op_in_groups args : good (op_in_groups ev args).
  Proof.
    unfold op_in_groups. apply good_bind; [apply good_assert|intros _].
    destruct args as [|g body]; [apply good_fail|]. apply good_bind; [apply Hev|intros gs].
    destruct gs; try apply good_fail. generalize VNone.
    induction l as [|x r IH]; intros last; [apply good_ret|].
    apply good_bind; [apply good_op_in_group|intros v; apply IH].
  Qed.
  Lemma good_op_resolve_group args : good (op_resolve_group ev args). Proof. unfold op_resolve_group. solve_good. Qed.
  Lemma good_op_slice args : good (op_slice ev args). Proof. unfold op_slice. solve_good. Qed.
  Lemma good_op_loaded_traces args : good (op_loaded_traces args). Proof. unfold op_loaded_traces. solve_good. Qed.
  Lemma good_op_exit args : good (op_exit ev args). Proof. unfold op_exit. solve_good. Qed.

  Lemma good_py_str v : good (py_str v). Proof. unfold py_str. solve_good. Qed.
  Lemma good_py_sum vs : good (py_sum vs). Proof. unfold py_sum. solve_good. Qed.
  Hint Resolve good_py_str good_py_sum : goodb.
  Lemma good_op_add args : good (op_add ev args). Proof. unfold op_add. solve_good. Qed.
  Lemma good_op_sub args : good (op_sub ev args). Proof. unfold op_sub. solve_good. Qed.
  Lemma good_op_mul args : good (op_mul ev args). Proof. unfold op_mul. solve_good. Qed.
  Lemma good_op_div args : good (op_div ev args). Proof. unfold op_div. solve_good. Qed.
  Lemma good_op_exp args : good (op_exp ev args). Proof. unfold op_exp. solve_good. Qed.
  Lemma good_op_mod args : good (op_mod ev args). Proof. unfold op_mod. solve_good. Qed.
  Lemma good_op_bitwise f args : good (op_bitwise ev f args). Proof. unfold op_bitwise. solve_good. Qed.
  Lemma good_op_is_defined args : good (op_is_defined ev args). Proof. unfold op_is_defined. solve_good. Qed.
  Lemma good_op_all_pred p args : good (op_all_pred ev p args). Proof. unfold op_all_pred. solve_good. Qed.
  Lemma good_op_convert_bin args : good (op_convert_bin ev args). Proof. unfold op_convert_bin. solve_good. Qed.
  Lemma good_of_int_parse p : good (of_int_parse p). Proof. unfold of_int_parse. solve_good. Qed.
  Hint Resolve good_of_int_parse : goodb.
  Lemma good_op_string_to_int args : good (op_string_to_int ev args). Proof. unfold op_string_to_int. solve_good. Qed.
  Lemma good_op_bits_to_sint args : good (op_bits_to_sint ev args). Proof. unfold op_bits_to_sint. solve_good. Qed.
  Lemma good_op_symbol_to_string args : good (op_symbol_to_string ev args). Proof. unfold op_symbol_to_string. solve_good. Qed.
  Lemma good_op_string_to_symbol args : good (op_string_to_symbol ev args). Proof. unfold op_string_to_symbol. solve_good. Qed.
  Lemma good_op_int_to_string args : good (op_int_to_string ev args). Proof. unfold op_int_to_string. solve_good. Qed.

  Lemma good_op_list args : good (op_list ev args). Proof. unfold op_list. solve_good. Qed.
  Lemma good_eval_list1 args : good (eval_list1 ev args). Proof. unfold eval_list1. solve_good. Qed.
  Hint Resolve good_eval_list1 : goodb.
  Lemma good_op_first args : good (op_first ev args). Proof. unfold op_first. solve_good. Qed.
  Lemma good_op_second args : good (op_second ev args). Proof. unfold op_second. solve_good. Qed.
  Lemma good_op_last args : good (op_last ev args). Proof. unfold op_last. solve_good. Qed.
  Lemma good_op_rest args : good (op_rest ev args). Proof. unfold op_rest. solve_good. Qed.
  Lemma good_key_text v : good (key_text v). Proof. unfold key_text. solve_good. Qed.
  Hint Resolve good_key_text : goodb.
  Lemma good_op_in args : good (op_in ev args).
  Proof.
    unfold op_in. apply good_bind; [apply good_assert|intros _]. apply good_bind; [apply good_eval_args|intros vs].
    destruct (last_opt vs) as [v|]; [|apply good_fail]. destruct v; try apply good_fail.
    - induction (removelast vs) as [|c r IH]; [apply good_ret|]. destruct (py_in c l) as [[|]|]; [exact IH|apply good_ret|apply good_unm].
    - solve_good.
  Qed.
  Lemma good_op_map args : good (op_map ev args). Proof. unfold op_map. solve_good. Qed.
  Lemma good_op_maxmin b args : good (op_maxmin ev b args). Proof. unfold op_maxmin. solve_good. Qed.
  Lemma good_op_average args : good (op_average ev args). Proof. unfold op_average. solve_good. Qed.
  Lemma good_op_zip args : good (op_zip ev args). Proof. unfold op_zip. solve_good. Qed.
  Lemma good_op_length args : good (op_length ev args). Proof. unfold op_length. solve_good. Qed.
  Lemma good_op_fold args : good (op_fold ev args).
  Proof.
    unfold op_fold. apply good_bind; [apply good_assert|intros _].
    destruct args as [|f args]; [apply good_fail|]. destruct args as [|a args]; [apply good_fail|].
    destruct args as [|l args]; [apply good_fail|]. destruct args; [|apply good_fail].
    apply good_bind; [apply Hev|intros acc0]. apply good_bind; [apply Hev|intros lv].
    destruct lv; try apply good_fail.
    destruct f; try (apply good_bind; [apply Hev|intros fv]; destruct fv; try apply good_fail;
                     revert acc0; induction l0 as [|el r IH]; intros acc0; [apply good_ret|];
                     apply good_bind; [apply good_eval_closure|intros acc'; apply IH]).
    revert acc0. induction l0 as [|el r IH]; intros acc0; [apply good_ret|].
    apply good_bind; [apply Hev|intros acc'; apply IH].
  Qed.
  Lemma good_op_range args : good (op_range ev args). Proof. unfold op_range. solve_good. Qed.

  Lemma good_array_key v : good (array_key v). Proof. unfold array_key. solve_good. Qed.
  Hint Resolve good_array_key : goodb.
  Lemma good_op_array args : good (op_array ev args).
  Proof.
    unfold op_array. generalize (@nil (string * val)).
    induction args as [|a r IH]; intros d; [apply good_new_array|].
    destruct a; try apply good_fail; try apply good_unm.
    apply good_bind; [apply good_assert|intros _].
    destruct l as [|k l]; [apply good_fail|]. destruct l as [|e l]; [apply good_fail|]. destruct l; [|apply good_fail].
    apply good_bind; [apply Hev|intros kv]. apply good_bind; [apply good_array_key|intros key].
    apply good_bind; [apply Hev|intros v]. apply IH.
  Qed.
  Lemma good_eval_array a : good (eval_array ev a). Proof. unfold eval_array. solve_good. Qed.
  Hint Resolve good_eval_array : goodb.
  Lemma good_op_seta args : good (op_seta ev args). Proof. unfold op_seta. solve_good. Qed.
  Lemma good_op_geta args : good (op_geta ev args). Proof. unfold op_geta. solve_good. Qed.
  Lemma good_op_dela args : good (op_dela ev args). Proof. unfold op_dela. solve_good. Qed.
  Lemma good_op_mapa args : good (op_mapa ev args). Proof. unfold op_mapa. solve_good. Qed.

  Lemma good_load_m file tid : good (load_m file tid).
    Proof.
    unfold load_m. intros st a st' H. binv H. injection E as <- <-.
    set (tid' := match tid with Some t => t | None => ("t" ++ dec_of_Z (zlen (c_traces (st_cont st))))%string end) in *.
    binv H. unfold assert in E. destruct (amem tid' (c_traces (st_cont st))) eqn:Hm; [discriminate|]. injection E as _ <-.
    destruct (String.eqb (file_ext file) ".vcd" || String.eqb (file_ext file) ".csv").
    - destruct (alookup file (st_fs st)) as [ent|]; [|discriminate].
      match type of H with (match ?p with _ => _ end) _ = _ => destruct p as [t| |] eqn:Ep end; try discriminate.
      unfold modify in H. injection H as _ <-. apply R_upd_cont. intros W. apply (cwf_cont_add _ _ _ W Hm).
      destruct ent; match type of Ep with (if ?b then _ else _) = _ => destruct b end;
        first [apply (vcd_parse_tid _ _ _ _ Ep)|apply (csv_parse_tid _ _ _ _ Ep)].
    - destruct (String.eqb (file_ext file) ".fst"); [discriminate|]. apply (good_emit _ _ _ _ H).
  Qed.

  Hint Resolve good_load_m : goodb.
  Lemma good_op_load args : good (op_load ev args). Proof. unfold op_load. solve_good. Qed.
  Lemma good_op_unload args : good (op_unload ev args).
    Proof.
    unfold op_unload. solve_good.
    all: try (apply R_upd_cont; intros W; apply cwf_cont_unload, W).
  Qed.

  Lemma good_step_tid tid n : good (step_tid tid n).
    Proof.
    unfold step_tid. destruct (name_of tid) as [id|]; [|apply good_fail].
    intros st a st' H. binv H. injection E as <- <-.
    destruct (cont_step (st_cont st) n (Some id)) as [[c ended]|] eqn:Ec; [|discriminate].
    binv H. unfold modify in E. injection E as _ <-. unfold ret in H. injection H as _ <-.
    apply R_upd_cont. apply (cwf_cont_step _ _ _ _ _ Ec).
  Qed.

  Hint Resolve good_step_tid : goodb.
  Lemma good_op_step args : good (op_step ev args). Proof. unfold op_step. solve_good. Qed.
  Lemma good_op_is_signal args : good (op_is_signal ev args). Proof. unfold op_is_signal. solve_good. Qed.

  Lemma good_set_trace_index tid i : good (set_trace_index tid i).
  Proof.
    unfold set_trace_index. intros st a st' H. binv H. injection E as <- <-.
    destruct (alookup tid (c_traces (st_cont st))) as [t|] eqn:El; [|discriminate].
    eapply replace_looked; [exact El| |exact H]. reflexivity.
  Qed.
  Lemma good_trace_of tid : good (trace_of tid). Proof. unfold trace_of. solve_good. Qed.
  Lemma trace_of_inv tid st t st1 : trace_of tid st = Ok t st1 -> st1 = st /\ alookup tid (c_traces (st_cont st)) = Some t.
  Proof.
    unfold trace_of, bind, get_st, of_opt. destruct (alookup tid (c_traces (st_cont st))); [|discriminate].
    intros H. injection H as <- <-. split; reflexivity.
  Qed.
  Hint Resolve good_set_trace_index good_trace_of : goodb.
  Lemma good_find_walk n tid c : forall acc, good (find_walk ev n tid c acc).
  Proof.
    induction n as [|n IH]; intros acc; cbn [find_walk]; [apply good_fuel|].
    apply good_bind; [apply Hev|intros v]. apply good_bind; [apply good_get_st|intros st0].
    intros st a st' H. binv H. apply trace_of_inv in E as [-> El].
    destruct (trace_step a0 1) as [t' ended] eqn:Et. destruct ended as [x|]; [injection H as _ <-; apply R_refl|].
    binv H. eapply R_trans; [|apply (IH _ _ _ _ H)].
    eapply replace_looked; [exact El| |exact E].
    replace t' with (fst (trace_step a0 1)) by (rewrite Et; reflexivity). apply trace_step_tid.
  Qed.
  Hint Resolve good_find_walk : goodb.
  Lemma good_op_find args : good (op_find loopfuel ev args). Proof. unfold op_find. solve_good. Qed.
  Lemma good_restore_saved saved : good (restore_saved saved).
  Proof.
    unfold restore_saved. apply good_bind; [apply good_get_st|intros st0].
    induction (c_traces (st_cont st0)) as [|[tid t] r IH]; [apply good_ret|].
    destruct (alookup tid saved); [|apply good_fail].
    apply good_bind; [apply good_set_trace_index|intros _; exact IH].
  Qed.
  Hint Resolve good_restore_saved : goodb.
  Lemma good_findg_loop n c : forall acc, good (findg_loop ev n c acc).
  Proof. induction n as [|n IH]; intros acc; cbn [findg_loop]; solve_good. Qed.
  Hint Resolve good_findg_loop : goodb.
  Lemma good_op_find_g args : good (op_find_g loopfuel ev args). Proof. unfold op_find_g. solve_good. Qed.
  Lemma good_whenever_loop n c body : forall last, good (whenever_loop ev n c body last).
  Proof. induction n as [|n IH]; intros last; cbn [whenever_loop]; solve_good. Qed.
  Hint Resolve good_whenever_loop : goodb.
  Lemma good_op_whenever args : good (op_whenever loopfuel ev args). Proof. unfold op_whenever. solve_good. Qed.
  Lemma good_op_signal_width args : good (op_signal_width ev args). Proof. unfold op_signal_width. solve_good. Qed.
  Lemma trace_sample_tid t idx t' : trace_sample t idx = Some t' -> tr_tid t' = tr_tid t.
  Proof. unfold trace_sample. destruct (map_opt _ _); [|discriminate]. intros H. injection H as <-. reflexivity. Qed.
  Lemma good_sample_trace tid idx : good (sample_trace tid idx).
  Proof.
    unfold sample_trace. intros st a st' H. binv H. apply trace_of_inv in E as [-> El].
    destruct (existsb (fun i => i <? 0) idx); [discriminate|].
    destruct (trace_sample a0 idx) as [t'|] eqn:Es; [|discriminate].
    eapply replace_looked; [exact El| |exact H]. apply (trace_sample_tid _ _ _ Es).
  Qed.
  Hint Resolve good_sample_trace : goodb.
  Lemma good_op_sample_at args : good (op_sample_at ev args). Proof. unfold op_sample_at. solve_good. Qed.
  Lemma good_trim tid m : good (t <- trace_of tid ;; replace_trace (trace_trim t m) ;;; ret (VInt (tr_max (trace_trim t m)))).
  Proof.
    intros st a st' H. binv H. apply trace_of_inv in E as [-> El]. binv H. injection H as _ <-.
    eapply replace_looked; [exact El| |exact E]. reflexivity.
  Qed.
  Lemma good_op_trim_trace args : good (op_trim_trace ev args).
  Proof.
    unfold op_trim_trace. apply good_bind; [apply good_assert|intros _].
    destruct args as [|a [|b [|? ?]]]; try apply good_fail.
    apply good_bind; [apply Hev|intros tv]. apply good_bind; [apply Hev|intros mv].
    destruct (name_of tv); [|apply good_fail]. destruct (int_of mv); [|apply good_fail]. apply good_trim.
  Qed.
  Lemma good_op_defsig args : good (op_defsig args).
  Proof.
    unfold op_defsig. apply good_bind; [apply good_assert|intros _].
    apply good_bind; [apply good_read_global|intros cs]. apply good_bind; [apply good_read_global|intros cg].
    destruct cs; try apply good_unm. destruct cg; try apply good_unm.
    destruct args as [|a0 body]; [apply good_fail|]. destruct a0; try apply good_fail.
    cbv zeta. intros st a st' H. binv H. injection E as <- <-.
    destruct (c_ntraces (st_cont st) =? 1).
    - destruct (c_traces (st_cont st)) as [|[k t] r] eqn:Et; [discriminate|].
      binv H. injection H as _ <-. eapply (replace_looked st k t); [rewrite Et; cbn [alookup]; rewrite String.eqb_refl; reflexivity| |exact E].
      reflexivity.
    - destruct (1 <? c_ntraces (st_cont st)).
      + match type of H with (match ?x with _ => _ end) _ = _ => destruct x as [[tid sg]|] end; [|discriminate].
        destruct (alookup tid (c_traces (st_cont st))) as [t|] eqn:El; [|discriminate].
        binv H. injection H as _ <-. eapply replace_looked; [exact El| |exact E]. reflexivity.
      + match type of H with (match ?x with _ => _ end) _ = _ => destruct x as [[tid sg]|] end; [|discriminate].
        destruct (alookup tid (c_traces (st_cont st))) as [t|] eqn:El; [|discriminate].
        binv H. injection H as _ <-. eapply replace_looked; [exact El| |exact E]. reflexivity.
  Qed.

  Lemma good_dispatch o args : good (dispatch loopfuel ev ex o args).
  Proof.
    destruct o; cbn [dispatch];
      first [ apply good_unm | apply good_fail
            | apply good_op_not | apply good_op_eq | apply good_op_cmp | apply good_op_and | apply good_op_or
            | apply good_op_let | apply good_op_define | apply good_op_set | apply good_op_print | apply good_op_printf
            | apply good_op_if | apply good_op_case | apply good_op_do | apply good_op_while | apply good_op_alias
            | apply good_op_unalias | apply good_op_quote | apply good_op_quasiquote | apply good_op_eval
            | apply good_op_defmacro | apply good_op_macroexpand | apply good_op_gensym | apply good_op_fn | apply good_op_get
            | apply good_op_reval | apply good_op_in_scope | apply good_op_resolve_scope | apply good_op_all_scopes
            | apply good_op_set_scope | apply good_op_unset_scope | apply good_op_groups | apply good_op_in_group
            | apply good_op_in_groups | apply good_op_resolve_group | apply good_op_slice | apply good_op_loaded_traces
            | apply good_op_exit | apply good_op_add | apply good_op_sub | apply good_op_mul | apply good_op_div
            | apply good_op_exp | apply good_op_mod | apply good_op_bitwise | apply good_op_is_defined | apply good_op_all_pred
            | apply good_op_convert_bin | apply good_op_string_to_int | apply good_op_bits_to_sint
            | apply good_op_string_to_symbol | apply good_op_symbol_to_string | apply good_op_int_to_string
            | apply good_op_list | apply good_op_first | apply good_op_second | apply good_op_last | apply good_op_rest
            | apply good_op_in | apply good_op_map | apply good_op_maxmin | apply good_op_average | apply good_op_zip
            | apply good_op_length | apply good_op_fold | apply good_op_range | apply good_op_array | apply good_op_seta
            | apply good_op_geta | apply good_op_dela | apply good_op_mapa | apply good_op_load | apply good_op_unload
            | apply good_op_step | apply good_op_is_signal | apply good_op_find | apply good_op_find_g | apply good_op_whenever
            | apply good_op_signal_width | apply good_op_sample_at | apply good_op_trim_trace | apply good_op_defsig ].
  Qed.
  Hint Resolve good_dispatch : goodb.

  Lemma good_eval_body e : good (eval_body loopfuel ev ex e).
  Proof. unfold eval_body. solve_good. Qed.

  Lemma good_macro_params menv : forall ps vals,
    good ((fix go (ps vals : list val) : M unit :=
             match ps, vals with
             | VSym pn _ :: pr, v :: vr => env_define menv pn v ;;; go pr vr
             | _ :: _, _ :: _ => fail EOther
             | _, _ => ret tt
             end) ps vals).
  Proof.
    induction ps as [|p ps IH]; intros vals; [destruct vals; apply good_ret|].
    destruct vals as [|v vals]; [destruct p; apply good_ret|].
    destruct p; try apply good_fail. apply good_bind; [apply good_env_define|intros _; apply IH].
  Qed.

  Lemma env_read_state id n st v st' : env_read id n st = Ok v st' -> st' = st.
  Proof.
    unfold env_read. destruct (lookup_frame st id n); [|discriminate]. destruct (get_frame st n0); [|discriminate].
    destruct (alookup n (f_binds f)); [|discriminate]. intros H. injection H as _ <-. reflexivity.
  Qed.

  Lemma good_expand_body e parent : good (expand_body ev ex e parent).
    Proof. unfold expand_body. solve_good. all: apply good_macro_params. Qed.

End WithEv.

(** * the container invariant for the whole evaluator *)
Theorem eval_expand_cwf (lf : nat) : forall fuel,
  (forall e, good (eval lf fuel e)) /\ (forall e p, good (expand lf fuel e p)).
Proof.
  induction fuel as [|f [IHe IHx]].
  - split; intros; intros st a st' H; discriminate.
  - split.
    + intros e. cbn [eval]. apply good_eval_body; assumption.
    + intros e p. cbn [expand]. apply good_expand_body; assumption.
Qed.

Corollary eval_keeps_container_wf lf fuel e st v st' :
  eval lf fuel e st = Ok v st' -> cwf (st_cont st) -> cwf (st_cont st').
Proof. intros H. exact (proj1 (eval_expand_cwf lf fuel) e st v st' H). Qed.

(** * lifted to the API: every state reachable from a new interpreter has a well-formed container *)
From WalModel Require Import Api.

Lemma good_ev0 e : good (ev0 e).
Proof. unfold ev0. apply (proj1 (eval_expand_cwf LF FUEL)). Qed.
Lemma good_ex0 e p : good (ex0 e p).
Proof. unfold ex0. apply (proj2 (eval_expand_cwf LF FUEL)). Qed.
#[global] Hint Resolve good_ev0 good_ex0 : goodb.
Lemma good_run_form fl e : good (run_form fl e).
Proof. unfold run_form. destruct fl as [[a b] c]. solve_good. Qed.
#[global] Hint Resolve good_run_form : goodb.
Lemma good_wal_eval_with fl e kw : good (wal_eval_with fl e kw).
Proof. unfold wal_eval_with. solve_good. Qed.
Lemma good_eval_forms forms : good (eval_forms forms).
Proof. unfold eval_forms. solve_good. Qed.
Lemma good_load_std : good load_std.
Proof. unfold load_std. apply good_bind; [apply good_eval_forms|intros; apply good_eval_forms]. Qed.
Lemma good_wal_load file tid : good (wal_load file tid).
Proof. unfold wal_load. apply good_load_m. Qed.
Lemma good_wal_step n tid : good (wal_step n tid).
Proof.
  unfold wal_step. intros st a st' H. apply Balanced.bind_ok_inv in H as (s0 & s1 & E & H). injection E as <- <-.
  destruct (cont_step (st_cont st) n tid) as [[c ended]|] eqn:Ec; [|discriminate].
  apply Balanced.bind_ok_inv in H as (u & s2 & E & H). unfold modify in E. injection E as _ <-. injection H as _ <-.
  apply R_upd_cont. apply (cwf_cont_step _ _ _ _ _ Ec).
Qed.

Lemma cwf_reset c : cwf c -> cwf (reset_traces c).
Proof.
  rewrite !cwf_parts. intros (Hn & Ht & Hc). unfold reset_traces, with_traces. cbn [c_traces c_ntraces].
  assert (Hk : map fst (map (fun p : string * trace => (fst p, set_index (snd p) 0)) (c_traces c)) = map fst (c_traces c)).
  { rewrite map_map. reflexivity. }
  split; [rewrite Hk; exact Hn|]. split.
  - intros k t Hin. apply in_map_iff in Hin as ([k0 t0] & E & Hin). injection E as <- <-. cbn [tr_tid set_index snd]. apply Ht, Hin.
  - rewrite Hc. symmetry. apply zlen_keys, Hk.
Qed.
Lemma good_wal_run e kw : good (wal_run e kw).
Proof.
  unfold wal_run. destruct (ast_truthy e); [|apply good_ret].
  apply good_bind; [|intros _]. { apply good_modify. intros s W. apply cwf_reset, W. }
  apply good_bind; [apply good_load_std|intros _]. apply good_bind; [|intros _; apply good_run_form].
  apply good_mapM. intros p. apply good_env_define.
Qed.

Lemma cwf_empty : cwf (st_cont empty_state).
Proof. apply cwf_parts. cbn. repeat split; [constructor|intros k t []]. Qed.

(** the operations of the Python API; a failing one leaves the session (its state is discarded) *)
Inductive api_op : Type :=
  | ALoad (file tid : string)
  | AStep (n : Z) (tid : option string)
  | AEval (fl : passes_flags) (e : val) (kw : list (string * val))
  | ARun (e : val) (kw : list (string * val)).

Definition after {A} (r : res A) (st : state) : state := match r with Ok _ st' => st' | _ => st end.
Definition apply_api (st : state) (o : api_op) : state :=
  match o with
  | ALoad f t => after (wal_load f t st) st
  | AStep n t => after (wal_step n t st) st
  | AEval fl e kw => after (wal_eval_with fl e kw st) st
  | ARun e kw => after (wal_run e kw st) st
  end.

Theorem container_always_well_formed : forall ops st, cwf (st_cont st) -> cwf (st_cont (fold_left apply_api ops st)).
Proof.
  induction ops as [|o ops IH]; intros st W; cbn [fold_left]; [exact W|]. apply IH.
  destruct o; cbn [apply_api]; unfold after.
  - destruct (wal_load file tid st) eqn:E; try exact W. apply (good_wal_load _ _ _ _ _ E W).
  - destruct (wal_step n tid st) eqn:E; try exact W. apply (good_wal_step _ _ _ _ _ E W).
  - destruct (wal_eval_with fl e kw st) eqn:E; try exact W. apply (good_wal_eval_with _ _ _ _ _ _ E W).
  - destruct (wal_run e kw st) eqn:E; try exact W. apply (good_wal_run _ _ _ _ _ E W).
Qed.

(** in particular from a new interpreter (the standard library loaded or not) *)
Corollary reachable_states_well_formed ops : cwf (st_cont (fold_left apply_api ops empty_state)).
Proof. apply container_always_well_formed, cwf_empty. Qed.
