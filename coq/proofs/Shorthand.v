(** Shorthand.v — each shorthand reads as exactly its long form, for every operand of the class of RoundTrip.v (C11):
    'e `e ,e ,@e as quote / quasiquote / unquote / unquote-splice forms, ~s and #s as resolve-scope / resolve-group,
    e@k as (reval e k), e[i] and e[h:l] as (slice e i) and (slice e h l) for integer k, i, h, l of any size. *)
From WalModel Require Import Reader Printer.
From WalModel.proofs Require Import ArithProofs CsvProofs ReaderProofs RoundTrip.
Local Open Scope string_scope.
Local Open Scope Z_scope.

(** * the reader never leaves white space or a comment at the front of what remains *)
Lemma skip_line_length s : (String.length (skip_line s) <= String.length s)%nat.
Proof. induction s as [|c r IH]; [cbn; lia|]. cbn [skip_line]. destruct (is_nl c); cbn [String.length]; lia. Qed.

Definition settled (s : string) : Prop :=
  match s with EmptyString => True | String c _ => is_ws c = false /\ (aZ c =? 59) = false end.

Lemma skip_inter_settled : forall n s, (String.length s < n)%nat -> settled (skip_inter n s).
Proof.
  induction n as [|n IH]; intros s Hn; [lia|]. destruct s as [|c r]; [exact I|]. cbn [skip_inter String.length] in *.
  destruct (is_ws c) eqn:E1; [apply IH; lia|]. destruct (aZ c =? 59) eqn:E2.
  - apply IH. pose proof (skip_line_length r). lia.
  - cbn [settled]. split; assumption.
Qed.
Lemma inter_settled s : settled (inter s).
Proof. unfold inter. apply skip_inter_settled. lia. Qed.
Lemma inter_of_settled s : settled s -> inter s = s.
Proof. destruct s as [|c r]; [reflexivity|]. intros [H1 H2]. apply inter_nonspace; assumption. Qed.
Lemma inter_idempotent s : inter (inter s) = inter s.
Proof. apply inter_of_settled, inter_settled. Qed.

(** what follows is neither a postfix bracket nor an offset *)
Definition plain_next (s : string) : Prop :=
  match s with EmptyString => True | String c _ => (aZ c =? 91) = false /\ (aZ c =? 64) = false end.

Lemma postfix_plain f v s : plain_next s -> p_postfix (S f) v s = ROk v s.
Proof.
  destruct s as [|c r]; [reflexivity|]. intros [H1 _]. cbn [p_postfix].
  destruct c as [b0 b1 b2 b3 b4 b5 b6 b7]. destruct b0, b1, b2, b3, b4, b5, b6, b7; try reflexivity. discriminate H1.
Qed.
Lemma not_at s : plain_next s -> match s with String "@"%char _ => False | _ => True end.
Proof.
  destruct s as [|c r]; [trivial|]. intros [_ H2].
  destruct c as [b0 b1 b2 b3 b4 b5 b6 b7]. destruct b0, b1, b2, b3, b4, b5, b6, b7; try exact I. discriminate H2.
Qed.

(** the first character of a printed expression is not '@' (so ",e" is not taken for ",@") *)
Lemma show_first_not_at e : simple e = true -> exists c t, show e = String c t /\ Ascii.eqb c "@"%char = false.
Proof.
  intros Hs. destruct e as [|b|z| |s0|nm st|o|w l| | | | |]; try discriminate Hs.
  - destruct b; eexists _, _; split; reflexivity.
  - cbn [show]. unfold dec_of_Z. destruct (Z.ltb_spec z 0) as [Hn|Hp]; [eexists _, _; split; reflexivity|].
    destruct (all_digits_first (numeral 10 z) (numeral10_digits z Hp) (numeral10_nonempty z Hp)) as (c & r & E & Hc).
    rewrite E. exists c, r. split; [reflexivity|]. destruct (Ascii.eqb_spec c "@"%char) as [->|]; [discriminate Hc|reflexivity].
  - eexists _, _; split; reflexivity.
  - destruct st; [discriminate|]. cbn [simple show] in *. unfold plain_sym, sym_shaped in Hs. destruct nm as [|c t]; [discriminate|].
    exists c, t. split; [reflexivity|].
    apply andb_prop in Hs as [H _]. apply andb_prop in H as [H _]. apply andb_prop in H as [H _]. apply andb_prop in H as [H _].
    destruct (Ascii.eqb_spec c "@"%char) as [->|]; [discriminate H|reflexivity].
  - cbn [show]. destruct o; eexists _, _; split; reflexivity.
  - rewrite show_list. eexists _, _; split; reflexivity.
Qed.

(** * quote forms *)
Section Quotes.
  Variables (e : val) (rest : string) (f : nat).
  Hypothesis Hs : simple e = true.
  Hypothesis Hf : (5 * vsize e + 8 <= f)%nat.
  Hypothesis Hd : delim rest.
  Hypothesis Hn : plain_next (inter rest).

  Lemma finish v : p_postfix (S (S f)) v (inter rest) = ROk v (inter rest).
  Proof. apply postfix_plain, Hn. Qed.

  Lemma sexpr_tail (v : val) :
    match inter rest with
    | String "@"%char r2 => match p_strict (S (S (S f))) r2 with ROk b r3 => ROk (WL [VOp OReval; v; b]) (inter r3) | x => x end
    | _ => ROk v (inter (inter rest))
    end = ROk v (inter rest).
  Proof.
    rewrite inter_idempotent. pose proof (not_at _ Hn) as Ha. destruct (inter rest) as [|c r]; [reflexivity|].
    destruct c as [b0 b1 b2 b3 b4 b5 b6 b7]. destruct b0, b1, b2, b3, b4, b5, b6, b7; try reflexivity. destruct Ha.
  Qed.

  Theorem quote_reads : p_sexpr (S (S (S (S f)))) ("'" ++ show e ++ rest) = ROk (WL [VOp OQuote; e]) (inter rest).
  Proof.
    cbn [append p_sexpr]. rewrite inter_nonspace by reflexivity. cbn [p_strict p_primary].
    change (is_sym_first "'"%char) with false. change (aZ "'"%char =? 34) with false. cbn iota.
    assert (Hnum : lex_number (String "'"%char (show e ++ rest)) = None) by reflexivity. rewrite Hnum.
    change (aZ "'"%char =? 92) with false. cbn iota.
    assert (Hp1 : sprefix ",@" (String "'"%char (show e ++ rest)) = false) by reflexivity. rewrite Hp1.
    assert (Hp2 : first_prefix two_char_ops (String "'"%char (show e ++ rest)) = None) by reflexivity. rewrite Hp2.
    change (aZ "'"%char =? 96) with false. change (aZ "'"%char =? 44) with false. change (aZ "'"%char =? 39) with true. cbn iota.
    rewrite (roundtrip_in_context (vsize e) e (le_n _) Hs (S f) rest) by (try lia; exact Hd).
    rewrite finish. apply sexpr_tail.
  Qed.

  Theorem quasiquote_reads : p_sexpr (S (S (S (S f)))) ("`" ++ show e ++ rest) = ROk (WL [VOp OQuasiquote; e]) (inter rest).
  Proof.
    cbn [append p_sexpr]. rewrite inter_nonspace by reflexivity. cbn [p_strict p_primary].
    change (is_sym_first "`"%char) with false. change (aZ "`"%char =? 34) with false. cbn iota.
    assert (Hnum : lex_number (String "`"%char (show e ++ rest)) = None) by reflexivity. rewrite Hnum.
    change (aZ "`"%char =? 92) with false. cbn iota.
    assert (Hp1 : sprefix ",@" (String "`"%char (show e ++ rest)) = false) by reflexivity. rewrite Hp1.
    assert (Hp2 : first_prefix two_char_ops (String "`"%char (show e ++ rest)) = None) by reflexivity. rewrite Hp2.
    change (aZ "`"%char =? 96) with true. cbn iota.
    rewrite (roundtrip_in_context (vsize e) e (le_n _) Hs (S f) rest) by (try lia; exact Hd).
    rewrite finish. apply sexpr_tail.
  Qed.

  Theorem unquote_reads : p_sexpr (S (S (S (S f)))) ("," ++ show e ++ rest) = ROk (VUnq e) (inter rest).
  Proof.
    cbn [append p_sexpr]. rewrite inter_nonspace by reflexivity. cbn [p_strict p_primary].
    change (is_sym_first ","%char) with false. change (aZ ","%char =? 34) with false. cbn iota.
    destruct (show_first_not_at e Hs) as (c & t & E & Hc).
    assert (Hnum : lex_number (String ","%char (show e ++ rest)) = None) by reflexivity. rewrite Hnum.
    change (aZ ","%char =? 92) with false. cbn iota.
    assert (Hp1 : sprefix ",@" (String ","%char (show e ++ rest)) = false).
    { rewrite E. cbn [append sprefix]. rewrite Ascii.eqb_refl. cbn [andb]. rewrite Ascii.eqb_sym, Hc. reflexivity. }
    rewrite Hp1.
    assert (Hp2 : first_prefix two_char_ops (String ","%char (show e ++ rest)) = None) by reflexivity. rewrite Hp2.
    change (aZ ","%char =? 96) with false. change (aZ ","%char =? 44) with true. cbn iota.
    rewrite (roundtrip_in_context (vsize e) e (le_n _) Hs (S f) rest) by (try lia; exact Hd).
    rewrite finish. apply sexpr_tail.
  Qed.

  Theorem unquote_splice_reads : p_sexpr (S (S (S (S f)))) (",@" ++ show e ++ rest) = ROk (VUnqS e) (inter rest).
  Proof.
    cbn [append p_sexpr]. rewrite inter_nonspace by reflexivity. cbn [p_strict p_primary].
    change (is_sym_first ","%char) with false. change (aZ ","%char =? 34) with false. cbn iota.
    assert (Hnum : lex_number (String ","%char (String "@"%char (show e ++ rest))) = None) by reflexivity. rewrite Hnum.
    change (aZ ","%char =? 92) with false. cbn iota.
    assert (Hp1 : sprefix ",@" (String ","%char (String "@"%char (show e ++ rest))) = true) by reflexivity. rewrite Hp1.
    change (sdrop 2 (String ","%char (String "@"%char (show e ++ rest)))) with (show e ++ rest).
    rewrite (roundtrip_in_context (vsize e) e (le_n _) Hs (S f) rest) by (try lia; exact Hd).
    rewrite finish. apply sexpr_tail.
  Qed.
End Quotes.

(** * ~s and #s *)
Section Refs.
  Variables (n rest : string) (f : nat).
  Hypothesis Hn : sym_shaped n = true.
  Hypothesis Hd : delim rest.

  Lemma lex_base_sym : lex_base (n ++ rest) = Some (n, rest).
  Proof.
    unfold sym_shaped in Hn. destruct n as [|c t]; [discriminate|]. apply andb_prop in Hn as [Hc Ht].
    cbn [append lex_base]. rewrite Hc, (span_sym_app t rest Ht Hd). reflexivity.
  Qed.

  Lemma tail_delim (v : val) : match rest with
                               | String "@"%char r2 => match p_strict (S (S f)) r2 with ROk b r3 => ROk (WL [VOp OReval; v; b]) (inter r3) | x => x end
                               | _ => ROk v (inter rest)
                               end = ROk v (inter rest).
  Proof.
    pose proof (delim_not_at rest Hd) as Ha. destruct rest as [|d r]; [reflexivity|].
    destruct d as [b0 b1 b2 b3 b4 b5 b6 b7]. destruct b0, b1, b2, b3, b4, b5, b6, b7; try reflexivity. destruct Ha.
  Qed.

  Theorem scoped_reads : p_sexpr (S (S (S f))) ("~" ++ n ++ rest) = ROk (WL [VOp OResolveScope; VSym n None]) (inter rest).
  Proof.
    cbn [append p_sexpr]. rewrite inter_nonspace by reflexivity. cbn [p_strict p_primary].
    change (is_sym_first "~"%char) with false. change (aZ "~"%char =? 34) with false. cbn iota.
    assert (Hnum : lex_number (String "~"%char (n ++ rest)) = None) by reflexivity. rewrite Hnum.
    change (aZ "~"%char =? 92) with false. cbn iota.
    assert (Hp1 : sprefix ",@" (String "~"%char (n ++ rest)) = false) by reflexivity. rewrite Hp1.
    assert (Hp2 : first_prefix two_char_ops (String "~"%char (n ++ rest)) = None) by reflexivity. rewrite Hp2.
    change (aZ "~"%char =? 96) with false. change (aZ "~"%char =? 44) with false. change (aZ "~"%char =? 39) with false.
    change (aZ "~"%char =? 35) with false. change (aZ "~"%char =? 126) with true. cbn iota.
    rewrite lex_base_sym. rewrite (delim_postfix f _ rest Hd). apply tail_delim.
  Qed.

  Theorem grouped_reads : String.eqb n "t" = false -> String.eqb n "f" = false ->
    p_sexpr (S (S (S f))) ("#" ++ n ++ rest) = ROk (WL [VOp OResolveGroup; VSym n None]) (inter rest).
  Proof.
    intros Ht Hf. cbn [append p_sexpr]. rewrite inter_nonspace by reflexivity. cbn [p_strict p_primary].
    change (is_sym_first "#"%char) with false. change (aZ "#"%char =? 34) with false. cbn iota.
    assert (Hnum : lex_number (String "#"%char (n ++ rest)) = None) by reflexivity. rewrite Hnum.
    change (aZ "#"%char =? 92) with false. cbn iota.
    assert (Hp1 : sprefix ",@" (String "#"%char (n ++ rest)) = false) by reflexivity. rewrite Hp1.
    assert (Hp2 : first_prefix two_char_ops (String "#"%char (n ++ rest)) = None) by reflexivity. rewrite Hp2.
    change (aZ "#"%char =? 96) with false. change (aZ "#"%char =? 44) with false. change (aZ "#"%char =? 39) with false.
    change (aZ "#"%char =? 35) with true. cbn iota.
    rewrite lex_base_sym, Ht, Hf. rewrite (delim_postfix f _ rest Hd). apply tail_delim.
  Qed.
End Refs.

(** * operands followed by '@' or '[' *)
Definition opens (c : ascii) : Prop := c = "@"%char \/ c = "["%char.

Lemma span_sym_opens t c r : sall is_sym_rest t = true -> opens c -> span_sym (t ++ String c r) = (t, String c r).
Proof.
  intros Ht Hc. induction t as [|d t IH].
  - cbn [append]. destruct Hc as [-> | ->]; reflexivity.
  - cbn [sall] in Ht. apply andb_prop in Ht as [Hd Hr]. cbn [append span_sym]. rewrite Hd, (IH Hr). reflexivity.
Qed.

Lemma number_end_opens c r : opens c -> number_end (String c r) = true.
Proof. intros [-> | ->]; reflexivity. Qed.

(** an expression of the class followed by '@' or '[': the primary expression is read, the rest is untouched *)
Theorem primary_before_postfix e c r f : simple e = true -> (5 * vsize e + 4 <= f)%nat -> opens c ->
  p_primary (S f) (show e ++ String c r) = ROk e (String c r).
Proof.
  intros Hs Hf Hc. destruct e as [|b|z| |s0|nm st|o|w l| | | | |]; try discriminate Hs.
  - destruct Hc as [-> | ->]; destruct b; reflexivity.
  - cbn [simple] in Hs. apply Z.leb_le in Hs. cbn [show]. unfold dec_of_Z. destruct (Z.ltb_spec z 0) as [Hneg|Hpos].
    + assert (Hn : 0 <= - z) by lia. replace (Z.abs z) with (- z) in Hs by lia. cbn [append].
      pose proof (signed_literal_anywhere f true (numeral 10 (- z)) (String c r) (numeral10_digits _ Hn) (numeral10_nonempty _ Hn) Hs
                    (number_end_opens c r Hc)) as H. cbn iota in H. rewrite H, dv_numeral10 by exact Hn. f_equal. f_equal. lia.
    + replace (Z.abs z) with z in Hs by lia.
      rewrite (decimal_literal_anywhere f (numeral 10 z) (String c r) (numeral10_digits z Hpos) (numeral10_nonempty z Hpos) Hs (number_end_opens c r Hc)).
      rewrite dv_numeral10 by exact Hpos. reflexivity.
  - apply string_literal_roundtrip.
  - destruct st; [discriminate|]. cbn [simple show] in *. unfold plain_sym, sym_shaped in Hs. destruct nm as [|d t]; [discriminate|].
    apply andb_prop in Hs as [H Hop]. apply andb_prop in H as [H Hf']. apply andb_prop in H as [H Ht]. apply andb_prop in H as [Hd Hr].
    cbn [append p_primary]. rewrite Hd, (span_sym_opens t c r Hr Hc). unfold sym_or_op.
    apply negb_true_iff in Ht. apply negb_true_iff in Hf'. rewrite Ht, Hf'. destruct (op_of_name (String d t)); [discriminate|reflexivity].
  - cbn [show]. destruct Hc as [-> | ->]; destruct o; reflexivity.
  - destruct w; [|discriminate]. cbn [simple] in Hs. apply andb_prop in Hs as [Hs Hh]. cbn [vsize] in Hf. fold (sum_size l) in Hf.
    rewrite show_list. destruct f as [|f]; [lia|].
    assert (Etext : ("(" ++ show_join l ++ ")") ++ String c r = String "("%char (show_join l ++ ")" ++ String c r)).
    { cbn [append]. rewrite sappend_assoc. reflexivity. }
    rewrite Etext. set (tail := show_join l ++ ")" ++ String c r).
    cbn [p_primary].
    change (is_sym_first "("%char) with false. change (aZ "("%char =? 34) with false. cbn iota.
    assert (Hnum : lex_number (String "("%char tail) = None) by reflexivity.
    rewrite Hnum. change (aZ "("%char =? 92) with false. cbn iota.
    assert (Hp1 : sprefix ",@" (String "("%char tail) = false) by reflexivity. rewrite Hp1.
    assert (Hp2 : first_prefix two_char_ops (String "("%char tail) = None) by reflexivity. rewrite Hp2.
    change (aZ "("%char =? 96) with false. change (aZ "("%char =? 44) with false. change (aZ "("%char =? 39) with false.
    change (aZ "("%char =? 35) with false. change (aZ "("%char =? 126) with false. cbn iota.
    change (closer "("%char) with (Some ")"%char). cbv iota. unfold tail.
    destruct l as [|x l'].
    + cbn [show_join append]. reflexivity.
    + destruct (show_first x) as (c0 & t0 & Ex & Hc0); [cbn [forallb] in Hs; apply andb_prop in Hs as [H _]; exact H|].
      assert (Ej : exists t', show_join (x :: l') = String c0 t').
      { destruct l'; cbn [show_join]; rewrite Ex; eexists; reflexivity. }
      destruct Ej as [t' Ej]. rewrite Ej. cbn [append]. destruct Hc0 as (_ & _ & H41).
      assert (Hneq : Ascii.eqb c0 ")"%char = false).
      { destruct (Ascii.eqb_spec c0 ")"%char) as [->|]; [discriminate H41|reflexivity]. }
      rewrite Hneq. change (String c0 (t' ++ String ")"%char (String c r))) with (String c0 t' ++ ")" ++ String c r). rewrite <- Ej.
      rewrite (rt_elements (String c r) (x :: l') [] (S f)); [reflexivity|discriminate|exact Hs| |lia].
      intros y Hy g r0 Hg Hr0. apply (roundtrip_in_context (vsize y) y (le_n _)); [apply (forallb_In _ _ _ Hs Hy)|exact Hg|exact Hr0].
Qed.

(** an integer literal where a strict expression is expected, before anything that ends a number and is not '[' *)
Lemma strict_int g k rest : simple (VInt k) = true -> number_end rest = true ->
  match rest with String c _ => (aZ c =? 91) = false | EmptyString => True end ->
  p_strict (S (S g)) (dec_of_Z k ++ rest) = ROk (VInt k) rest.
Proof.
  cbn [simple]. intros Hs He Hb. apply Z.leb_le in Hs. cbn [p_strict].
  assert (Hp : p_primary (S g) (dec_of_Z k ++ rest) = ROk (VInt k) rest).
  { unfold dec_of_Z. destruct (Z.ltb_spec k 0) as [Hneg|Hpos].
    - assert (Hn : 0 <= - k) by lia. replace (Z.abs k) with (- k) in Hs by lia. cbn [append].
      pose proof (signed_literal_anywhere g true (numeral 10 (- k)) rest (numeral10_digits _ Hn) (numeral10_nonempty _ Hn) Hs He) as H.
      cbn iota in H. rewrite H, dv_numeral10 by exact Hn. f_equal. f_equal. lia.
    - replace (Z.abs k) with k in Hs by lia.
      rewrite (decimal_literal_anywhere g (numeral 10 k) rest (numeral10_digits k Hpos) (numeral10_nonempty k Hpos) Hs He).
      rewrite dv_numeral10 by exact Hpos. reflexivity. }
  rewrite Hp. destruct rest as [|c r]; [reflexivity|]. cbn [p_postfix].
  destruct c as [b0 b1 b2 b3 b4 b5 b6 b7]. destruct b0, b1, b2, b3, b4, b5, b6, b7; try reflexivity. discriminate Hb.
Qed.

Lemma dec_first k : exists c t, dec_of_Z k = String c t /\ is_ws c = false /\ (aZ c =? 59) = false.
Proof.
  unfold dec_of_Z. destruct (Z.ltb_spec k 0) as [Hneg|Hpos]; [eexists _, _; repeat split|].
  destruct (all_digits_first (numeral 10 k) (numeral10_digits k Hpos) (numeral10_nonempty k Hpos)) as (c & r & E & Hc).
  rewrite E. exists c, r. split; [reflexivity|]. destruct (digit_first_char c Hc) as (W1 & W2 & _). split; assumption.
Qed.

(** an integer where an s-expression is expected, before ']' or ':' *)
Lemma sexpr_int_closing g k d r : simple (VInt k) = true -> d = "]"%char \/ d = ":"%char ->
  p_sexpr (S (S (S g))) (dec_of_Z k ++ String d r) = ROk (VInt k) (String d r).
Proof.
  intros Hs Hd. destruct (dec_first k) as (c & t & E & W1 & W2). cbn [p_sexpr].
  rewrite E. cbn [append]. rewrite (inter_nonspace c _ W1 W2). change (String c (t ++ String d r)) with (String c t ++ String d r). rewrite <- E.
  rewrite (strict_int g k (String d r) Hs); [|destruct Hd as [-> | ->]; reflexivity|destruct Hd as [-> | ->]; reflexivity].
  destruct Hd as [-> | ->]; rewrite inter_nonspace by reflexivity; reflexivity.
Qed.

(** * e@k, e[i], e[h:l] *)
Lemma sexpr_at n s a r2 b r3 : p_strict n (inter s) = ROk a (String "@"%char r2) -> p_strict n r2 = ROk b r3 ->
  p_sexpr (S n) s = ROk (WL [VOp OReval; a; b]) (inter r3).
Proof. intros H1 H2. cbn [p_sexpr]. rewrite H1, H2. reflexivity. Qed.
Lemma sexpr_plain n s a r1 : p_strict n (inter s) = ROk a r1 -> delim r1 -> p_sexpr (S n) s = ROk a (inter r1).
Proof.
  intros H1 Hd. cbn [p_sexpr]. rewrite H1. pose proof (delim_not_at r1 Hd) as Ha. destruct r1 as [|d r]; [reflexivity|].
  destruct d as [b0 b1 b2 b3 b4 b5 b6 b7]. destruct b0, b1, b2, b3, b4, b5, b6, b7; try reflexivity. destruct Ha.
Qed.
Lemma strict_of n s a r v r' : p_primary n s = ROk a r -> p_postfix n a r = ROk v r' -> p_strict (S n) s = ROk v r'.
Proof. intros H1 H2. cbn [p_strict]. rewrite H1. exact H2. Qed.
Lemma postfix_slice1 n a r i r2 v r' : p_sexpr n r = ROk i (String "]"%char r2) -> p_postfix n (WL [VOp OSlice; a; i]) r2 = ROk v r' ->
  p_postfix (S n) a (String "["%char r) = ROk v r'.
Proof. intros H1 H2. cbn [p_postfix]. rewrite H1. exact H2. Qed.
Lemma postfix_slice2 n a r h r2 l r4 v r' : p_sexpr n r = ROk h (String ":"%char r2) -> p_sexpr n r2 = ROk l (String "]"%char r4) ->
  p_postfix n (WL [VOp OSlice; a; h; l]) r4 = ROk v r' -> p_postfix (S n) a (String "["%char r) = ROk v r'.
Proof. intros H1 H2 H3. cbn [p_postfix]. rewrite H1, H2. exact H3. Qed.

Section Postfix.
  Variables (e : val) (rest : string) (f : nat).
  Hypothesis Hs : simple e = true.
  Hypothesis Hf : (5 * vsize e + 8 <= f)%nat.
  Hypothesis Hd : delim rest.

  Lemma operand_settled tail : inter (show e ++ tail) = show e ++ tail.
  Proof.
    destruct (show_first e Hs) as (c & t & E & (C1 & C2 & _)). rewrite E. cbn [append]. apply inter_nonspace; assumption.
  Qed.
  Lemma rest_not_bracket : match rest with String c _ => (aZ c =? 91) = false | EmptyString => True end.
  Proof. clear Hf Hs. destruct rest as [|d r]; [exact I|]. cbn [delim] in Hd. apply delim_codes in Hd. apply Z.eqb_neq. lia. Qed.

  Theorem reval_reads k : simple (VInt k) = true ->
    p_sexpr (S (S (S f))) (show e ++ "@" ++ dec_of_Z k ++ rest) = ROk (WL [VOp OReval; e; VInt k]) (inter rest).
  Proof.
    intros Hk. apply (sexpr_at _ _ e (dec_of_Z k ++ rest) (VInt k) rest).
    - rewrite operand_settled. apply (strict_of _ _ e (String "@"%char (dec_of_Z k ++ rest))).
      + apply (primary_before_postfix e "@"%char (dec_of_Z k ++ rest) f Hs ltac:(lia) (or_introl eq_refl)).
      + reflexivity.
    - destruct f as [|g]; [lia|]. apply (strict_int _ k rest Hk (delim_number_end rest Hd) rest_not_bracket).
  Qed.

  Theorem slice1_reads i : simple (VInt i) = true ->
    p_sexpr (S (S (S f))) (show e ++ "[" ++ dec_of_Z i ++ "]" ++ rest) = ROk (WL [VOp OSlice; e; VInt i]) (inter rest).
  Proof.
    intros Hi. apply sexpr_plain; [|exact Hd]. rewrite operand_settled.
    apply (strict_of _ _ e (String "["%char (dec_of_Z i ++ String "]"%char rest))).
    - apply (primary_before_postfix e "["%char _ f Hs ltac:(lia) (or_intror eq_refl)).
    - destruct f as [|[|[|g]]]; try lia. apply (postfix_slice1 _ e _ (VInt i) rest).
      + apply (sexpr_int_closing _ i "]"%char rest Hi (or_introl eq_refl)).
      + apply (delim_postfix _ _ rest Hd).
  Qed.

  Theorem slice2_reads h l : simple (VInt h) = true -> simple (VInt l) = true ->
    p_sexpr (S (S (S f))) (show e ++ "[" ++ dec_of_Z h ++ ":" ++ dec_of_Z l ++ "]" ++ rest)
    = ROk (WL [VOp OSlice; e; VInt h; VInt l]) (inter rest).
  Proof.
    intros Hh Hl. apply sexpr_plain; [|exact Hd]. rewrite operand_settled.
    apply (strict_of _ _ e (String "["%char (dec_of_Z h ++ String ":"%char (dec_of_Z l ++ String "]"%char rest)))).
    - apply (primary_before_postfix e "["%char _ f Hs ltac:(lia) (or_intror eq_refl)).
    - destruct f as [|[|[|g]]]; try lia. apply (postfix_slice2 _ e _ (VInt h) (dec_of_Z l ++ String "]"%char rest) (VInt l) rest).
      + apply (sexpr_int_closing _ h ":"%char _ Hh (or_intror eq_refl)).
      + apply (sexpr_int_closing _ l "]"%char rest Hl (or_introl eq_refl)).
      + apply (delim_postfix _ _ rest Hd).
  Qed.
End Postfix.

(** * whole texts *)
Lemma read_whole text v : sall plain_char text = true -> p_sexpr (reader_fuel text) text = ROk v "" -> read_sexpr text = ROk v "".
Proof. intros Hp H. unfold read_sexpr. rewrite (plain_modelled _ Hp). cbn [negb]. rewrite H. reflexivity. Qed.

Lemma dec_plain k : sall plain_char (dec_of_Z k) = true.
Proof.
  unfold dec_of_Z. destruct (Z.ltb_spec k 0).
  - cbn [sall]. rewrite digits_plain by (apply numeral10_digits; lia). reflexivity.
  - apply digits_plain, numeral10_digits. lia.
Qed.

Section Whole.
  Variable e : val.
  Hypothesis Hs : simple e = true.
  Let Hplain := show_plain (vsize e) e (le_n _) Hs.
  Let Hlen := show_length (vsize e) e (le_n _) Hs.

  Theorem quote_roundtrip :
    wal_str0 (WL [VOp OQuote; e]) = Some ("'" ++ show e) /\ read_sexpr ("'" ++ show e) = ROk (WL [VOp OQuote; e]) "".
  Proof.
    split.
    - unfold wal_str0. cbn [WL wal_str]. change (wal_str (fun _ => None) e) with (wal_str0 e).
      rewrite (wal_str_show (vsize e) e (le_n _) Hs). reflexivity.
    - apply read_whole; [cbn [append sall]; rewrite Hplain; reflexivity|].
      pose proof (quote_reads e "" (4 * String.length (show e) + 40) Hs ltac:(lia) I I) as H.
      rewrite append_nil_r' in H. unfold reader_fuel. cbn [append String.length].
      replace (4 * S (String.length (show e)) + 40)%nat with (S (S (S (S (4 * String.length (show e) + 40))))) by lia. exact H.
  Qed.

  Theorem quasiquote_roundtrip :
    wal_str0 (WL [VOp OQuasiquote; e]) = Some ("`" ++ show e) /\ read_sexpr ("`" ++ show e) = ROk (WL [VOp OQuasiquote; e]) "".
  Proof.
    split.
    - unfold wal_str0. cbn [WL wal_str]. change (wal_str (fun _ => None) e) with (wal_str0 e).
      rewrite (wal_str_show (vsize e) e (le_n _) Hs). reflexivity.
    - apply read_whole; [cbn [append sall]; rewrite Hplain; reflexivity|].
      pose proof (quasiquote_reads e "" (4 * String.length (show e) + 40) Hs ltac:(lia) I I) as H.
      rewrite append_nil_r' in H. unfold reader_fuel. cbn [append String.length].
      replace (4 * S (String.length (show e)) + 40)%nat with (S (S (S (S (4 * String.length (show e) + 40))))) by lia. exact H.
  Qed.

  Theorem reval_text_reads k : simple (VInt k) = true ->
    read_sexpr (show e ++ "@" ++ dec_of_Z k) = ROk (WL [VOp OReval; e; VInt k]) "".
  Proof.
    intros Hk. apply read_whole; [rewrite !sall_app, Hplain, dec_plain; reflexivity|].
    set (text := show e ++ "@" ++ dec_of_Z k).
    assert (Hfu : (5 * vsize e + 8 <= 4 * String.length text + 37)%nat) by (unfold text; rewrite !length_append; lia).
    pose proof (reval_reads e "" (4 * String.length text + 37) Hs Hfu I k Hk) as H.
    rewrite append_nil_r' in H. unfold reader_fuel. fold text.
    replace (4 * String.length text + 40)%nat with (S (S (S (4 * String.length text + 37)))) by lia. exact H.
  Qed.

  Theorem slice_text_reads h l : simple (VInt h) = true -> simple (VInt l) = true ->
    read_sexpr (show e ++ "[" ++ dec_of_Z h ++ ":" ++ dec_of_Z l ++ "]") = ROk (WL [VOp OSlice; e; VInt h; VInt l]) "".
  Proof.
    intros Hh Hl. apply read_whole; [rewrite !sall_app, Hplain, !dec_plain; reflexivity|].
    set (text := show e ++ "[" ++ dec_of_Z h ++ ":" ++ dec_of_Z l ++ "]").
    assert (Hfu : (5 * vsize e + 8 <= 4 * String.length text + 37)%nat) by (unfold text; rewrite !length_append; lia).
    pose proof (slice2_reads e "" (4 * String.length text + 37) Hs Hfu I h l Hh Hl) as H.
    rewrite append_nil_r' in H. unfold reader_fuel. fold text.
    replace (4 * String.length text + 40)%nat with (S (S (S (4 * String.length text + 37)))) by lia. exact H.
  Qed.

  Theorem bit_text_reads i : simple (VInt i) = true ->
    read_sexpr (show e ++ "[" ++ dec_of_Z i ++ "]") = ROk (WL [VOp OSlice; e; VInt i]) "".
  Proof.
    intros Hi. apply read_whole; [rewrite !sall_app, Hplain, !dec_plain; reflexivity|].
    set (text := show e ++ "[" ++ dec_of_Z i ++ "]").
    assert (Hfu : (5 * vsize e + 8 <= 4 * String.length text + 37)%nat) by (unfold text; rewrite !length_append; lia).
    pose proof (slice1_reads e "" (4 * String.length text + 37) Hs Hfu I i Hi) as H.
    rewrite append_nil_r' in H. unfold reader_fuel. fold text.
    replace (4 * String.length text + 40)%nat with (S (S (S (4 * String.length text + 37)))) by lia. exact H.
  Qed.
End Whole.
