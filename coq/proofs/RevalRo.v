(** RevalRo.v — for an expression e of the read-only fragment (ReadOnly.is_ro), e@k on one trace evaluates e with
    the trace at index i+k and leaves the interpreter state EXACTLY as it was (C03). *)
From WalModel Require Import Eval.
From WalModel.proofs Require Import VcdProofs Balanced NavProofs RevalProofs ReadOnly ScanProofs StackIndep.
Local Open Scope Z_scope.

Section One.
  Variable lf f : nat.
  Variable tid : string.
  Variable st0 : state.
  Variable t0 : trace.
  Hypothesis Htid : tr_tid t0 = tid.
  Hypothesis Hnv : tr_virt t0 = [].

  (** the state in which e is evaluated: trace at index j, the positions saved by @ on top of the stack *)
  Definition shifted_state (i j : Z) : state :=
    upd_cont st0 (mkCont [(tid, set_index t0 j)] (c_ntraces (st_cont st0)) ([(tid, i)] :: c_stack (st_cont st0))).

  Lemma novirt_shifted i j : novirt (shifted_state i j).
  Proof. intros k t [H|[]]. injection H as _ <-. exact Hnv. Qed.

  Theorem reval_read_only e k i :
    is_ro e = true -> 0 <= i + k <= tr_max t0 ->
    op_reval (eval lf (S f)) [e; VInt k] (at_idx tid st0 t0 i) =
    match eval lf (S f) e (shifted_state i (i + k)) with
    | Ok v _ => Ok v (at_idx tid st0 t0 i)
    | Er er s => Er er s
    | Unm w => Unm w
    | Fuel => Fuel
    end.
  Proof.
    intros Hro Hr.
    assert (Hvalid : valid_body e = true).
    { destruct e; try reflexivity; discriminate Hro. }
    assert (Hlit : eval lf (S f) (VInt k) (at_idx tid st0 t0 i) = Ok (VInt k) (at_idx tid st0 t0 i)) by reflexivity.
    assert (Hin : all_in_range (c_traces (st_cont (at_idx tid st0 t0 i))) k = true).
    { unfold at_idx, set1, upd_cont, with_traces. simpl. 
      assert (E : ((tr_max t0 <? i + k) || (i + k <? 0)) = false) by lia. rewrite E. reflexivity. }
    destruct (reval_in_range (eval lf (S f)) e (VInt k) _ (VInt k) k _ Hvalid Hlit eq_refl Hin) as (c & Hsh & _ & Heq).
    rewrite Heq. clear Heq.
    assert (Ec : upd_cont (at_idx tid st0 t0 i) c = shifted_state i (i + k)).
    { unfold shifted in Hsh. unfold cont_step, cont_store, at_idx, set1, upd_cont, with_traces, cont_indices in Hsh.
      simpl in Hsh. unfold trace_step in Hsh. simpl in Hsh.
      assert (E : ((i + k <? 0) || (tr_max t0 <? i + k)) = false) by lia. rewrite E in Hsh.
      injection Hsh as <-. unfold shifted_state, at_idx, set1, upd_cont, with_traces. simpl. rewrite Htid. reflexivity. }
    rewrite Ec.
    destruct (eval lf (S f) e (shifted_state i (i + k))) as [v st2| | |] eqn:Ee; try reflexivity.
    pose proof (ro_pure lf (S f) e Hro _ _ _ (novirt_shifted i (i + k)) Ee) as ->.
    unfold shifted_state, cont_restore, upd_cont. simpl. rewrite String.eqb_refl. simpl.
    unfold at_idx, set1, upd_cont, with_traces. simpl. reflexivity.
  Qed.

  (** the general shape: whatever the inner expression is, if it completes at the shifted position leaving that
      state as it was, e@k yields its value and the interpreter is exactly where it was *)
  Lemma reval_neutral_if_inner_neutral (ev : val -> M val) inner k i v :
    valid_body inner = true -> (forall st, ev (VInt k) st = Ok (VInt k) st) -> 0 <= i + k <= tr_max t0 ->
    ev inner (shifted_state i (i + k)) = Ok v (shifted_state i (i + k)) ->
    op_reval ev [inner; VInt k] (at_idx tid st0 t0 i) = Ok v (at_idx tid st0 t0 i).
  Proof.
    intros Hvalid Hlit Hr Hin.
    assert (Hrange : all_in_range (c_traces (st_cont (at_idx tid st0 t0 i))) k = true).
    { unfold at_idx, set1, upd_cont, with_traces. simpl.
      assert (E : ((tr_max t0 <? i + k) || (i + k <? 0)) = false) by lia. rewrite E. reflexivity. }
    destruct (reval_in_range ev inner (VInt k) _ (VInt k) k _ Hvalid (Hlit _) eq_refl Hrange) as (c & Hsh & _ & Heq).
    rewrite Heq. clear Heq.
    assert (Ec : upd_cont (at_idx tid st0 t0 i) c = shifted_state i (i + k)).
    { unfold shifted in Hsh. unfold cont_step, cont_store, at_idx, set1, upd_cont, with_traces, cont_indices in Hsh.
      simpl in Hsh. unfold trace_step in Hsh. simpl in Hsh.
      assert (E : ((i + k <? 0) || (tr_max t0 <? i + k)) = false) by lia. rewrite E in Hsh.
      injection Hsh as <-. unfold shifted_state, at_idx, set1, upd_cont, with_traces. simpl. rewrite Htid. reflexivity. }
    rewrite Ec, Hin.
    unfold shifted_state, cont_restore, upd_cont. simpl. rewrite String.eqb_refl. simpl.
    unfold at_idx, set1, upd_cont, with_traces. simpl. reflexivity.
  Qed.
End One.

(** * composition: (e@j)@k = e@(j+k) for a read-only e, when both positions are inside the trace *)
Theorem reval_compose lf f tid st0 t0 e j k i v s :
  tr_tid t0 = tid -> tr_virt t0 = [] -> is_ro e = true ->
  0 <= i + k <= tr_max t0 -> 0 <= i + k + j <= tr_max t0 ->
  eval lf (S f) e (shifted_state tid st0 t0 i (i + k + j)) = Ok v s ->
  op_reval (eval lf (S (S f))) [WL [VOp OReval; e; VInt j]; VInt k] (at_idx tid st0 t0 i) = Ok v (at_idx tid st0 t0 i) /\
  op_reval (eval lf (S f)) [e; VInt (j + k)] (at_idx tid st0 t0 i) = Ok v (at_idx tid st0 t0 i).
Proof.
  intros Htid Hnv Hro Hk Hkj He.
  pose proof (ro_pure lf (S f) e Hro _ _ _ (novirt_shifted tid st0 t0 Hnv i (i + k + j)) He) as ->.
  split.
  - (* nested *)
    apply (reval_neutral_if_inner_neutral tid st0 t0 Htid (eval lf (S (S f))) (WL [VOp OReval; e; VInt j]) k i v);
      [reflexivity|intros st; reflexivity|exact Hk|].
    change (eval lf (S (S f)) (WL [VOp OReval; e; VInt j]) (shifted_state tid st0 t0 i (i + k)))
      with (op_reval (eval lf (S f)) [e; VInt j] (shifted_state tid st0 t0 i (i + k))).
    set (st1 := push [(tid, i)] st0).
    change (shifted_state tid st0 t0 i (i + k)) with (at_idx tid st1 t0 (i + k)).
    apply (reval_neutral_if_inner_neutral tid st1 t0 Htid (eval lf (S f)) e j (i + k) v);
      [destruct e; try reflexivity; discriminate Hro|intros st; reflexivity|exact Hkj|].
    change (shifted_state tid st1 t0 (i + k) (i + k + j)) with (push [(tid, i + k)] (shifted_state tid st0 t0 i (i + k + j))).
    rewrite (ro_stack_independent [(tid, i + k)] lf (S f) e Hro _ (novirt_shifted tid st0 t0 Hnv i (i + k + j))), He. reflexivity.
  - (* direct *)
    apply (reval_neutral_if_inner_neutral tid st0 t0 Htid (eval lf (S f)) e (j + k) i v);
      [destruct e; try reflexivity; discriminate Hro|intros st; reflexivity|lia|].
    replace (i + (j + k)) with (i + k + j) by lia. exact He.
Qed.
