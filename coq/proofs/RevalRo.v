(** RevalRo.v — for an expression e of the read-only fragment (ReadOnly.is_ro), e@k on one trace evaluates e with
    the trace at index i+k and leaves the interpreter state EXACTLY as it was (C03). *)
From WalModel Require Import Eval.
From WalModel.proofs Require Import VcdProofs Balanced NavProofs RevalProofs ReadOnly ScanProofs.
Local Open Scope Z_scope.

Section One.
  Variable lf f : nat.
  Variable tid : string.
  Variable st0 : state.
  Variable t0 : trace.
  Hypothesis Htid : tr_tid t0 = tid.
  Hypothesis Hnv : tr_virt t0 = [].

  (** the state in which e is evaluated: trace at index j, the positions saved by @ on top of the stack *)
  Definition shifted_state (i j : Z) : state :=
    upd_cont st0 (mkCont [(tid, set_index t0 j)] (c_ntraces (st_cont st0)) ([(tid, i)] :: c_stack (st_cont st0))).

  Lemma novirt_shifted i j : novirt (shifted_state i j).
  Proof. intros k t [H|[]]. injection H as _ <-. exact Hnv. Qed.

  Theorem reval_read_only e k i :
    is_ro e = true -> 0 <= i + k <= tr_max t0 ->
    op_reval (eval lf (S f)) [e; VInt k] (at_idx tid st0 t0 i) =
    match eval lf (S f) e (shifted_state i (i + k)) with
    | Ok v _ => Ok v (at_idx tid st0 t0 i)
    | Er er s => Er er s
    | Unm w => Unm w
    | Fuel => Fuel
    end.
  Proof.
    intros Hro Hr.
    assert (Hvalid : valid_body e = true).
    { destruct e; try reflexivity; discriminate Hro. }
    assert (Hlit : eval lf (S f) (VInt k) (at_idx tid st0 t0 i) = Ok (VInt k) (at_idx tid st0 t0 i)) by reflexivity.
    assert (Hin : all_in_range (c_traces (st_cont (at_idx tid st0 t0 i))) k = true).
    { unfold at_idx, set1, upd_cont, with_traces. simpl. 
      assert (E : ((tr_max t0 <? i + k) || (i + k <? 0)) = false) by lia. rewrite E. reflexivity. }
    destruct (reval_in_range (eval lf (S f)) e (VInt k) _ (VInt k) k _ Hvalid Hlit eq_refl Hin) as (c & Hsh & _ & Heq).
    rewrite Heq. clear Heq.
    assert (Ec : upd_cont (at_idx tid st0 t0 i) c = shifted_state i (i + k)).
    { unfold shifted in Hsh. unfold cont_step, cont_store, at_idx, set1, upd_cont, with_traces, cont_indices in Hsh.
      simpl in Hsh. unfold trace_step in Hsh. simpl in Hsh.
      assert (E : ((i + k <? 0) || (tr_max t0 <? i + k)) = false) by lia. rewrite E in Hsh.
      injection Hsh as <-. unfold shifted_state, at_idx, set1, upd_cont, with_traces. simpl. rewrite Htid. reflexivity. }
    rewrite Ec.
    destruct (eval lf (S f) e (shifted_state i (i + k))) as [v st2| | |] eqn:Ee; try reflexivity.
    pose proof (ro_pure lf (S f) e Hro _ _ _ (novirt_shifted i (i + k)) Ee) as ->.
    unfold shifted_state, cont_restore, upd_cont. simpl. rewrite String.eqb_refl. simpl.
    unfold at_idx, set1, upd_cont, with_traces. simpl. reflexivity.
  Qed.
End One.
