(** VcdProofs.v — the VCD parser model computes the document reading of
    VcdSpec.v for every well-formed document (C01). *)
From WalModel Require Import VcdSpec.
From WalModel.proofs Require Import ArithProofs.
Local Open Scope Z_scope.

(** * association lists *)
Lemma alookup_aset_same {V} (k : string) (v : V) l :
  alookup k (aset k v l) = Some v.
Proof.
  induction l as [|[k' v'] l IH]; cbn [aset alookup].
  - rewrite String.eqb_refl. reflexivity.
  - destruct (String.eqb k k') eqn:E; cbn [alookup]; rewrite E; [reflexivity|exact IH].
Qed.

Lemma alookup_aset_other {V} (k k' : string) (v : V) l :
  String.eqb k k' = false -> alookup k (aset k' v l) = alookup k l.
Proof.
  intros Hne. induction l as [|[k2 v2] l IH]; cbn [aset alookup].
  - rewrite Hne. reflexivity.
  - destruct (String.eqb k' k2) eqn:E; cbn [alookup].
    + apply String.eqb_eq in E. subst k2. rewrite Hne. reflexivity.
    + destruct (String.eqb k k2); [reflexivity|exact IH].
Qed.

Lemma alookup_map_snd {V W} (f : V -> W) (k : string) (l : list (string * V)) :
  alookup k (map (fun p => (fst p, f (snd p))) l) = option_map f (alookup k l).
Proof.
  induction l as [|[k' v'] l IH]; cbn [map alookup fst snd]; [reflexivity|].
  destruct (String.eqb k k'); [reflexivity|exact IH].
Qed.

(** * dump section *)
Definition dup_head (col : list string) : list string :=
  match col with v :: _ => v :: col | [] => [] end.

Lemma alookup_push_row (id : string) cols :
  alookup id (push_row cols) = option_map dup_head (alookup id cols).
Proof. unfold push_row. apply (alookup_map_snd dup_head). Qed.

Lemma alookup_set_last (id id' v : string) cols :
  alookup id (set_last cols id' v) =
  if String.eqb id id' then
    match alookup id cols with
    | Some (_ :: older) => Some (v :: older)
    | other => other
    end
  else alookup id cols.
Proof.
  unfold set_last. destruct (String.eqb id id') eqn:E.
  - apply String.eqb_eq in E. subst id'.
    destruct (alookup id cols) as [[|x older]|] eqn:L; try exact L.
    apply alookup_aset_same.
  - destruct (alookup id' cols) as [[|x older]|]; try reflexivity.
    apply alookup_aset_other. exact E.
Qed.

Lemma skip_to_end_words ws rest :
  no_end ws = true -> skip_to_end (ws +++ "$end" :: rest) = Some rest.
Proof.
  induction ws as [|w ws IH]; intros H; cbn [app skip_to_end].
  - reflexivity.
  - cbn [no_end forallb] in H. apply andb_prop in H as [Hw Hr].
    destruct (String.eqb w "$end"); [discriminate|]. apply IH. exact Hr.
Qed.

Lemma scalar_not_hash_b c : is_scalar_char c = true ->
  Ascii.eqb c "#"%char = false /\ Ascii.eqb c "b"%char = false.
Proof.
  destruct c as [[] [] [] [] [] [] [] []]; vm_compute; intros H; try discriminate; split; reflexivity.
Qed.

Definition all_rows (items : list ditem) (id cur : string) : list string :=
  seg_end items id cur :: values items id cur.

Lemma flat_map_cons {A B} (f : A -> list B) x l : flat_map f (x :: l) = f x +++ flat_map f l.
Proof. reflexivity. Qed.

(** generalised statement: any starting columns (each with a current row) *)
Lemma parse_dump_gen : forall items fuel cols ts,
  forallb wf_ditem items = true ->
  (List.length (flat_map render_ditem items) < fuel)%nat ->
  exists cols',
    parse_dump fuel (flat_map render_ditem items) cols ts = POk (cols', rev (times items) +++ ts) /\
    forall id v older, alookup id cols = Some (v :: older) ->
      alookup id cols' = Some (rev (all_rows items id v) +++ older).
Proof.
  intros items.
  induction items as [|d items IH]; intros fuel cols ts Hwf Hfuel.
  - destruct fuel as [|f]; [cbn in Hfuel; lia|]. exists cols. split; [reflexivity|].
    intros id v older H. exact H.
  - cbn [forallb] in Hwf. apply andb_prop in Hwf as [Hd Hwf].
    rewrite flat_map_cons in Hfuel |- *. rewrite app_length in Hfuel.
    destruct fuel as [|f]; [lia|].
    destruct d as [t|c i|bits i|tok|ws]; cbn [render_ditem app] in Hfuel |- *; cbn [wf_ditem] in Hd.
    + (* time *)
      cbn [parse_dump]. change (Ascii.eqb "#"%char "#"%char) with true. cbn iota.
      rewrite py_int_numeral by lia.
      destruct (IH f (push_row cols) (t :: ts) Hwf ltac:(cbn [List.length] in Hfuel; lia)) as [cols' [Hp Hc]].
      exists cols'. split.
      * rewrite Hp. cbn [times rev]. rewrite <- app_assoc. reflexivity.
      * intros id v older H. rewrite (Hc id v (v :: older)).
        -- unfold all_rows. cbn [seg_end values rev]. rewrite <- !app_assoc. reflexivity.
        -- rewrite alookup_push_row, H. reflexivity.
    + (* scalar *)
      cbn [parse_dump]. destruct (scalar_not_hash_b c Hd) as [H1 H2]. rewrite H1, H2, Hd.
      destruct (IH f (set_last cols i (String c EmptyString)) ts Hwf ltac:(cbn [List.length] in Hfuel; lia))
        as [cols' [Hp Hc]].
      exists cols'. split; [exact Hp|].
      intros id v older H. unfold all_rows. cbn [seg_end values upd].
      apply Hc. rewrite alookup_set_last, H. destruct (String.eqb id i); reflexivity.
    + (* vector *)
      cbn [parse_dump]. change (Ascii.eqb "b"%char "#"%char) with false.
      change (Ascii.eqb "b"%char "b"%char) with true. cbn iota.
      destruct f as [|f]; [cbn [List.length] in Hfuel; lia|].
      destruct (IH (S f) (set_last cols i bits) ts Hwf ltac:(cbn [List.length] in Hfuel; lia))
        as [cols' [Hp Hc]].
      exists cols'. split; [exact Hp|].
      intros id v older H. unfold all_rows. cbn [seg_end values upd].
      apply Hc. rewrite alookup_set_last, H. destruct (String.eqb id i); reflexivity.
    + (* skipped keyword *)
      destruct tok as [|c body]; [discriminate|].
      apply andb_prop in Hd as [Hd Hcm]. apply andb_prop in Hd as [Hd Hsc].
      apply andb_prop in Hd as [Hh Hb].
      cbn [parse_dump]. apply negb_true_iff in Hh, Hb, Hsc, Hcm. rewrite Hh, Hb, Hsc, Hcm.
      destruct (IH f cols ts Hwf ltac:(cbn [List.length] in Hfuel; lia)) as [cols' [Hp Hc]].
      exists cols'. split; [exact Hp|].
      intros id v older H. unfold all_rows. cbn [seg_end values upd]. apply Hc. exact H.
    + (* comment *)
      cbn [parse_dump]. change (Ascii.eqb "$"%char "#"%char) with false.
      change (Ascii.eqb "$"%char "b"%char) with false.
      change (is_scalar_char "$"%char) with false. cbn iota.
      change (String.eqb "$comment" "$comment") with true. cbn iota.
      change (skip_to_end ("$comment" :: (ws +++ ["$end"]) +++ flat_map render_ditem items))
        with (skip_to_end ((ws +++ ["$end"]) +++ flat_map render_ditem items)).
      rewrite <- app_assoc. cbn [app]. rewrite skip_to_end_words by exact Hd.
      destruct (IH f cols ts Hwf ltac:(cbn [List.length] in Hfuel; rewrite app_length in Hfuel; lia))
        as [cols' [Hp Hc]].
      exists cols'. split; [exact Hp|].
      intros id v older H. unfold all_rows. cbn [seg_end values upd]. apply Hc. exact H.
Qed.

(** the dump section of a well-formed document: timestamps in file order, and
    for every declared identifier code one value per timestamp — the last
    value assigned at or before it, [x] before any assignment *)
Theorem parse_dump_values : forall items ids fuel,
  forallb wf_ditem items = true ->
  (List.length (flat_map render_ditem items) < fuel)%nat ->
  exists cols ts,
    parse_dump fuel (flat_map render_ditem items) (map (fun id => (id, ["x"])) ids) [] = POk (cols, ts) /\
    rev ts = times items /\
    forall id, smem id ids = true ->
      option_map finish_col (alookup id cols) = Some (values items id "x").
Proof.
  intros items ids fuel Hwf Hfuel.
  destruct (parse_dump_gen items fuel (map (fun id => (id, ["x"])) ids) [] Hwf Hfuel) as [cols [Hp Hc]].
  exists cols, (rev (times items) +++ []). split; [exact Hp|]. split.
  - rewrite app_nil_r, rev_involutive. reflexivity.
  - intros id Hin.
    assert (Hl : alookup id (map (fun id => (id, ["x"])) ids) = Some ["x"]).
    { clear Hp Hc. induction ids as [|i ids IHi]; [discriminate|]. cbn [smem] in Hin. cbn [map alookup].
      destruct (String.eqb id i); [reflexivity|]. apply IHi. exact Hin. }
    rewrite (Hc id "x" [] Hl). cbn [option_map]. f_equal.
    unfold finish_col, all_rows. rewrite app_nil_r, rev_involutive. reflexivity.
Qed.

(** * header *)
Definition hstep (h : hdr) (b : hblock) : hdr :=
  match b with
  | HScope _ nm =>
      let sc := norm_scope_name nm :: h_scope h in
      mkHdr sc (sjoin "." (rev sc) :: h_scopes h) (h_raw h) (h_ids h) (h_name2id h) (h_width h)
  | HUpscope => mkHdr (tl (h_scope h)) (h_scopes h) (h_raw h) (h_ids h) (h_name2id h) (h_width h)
  | HVar _ w id nm _ =>
      let full := full_name (h_scope h) nm in
      mkHdr (h_scope h) (h_scopes h) (full :: h_raw h)
            (if smem id (h_ids h) then h_ids h else h_ids h +++ [id])
            (aset full id (h_name2id h)) (aset id w (h_width h))
  | _ => h
  end.

Ltac eqb_lit :=
  repeat match goal with
  | |- context [String.eqb ?a ?b] =>
      let r := eval vm_compute in (String.eqb a b) in
      lazymatch r with
      | true => change (String.eqb a b) with true
      | false => change (String.eqb a b) with false
      end
  end.

Definition header_tail (bs : list hblock) (rest : list string) : list string :=
  flat_map render_hblock bs +++ "$enddefinitions" :: "$end" :: rest.

Lemma header_tail_cons b bs rest :
  header_tail (b :: bs) rest = render_hblock b +++ header_tail bs rest.
Proof. unfold header_tail. cbn [flat_map]. rewrite <- app_assoc. reflexivity. Qed.

Lemma header_tail_first bs rest : forallb wf_hblock bs = true ->
  exists t r, header_tail bs rest = t :: r /\ String.eqb t "$end" = false.
Proof.
  intros Hwf. destruct bs as [|b bs]; unfold header_tail.
  - cbn [flat_map app]. eexists _, _. split; reflexivity.
  - cbn [forallb] in Hwf. apply andb_prop in Hwf as [Hb _].
    destruct b as [kw ws|a|a b|k n| |k w i n e]; cbn [flat_map render_hblock app];
      try (eexists _, _; split; reflexivity).
    cbn [wf_hblock] in Hb. apply andb_prop in Hb as [Hk _]. eexists _, _. split; [reflexivity|].
    unfold is_misc_kw in Hk.
    destruct (String.eqb kw "$comment") eqn:E1; [apply String.eqb_eq in E1; subst; reflexivity|].
    destruct (String.eqb kw "$version") eqn:E2; [apply String.eqb_eq in E2; subst; reflexivity|].
    destruct (String.eqb kw "$date") eqn:E3; [apply String.eqb_eq in E3; subst; reflexivity|discriminate].
Qed.

Lemma full_name_path (h : hdr) nm :
  match h_scope h with
  | [] => norm_var_name nm
  | _ :: _ => scope_path h ++ "." ++ norm_var_name nm
  end = full_name (h_scope h) nm.
Proof. unfold full_name, scope_path. destruct (h_scope h); reflexivity. Qed.

Lemma first_char_not_end e : first_char_is "["%char e = true -> String.eqb e "$end" = false.
Proof.
  destruct e as [|c e]; [discriminate|]. cbn [first_char_is]. intros H.
  apply Ascii.eqb_eq in H. subst c. reflexivity.
Qed.

Theorem parse_header_spec : forall bs fuel h rest,
  forallb wf_hblock bs = true ->
  balanced bs (List.length (h_scope h)) = true ->
  (List.length (header_tail bs rest) < fuel)%nat ->
  parse_header fuel (header_tail bs rest) h = POk (fold_left hstep bs h, rest).
Proof.
  induction bs as [|b bs IH]; intros fuel h rest Hwf Hbal Hfuel.
  - unfold header_tail in *. cbn [flat_map app] in *. destruct fuel as [|f]; [cbn in Hfuel; lia|].
    cbn [parse_header]. eqb_lit. reflexivity.
  - cbn [forallb] in Hwf. apply andb_prop in Hwf as [Hb Hwf].
    destruct fuel as [|f]; [lia|].
    assert (Hstep : forall n, header_tail (b :: bs) rest = n +++ header_tail bs rest ->
                    (List.length (header_tail bs rest) < f)%nat \/ n = []).
    { intros n Hn. rewrite Hn, app_length in Hfuel. destruct n; [right; reflexivity|left; cbn [List.length] in Hfuel; lia]. }
    destruct b as [kw ws|a|a b|k n| |k w i n e]; cbn [wf_hblock] in Hb; cbn [balanced] in Hbal;
      cbn [fold_left hstep].
    + (* misc *)
      apply andb_prop in Hb as [Hk Hws].
      assert (Hlen : (List.length (header_tail bs rest) < f)%nat).
      { destruct (Hstep (kw :: ws +++ ["$end"])) as [H|H]; [|exact H|discriminate].
        apply header_tail_cons. }
      rewrite header_tail_cons. cbn [render_hblock app parse_header].
      unfold is_misc_kw in Hk.
      assert (Hkw : kw = "$comment" \/ kw = "$version" \/ kw = "$date").
      { destruct (String.eqb kw "$comment") eqn:E1; [apply String.eqb_eq in E1; auto|].
        destruct (String.eqb kw "$version") eqn:E2; [apply String.eqb_eq in E2; auto|].
        destruct (String.eqb kw "$date") eqn:E3; [apply String.eqb_eq in E3; auto|discriminate]. }
      assert (Hskip : skip_to_end (kw :: (ws +++ ["$end"]) +++ header_tail bs rest) = Some (header_tail bs rest)).
      { destruct Hkw as [->|[->| ->]]; cbn [skip_to_end]; eqb_lit; cbn iota;
          rewrite <- app_assoc; cbn [app]; apply skip_to_end_words; exact Hws. }
      destruct Hkw as [->|[->| ->]]; eqb_lit; cbn [orb]; cbn iota; rewrite Hskip; apply IH; assumption.
    + (* timescale, one token *)
      change (header_tail (HTimescale1 a :: bs) rest) with ("$timescale" :: a :: "$end" :: header_tail bs rest).
      destruct (header_tail_first bs rest Hwf) as [t [r [Ht Hne]]].
      assert (Hlen : (List.length (header_tail bs rest) < f)%nat).
      { destruct (Hstep ["$timescale"; a; "$end"]) as [H|H]; [reflexivity|exact H|discriminate]. }
      cbn [parse_header]. eqb_lit. cbn iota. rewrite Ht. rewrite Hne. eqb_lit. cbn iota.
      rewrite <- Ht. apply IH; assumption.
    + (* timescale, two tokens *)
      change (header_tail (HTimescale2 a b :: bs) rest) with ("$timescale" :: a :: b :: "$end" :: header_tail bs rest).
      assert (Hlen : (List.length (header_tail bs rest) < f)%nat).
      { destruct (Hstep ["$timescale"; a; b; "$end"]) as [H|H]; [reflexivity|exact H|discriminate]. }
      cbn [parse_header]. eqb_lit. cbn iota. apply IH; assumption.
    + (* scope *)
      change (header_tail (HScope k n :: bs) rest) with ("$scope" :: k :: n :: "$end" :: header_tail bs rest).
      assert (Hlen : (List.length (header_tail bs rest) < f)%nat).
      { destruct (Hstep ["$scope"; k; n; "$end"]) as [H|H]; [reflexivity|exact H|discriminate]. }
      cbn [parse_header]. eqb_lit. cbn iota. apply IH; [assumption| |assumption].
      cbn [h_scope List.length]. exact Hbal.
    + (* upscope *)
      change (header_tail (HUpscope :: bs) rest) with ("$upscope" :: "$end" :: header_tail bs rest).
      assert (Hlen : (List.length (header_tail bs rest) < f)%nat).
      { destruct (Hstep ["$upscope"; "$end"]) as [H|H]; [reflexivity|exact H|discriminate]. }
      cbn [parse_header]. eqb_lit. cbn iota.
      destruct (h_scope h) as [|s sc] eqn:Hs; cbn [List.length] in Hbal; [discriminate|].
      cbn [tl]. apply IH; [assumption| |assumption]. cbn [h_scope]. exact Hbal.
    + (* var *)
      apply andb_prop in Hb as [Hw He].
      assert (Hlen : (List.length (header_tail bs rest) < f)%nat).
      { destruct (Hstep (render_hblock (HVar k w i n e))) as [H|H]; [|exact H|destruct e; discriminate].
        apply header_tail_cons. }
      assert (Hbal' : balanced bs (List.length (h_scope (hstep h (HVar k w i n e)))) = true) by exact Hbal.
      destruct e as [e|].
      * change (header_tail (HVar k w i n (Some e) :: bs) rest)
          with ("$var" :: k :: numeral 10 w :: i :: n :: e :: "$end" :: header_tail bs rest).
        cbn [parse_header]. eqb_lit. cbn iota. rewrite py_int_numeral by lia.
        rewrite (first_char_not_end e He), He. rewrite full_name_path. apply IH; assumption.
      * change (header_tail (HVar k w i n None :: bs) rest)
          with ("$var" :: k :: numeral 10 w :: i :: n :: "$end" :: header_tail bs rest).
        cbn [parse_header]. eqb_lit. cbn iota. rewrite py_int_numeral by lia.
        eqb_lit. cbn iota. rewrite full_name_path. apply IH; assumption.
Qed.

(** * tokenisation: any white-space layout splits back into the tokens *)
Lemma srev_app_spec (t a b : string) : srev_app (srev_app t a) b = srev_app a (t ++ b).
Proof.
  revert a b. induction t as [|c t IH]; intros a b; cbn [srev_app append]; [reflexivity|].
  rewrite IH. reflexivity.
Qed.

Lemma append_nil_r (s : string) : s ++ "" = s.
Proof. induction s as [|c s IH]; cbn [append]; [reflexivity|rewrite IH; reflexivity]. Qed.

Lemma srev_srev_app (t : string) : srev (srev_app t "") = t.
Proof. unfold srev. rewrite srev_app_spec. cbn [srev_app]. apply append_nil_r. Qed.

Lemma append_assoc (a b c : string) : (a ++ b) ++ c = a ++ b ++ c.
Proof. induction a as [|x a IH]; cbn [append]; [reflexivity|rewrite IH; reflexivity]. Qed.

Lemma py_split_aux_token (t rest cur : string) :
  sall (fun c => negb (is_pyspace c)) t = true ->
  py_split_aux (t ++ rest) cur = py_split_aux rest (srev_app t cur).
Proof.
  revert cur. induction t as [|c t IH]; intros cur H; cbn [append srev_app]; [reflexivity|].
  cbn [sall] in H. apply andb_prop in H as [Hc Ht]. cbn [py_split_aux].
  apply negb_true_iff in Hc. rewrite Hc. apply IH. exact Ht.
Qed.

Lemma py_split_aux_spaces (s rest : string) :
  sall is_pyspace s = true -> py_split_aux (s ++ rest) "" = py_split_aux rest "".
Proof.
  induction s as [|c s IH]; intros H; cbn [append]; [reflexivity|].
  cbn [sall] in H. apply andb_prop in H as [Hc Hs]. cbn [py_split_aux]. rewrite Hc. apply IH. exact Hs.
Qed.

Lemma py_split_aux_sep (s rest cur : string) :
  is_sep s = true -> cur <> "" ->
  py_split_aux (s ++ rest) cur = srev cur :: py_split_aux rest "".
Proof.
  intros Hs Hcur. unfold is_sep in Hs. apply andb_prop in Hs as [Hne Hall].
  destruct s as [|c s]; [discriminate|]. cbn [sall] in Hall. apply andb_prop in Hall as [Hc Hall].
  cbn [append py_split_aux]. rewrite Hc. destruct cur as [|x cur]; [congruence|].
  f_equal. apply py_split_aux_spaces. exact Hall.
Qed.

Lemma srev_app_nonempty (t cur : string) : t <> "" -> srev_app t cur <> "".
Proof.
  revert cur. induction t as [|c t IH]; intros cur H; [congruence|]. cbn [srev_app].
  destruct t as [|d t]; [cbn [srev_app]; discriminate|]. apply IH. discriminate.
Qed.

Theorem py_split_layout : forall toks seps lead,
  forallb is_token toks = true -> forallb is_sep seps = true ->
  List.length seps = List.length toks -> sall is_pyspace lead = true ->
  py_split (layout lead toks seps) = toks.
Proof.
  intros toks seps lead Ht Hs Hl Hlead. unfold py_split, layout.
  rewrite py_split_aux_spaces by exact Hlead.
  revert seps Hs Hl. induction toks as [|t toks IH]; intros seps Hs Hl.
  - destruct seps; [reflexivity|discriminate].
  - destruct seps as [|s seps]; [discriminate|]. cbn [lay].
    cbn [forallb] in Ht, Hs. apply andb_prop in Ht as [Htok Ht]. apply andb_prop in Hs as [Hsep Hs].
    unfold is_token in Htok. apply andb_prop in Htok as [Hne Hall].
    rewrite py_split_aux_token by exact Hall.
    rewrite py_split_aux_sep; [|exact Hsep|].
    + rewrite srev_srev_app. f_equal. apply IH; [exact Ht|exact Hs|]. cbn [List.length] in Hl. lia.
    + apply srev_app_nonempty. intros ->. discriminate.
Qed.

(** * what the folded header records *)
Definition d_name (d : string * string * Z) : string := fst (fst d).
Definition d_id (d : string * string * Z) : string := snd (fst d).
Definition d_w (d : string * string * Z) : Z := snd d.

Lemma header_fields : forall bs h,
  let hf := fold_left hstep bs h in
  let ds := decls bs (h_scope h) in
  rev (h_raw hf) = rev (h_raw h) +++ map d_name ds /\
  rev (h_scopes hf) = rev (h_scopes h) +++ decl_scopes bs (h_scope h) /\
  h_name2id hf = fold_left (fun acc d => aset (d_name d) (d_id d) acc) ds (h_name2id h) /\
  h_width hf = fold_left (fun acc d => aset (d_id d) (d_w d) acc) ds (h_width h) /\
  (forall id, smem id (h_ids h) = true -> smem id (h_ids hf) = true) /\
  (forall d, In d ds -> smem (d_id d) (h_ids hf) = true).
Proof.
  induction bs as [|b bs IH]; intros h; cbn zeta.
  - cbn [fold_left decls decl_scopes map]. rewrite !app_nil_r. repeat split; auto.
  - cbn [fold_left]. specialize (IH (hstep h b)). cbn zeta in IH.
    destruct IH as [I1 [I2 [I3 [I4 [I5 I6]]]]].
    destruct b as [kw ws|a|a b|k n| |k w i n e]; cbn [hstep decls decl_scopes] in *; cbn [h_scope h_raw h_scopes h_name2id h_width h_ids] in *;
      try (repeat split; assumption).
    + (* scope *)
      repeat split; try assumption. rewrite I2. cbn [rev]. rewrite <- app_assoc. reflexivity.
    + (* var *)
      assert (Hin : smem i (if smem i (h_ids h) then h_ids h else h_ids h +++ [i]) = true).
      { destruct (smem i (h_ids h)) eqn:E; [exact E|].
        clear. induction (h_ids h) as [|x l IHl]; cbn [app smem]; [rewrite String.eqb_refl; reflexivity|].
        rewrite IHl. apply orb_true_r. }
      assert (Hmono : forall id, smem id (h_ids h) = true ->
                smem id (if smem i (h_ids h) then h_ids h else h_ids h +++ [i]) = true).
      { intros id H. destruct (smem i (h_ids h)); [exact H|].
        clear -H. induction (h_ids h) as [|x l IHl]; [discriminate|]. cbn [app smem] in *.
        destruct (String.eqb id x); [reflexivity|]. apply IHl. exact H. }
      repeat split.
      * rewrite I1. cbn [rev map]. rewrite <- app_assoc. reflexivity.
      * exact I2.
      * exact I3.
      * exact I4.
      * intros id H. apply I5. apply Hmono. exact H.
      * intros d [<-|Hd]; [apply I5; exact Hin|apply I6; exact Hd].
Qed.

(** lookups in a table built by a keyed fold *)
Lemma fold_aset_lookup {V} (g : string -> option V) : forall l acc k,
  alookup k (fold_left (fun acc nm => match g nm with Some v => aset nm v acc | None => acc end) l acc) =
  if smem k l then match g k with Some v => Some v | None => alookup k acc end else alookup k acc.
Proof.
  induction l as [|x l IH]; intros acc k; cbn [fold_left smem]; [reflexivity|].
  rewrite IH. destruct (String.eqb k x) eqn:E; cbn [orb].
  - apply String.eqb_eq in E. subst x.
    destruct (g k) as [v|] eqn:G.
    + rewrite alookup_aset_same. destruct (smem k l); reflexivity.
    + destruct (smem k l); reflexivity.
  - destruct (g x) as [v|]; [|reflexivity].
    rewrite alookup_aset_other by exact E. reflexivity.
Qed.

Lemma smem_In (k : string) l : smem k l = true <-> In k l.
Proof.
  induction l as [|x l IH]; cbn [smem In]; [split; [discriminate|tauto]|].
  rewrite orb_true_iff, IH, String.eqb_eq. split; intros [H|H]; auto.
Qed.

Lemma name2id_in : forall ds acc name id,
  alookup name (fold_left (fun acc d => aset (d_name d) (d_id d) acc) ds acc) = Some id ->
  alookup name acc = Some id \/ exists d, In d ds /\ d_id d = id.
Proof.
  induction ds as [|d ds IH]; intros acc name id H; cbn [fold_left] in H; [left; exact H|].
  apply IH in H as [H|[d' [Hin Hid]]].
  - destruct (String.eqb name (d_name d)) eqn:E.
    + apply String.eqb_eq in E. subst name. rewrite alookup_aset_same in H. injection H as <-.
      right. exists d. split; [left; reflexivity|reflexivity].
    + rewrite alookup_aset_other in H by exact E. left. exact H.
  - right. exists d'. split; [right; exact Hin|exact Hid].
Qed.

Lemma fold_left_ext {A B} (f g : A -> B -> A) : (forall a x, f a x = g a x) ->
  forall l a, fold_left f l a = fold_left g l a.
Proof. intros H l. induction l as [|x l IH]; intros a; cbn [fold_left]; [reflexivity|]. rewrite H. apply IH. Qed.

Lemma width_in : forall ds acc name,
  In name (map d_name ds) ->
  exists id, alookup name (fold_left (fun acc d => aset (d_name d) (d_id d) acc) ds acc) = Some id.
Proof.
  induction ds as [|d ds IH]; intros acc name Hin; [destruct Hin|]. cbn [fold_left].
  destruct (in_dec string_dec name (map d_name ds)) as [Hd|Hd].
  - apply IH. exact Hd.
  - destruct Hin as [<-|Hin]; [|contradiction].
    exists (d_id d). clear IH.
    assert (G : forall ds acc, ~ In (d_name d) (map d_name ds) ->
              alookup (d_name d) (fold_left (fun acc d0 => aset (d_name d0) (d_id d0) acc) ds acc) = alookup (d_name d) acc).
    { clear. induction ds as [|e ds IH]; intros acc Hn; cbn [fold_left]; [reflexivity|].
      rewrite IH by (intros H; apply Hn; right; exact H).
      apply alookup_aset_other. apply String.eqb_neq. intros E. apply Hn. left. symmetry. exact E. }
    rewrite G by exact Hd. apply alookup_aset_same.
Qed.

(** * C01: loading any layout of any well-formed document yields its reading *)
Theorem vcd_load_reads_document : forall d lead seps tid file,
  wf_doc d = true ->
  forallb is_token (render_doc d) = true ->
  forallb is_sep seps = true -> List.length seps = List.length (render_doc d) ->
  sall is_pyspace lead = true ->
  let ds := decls (d_header d) [] in
  exists t,
    vcd_parse tid file (layout lead (render_doc d) seps) = POk t /\
    tr_tid t = tid /\ tr_index t = 0 /\ tr_lookup t = None /\ tr_virt t = [] /\
    tr_raw t = map d_name ds /\
    tr_scopes t = decl_scopes (d_header d) [] /\
    tr_ts t = times (d_dump d) /\ tr_all_ts t = times (d_dump d) /\
    tr_max t = zlen (times (d_dump d)) - 1 /\
    (forall name id, In name (map d_name ds) -> decl_id ds name = Some id ->
       alookup name (tr_data t) = Some (values (d_dump d) id "x")) /\
    (forall name, In name (map d_name ds) -> alookup name (tr_widths t) = decl_width ds name).
Proof.
  intros d lead seps tid file Hwf Htok Hsep Hlen Hlead ds.
  unfold wf_doc in Hwf. apply andb_prop in Hwf as [Hwf Hdump]. apply andb_prop in Hwf as [Hhdr Hbal].
  unfold vcd_parse. rewrite py_split_layout by assumption.
  change (render_doc d) with (header_tail (d_header d) (flat_map render_ditem (d_dump d))).
  remember (header_tail (d_header d) (flat_map render_ditem (d_dump d))) as toks eqn:Etoks.
  assert (Htoks : exists t0 r0, toks = t0 :: r0).
  { destruct (header_tail_first (d_header d) (flat_map render_ditem (d_dump d)) Hhdr) as [t0 [r0 [H _]]].
    rewrite Etoks. eauto. }
  destruct Htoks as [t0 [r0 Ht0]].
  assert (Hph : parse_header (S (List.length toks)) toks hdr0 =
                POk (fold_left hstep (d_header d) hdr0, flat_map render_ditem (d_dump d))).
  { rewrite Etoks. apply parse_header_spec; [exact Hhdr|exact Hbal|lia]. }
  rewrite Ht0 in Hph |- *. rewrite Hph. rewrite <- Ht0.
  remember (fold_left hstep (d_header d) hdr0) as hf eqn:Ehf.
  assert (Hdl : (List.length (flat_map render_ditem (d_dump d)) < S (List.length toks))%nat).
  { rewrite Etoks. unfold header_tail. rewrite app_length. cbn [List.length]. lia. }
  destruct (parse_dump_values (d_dump d) (h_ids hf) (S (List.length toks)) Hdump Hdl) as [cols [ts [Hpd [Hts Hvals]]]].
  rewrite Hpd.
  destruct (header_fields (d_header d) hdr0) as [F1 [F2 [F3 [F4 [F5 F6]]]]].
  rewrite <- Ehf in F1, F2, F3, F4, F5, F6.
  cbn [hdr0 h_raw h_scopes h_scope h_name2id h_width h_ids rev app] in F1, F2, F3, F4, F6.
  fold ds in F1, F3, F4, F6.
  eexists. split; [reflexivity|].
  cbn [tr_tid tr_index tr_lookup tr_virt tr_raw tr_scopes tr_ts tr_all_ts tr_max tr_data tr_widths].
  repeat split; try reflexivity; try assumption.
  - rewrite Hts. reflexivity.
  - intros name id Hin Hid. rewrite F1.
    rewrite (fold_left_ext _ (fun acc nm =>
       match (match alookup nm (h_name2id hf) with
              | Some id => match alookup id cols with Some col => Some (finish_col col) | None => None end
              | None => None end) with
       | Some v => aset nm v acc | None => acc end)).
    2: { intros a x. destruct (alookup x (h_name2id hf)) as [i|]; [|reflexivity].
         destruct (alookup i cols); reflexivity. }
    rewrite fold_aset_lookup. apply smem_In in Hin. rewrite Hin.
    unfold decl_id in Hid. rewrite F3.
    change (fun (acc : list (string * string)) (d0 : string * string * Z) => aset (d_name d0) (d_id d0) acc)
      with (fun (acc : list (string * string)) (d0 : string * string * Z) => aset (fst (fst d0)) (snd (fst d0)) acc).
    rewrite Hid.
    assert (Hmem : smem id (h_ids hf) = true).
    { apply name2id_in in Hid as [Hid|[d0 [Hd0 <-]]]; [discriminate|]. apply F6. exact Hd0. }
    specialize (Hvals id Hmem). destruct (alookup id cols) as [col|]; [|discriminate].
    cbn [option_map] in Hvals. exact Hvals.
  - intros name Hin. rewrite F1.
    rewrite (fold_left_ext _ (fun acc nm =>
       match (match alookup nm (h_name2id hf) with
              | Some id => alookup id (h_width hf)
              | None => None end) with
       | Some v => aset nm v acc | None => acc end)).
    2: { intros a x. destruct (alookup x (h_name2id hf)) as [i|]; reflexivity. }
    rewrite fold_aset_lookup. pose proof Hin as Hin'. apply smem_In in Hin. rewrite Hin.
    unfold decl_width, decl_id. rewrite F3, F4.
    change (fun (acc : list (string * string)) (d0 : string * string * Z) => aset (d_name d0) (d_id d0) acc)
      with (fun (acc : list (string * string)) (d0 : string * string * Z) => aset (fst (fst d0)) (snd (fst d0)) acc).
    change (fun (acc : list (string * Z)) (d0 : string * string * Z) => aset (d_id d0) (d_w d0) acc)
      with (fun (acc : list (string * Z)) (d0 : string * string * Z) => aset (snd (fst d0)) (snd d0) acc).
    destruct (alookup name (fold_left (fun acc d0 => aset (fst (fst d0)) (snd (fst d0)) acc) ds [])) as [id|]; [|reflexivity].
    destruct (alookup id (fold_left (fun acc d0 => aset (snd (fst d0)) (snd d0) acc) ds [])); reflexivity.
Qed.

(** the value texts become integers when purely binary, stay text otherwise
    (value_of_text); reading index i of the loaded trace *)
Theorem loaded_value_at : forall t name col i,
  tr_lookup t = None -> tr_virt t = [] -> smem name special_signals = false ->
  alookup name (tr_data t) = Some col -> 0 <= i <= tr_max t ->
  trace_signal_value 1 (set_index t i) name "" =
  match znth col i with Some bits => SVal (value_of_text bits) | None => SErr EOther end.
Proof.
  intros t name col i Hl Hv Hs Hd Hi. unfold trace_signal_value, access_data.
  cbn [set_index tr_index tr_max tr_virt tr_ts tr_raw tr_scopes tr_tid tr_file tr_data tr_lookup].
  assert (H1 : (0 <=? i) && (i <=? tr_max t) = true) by (apply andb_true_intro; split; lia).
  rewrite H1, Hs, Hv. cbn [amem alookup]. rewrite Hd, Hl. reflexivity.
Qed.
