(** StackIndep.v — expressions of the read-only fragment do not look at the stack of saved positions: pushing an
    entry onto it before evaluating gives the same outcome with the entry still on top (used for the composition
    law of @, C03). *)
From WalModel Require Import Eval.
From WalModel.proofs Require Import Balanced ReadOnly.
Local Open Scope Z_scope.

Section Push.
  Variable x : list (string * Z).
  Definition push (st : state) : state :=
    upd_cont st (mkCont (c_traces (st_cont st)) (c_ntraces (st_cont st)) (x :: c_stack (st_cont st))).

  Definition lift {A} (r : res A) : res A :=
    match r with Ok a s => Ok a (push s) | Er e s => Er e (push s) | Unm w => Unm w | Fuel => Fuel end.

  (** on states without virtual signals (as in ReadOnly.v) *)
  Definition eqv {A} (m : M A) : Prop := forall st, novirt st -> m (push st) = lift (m st).

  Lemma eqv_ret {A} (a : A) : eqv (ret a). Proof. intros st _. reflexivity. Qed.
  Lemma eqv_fail {A} e : eqv (@fail A e). Proof. intros st _. reflexivity. Qed.
  Lemma eqv_unm {A} w : eqv (@unm A w). Proof. intros st _. reflexivity. Qed.
  Lemma eqv_fuel {A} : eqv (fun _ : state => @Fuel A). Proof. intros st _. reflexivity. Qed.
  Lemma eqv_bind {A B} (m : M A) (k : A -> M B) : pure m -> eqv m -> (forall a, eqv (k a)) -> eqv (bind m k).
  Proof.
    intros Hp Hm Hk st Hn. unfold bind. rewrite (Hm st Hn). destruct (m st) as [a s| | |] eqn:E; cbn [lift]; try reflexivity.
    pose proof (Hp _ _ _ Hn E) as ->. apply Hk, Hn.
  Qed.
  (** reading the state: the continuation may use it only through what push leaves alone *)
  Lemma eqv_get {A} (K : state -> M A) : (forall s0, eqv (K s0)) -> (forall s0 s, K (push s0) s = K s0 s) -> eqv (bind get_st K).
  Proof. intros H1 H2 st Hn. unfold bind, get_st. rewrite H2. apply H1, Hn. Qed.
  Lemma eqv_assert b : eqv (assert b). Proof. unfold assert. destruct b; [apply eqv_ret|apply eqv_fail]. Qed.
  Lemma eqv_require b e : eqv (require b e). Proof. unfold require. destruct b; [apply eqv_ret|apply eqv_fail]. Qed.
  Lemma eqv_of_opt {A} (o : option A) e : eqv (of_opt o e). Proof. unfold of_opt. destruct o; [apply eqv_ret|apply eqv_fail]. Qed.
  Lemma eqv_mapM {A B} (f : A -> M B) l : Forall (fun a => pure (f a) /\ eqv (f a)) l -> eqv (mapM f l).
  Proof.
    induction 1 as [|a l [Hp Ha] Hl IH]; cbn [mapM]; [apply eqv_ret|].
    apply eqv_bind; [exact Hp|exact Ha|intros y]. apply eqv_bind; [|exact IH|intros ys; apply eqv_ret].
    apply pure_mapM. apply Forall_forall. intros z Hz. rewrite Forall_forall in Hl. apply (Hl z Hz).
  Qed.
  Lemma find_frame_push n : forall st id name, find_frame n (push st) id name = find_frame n st id name.
  Proof.
    induction n as [|n IH]; intros st id name; [reflexivity|]. cbn [find_frame].
    change (get_frame (push st) id) with (get_frame st id). destruct (get_frame st id) as [f|]; [|reflexivity].
    destruct (amem name (f_binds f)); [reflexivity|]. destruct (f_parent f); [apply IH|reflexivity].
  Qed.
  Lemma lookup_frame_push st id name : lookup_frame (push st) id name = lookup_frame st id name.
  Proof. unfold lookup_frame. change (st_frames (push st)) with (st_frames st). apply find_frame_push. Qed.
  Lemma hop_push n : forall st id, hop (push st) id n = hop st id n.
  Proof.
    induction n as [|n IH]; intros st id; [reflexivity|]. cbn [hop]. change (get_frame (push st) id) with (get_frame st id).
    destruct (get_frame st id) as [f|]; [|reflexivity]. destruct (f_parent f); [apply IH|reflexivity].
  Qed.
  Lemma eqv_env_read id n : eqv (env_read id n).
  Proof.
    intros st _. unfold env_read. rewrite lookup_frame_push.
    destruct (lookup_frame st id n); [|reflexivity]. change (get_frame (push st) n0) with (get_frame st n0).
    destruct (get_frame st n0); [|reflexivity]. destruct (alookup n (f_binds f)); reflexivity.
  Qed.
  Hint Resolve eqv_ret eqv_fail eqv_unm eqv_fuel eqv_assert eqv_require eqv_of_opt eqv_env_read : eqvb.

  Ltac eqv_step :=
    lazymatch goal with
    | |- eqv (bind get_st _) => apply eqv_get; [intros ?|intros ? ?; reflexivity]
    | |- eqv (bind _ _) => apply eqv_bind; [solve [auto with pureb] | |intros ?]
    | |- eqv (match ?x with _ => _ end) => destruct x
    | |- eqv (if ?b then _ else _) => destruct b
    | |- eqv (let '(_, _) := ?x in _) => destruct x
    | |- eqv _ => solve [auto with eqvb]
    end.
  Ltac solve_eqv := repeat eqv_step.

  Section WithEv.
    Variable ev : val -> M val.
    Definition both (a : val) : Prop := pure (ev a) /\ eqv (ev a).
    Lemma both_pure args : Forall both args -> Forall (fun a => pure (ev a)) args.
    Proof. intros H. apply Forall_forall. intros a Ha. rewrite Forall_forall in H. apply (H a Ha). Qed.
    Lemma eqv_eval_args args : Forall both args -> eqv (eval_args ev args).
    Proof. unfold eval_args. apply eqv_mapM. Qed.
    Lemma eqv_last_or l : eqv (last_or_index_error l). Proof. unfold last_or_index_error. solve_eqv. Qed.
    Lemma eqv_contains_m n : eqv (contains_m n). Proof. unfold contains_m. solve_eqv. Qed.
    Hint Resolve eqv_eval_args eqv_last_or eqv_contains_m : eqvb.
    Hint Resolve pure_eval_args pure_last_or pure_arg0 pure_contains_m pure_signal_value_m pure_py_str pure_py_sum : pureb.

    Lemma eqv_signal_value_m name scope : eqv (signal_value_m ev name scope).
    Proof.
      intros st Hn. unfold signal_value_m, bind, get_st.
      change (cont_signal_value (st_cont (push st)) name scope) with (cont_signal_value (st_cont st) name scope).
      destruct (cont_signal_value (st_cont st) name scope) as [r t] eqn:E.
      destruct r as [v|n|e|]; try reflexivity. exfalso. apply (no_virtual_read st name scope Hn n t E).
    Qed.
    Hint Resolve eqv_signal_value_m : eqvb.

    Lemma eqv_eval_symbol n s : eqv (eval_symbol ev n s).
    Proof.
      unfold eval_symbol. apply eqv_get; [intros s0|].
      - destruct s as [k|].
        + destruct (hop s0 (st_cur s0) k); solve_eqv.
        + solve_eqv.
      - intros s0 s1. change (st_aliases (push s0)) with (st_aliases s0). change (st_cur (push s0)) with (st_cur s0).
        change (st_scope (push s0)) with (st_scope s0). destruct s as [k|]; [rewrite hop_push|]; reflexivity.
    Qed.

    Lemma eqv_py_str v : eqv (py_str v). Proof. unfold py_str. solve_eqv. Qed.
    Lemma eqv_py_sum vs : eqv (py_sum vs). Proof. unfold py_sum. solve_eqv. Qed.
    Hint Resolve eqv_py_str eqv_py_sum : eqvb.
    Lemma eqv_mapM_all {A B} (f : A -> M B) l : (forall a, pure (f a)) -> (forall a, eqv (f a)) -> eqv (mapM f l).
    Proof. intros H1 H2. apply eqv_mapM. apply Forall_forall. intros a _. split; [apply H1|apply H2]. Qed.

    Section Args.
      Variable args : list val.
      Hypothesis Hargs : Forall both args.
      Lemma Hpure_args : Forall (fun a => pure (ev a)) args. Proof. apply both_pure, Hargs. Qed.
      Lemma pure_ea' : pure (eval_args ev args). Proof. apply pure_eval_args, Hpure_args. Qed.
      Lemma eqv_ea : eqv (eval_args ev args). Proof. apply eqv_eval_args, Hargs. Qed.
      Hint Resolve pure_ea' eqv_ea : pureb eqvb.

      Lemma eqv_op_not : eqv (op_not ev args). Proof. unfold op_not. solve_eqv. Qed.
      Lemma eqv_op_eq neg : eqv (op_eq ev neg args). Proof. unfold op_eq. solve_eqv. Qed.
      Lemma eqv_op_cmp t : eqv (op_cmp ev t args). Proof. unfold op_cmp. solve_eqv. Qed.
      Lemma eqv_op_add : eqv (op_add ev args).
      Proof. unfold op_add. apply eqv_bind; [apply pure_ea'|apply eqv_ea|intros vs].
        destruct (existsb is_list_val vs); [apply eqv_ret|]. destruct (existsb is_str_val vs); [|apply eqv_py_sum].
        apply eqv_bind; [apply pure_mapM_all; intros; apply pure_py_str|apply eqv_mapM_all; intros; [apply pure_py_str|apply eqv_py_str]|intros; apply eqv_ret].
      Qed.
      Lemma eqv_op_sub : eqv (op_sub ev args). Proof. unfold op_sub. solve_eqv. Qed.
      Lemma eqv_op_mul : eqv (op_mul ev args). Proof. unfold op_mul. solve_eqv. Qed.
      Lemma eqv_op_div : eqv (op_div ev args). Proof. unfold op_div. solve_eqv. Qed.
      Lemma eqv_op_exp : eqv (op_exp ev args). Proof. unfold op_exp. solve_eqv. Qed.
      Lemma eqv_op_mod : eqv (op_mod ev args). Proof. unfold op_mod. solve_eqv. Qed.
      Lemma eqv_op_bitwise f : eqv (op_bitwise ev f args). Proof. unfold op_bitwise. solve_eqv. Qed.
      Lemma eqv_op_slice : eqv (op_slice ev args). Proof. unfold op_slice. solve_eqv. Qed.
      Lemma eqv_op_do : eqv (op_do ev args).
      Proof.
        unfold op_do. pose proof pure_ea' as P. pose proof eqv_ea as Q. destruct args as [|a r]; [apply eqv_ret|].
        apply eqv_bind; [exact P|exact Q|intros; apply eqv_last_or].
      Qed.
    End Args.

    Lemma eqv_and_loop args : Forall both args -> eqv (and_loop ev args).
    Proof.
      induction 1 as [|a r [Pa Ea] Hr IH]; cbn [and_loop]; [apply eqv_ret|].
      apply eqv_bind; [exact Pa|exact Ea|intros v]. apply eqv_get; [intros s0|intros s0 s1; reflexivity].
      destruct (truthy s0 v); [exact IH|apply eqv_ret].
    Qed.
    Lemma eqv_or_loop args : Forall both args -> eqv (or_loop ev args).
    Proof.
      induction 1 as [|a r [Pa Ea] Hr IH]; cbn [or_loop]; [apply eqv_ret|].
      apply eqv_bind; [exact Pa|exact Ea|intros v]. apply eqv_get; [intros s0|intros s0 s1; reflexivity].
      destruct (truthy s0 v); [apply eqv_ret|exact IH].
    Qed.
    Lemma eqv_op_and args : Forall both args -> eqv (op_and ev args).
    Proof. intros H. unfold op_and. apply eqv_bind; [apply pure_assert|apply eqv_assert|intros _; apply eqv_and_loop, H]. Qed.
    Lemma eqv_op_or args : Forall both args -> eqv (op_or ev args).
    Proof. intros H. unfold op_or. apply eqv_bind; [apply pure_assert|apply eqv_assert|intros _; apply eqv_or_loop, H]. Qed.
    Lemma eqv_op_if args : Forall both args -> eqv (op_if ev args).
    Proof.
      intros H. unfold op_if. apply eqv_bind; [apply pure_assert|apply eqv_assert|intros _].
      destruct args as [|c [|t r]]; try apply eqv_fail.
      inversion H as [|? ? [Pc Ec] H1]; subst. inversion H1 as [|? ? [Pt Et] Hr]; subst.
      apply eqv_bind; [exact Pc|exact Ec|intros v]. apply eqv_get; [intros s0|intros s0 s1; reflexivity].
      destruct (truthy s0 v); [exact Et|]. destruct r as [|e [|? ?]]; try apply eqv_ret.
      inversion Hr as [|? ? [Pe Ee] _]; subst. exact Ee.
    Qed.
  End WithEv.

  (** the whole read-only fragment, real evaluator, any fuel *)
  Theorem ro_stack_independent lf f : forall e, is_ro e = true -> eqv (eval lf f e).
  Proof.
    induction f as [|f IH]; intros e Hro; [apply eqv_fuel|].
    change (eval lf (S f) e) with (eval_body lf (fun e' => eval lf f e') (fun e' p => expand lf f e' p) e).
    destruct e as [| | | | | | |w l| | | | |]; try discriminate; try apply eqv_ret.
    - apply eqv_eval_symbol.
    - destruct l as [|h args]; [discriminate|]. destruct h as [| | | | | |o| | | | | |]; try discriminate.
      cbn [is_ro] in Hro. apply andb_prop in Hro as [Ho Ha].
      assert (HF : Forall (both (eval lf f)) args).
      { apply Forall_forall. intros a Hin. rewrite forallb_forall in Ha. split; [apply ro_pure, Ha, Hin|apply IH, Ha, Hin]. }
      cbn [eval_body]. destruct o; try discriminate; unfold dispatch;
        first [ apply eqv_op_not | apply eqv_op_eq | apply eqv_op_cmp | apply eqv_op_and | apply eqv_op_or
              | apply eqv_op_if | apply eqv_op_do | apply eqv_op_add | apply eqv_op_sub | apply eqv_op_mul
              | apply eqv_op_div | apply eqv_op_exp | apply eqv_op_mod | apply eqv_op_bitwise | apply eqv_op_slice ];
        exact HF.
  Qed.
End Push.
