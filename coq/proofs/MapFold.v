(** MapFold.v — map and fold as sequence operations (C14): elements are visited once each, left to right, results
    are kept in element order, the accumulator is threaded; the effects of the applications on the interpreter
    state are composed in that order.  For any sub-evaluator. *)
From WalModel Require Import Eval.
Local Open Scope Z_scope.

Section Seq.
  Variable ev : val -> M val.

  (** mapM of applications with known value [g el] and known effect [h el] *)
  Lemma mapM_known {A B} (Q : A -> Prop) (app : A -> M B) (g : A -> B) (h : A -> state -> state) :
    (forall el s, Q el -> app el s = Ok (g el) (h el s)) ->
    forall items s, Forall Q items -> mapM app items s = Ok (map g items) (fold_left (fun s el => h el s) items s).
  Proof.
    intros Happ. induction items as [|el r IH]; intros s HQ; [reflexivity|]. inversion HQ as [|? ? Hel Hr]; subst.
    cbn [mapM map fold_left]. unfold bind. rewrite (Happ el s Hel), (IH _ Hr). reflexivity.
  Qed.

  (** * (map op l) and (map f l) *)
  Theorem map_operator (Q : val -> Prop) o l w items (g : val -> val) (h : val -> state -> state) st st1 :
    ev l st = Ok (VList w items) st1 -> Forall Q items ->
    (forall el s, Q el -> ev (WL [VOp o; quoted el]) s = Ok (g el) (h el s)) ->
    op_map ev [VOp o; l] st = Ok (PL (map g items)) (fold_left (fun s el => h el s) items st1).
  Proof.
    intros Hl HQ Happ. unfold op_map. cbn [List.length Nat.eqb assert]. unfold bind at 1. cbn [ret].
    unfold bind at 1. rewrite Hl. unfold bind.
    rewrite (mapM_known Q (fun el => ev (WL [VOp o; quoted el])) g h Happ items st1 HQ). reflexivity.
  Qed.

  Theorem map_function (Q : val -> Prop) f l w items cenv ps body nm (g : val -> val) (h : val -> state -> state) st st1 st2 :
    (forall o, f <> VOp o) ->
    ev l st = Ok (VList w items) st1 -> Forall Q items ->
    ev f st1 = Ok (VClos cenv ps body nm) st2 ->
    (forall el s, Q el -> eval_closure ev (VClos cenv ps body nm) [quoted_pl el] s = Ok (g el) (h el s)) ->
    op_map ev [f; l] st = Ok (PL (map g items)) (fold_left (fun s el => h el s) items st2).
  Proof.
    intros Hf Hl HQ Hfv Happ. unfold op_map. cbn [List.length Nat.eqb assert]. unfold bind at 1. cbn [ret].
    unfold bind at 1. rewrite Hl.
    destruct f; try (exfalso; eapply Hf; reflexivity);
      unfold bind at 1; rewrite Hfv; unfold bind;
      rewrite (mapM_known Q (fun el => eval_closure ev (VClos cenv ps body nm) [quoted_pl el]) g h Happ items st2 HQ); reflexivity.
  Qed.

  (** * (fold op acc l) and (fold f acc l): a left fold *)
  Definition fold_state (h : val -> val -> state -> state) (g : val -> val -> val) (items : list val) (acc : val) (s : state)
    : val * state :=
    fold_left (fun p el => (g (fst p) el, h (fst p) el (snd p))) items (acc, s).

  Lemma fold_go_known (P Q : val -> Prop) (app : val -> val -> M val) (g : val -> val -> val) (h : val -> val -> state -> state) :
    (forall acc el, P acc -> Q el -> P (g acc el)) ->
    (forall acc el s, P acc -> Q el -> app acc el s = Ok (g acc el) (h acc el s)) ->
    forall items acc s, P acc -> Forall Q items ->
      (fix go (l : list val) (acc : val) : M val :=
         match l with
         | [] => ret acc
         | el :: r => acc' <- app acc el ;; go r acc'
         end) items acc s
      = Ok (fst (fold_state h g items acc s)) (snd (fold_state h g items acc s)).
  Proof.
    intros Hclosed Happ. induction items as [|el r IH]; intros acc s HP HQ; [reflexivity|].
    inversion HQ as [|? ? Hel Hr]; subst.
    unfold bind. rewrite (Happ acc el s HP Hel). rewrite (IH _ _ (Hclosed _ _ HP Hel) Hr). reflexivity.
  Qed.

  Lemma fold_state_value h g items : forall acc s, fst (fold_state h g items acc s) = fold_left g items acc.
  Proof. unfold fold_state. induction items as [|el r IH]; intros acc s; [reflexivity|]. cbn [fold_left fst snd]. apply IH. Qed.

  Theorem fold_operator (P Q : val -> Prop) o a l acc0 w items g h st st1 st2 :
    ev a st = Ok acc0 st1 -> P acc0 ->
    ev l st1 = Ok (VList w items) st2 -> Forall Q items ->
    (forall acc el, P acc -> Q el -> P (g acc el)) ->
    (forall acc el s, P acc -> Q el -> ev (WL [VOp o; quoted acc; quoted el]) s = Ok (g acc el) (h acc el s)) ->
    exists st3, op_fold ev [VOp o; a; l] st = Ok (fold_left g items acc0) st3 /\ st3 = snd (fold_state h g items acc0 st2).
  Proof.
    intros Ha HP Hl HQ Hcl Happ. eexists. split; [|reflexivity].
    unfold op_fold. cbn [List.length Nat.eqb assert]. unfold bind at 1. cbn [ret].
    unfold bind at 1. rewrite Ha. unfold bind at 1. rewrite Hl.
    rewrite (fold_go_known P Q (fun acc el => ev (WL [VOp o; quoted acc; quoted el])) g h Hcl Happ items acc0 st2 HP HQ).
    rewrite fold_state_value. reflexivity.
  Qed.

  Theorem fold_function (P Q : val -> Prop) f a l acc0 w items cenv ps body nm g h st st1 st2 st3 :
    (forall o, f <> VOp o) ->
    ev a st = Ok acc0 st1 -> P acc0 ->
    ev l st1 = Ok (VList w items) st2 -> Forall Q items ->
    ev f st2 = Ok (VClos cenv ps body nm) st3 ->
    (forall acc el, P acc -> Q el -> P (g acc el)) ->
    (forall acc el s, P acc -> Q el -> eval_closure ev (VClos cenv ps body nm) [quoted acc; quoted el] s = Ok (g acc el) (h acc el s)) ->
    exists st4, op_fold ev [f; a; l] st = Ok (fold_left g items acc0) st4 /\ st4 = snd (fold_state h g items acc0 st3).
  Proof.
    intros Hf Ha HP Hl HQ Hfv Hcl Happ. eexists. split; [|reflexivity].
    unfold op_fold. cbn [List.length Nat.eqb assert]. unfold bind at 1. cbn [ret].
    unfold bind at 1. rewrite Ha. unfold bind at 1. rewrite Hl.
    destruct f; try (exfalso; eapply Hf; reflexivity);
      unfold bind at 1; rewrite Hfv;
      rewrite (fold_go_known P Q (fun acc el => eval_closure ev (VClos cenv ps body nm) [quoted acc; quoted el]) g h Hcl Happ items acc0 st3 HP HQ);
      rewrite fold_state_value; reflexivity.
  Qed.

  (** pure applications: the state after map/fold is the state after evaluating the operands *)
  Lemma fold_left_id {A} (items : list A) (s : state) : fold_left (fun s _ => s) items s = s.
  Proof. induction items as [|x r IH]; [reflexivity|exact IH]. Qed.
  Lemma fold_state_pure g items : forall acc s, snd (fold_state (fun _ _ s => s) g items acc s) = s.
  Proof. unfold fold_state. induction items as [|el r IH]; intros acc s; [reflexivity|]. cbn [fold_left fst snd]. apply IH. Qed.
End Seq.

(** * with the real evaluator: (fold + a l) over integers is the sum, (map - l)... the operands' state is the final state *)
Definition is_int (v : val) : Prop := exists z, v = VInt z.
Definition int_val (v : val) : Z := match v with VInt z => z | _ => 0 end.

Lemma add_step lf f a b s : eval lf (S (S (S f))) (WL [VOp OAdd; quoted (VInt a); quoted (VInt b)]) s = Ok (VInt (a + b)) s.
Proof. vm_compute. reflexivity. Qed.
Lemma mul_step lf f a b s : eval lf (S (S (S f))) (WL [VOp OMul; quoted (VInt a); quoted (VInt b)]) s = Ok (VInt (a * b)) s.
Proof. vm_compute. reflexivity. Qed.

Lemma fold_left_ints (op : Z -> Z -> Z) zs : forall a,
  fold_left (fun acc el => VInt (op (int_val acc) (int_val el))) (map VInt zs) (VInt a) = VInt (fold_left op zs a).
Proof. induction zs as [|z zs IH]; intros a; [reflexivity|]. cbn [map fold_left int_val]. apply IH. Qed.

Theorem fold_plus_is_the_sum lf f a l a0 w zs st st1 st2 :
  eval lf (S (S (S f))) a st = Ok (VInt a0) st1 ->
  eval lf (S (S (S f))) l st1 = Ok (VList w (map VInt zs)) st2 ->
  op_fold (eval lf (S (S (S f)))) [VOp OAdd; a; l] st = Ok (VInt (fold_left Z.add zs a0)) st2.
Proof.
  intros Ha Hl.
  destruct (fold_operator (eval lf (S (S (S f)))) is_int is_int OAdd a l (VInt a0) w (map VInt zs)
              (fun acc el => VInt (int_val acc + int_val el)) (fun _ _ s => s) st st1 st2 Ha) as (st3 & E & Est); eauto.
  - exists a0. reflexivity.
  - apply Forall_forall. intros x Hx. apply in_map_iff in Hx as (z & <- & _). exists z. reflexivity.
  - intros acc el _ _. eexists. reflexivity.
  - intros acc el s [x ->] [y ->]. apply add_step.
  - rewrite E, Est, fold_state_pure, fold_left_ints. reflexivity.
Qed.

Theorem fold_times_is_the_product lf f a l a0 w zs st st1 st2 :
  eval lf (S (S (S f))) a st = Ok (VInt a0) st1 ->
  eval lf (S (S (S f))) l st1 = Ok (VList w (map VInt zs)) st2 ->
  op_fold (eval lf (S (S (S f)))) [VOp OMul; a; l] st = Ok (VInt (fold_left Z.mul zs a0)) st2.
Proof.
  intros Ha Hl.
  destruct (fold_operator (eval lf (S (S (S f)))) is_int is_int OMul a l (VInt a0) w (map VInt zs)
              (fun acc el => VInt (int_val acc * int_val el)) (fun _ _ s => s) st st1 st2 Ha) as (st3 & E & Est); eauto.
  - exists a0. reflexivity.
  - apply Forall_forall. intros x Hx. apply in_map_iff in Hx as (z & <- & _). exists z. reflexivity.
  - intros acc el _ _. eexists. reflexivity.
  - intros acc el s [x ->] [y ->]. apply mul_step.
  - rewrite E, Est, fold_state_pure, fold_left_ints. reflexivity.
Qed.
