(** MacroProofs.v — the standard-library macros equal their defining equations for all
    operands (C15).  The macro definitions are the terms of Generated.v, regenerated from
    wal/libs/std/std.wal on every run: an edit to std.wal re-opens these obligations.
    Each equation is obtained by running the evaluator model on the macro body with the
    operands left as variables (vm_compute on open terms): the result is the expansion
    template instantiated with the operands, before the recursive re-expansion of the result. *)
From WalModel Require Import Cases.
Local Open Scope Z_scope.

(** the macro [name] as the interpreter holds it after loading the library *)
Definition macro_of (name : string) : option (val * val) :=
  match get_frame init_state 0 with
  | Some f => match alookup name (f_binds f) with Some (VMacro _ p b) => Some (p, b) | _ => None end
  | None => None
  end.

(** the frame expand creates for a macro call: parameters bound to the unevaluated operands *)
Definition frame_for (p : val) (args : list val) : list (string * val) :=
  match p with
  | VSym n _ => [(n, VList true args)]
  | VList _ ps => combine (flat_map (fun x => match x with VSym n _ => [n] | _ => [] end) ps) args
  | _ => []
  end.

(** what the macro body evaluates to in that frame: the expansion of (name args...) *)
Definition template (name : string) (args : list val) : option val :=
  match macro_of name with
  | Some (p, body) =>
      let st := upd_cur (upd_frames init_state (st_frames init_state +++ [mkFrame (frame_for p args) (Some O)]))
                        (List.length (st_frames init_state)) in
      match eval LF FUEL body st with Ok v _ => Some v | _ => None end
  | None => None
  end.

(** the k-th temporary a macro call creates (gensym): a name no reader-produced symbol can have *)
Definition tmp (k : Z) : val := VSym ("$" ++ dec_of_Z (st_gensym init_state + k)) (Some O).

Ltac by_evaluation := intros; vm_compute; reflexivity.

Theorem when_eq : forall c b1 b2, template "when" [c; b1; b2] = Some (WL [VOp OIf; c; WL [VOp ODo; b1; b2]]).
Proof. by_evaluation. Qed.
Theorem when_eq1 : forall c b, template "when" [c; b] = Some (WL [VOp OIf; c; WL [VOp ODo; b]]).
Proof. by_evaluation. Qed.
Theorem unless_eq : forall c b1 b2, template "unless" [c; b1; b2] = Some (WL [VOp OIf; WL [VOp ONot; c]; WL [VOp ODo; b1; b2]]).
Proof. by_evaluation. Qed.
Theorem for_list_eq : forall x l b1 b2,
  template "for/list" [WL [x; l]; b1; b2] = Some (WL [VOp OMap; WL [VOp OFn; WL [x]; WL [VOp ODo; b1; b2]]; l]).
Proof. by_evaluation. Qed.
Theorem for_eq : forall x l b,
  template "for" [WL [x; l]; b] =
  Some (WL [VOp OLet; WL [WL [tmp 1; WL [VOp OMap; WL [VOp OFn; WL [x]; WL [VOp ODo; b]]; l]]];
            WL [VOp OIf; tmp 1; WL [VOp OLast; tmp 1]; WL [VOp OQuote; WL []]]]).
Proof. by_evaluation. Qed.
Theorem dowhile_eq : forall b1 b2 c, template "dowhile" [b1; b2; c] = Some (WL [VOp ODo; b1; b2; WL [VOp OWhile; c; b1; b2]]).
Proof. by_evaluation. Qed.
Theorem until_eq : forall c b1 b2, template "until" [c; b1; b2] = Some (WL [VOp OWhile; WL [VOp ONot; c]; b1; b2]).
Proof. by_evaluation. Qed.
Theorem set_bang_eq : forall k v, template "set!" [k; v] = Some (WL [VOp OSet; WL [k; v]]).
Proof. by_evaluation. Qed.
Theorem defun_eq : forall f ps b1 b2, template "defun" [f; ps; b1; b2] = Some (WL [VOp ODefine; f; WL [VOp OFn; ps; f; b1; b2]]).
Proof. by_evaluation. Qed.
Theorem car_eq : forall l, template "car" [l] = Some (WL [VOp OFirst; l]).
Proof. by_evaluation. Qed.
Theorem cdr_eq : forall l, template "cdr" [l] = Some (WL [VOp ORest; l]).
Proof. by_evaluation. Qed.
Theorem cadr_eq : forall l, template "cadr" [l] = Some (WL [Sy "car"; WL [Sy "cdr"; l]]).
Proof. by_evaluation. Qed.
Theorem inc_eq : forall n s m s', template "inc" [VSym n s; VSym m s'] =
  Some (WL [VOp OSet; WL [VSym n s; WL [VOp OAdd; VSym n s; VInt 1]]; WL [VSym m s'; WL [VOp OAdd; VSym m s'; VInt 1]]]).
Proof. by_evaluation. Qed.
Theorem dec_eq : forall n s, template "dec" [VSym n s] =
  Some (WL [VOp OSet; WL [VSym n s; WL [VOp OIf; WL [VOp ODefinedP; WL [VOp OQuote; VSym n s]]; WL [VOp OSub; VSym n s; VInt 1]; VInt (-1)]]]).
Proof. by_evaluation. Qed.

(** temporal forms: current versus next index *)
Theorem rising_eq : forall e, template "rising" [e] =
  Some (WL [VOp OAnd; WL [VOp OEq; e; VInt 0]; WL [VOp OEq; WL [VOp OReval; e; VInt 1]; VInt 1]]).
Proof. by_evaluation. Qed.
Theorem falling_eq : forall e, template "falling" [e] =
  Some (WL [VOp OAnd; WL [VOp OEq; e; VInt 1]; WL [VOp OEq; WL [VOp OReval; e; VInt 1]; VInt 0]]).
Proof. by_evaluation. Qed.
Theorem stable_eq : forall e, template "stable" [e] = Some (WL [VOp OEq; e; WL [VOp OReval; e; VInt 1]]).
Proof. by_evaluation. Qed.
Theorem unstable_eq : forall e, template "unstable" [e] = Some (WL [VOp ONeq; e; WL [VOp OReval; e; VInt 1]]).
Proof. by_evaluation. Qed.
Theorem always_eq : forall b1 b2, template "always" [b1; b2] = Some (WL [VOp OWhenever; VBool true; b1; b2]).
Proof. by_evaluation. Qed.
Theorem count_eq : forall c, template "count" [c] = Some (WL [VOp OLength; WL [VOp OFind; c]]).
Proof. by_evaluation. Qed.
Theorem signed_eq : forall s, template "signed" [s] =
  Some (WL [VOp OBitsToSint; WL [VOp OConvertBin; s; WL [VOp OSignalWidth; WL [VOp OQuote; s]]]]).
Proof. by_evaluation. Qed.
Theorem step_until_eq : forall c, template "step-until" [c] =
  Some (WL [VOp OWhile; WL [VOp OAnd; WL [VOp ONot; c]; WL [VOp OStep]]; Sy "INDEX"]).
Proof. by_evaluation. Qed.
Theorem step_while_eq : forall c, template "step-while" [c] =
  Some (WL [VOp OWhile; WL [VOp OAnd; c; WL [VOp OStep]]; Sy "INDEX"]).
Proof. by_evaluation. Qed.
Theorem sum_eq : forall l, template "sum" [l] = Some (WL [VOp OFold; VOp OAdd; VInt 0; l]).
Proof. by_evaluation. Qed.

(** timeframe: the body's value is kept in a temporary, every trace is stepped back to its saved index *)
Theorem timeframe_eq : forall b1 b2, template "timeframe" [b1; b2] =
  Some (WL [VOp OLet; WL [WL [tmp 1; WL [Sy "ALL-INDICES"]]; WL [tmp 2; WL [VOp ODo; b1; b2]]];
            WL [Sy "for"; WL [Sy "trace"; tmp 1];
                WL [VOp OInGroup; WL [VOp OFirst; Sy "trace"];
                    WL [VOp OStep; WL [VOp OSub; WL [VOp OSecond; Sy "trace"]; Sy "INDEX"]]]];
            tmp 2]).
Proof. by_evaluation. Qed.

Theorem append_eq : forall xs x, template "append" [xs; x] =
  Some (WL [VOp OAdd; xs; WL [VOp OLet; WL [WL [tmp 1; x]];
                              WL [VOp OIf; WL [VOp OListP; tmp 1]; WL [VOp OList; tmp 1]; tmp 1]]]).
Proof. by_evaluation. Qed.

Theorem partition_eq : forall p xs, template "partition" [p; xs] =
  Some (WL [VOp OFold;
            WL [VOp OFn; WL [tmp 1; tmp 2];
                WL [VOp OIf; WL [p; tmp 2];
                    WL [VOp OList; WL [Sy "append"; WL [VOp OSlice; tmp 1; VInt 0]; tmp 2]; WL [VOp OSlice; tmp 1; VInt 1]];
                    WL [VOp OList; WL [VOp OSlice; tmp 1; VInt 0]; WL [Sy "append"; WL [VOp OSlice; tmp 1; VInt 1]; tmp 2]]]];
            WL [VOp OQuote; WL [WL []; WL []]]; xs]).
Proof. by_evaluation. Qed.

(** cond: first true clause only (nested ifs).  The macro compares each clause head with the
    symbol else, so the clause conditions must be closed for the evaluation to go through:
    stated for representative conditions and arbitrary bodies. *)
Theorem cond_eq : forall b1 b2 b3 b4,
  template "cond" [WL [WL [VOp OGt; Sy "x"; VInt 2]; b1; b2]; WL [VInt 0; b3]; WL [Sy "else"; b4]] =
  Some (WL [VOp OIf; WL [VOp OGt; Sy "x"; VInt 2]; WL [VOp ODo; b1; b2];
            WL [VOp OIf; VInt 0; WL [VOp ODo; b3]; WL [VOp OIf; VBool true; WL [VOp ODo; b4]]]]).
Proof. by_evaluation. Qed.
Theorem cond_eq_no_else : forall b1 b2,
  template "cond" [WL [VBool false; b1]; WL [Sy "ready"; b2]] =
  Some (WL [VOp OIf; VBool false; WL [VOp ODo; b1]; WL [VOp OIf; Sy "ready"; WL [VOp ODo; b2]]]).
Proof. by_evaluation. Qed.

(** * hygiene *)
(** every temporary is a gensym name: it starts with "$" ... *)
Lemma tmp_name k : exists rest, tmp k = VSym (String "$"%char rest) (Some O).
Proof. eexists. reflexivity. Qed.

(** ... and no symbol the reader produces starts with "$" *)
Lemma reader_symbol_first_char c r : is_sym_first c = true -> String c r <> String "$"%char r.
Proof. intros H E. injection E as ->. discriminate. Qed.

(** gensym names of one interpreter run are pairwise distinct: the counter only increases *)
Lemma gensym_increases args st v st' : op_gensym args st = Ok v st' -> st_gensym st' = st_gensym st + 1.
Proof. unfold op_gensym, bind, get_st, modify, ret. intros H. injection H as _ <-. reflexivity. Qed.
