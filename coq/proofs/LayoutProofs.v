(** LayoutProofs.v — white-space layout does not change what is read: any amount of white space after an opening
    bracket, between the elements of a list and before the closing bracket (C10d), for the expression class of
    RoundTrip.v. *)
From WalModel Require Import Reader Printer.
From WalModel.proofs Require Import ArithProofs CsvProofs ReaderProofs RoundTrip.
Local Open Scope string_scope.
Local Open Scope Z_scope.

Definition wsp (s : string) : Prop := sall is_ws s = true.

(** a gap between tokens: white space and ;-comments, each comment running to a line break *)
Definition comment_char (c : ascii) : bool := negb (is_nl c) && plain_char c.
Inductive gap : string -> Prop :=
  | g_nil : gap ""
  | g_ws c w : is_ws c = true -> gap w -> gap (String c w)
  | g_comment body n w : sall comment_char body = true -> is_nl n = true -> gap w ->
      gap (String ";"%char (body ++ String n w)).
(** a gap that separates: empty or starting with white space (a ';' directly after a symbol is not covered) *)
Definition wgap (g : string) : Prop := gap g /\ match g with EmptyString => True | String c _ => is_ws c = true end.

Lemma wsp_gap ws : wsp ws -> gap ws.
Proof.
  unfold wsp. induction ws as [|c w IH]; intros H; [constructor|]. cbn [sall] in H. apply andb_prop in H as [Hc Hw].
  constructor; [exact Hc|apply IH, Hw].
Qed.
Lemma wsp_wgap ws : wsp ws -> wgap ws.
Proof.
  intros H. split; [apply wsp_gap, H|]. destruct ws as [|c w]; [exact I|]. unfold wsp in H. cbn [sall] in H.
  apply andb_prop in H as [Hc _]. exact Hc.
Qed.

Lemma skip_line_comment body n r : sall comment_char body = true -> is_nl n = true ->
  skip_line (body ++ String n r) = String n r.
Proof.
  induction body as [|c b IH]; intros Hb Hn; cbn [append skip_line]; [rewrite Hn; reflexivity|].
  cbn [sall] in Hb. apply andb_prop in Hb as [Hc Hb]. unfold comment_char in Hc. apply andb_prop in Hc as [Hc _].
  destruct (is_nl c); [discriminate|]. apply IH; assumption.
Qed.
Lemma skip_line_open body : sall comment_char body = true -> skip_line body = "".
Proof.
  induction body as [|c b IH]; intros Hb; [reflexivity|]. cbn [sall] in Hb. apply andb_prop in Hb as [Hc Hb].
  unfold comment_char in Hc. apply andb_prop in Hc as [Hc _]. cbn [skip_line]. destruct (is_nl c); [discriminate|]. apply IH, Hb.
Qed.
Lemma nl_is_ws n : is_nl n = true -> is_ws n = true.
Proof. unfold is_nl, is_ws. intros H. rewrite H. rewrite !orb_true_r. reflexivity. Qed.
Lemma semicolon_not_ws : is_ws ";"%char = false. Proof. reflexivity. Qed.

(** skipping a gap costs at most one unit of fuel per character *)
Lemma skip_inter_gap g : gap g -> forall k n s, (String.length g + k <= n)%nat ->
  exists m, (k <= m)%nat /\ skip_inter n (g ++ s) = skip_inter m s.
Proof.
  induction 1 as [|c w Hc Hw IH|body nlc w Hb Hn Hw IH]; intros k n s Hlen.
  - exists n. split; [cbn in Hlen; lia|reflexivity].
  - cbn [String.length] in Hlen. destruct n as [|n]; [lia|]. cbn [append skip_inter]. rewrite Hc.
    apply IH. lia.
  - cbn [String.length] in Hlen. rewrite length_append in Hlen. cbn [String.length] in Hlen.
    destruct n as [|n]; [lia|]. cbn [append skip_inter]. rewrite semicolon_not_ws. change (aZ ";"%char =? 59) with true. cbn iota.
    rewrite sappend_assoc. cbn [append]. rewrite (skip_line_comment body nlc (w ++ s) Hb Hn).
    destruct n as [|n]; [lia|]. cbn [skip_inter]. rewrite (nl_is_ws nlc Hn). apply IH. lia.
Qed.

Lemma skip_inter_wsp : forall ws s fuel, wsp ws -> skip_inter (String.length ws + fuel) (ws ++ s) = skip_inter fuel s.
Proof.
  induction ws as [|c ws IH]; intros s fuel H; [reflexivity|]. unfold wsp in H. cbn [sall] in H. apply andb_prop in H as [Hc Hw].
  cbn [String.length Nat.add append skip_inter]. rewrite Hc. apply IH. exact Hw.
Qed.

(** a gap before a character that is neither white space nor ';' is skipped, and nothing else *)
Lemma inter_gap g c r : gap g -> is_ws c = false -> (aZ c =? 59) = false -> inter (g ++ String c r) = String c r.
Proof.
  intros Hg H1 H2. unfold inter. rewrite length_append. cbn [String.length].
  destruct (skip_inter_gap g Hg 1 (S (String.length g + S (String.length r))) (String c r)) as (m & Hm & E); [lia|].
  rewrite E. destruct m as [|m]; [lia|]. cbn [skip_inter]. rewrite H1, H2. reflexivity.
Qed.
Lemma inter_wsp ws c r : wsp ws -> is_ws c = false -> (aZ c =? 59) = false -> inter (ws ++ String c r) = String c r.
Proof. intros Hw. apply inter_gap, wsp_gap, Hw. Qed.

Lemma p_sexpr_skip_ws f ws c t : gap ws -> is_ws c = false -> (aZ c =? 59) = false ->
  p_sexpr (S f) (ws ++ String c t) = p_sexpr (S f) (String c t).
Proof.
  intros Hw H1 H2. cbn [p_sexpr]. rewrite (inter_gap ws c t Hw H1 H2), (inter_nonspace c t H1 H2). reflexivity.
Qed.

(** [renders e text]: text is e printed with any layout *)
Inductive renders : val -> string -> Prop :=
  | r_atom e : (forall w l, e <> VList w l) -> renders e (show e)
  | r_nil : renders (VList true []) "()"
  | r_list x l ws0 body : gap ws0 -> rbody (x :: l) body -> renders (VList true (x :: l)) ("(" ++ ws0 ++ body)
with rbody : list val -> string -> Prop :=
  | b_last x tx ws : renders x tx -> wgap ws -> rbody [x] (tx ++ ws ++ ")")
  | b_cons x y l tx ws rest : renders x tx -> wgap ws -> ws <> "" -> rbody (y :: l) rest -> rbody (x :: y :: l) (tx ++ ws ++ rest).

Scheme renders_ind2 := Induction for renders Sort Prop
with rbody_ind2 := Induction for rbody Sort Prop.

Lemma p_list_skip_ws f cl ws c t acc : gap ws -> is_ws c = false -> (aZ c =? 59) = false ->
  p_list (S (S f)) cl (ws ++ String c t) acc = p_list (S (S f)) cl (String c t) acc.
Proof. intros Hw H1 H2. cbn [p_list]. rewrite (p_sexpr_skip_ws f ws c t Hw H1 H2). reflexivity. Qed.

Lemma wsp_delim ws tail : wgap ws -> delim tail -> delim (ws ++ tail).
Proof. intros [_ Hw] Hd. destruct ws as [|c w]; [exact Hd|]. cbn [append delim]. left. exact Hw. Qed.

Lemma wsp_tail c w : wsp (String c w) -> wsp w.
Proof. unfold wsp. cbn [sall]. intros H. apply andb_prop in H as [_ H]. exact H. Qed.

(** any layout of an expression of the class, followed by a delimiter, reads as that expression *)
Theorem layout_roundtrip :
  (forall e text, renders e text -> simple e = true ->
     (forall f rest, (5 * vsize e + 4 <= f)%nat -> delim rest -> p_sexpr f (text ++ rest) = ROk e (inter rest)) /\
     exists c t, text = String c t /\ good_first c).
Proof.
  apply (renders_ind2
    (fun e text _ => simple e = true ->
       (forall f rest, (5 * vsize e + 4 <= f)%nat -> delim rest -> p_sexpr f (text ++ rest) = ROk e (inter rest)) /\
       exists c t, text = String c t /\ good_first c)
    (fun l body _ => forallb simple l = true ->
       (forall f rest acc, (5 * sum_size l + 5 <= f)%nat ->
          p_list f ")"%char (body ++ rest) acc = ROk (WL (rev acc +++ l)) rest) /\
       exists c t, body = String c t /\ good_first c)).
  - (* atom *) intros e Hne Hs. split; [|apply show_first, Hs].
    intros f rest Hf Hd. apply (roundtrip_in_context (vsize e) e (le_n _) Hs f rest Hf Hd).
  - (* () *) intros Hs. split; [|eexists _, _; split; [reflexivity|repeat split]].
    intros f rest Hf Hd. apply (roundtrip_in_context _ (VList true []) (le_n _) Hs f rest Hf Hd).
  - (* (ws0 body) *) intros x l ws0 body Hw Hb IHb Hs. split; [|eexists _, _; split; [reflexivity|repeat split]].
    cbn [simple] in Hs. apply andb_prop in Hs as [Hs Hh]. destruct (IHb Hs) as [Hbody (c & t & Eb & Hc)].
    intros f rest Hf Hd. cbn [vsize] in Hf. fold (sum_size (x :: l)) in Hf.
    do 5 (destruct f as [|f]; [pose proof (vsize_pos x); cbn [sum_size fold_right] in Hf; lia|]).
    assert (Etext : ("(" ++ ws0 ++ body) ++ rest = String "("%char (ws0 ++ body ++ rest)).
    { cbn [append]. rewrite !sappend_assoc. reflexivity. }
    rewrite Etext. set (tail := ws0 ++ body ++ rest).
    cbn [p_sexpr]. rewrite inter_good by (repeat split). cbn [p_strict p_primary].
    change (is_sym_first "("%char) with false. change (aZ "("%char =? 34) with false. cbn iota.
    assert (Hnum : lex_number (String "("%char tail) = None) by reflexivity.
    rewrite Hnum. change (aZ "("%char =? 92) with false. cbn iota.
    assert (Hp1 : sprefix ",@" (String "("%char tail) = false) by reflexivity. rewrite Hp1.
    assert (Hp2 : first_prefix two_char_ops (String "("%char tail) = None) by reflexivity. rewrite Hp2.
    change (aZ "("%char =? 96) with false. change (aZ "("%char =? 44) with false. change (aZ "("%char =? 39) with false.
    change (aZ "("%char =? 35) with false. change (aZ "("%char =? 126) with false. cbn iota.
    change (closer "("%char) with (Some ")"%char). cbv iota.
    assert (Hlist : match tail with
                    | String d r' => if Ascii.eqb d ")"%char then ROk (WL []) r' else p_list (S (S f)) ")"%char tail []
                    | EmptyString => RErr
                    end = ROk (VList true (x :: l)) rest).
    { destruct Hc as (C1 & C2 & C3).
      assert (Hneq : forall d, (is_ws d = true \/ d = c) -> Ascii.eqb d ")"%char = false).
      { intros d Hd'. destruct (Ascii.eqb_spec d ")"%char) as [E|]; [|reflexivity]. subst d. destruct Hd' as [X|X]; [discriminate X|subst c; discriminate C3]. }
      assert (Hp : p_list (S (S f)) ")"%char tail [] = ROk (VList true (x :: l)) rest).
      { unfold tail. rewrite Eb. cbn [append]. rewrite (p_list_skip_ws f ")"%char ws0 c (t ++ rest) [] Hw C1 C2).
        change (String c (t ++ rest)) with (String c t ++ rest). rewrite <- Eb.
        rewrite (Hbody (S (S f)) rest []); [reflexivity|]. cbn [sum_size fold_right] in *. lia. }
      unfold tail in *. destruct ws0 as [|d w0].
      - rewrite Eb in *. cbn [append] in *. rewrite (Hneq c (or_intror eq_refl)). exact Hp.
      - cbn [append] in *. assert (Hd0 : Ascii.eqb d ")"%char = false).
        { inversion Hw as [|? ? Hc0 _|]; subst; [apply Hneq; left; exact Hc0|reflexivity]. }
        rewrite Hd0. exact Hp. }
    rewrite Hlist. rewrite (delim_postfix _ _ rest Hd).
    pose proof (delim_not_at rest Hd) as Ha. destruct rest as [|d r]; [reflexivity|].
    destruct d as [b0 b1 b2 b3 b4 b5 b6 b7]. destruct b0, b1, b2, b3, b4, b5, b6, b7; try reflexivity. destruct Ha.
  - (* last element *) intros x tx ws Hr IHx Hw Hs. cbn [forallb] in Hs. apply andb_prop in Hs as [Hx _].
    destruct (IHx Hx) as [Hpx (c & t & Ex & Hc)]. split; [|exists c, (t ++ ws ++ ")"); split; [rewrite Ex; reflexivity|exact Hc]].
    intros f rest acc Hf. cbn [sum_size fold_right] in Hf. destruct f as [|f]; [lia|]. cbn [p_list].
    rewrite !sappend_assoc. rewrite (Hpx f (ws ++ ")" ++ rest)); [|lia|apply wsp_delim; [exact Hw|right; reflexivity]].
    change (")" ++ rest) with (String ")"%char rest). rewrite (inter_gap ws ")"%char rest (proj1 Hw) eq_refl eq_refl).
    change (Ascii.eqb ")"%char ")"%char) with true. cbn iota. cbn [rev]. reflexivity.
  - (* more elements *) intros x y l tx ws rest0 Hr IHx Hw Hne Hb IHb Hs. cbn [forallb] in Hs. apply andb_prop in Hs as [Hx Hl].
    destruct (IHx Hx) as [Hpx (c & t & Ex & Hc)]. destruct (IHb Hl) as [Hpb (c2 & t2 & E2 & Hc2)].
    split; [|exists c, (t ++ ws ++ rest0); split; [rewrite Ex; reflexivity|exact Hc]].
    intros f rest acc Hf. change (sum_size (x :: y :: l)) with (vsize x + sum_size (y :: l))%nat in Hf. destruct f as [|f]; [lia|]. cbn [p_list].
    rewrite !sappend_assoc. rewrite (Hpx f (ws ++ rest0 ++ rest)); [|pose proof (vsize_pos x); lia|].
    2:{ destruct ws as [|d w]; [contradiction|]. destruct Hw as [_ Hd0]. cbn [append delim]. left. exact Hd0. }
    rewrite E2. cbn [append]. destruct Hc2 as (C1 & C2 & C3).
    rewrite (inter_gap ws c2 (t2 ++ rest) (proj1 Hw) C1 C2).
    assert (Hneq : Ascii.eqb c2 ")"%char = false).
    { destruct (Ascii.eqb_spec c2 ")"%char) as [->|]; [discriminate C3|reflexivity]. }
    rewrite Hneq. change (String c2 (t2 ++ rest)) with (String c2 t2 ++ rest). rewrite <- E2.
    rewrite (Hpb f rest (x :: acc)); [cbn [rev]; rewrite <- app_assoc; reflexivity|]. pose proof (vsize_pos x). lia.
Qed.

(** * whole texts with a layout *)
Lemma wsp_plain ws : wsp ws -> sall plain_char ws = true.
Proof.
  induction ws as [|c w IH]; [reflexivity|]. intros H. pose proof (wsp_tail c w H) as Hw. unfold wsp in H. cbn [sall] in *.
  apply andb_prop in H as [Hc _]. rewrite (IH Hw), andb_true_r. unfold is_ws, plain_char, aZ in *. apply Z.ltb_lt.
  repeat match type of Hc with (_ || _) = true => apply orb_prop in Hc as [Hc|Hc] end; apply Z.eqb_eq in Hc; lia.
Qed.

Lemma comment_plain body : sall comment_char body = true -> sall plain_char body = true.
Proof.
  induction body as [|c b IH]; [reflexivity|]. cbn [sall]. intros H. apply andb_prop in H as [Hc Hb].
  unfold comment_char in Hc. apply andb_prop in Hc as [_ Hc]. rewrite Hc, (IH Hb). reflexivity.
Qed.
Lemma ws_plain c : is_ws c = true -> plain_char c = true.
Proof.
  intros Hc. pose proof (wsp_plain (String c "")) as X. unfold wsp in X. cbn [sall] in X. rewrite Hc in X.
  specialize (X eq_refl). rewrite andb_true_r in X. exact X.
Qed.
Lemma gap_plain g : gap g -> sall plain_char g = true.
Proof.
  induction 1 as [|c w Hc Hw IH|body n w Hb Hn Hw IH]; [reflexivity| |].
  - cbn [sall]. rewrite IH, (ws_plain c Hc). reflexivity.
  - cbn [sall]. rewrite sall_app. cbn [sall]. rewrite (comment_plain body Hb), IH, (ws_plain n (nl_is_ws n Hn)). reflexivity.
Qed.

Lemma renders_facts :
  forall e text, renders e text -> simple e = true ->
    sall plain_char text = true /\ (2 * vsize e <= String.length text + 1)%nat.
Proof.
  apply (renders_ind2
    (fun e text _ => simple e = true -> sall plain_char text = true /\ (2 * vsize e <= String.length text + 1)%nat)
    (fun l body _ => forallb simple l = true -> sall plain_char body = true /\ (2 * sum_size l <= String.length body)%nat)).
  - intros e _ Hs. split; [apply (show_plain (vsize e) e (le_n _) Hs)|apply (show_length (vsize e) e (le_n _) Hs)].
  - intros _. split; [reflexivity|cbn; lia].
  - intros x l ws0 body Hw _ IH Hs. cbn [simple] in Hs. apply andb_prop in Hs as [Hs _]. destruct (IH Hs) as [P L].
    split.
    + cbn [append sall]. rewrite sall_app, (gap_plain ws0 Hw), P. reflexivity.
    + cbn [vsize append String.length]. fold (sum_size (x :: l)). rewrite length_append. lia.
  - intros x tx ws _ IH Hw Hs. cbn [forallb] in Hs. apply andb_prop in Hs as [Hx _]. destruct (IH Hx) as [P L]. split.
    + rewrite !sall_app, P, (gap_plain ws (proj1 Hw)). reflexivity.
    + cbn [sum_size fold_right]. rewrite !length_append. cbn [String.length]. lia.
  - intros x y l tx ws rest _ IHx Hw Hne _ IHb Hs. cbn [forallb] in Hs. apply andb_prop in Hs as [Hx Hl].
    destruct (IHx Hx) as [P L]. destruct (IHb Hl) as [P2 L2]. split.
    + rewrite !sall_app, P, (gap_plain ws (proj1 Hw)), P2. reflexivity.
    + change (sum_size (x :: y :: l)) with (vsize x + sum_size (y :: l))%nat. rewrite !length_append.
      destruct ws as [|d w]; [contradiction|]. cbn [String.length]. lia.
Qed.

Lemma inter_all_ws ws : wsp ws -> inter ws = "".
Proof.
  intros H. unfold inter. replace (S (String.length ws)) with (String.length ws + 1)%nat by lia.
  rewrite <- (append_nil_r' ws) at 2. rewrite (skip_inter_wsp ws "" 1 H). reflexivity.
Qed.

(** what may follow the last expression: a separating gap, possibly ending in a comment that runs to the end of the text *)
Definition tgap (t : string) : Prop :=
  exists g tail, t = g ++ tail /\ wgap g /\ (g = "" -> tail = "") /\
                 (tail = "" \/ exists body, tail = String ";"%char body /\ sall comment_char body = true).

Lemma wgap_tgap g : wgap g -> tgap g.
Proof. intros H. exists g, "". rewrite append_nil_r'. repeat split; [exact (proj1 H)|exact (proj2 H)|left; reflexivity]. Qed.

Lemma inter_tgap t : tgap t -> inter t = "".
Proof.
  intros (g & tail & -> & [Hg _] & _ & Ht). unfold inter. rewrite length_append.
  destruct Ht as [->|(body & -> & Hb)].
  - destruct (skip_inter_gap g Hg 1 (S (String.length g + String.length "")) "") as (m & Hm & E); [cbn; lia|].
    rewrite E. destruct m; [lia|reflexivity].
  - cbn [String.length].
    destruct (skip_inter_gap g Hg 2 (S (String.length g + S (String.length body))) (String ";"%char body)) as (m & Hm & E); [lia|].
    rewrite E. destruct m as [|[|m]]; [lia|lia|]. cbn [skip_inter]. rewrite semicolon_not_ws. change (aZ ";"%char =? 59) with true. cbn iota.
    rewrite (skip_line_open body Hb). reflexivity.
Qed.
Lemma tgap_plain t : tgap t -> sall plain_char t = true.
Proof.
  intros (g & tail & -> & [Hg _] & _ & Ht). rewrite sall_app, (gap_plain g Hg).
  destruct Ht as [->|(body & -> & Hb)]; [reflexivity|]. cbn [sall]. rewrite (comment_plain body Hb). reflexivity.
Qed.
Lemma tgap_delim t : tgap t -> delim t.
Proof.
  intros (g & tail & -> & [_ Hg] & H0 & _). destruct g as [|c w]; [rewrite (H0 eq_refl); exact I|]. cbn [append delim]. left. exact Hg.
Qed.

(** a text consisting of a gap, an expression of the class in any layout, a trailing gap *)
Theorem read_with_layout e text lead trail :
  renders e text -> simple e = true -> gap lead -> tgap trail ->
  read_sexpr (lead ++ text ++ trail) = ROk e "".
Proof.
  intros Hr Hs Hl Ht. destruct (layout_roundtrip e text Hr Hs) as [Hp (c & t & E & (C1 & C2 & C3))].
  destruct (renders_facts e text Hr Hs) as [Hplain Hlen].
  unfold read_sexpr.
  assert (Hm : modelled_text (lead ++ text ++ trail) = true).
  { apply plain_modelled. rewrite !sall_app, (gap_plain lead Hl), Hplain, (tgap_plain trail Ht). reflexivity. }
  rewrite Hm. cbn [negb]. unfold reader_fuel.
  remember (4 * String.length (lead ++ text ++ trail) + 40)%nat as fuel eqn:Ef.
  assert (Hfuel : (5 * vsize e + 4 <= fuel)%nat).
  { rewrite Ef, !length_append. lia. }
  destruct fuel as [|fuel]; [lia|].
  rewrite E. cbn [append]. rewrite (p_sexpr_skip_ws fuel lead c (t ++ trail) Hl C1 C2).
  change (String c (t ++ trail)) with (String c t ++ trail). rewrite <- E.
  rewrite (Hp (S fuel) trail Hfuel).
  - rewrite (inter_tgap trail Ht). reflexivity.
  - apply tgap_delim, Ht.
Qed.

(** white space only, as a special case *)
Corollary read_with_white_space e text lead trail :
  renders e text -> simple e = true -> wsp lead -> wsp trail -> read_sexpr (lead ++ text ++ trail) = ROk e "".
Proof. intros Hr Hs Hl Ht. apply read_with_layout; [exact Hr|exact Hs|apply wsp_gap, Hl|apply wgap_tgap, wsp_wgap, Ht]. Qed.
