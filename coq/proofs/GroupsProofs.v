(** GroupsProofs.v — (groups s1 ... sn) returns, sorted and without duplicates, exactly the prefixes p (inside the
    captured scope when one is set) such that p+s1 ... p+sn are all existing signals, the suffixes matched as literal
    text (C05). *)
From WalModel Require Import Eval.
From WalModel.proofs Require Import VcdProofs CsvFidelity ResolveLet.
Local Open Scope Z_scope.

(** * suffixes as literal text *)
Lemma sprefix_spec a : forall b, sprefix a b = true <-> exists r, b = (a ++ r)%string.
Proof.
  induction a as [|c a IH]; intros b.
  - cbn [sprefix append]. split; [intros _; exists b; reflexivity|reflexivity].
  - destruct b as [|d b]; cbn [sprefix append].
    + split; [discriminate|intros [r E]; discriminate E].
    + split.
      * intros H. apply andb_prop in H as [Hc Hb]. apply Ascii.eqb_eq in Hc. subst d. apply IH in Hb as [r ->]. exists r. reflexivity.
      * intros [r E]. injection E as -> ->. rewrite Ascii.eqb_refl. cbn [andb]. apply IH. exists r. reflexivity.
Qed.

Lemma slength_app (a b : string) : String.length (a ++ b) = (String.length a + String.length b)%nat.
Proof. induction a as [|c a IH]; cbn [append String.length]; [reflexivity|rewrite IH; reflexivity]. Qed.
Lemma stake_app (p x : string) : stake (String.length p) (p ++ x) = p.
Proof. induction p as [|c p IH]; cbn [String.length append stake]; [destruct x; reflexivity|rewrite IH; reflexivity]. Qed.

Lemma ssuffix_spec suf s : ssuffix suf s = true <-> exists p, s = (p ++ suf)%string.
Proof.
  unfold ssuffix. rewrite sprefix_spec. split.
  - intros [r E]. exists (srev r). apply (f_equal srev) in E. rewrite srev_involutive, srev_append, srev_involutive in E. exact E.
  - intros [p ->]. exists (srev p). apply srev_append.
Qed.

Lemma app_inj_tail_len (p q suf : string) : (p ++ suf = q ++ suf)%string -> p = q.
Proof.
  intros E. apply (f_equal srev) in E. rewrite !srev_append in E.
  assert (H : forall a b c : string, (a ++ b = a ++ c)%string -> b = c).
  { induction a as [|x a IH]; intros b c H; [exact H|]. cbn [append] in H. injection H as H. apply IH, H. }
  apply H in E. apply (f_equal srev) in E. rewrite !srev_involutive in E. exact E.
Qed.

Lemma strip_suffix_spec suf s p : strip_suffix suf s = Some p <-> s = (p ++ suf)%string.
Proof.
  unfold strip_suffix. split.
  - destruct (ssuffix suf s) eqn:E; [|discriminate]. apply ssuffix_spec in E as [q ->]. intros H. injection H as <-.
    rewrite slength_app. replace (String.length q + String.length suf - String.length suf)%nat with (String.length q) by lia.
    rewrite stake_app. reflexivity.
  - intros ->. assert (E : ssuffix suf (p ++ suf) = true) by (apply ssuffix_spec; exists p; reflexivity). rewrite E.
    rewrite slength_app. replace (String.length p + String.length suf - String.length suf)%nat with (String.length p) by lia.
    rewrite stake_app. reflexivity.
Qed.

(** * sorting and removing duplicates *)
Section Sorting.
  Context {A : Type} (ltb : A -> A -> bool).
  Lemma in_insert x y l : In x (insert_sorted ltb y l) <-> x = y \/ In x l.
  Proof.
    induction l as [|z l IH]; cbn [insert_sorted In]; [intuition congruence|]. destruct (ltb y z); cbn [In]; [intuition congruence|]. rewrite IH. intuition congruence.
  Qed.
  Lemma in_isort x l : In x (isort ltb l) <-> In x l.
  Proof. induction l as [|y l IH]; cbn [isort In]; [tauto|]. rewrite in_insert, IH. intuition congruence. Qed.
  Lemma nodup_insert y l : NoDup l -> ~ In y l -> NoDup (insert_sorted ltb y l).
  Proof.
    induction l as [|z l IH]; intros Hn Hy; cbn [insert_sorted]; [constructor; [intros []|constructor]|].
    inversion Hn as [|? ? Hz Hl]; subst. destruct (ltb y z).
    - constructor; [exact Hy|exact Hn].
    - constructor; [|apply IH; [exact Hl|intros H; apply Hy; right; exact H]].
      rewrite in_insert. intros [->|H]; [apply Hy; left; reflexivity|contradiction].
  Qed.
  Lemma nodup_isort l : NoDup l -> NoDup (isort ltb l).
  Proof.
    induction l as [|y l IH]; intros Hn; [constructor|]. inversion Hn as [|? ? Hy Hl]; subst. cbn [isort].
    apply nodup_insert; [apply IH, Hl|]. rewrite in_isort. exact Hy.
  Qed.

  (** no element is followed by a smaller one *)
  Fixpoint ascending (l : list A) : Prop :=
    match l with
    | x :: ((y :: _) as r) => ltb y x = false /\ ascending r
    | _ => True
    end.
  Hypothesis Hasym : forall a b, ltb a b = true -> ltb b a = false.
  Lemma ascending_insert y l : ascending l -> ascending (insert_sorted ltb y l).
  Proof.
    induction l as [|z l IH]; intros Hs; [exact I|]. cbn [insert_sorted]. destruct (ltb y z) eqn:E.
    - split; [apply Hasym, E|exact Hs].
    - destruct l as [|w l].
      + cbn [insert_sorted]. split; [exact E|exact I].
      + destruct Hs as [Hwz Hs]. specialize (IH Hs). cbn [insert_sorted] in *. destruct (ltb y w); (split; [assumption|exact IH]).
  Qed.
  Lemma ascending_isort l : ascending (isort ltb l).
  Proof. induction l as [|y l IH]; [exact I|]. cbn [isort]. apply ascending_insert, IH. Qed.
End Sorting.

Lemma sltb_asym : forall a b, sltb a b = true -> sltb b a = false.
Proof.
  induction a as [|x a IH]; intros [|y b] H; cbn [sltb] in *; try reflexivity; try discriminate.
  destruct (Ascii.eqb_spec x y) as [->|Hne].
  - rewrite Ascii.eqb_refl. apply IH, H.
  - destruct (Ascii.eqb_spec y x) as [->|_]; [contradiction|]. apply Z.ltb_lt in H. apply Z.ltb_ge. lia.
Qed.

Lemma nodup_dedup : forall l seen, NoDup (dedup_str l seen) /\ forall x, In x (dedup_str l seen) -> smem x seen = false.
Proof.
  induction l as [|y l IH]; intros seen; cbn [dedup_str]; [split; [constructor|intros x []]|].
  destruct (smem y seen) eqn:E; [apply IH|].
  destruct (IH (y :: seen)) as [Hn Hs]. split.
  - constructor; [|exact Hn]. intros Hin. specialize (Hs y Hin). cbn [smem] in Hs. rewrite String.eqb_refl in Hs. discriminate.
  - intros x [<-|Hin]; [exact E|]. specialize (Hs x Hin). cbn [smem] in Hs. apply orb_false_iff in Hs as [_ Hs]. exact Hs.
Qed.
Lemma smem_In x l : smem x l = true <-> In x l.
Proof.
  induction l as [|y l IH]; cbn [smem In]; [split; [discriminate|intros []]|].
  rewrite orb_true_iff, IH. split; (intros [H|H]; [left|right; exact H]).
  - apply String.eqb_eq in H. congruence.
  - subst. apply String.eqb_refl.
Qed.
Lemma in_dedup x l : In x (dedup_str l []) <-> In x l.
Proof. rewrite <- !smem_In, smem_dedup0. reflexivity. Qed.

(** * groups *)
Lemma forallb_map_id {A} (f : A -> bool) l : forallb (fun b : bool => b) (map f l) = forallb f l.
Proof. induction l as [|x l IH]; [reflexivity|]. cbn [map forallb]. rewrite IH. reflexivity. Qed.

Section Groups.
  Variable ev : val -> M val.
  Variable st : state.
  Variable cs : string.                      (* the captured scope, "" when none *)
  Variable has : string -> bool.             (* which names are signals *)
  Hypothesis Hcs : read_global "CS" st = Ok (VStr cs) st.

  (** a prefix is admissible: directly inside the captured scope, or (no scope) anything on one line *)
  Definition admissible (pre : string) : bool :=
    if String.eqb cs "" then negb (scontains_char (ch 10) pre)
    else sprefix (cs ++ ".") pre && no_dot_backslash (sdrop (String.length cs + 1) pre).

  Definition candidates (s0 : string) : list string :=
    flat_map (fun sig => match strip_suffix s0 sig with
                         | Some pre => if admissible pre then [pre] else []
                         | None => []
                         end) (cont_signals (st_cont st)).

  Definition complete (posts : list string) (pre : string) : bool := forallb (fun post => has (pre ++ post)) posts.

  Lemma mapM_same {A B} (f : A -> M B) (g : A -> B) l s : (forall x, In x l -> f x s = Ok (g x) s) -> mapM f l s = Ok (map g l) s.
  Proof.
    intros H. induction l as [|x l IH]; [reflexivity|]. cbn [mapM map]. unfold bind.
    rewrite (H x (or_introl eq_refl)), (IH (fun y Hy => H y (or_intror Hy))). reflexivity.
  Qed.
  Lemma mapM_through {A B} (f : A -> M B) (h : B -> A) l s : (forall x, f (h x) s = Ok x s) -> mapM f (map h l) s = Ok l s.
  Proof.
    intros H. induction l as [|x l IH]; [reflexivity|]. cbn [map mapM]. unfold bind at 1. rewrite H. unfold bind at 1. rewrite IH. reflexivity.
  Qed.
  Lemma concat_filter {A} (p : A -> bool) l : List.concat (map (fun x => if p x then [x] else []) l) = filter p l.
  Proof. induction l as [|x l IH]; [reflexivity|]. cbn [map List.concat filter]. rewrite IH. destruct (p x); reflexivity. Qed.

  Lemma contains_has n : cont_contains (st_cont st) n = Some (has n) -> contains_m n st = Ok (has n) st.
  Proof. intros H. unfold contains_m, bind, get_st. rewrite H. reflexivity. Qed.
  (** every name that is looked up can be attributed to a trace (no dangling trace id) *)
  Definition lookups_ok (s0 : string) (posts : list string) : Prop :=
    forall p post, In p (candidates s0) -> In post posts -> cont_contains (st_cont st) (p ++ post) = Some (has (p ++ post)).

  (** the operator on literal suffixes that are not aliases *)
  Theorem groups_is s0 posts : s0 <> ""%string -> (forall s, In s (s0 :: posts) -> alias_of st s = s) -> lookups_ok s0 posts ->
    op_groups ev (map VStr (s0 :: posts)) st =
    Ok (PL (map VStr (isort sltb (dedup_str (filter (complete posts) (candidates s0)) [])))) st.
  Proof.
    intros Hne Hal Hhas. unfold op_groups. cbn [map List.length Nat.eqb negb assert]. unfold bind at 1. cbn [ret].
    unfold bind at 1.
    assert (Hraw : mapM (fun a => match a with
                          | VList true _ => v <- ev a ;; match v with VStr s => ret s | _ => unm "groups: non-string suffix" end
                          | VSym n _ => ret n
                          | VStr s => ret s
                          | _ => fail EOther
                          end) (VStr s0 :: map VStr posts) st = Ok (s0 :: posts) st).
    { change (VStr s0 :: map VStr posts) with (map VStr (s0 :: posts)). apply mapM_through. intros x. reflexivity. }
    rewrite Hraw. unfold bind at 1. unfold get_st at 1.
    assert (Hsufs : map (alias_of st) (s0 :: posts) = s0 :: posts).
    { rewrite <- (map_id (s0 :: posts)) at 2. apply map_ext_in. exact Hal. }
    rewrite Hsufs. unfold bind at 1. rewrite Hcs. unfold bind at 1. unfold get_st at 1.
    destruct (String.eqb_spec s0 "") as [E|_]; [contradiction|].
    assert (Hcand : flat_map (fun sig =>
                       match match strip_suffix s0 sig with
                             | None => None
                             | Some pre =>
                                 if truthy st (VStr cs) then
                                   if sprefix (cs ++ ".") pre && no_dot_backslash (sdrop (String.length cs + 1) pre) then Some pre else None
                                 else if scontains_char (ch 10) pre then None else Some pre
                             end with Some p => [p] | None => [] end) (cont_signals (st_cont st)) = candidates s0).
    { unfold candidates. apply flat_map_ext. intros sig. destruct (strip_suffix s0 sig) as [pre|]; [|reflexivity].
      unfold admissible. cbn [truthy]. destruct (String.eqb cs ""); cbn [negb].
      - destruct (scontains_char (ch 10) pre); reflexivity.
      - destruct (sprefix (cs ++ ".") pre && no_dot_backslash (sdrop (String.length cs + 1) pre)); reflexivity. }
    rewrite Hcand. unfold bind at 1.
    rewrite (mapM_same _ (fun pre => if complete posts pre then [pre] else []) (candidates s0) st).
    - rewrite concat_filter. reflexivity.
    - intros pre Hpre. unfold bind.
      rewrite (mapM_same _ (fun post => has (pre ++ post)) posts st (fun post Hpost => contains_has (pre ++ post) (Hhas pre post Hpre Hpost))).
      cbn [ret]. unfold complete. rewrite forallb_map_id. reflexivity.
  Qed.

  Lemma in_candidates s0 p : In p (candidates s0) <->
    admissible p = true /\ exists sig, In sig (cont_signals (st_cont st)) /\ sig = (p ++ s0)%string.
  Proof.
    unfold candidates. rewrite in_flat_map. split.
    - intros (sig & Hin & Hp). destruct (strip_suffix s0 sig) as [pre|] eqn:E; [|destruct Hp].
      destruct (admissible pre) eqn:Ea; [|destruct Hp]. destruct Hp as [<-|[]]. split; [exact Ea|].
      exists sig. split; [exact Hin|]. apply strip_suffix_spec, E.
    - intros (Ha & sig & Hin & ->). exists (p ++ s0)%string. split; [exact Hin|].
      rewrite (proj2 (strip_suffix_spec s0 (p ++ s0) p) eq_refl), Ha. left. reflexivity.
  Qed.

  (** in the words of the property *)
  Theorem groups_spec s0 posts : s0 <> ""%string -> (forall s, In s (s0 :: posts) -> alias_of st s = s) -> lookups_ok s0 posts ->
    exists l, op_groups ev (map VStr (s0 :: posts)) st = Ok (PL (map VStr l)) st /\
              NoDup l /\ ascending sltb l /\
              forall p, In p l <->
                (admissible p = true /\ (exists sig, In sig (cont_signals (st_cont st)) /\ sig = (p ++ s0)%string) /\
                 forall post, In post posts -> has (p ++ post) = true).
  Proof.
    intros Hne Hal Hhas. eexists. split; [apply (groups_is s0 posts Hne Hal Hhas)|]. split; [|split].
    - apply nodup_isort, nodup_dedup.
    - apply ascending_isort, sltb_asym.
    - intros p. rewrite in_isort, in_dedup, filter_In, in_candidates. unfold complete. rewrite forallb_forall. tauto.
  Qed.
End Groups.

(** * the premises are met: signals a_valid a_ready b_valid ab_valid ab_ready in scope top *)
Definition g_trace : trace :=
  mkTrace "t" "f" 0 0 [0] [0] None ["top.a_valid"; "top.a_ready"; "top.b_valid"; "top.ab_valid"; "top.ab_ready"]%string
          [] ["top"]%string [] [].
Definition g_state : state :=
  mkState [mkFrame [("CS", VStr "")]%string None] O [] (mkCont [("t", g_trace)]%string 1 []) "" "" [] 0 [] [].
Definition g_has (n : string) : bool := smem n (tr_raw g_trace).

Example groups_demo :
  op_groups (fun _ => fail EOther) [VStr "_valid"; VStr "_ready"] g_state = Ok (PL [VStr "top.a"; VStr "top.ab"]) g_state.
Proof.
  etransitivity; [apply (groups_is (fun _ => fail EOther) g_state "" g_has eq_refl "_valid" ["_ready"]%string)|reflexivity].
  - discriminate.
  - intros s _. reflexivity.
  - intros p post Hp Hpost. vm_compute in Hp. destruct Hpost as [<-|[]].
    destruct Hp as [<-|[<-|[<-|[]]]]; reflexivity.
Qed.
