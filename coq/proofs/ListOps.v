(** ListOps.v — more list operators as sequence operations (C14; first/second/last/rest/length/list/zip/+ are in
    ListProofs.v): in is membership, max/min are the extrema, + of two lists is append, for any sub-evaluator. *)
From WalModel Require Import Eval.
From WalModel.proofs Require Import ListProofs.
Local Open Scope Z_scope.

Lemma last_opt_last {A} (l : list A) d : l <> [] -> last_opt l = Some (last l d).
Proof.
  induction l as [|x l IH]; [congruence|]. intros _. destruct l as [|y l]; [reflexivity|].
  change (last_opt (x :: y :: l)) with (last_opt (y :: l)). change (last (x :: y :: l) d) with (last (y :: l) d).
  apply IH. discriminate.
Qed.

Section Ops.
  Variable ev : val -> M val.

  Lemma list1 l w items st st1 : ev l st = Ok (VList w items) st1 -> eval_list1 ev [l] st = Ok (w, items) st1.
  Proof. intros H. unfold eval_list1. cbn [List.length Nat.eqb assert arg0]. unfold bind at 1. cbn [ret]. unfold bind at 1. cbn [ret]. unfold bind. rewrite H. reflexivity. Qed.

  Theorem length_of_a_string l s st st1 : ev l st = Ok (VStr s) st1 -> op_length ev [l] st = Ok (VInt (slen s)) st1.
  Proof.
    intros H. unfold op_length. cbn [List.length Nat.eqb assert arg0]. unfold bind at 1. cbn [ret]. unfold bind at 1. cbn [ret]. unfold bind. rewrite H. reflexivity.
  Qed.

  (** + of two lists, of a list and an element *)
  Corollary plus_of_two_lists a b w1 l1 w2 l2 st st1 st2 :
    ev a st = Ok (VList w1 l1) st1 -> ev b st1 = Ok (VList w2 l2) st2 -> op_add ev [a; b] st = Ok (PL (l1 ++ l2)) st2.
  Proof.
    intros Ha Hb. rewrite (add_concatenates ev [a; b] [VList w1 l1; VList w2 l2] st st2).
    - cbn [flat_map]. rewrite app_nil_r. reflexivity.
    - unfold eval_args. cbn [mapM]. unfold bind. rewrite Ha, Hb. reflexivity.
    - reflexivity.
  Qed.
  Corollary plus_appends_an_element a b w1 l1 x st st1 st2 :
    ev a st = Ok (VList w1 l1) st1 -> ev b st1 = Ok x st2 -> is_list_val x = false -> op_add ev [a; b] st = Ok (PL (l1 ++ [x])) st2.
  Proof.
    intros Ha Hb Hx. rewrite (add_concatenates ev [a; b] [VList w1 l1; x] st st2).
    - cbn [flat_map]. destruct x; try discriminate Hx; reflexivity.
    - unfold eval_args. cbn [mapM]. unfold bind. rewrite Ha, Hb. reflexivity.
    - reflexivity.
  Qed.

  (** membership, on integers *)
  Lemma py_in_ints z zs : py_in (VInt z) (map VInt zs) = Some (existsb (Z.eqb z) zs).
  Proof.
    induction zs as [|y zs IH]; [reflexivity|]. cbn [map py_in existsb].
    replace (py_eq (VInt y) (VInt z)) with (Some (Z.eqb z y)).
    - destruct (Z.eqb z y); [reflexivity|exact IH].
    - cbn. rewrite (Z.eqb_sym z y). destruct (Z.compare_spec y z) as [E|E|E].
      + subst. rewrite Z.eqb_refl. reflexivity.
      + assert (H : (y =? z) = false) by (apply Z.eqb_neq; lia). rewrite H. reflexivity.
      + assert (H : (y =? z) = false) by (apply Z.eqb_neq; lia). rewrite H. reflexivity.
  Qed.

  Theorem in_is_membership x l z w zs st st1 st2 :
    ev x st = Ok (VInt z) st1 -> ev l st1 = Ok (VList w (map VInt zs)) st2 ->
    op_in ev [x; l] st = Ok (VBool (existsb (Z.eqb z) zs)) st2.
  Proof.
    intros Hx Hl. unfold op_in.
    change (2 <=? zlen [x; l]) with true. cbn [assert]. unfold bind at 1. cbn [ret].
    unfold eval_args. cbn [mapM]. unfold bind at 1. unfold bind at 1. rewrite Hx.
    unfold bind at 1. unfold bind at 1. rewrite Hl. cbn [mapM]. unfold bind at 1. cbn [ret last_opt removelast].
    rewrite py_in_ints. destruct (existsb (Z.eqb z) zs); reflexivity.
  Qed.

  (** max and min, on integers *)
  Lemma fold_max_spec zs : forall z, let m := fold_left Z.max zs z in In m (z :: zs) /\ forall y, In y (z :: zs) -> y <= m.
  Proof.
    induction zs as [|x zs IH]; intros z; cbn [fold_left].
    - split; [left; reflexivity|]. intros y [<-|[]]. lia.
    - destruct (IH (Z.max z x)) as [Hin Hle]. split.
      + destruct Hin as [E|Hin]; [|right; right; exact Hin]. rewrite <- E. destruct (Z.max_spec z x) as [[_ ->]|[_ ->]]; [right; left|left]; reflexivity.
      + intros y [E|[E|Hy]].
        * subst y. specialize (Hle (Z.max z x) (or_introl eq_refl)). lia.
        * subst y. specialize (Hle (Z.max z x) (or_introl eq_refl)). lia.
        * apply Hle. right. exact Hy.
  Qed.
  Lemma fold_min_spec zs : forall z, let m := fold_left Z.min zs z in In m (z :: zs) /\ forall y, In y (z :: zs) -> m <= y.
  Proof.
    induction zs as [|x zs IH]; intros z; cbn [fold_left].
    - split; [left; reflexivity|]. intros y [<-|[]]. lia.
    - destruct (IH (Z.min z x)) as [Hin Hle]. split.
      + destruct Hin as [E|Hin]; [|right; right; exact Hin]. rewrite <- E. destruct (Z.min_spec z x) as [[_ ->]|[_ ->]]; [left|right; left]; reflexivity.
      + intros y [E|[E|Hy]].
        * subst y. specialize (Hle (Z.min z x) (or_introl eq_refl)). lia.
        * subst y. specialize (Hle (Z.min z x) (or_introl eq_refl)). lia.
        * apply Hle. right. exact Hy.
  Qed.

  Lemma ints_plain zs : forallb is_plain_int (map VInt zs) = true.
  Proof. induction zs as [|z zs IH]; [reflexivity|exact IH]. Qed.
  Lemma ints_of zs : map_opt int_of (map VInt zs) = Some zs.
  Proof. induction zs as [|z zs IH]; [reflexivity|]. cbn [map map_opt int_of]. rewrite IH. reflexivity. Qed.

  Theorem max_is_the_maximum l w z zs st st1 : ev l st = Ok (VList w (map VInt (z :: zs))) st1 ->
    exists m, op_maxmin ev true [l] st = Ok (VInt m) st1 /\ In m (z :: zs) /\ forall y, In y (z :: zs) -> y <= m.
  Proof.
    intros H. exists (fold_left Z.max zs z). split; [|apply fold_max_spec].
    unfold op_maxmin, bind. rewrite (list1 _ _ _ _ _ H). cbn [snd map]. change (VInt z :: map VInt zs) with (map VInt (z :: zs)).
    rewrite ints_plain, ints_of. reflexivity.
  Qed.
  Theorem min_is_the_minimum l w z zs st st1 : ev l st = Ok (VList w (map VInt (z :: zs))) st1 ->
    exists m, op_maxmin ev false [l] st = Ok (VInt m) st1 /\ In m (z :: zs) /\ forall y, In y (z :: zs) -> m <= y.
  Proof.
    intros H. exists (fold_left Z.min zs z). split; [|apply fold_min_spec].
    unfold op_maxmin, bind. rewrite (list1 _ _ _ _ _ H). cbn [snd map]. change (VInt z :: map VInt zs) with (map VInt (z :: zs)).
    rewrite ints_plain, ints_of. reflexivity.
  Qed.
  Theorem max_of_empty_is_an_error l w b st st1 : ev l st = Ok (VList w []) st1 -> op_maxmin ev b [l] st = Er EOther st1.
  Proof. intros H. unfold op_maxmin, bind. rewrite (list1 _ _ _ _ _ H). reflexivity. Qed.
End Ops.

(** with the real evaluator, on quoted lists *)
Example list_ops_demo lf f st :
  eval lf (S (S (S (S f)))) (WL [VOp OList;
      WL [VOp OFirst; quoted (PL [VInt 4; VInt 7; VInt 1])];
      WL [VOp OLast; quoted (PL [VInt 4; VInt 7; VInt 1])];
      WL [VOp ORest; quoted (PL [VInt 4; VInt 7; VInt 1])];
      WL [VOp OMax; quoted (PL [VInt 4; VInt 7; VInt 1])];
      WL [VOp OIn; VInt 7; quoted (PL [VInt 4; VInt 7; VInt 1])];
      WL [VOp OAdd; quoted (PL [VInt 4]); VInt 5; quoted (PL [VInt 6])];
      WL [VOp OZip; quoted (PL [VInt 1; VInt 2]); quoted (PL [VInt 3; VInt 4; VInt 5])]]) st
  = Ok (WL [VInt 4; VInt 1; PL [VInt 7; VInt 1]; VInt 7; VBool true; PL [VInt 4; VInt 5; VInt 6];
            PL [PL [VInt 1; VInt 3]; PL [VInt 2; VInt 4]]]) st.
Proof. vm_compute. reflexivity. Qed.
