(** ReadOnlyAt.v — T-ro extended by relative evaluation: expressions of the read-only fragment, now also with e@k
    (reval) at any nesting, leave the interpreter state exactly as it was — on states without virtual signals whose
    container is well-formed (every reachable state is: ContInv).  Same structure as ReadOnly.v; the new case is
    op_reval: the positions saved before the step are the ones restored after it. *)
From WalModel Require Import Eval.
From WalModel.proofs Require Import VcdProofs TraceProofs RevalProofs ListProofs Balanced ReadOnly ScanProofs ContInv.
Local Open Scope Z_scope.

Definition okst (st : state) : Prop := novirt st /\ cwf (st_cont st).
Definition pure {A} (m : M A) : Prop := forall st a st', okst st -> m st = Ok a st' -> st' = st.

Lemma pure_ret {A} (a : A) : pure (ret a).
Proof. intros st x st' _ H. injection H as _ <-. reflexivity. Qed.
Lemma pure_fail {A} e : pure (@fail A e).
Proof. intros st x st' _ H. discriminate. Qed.
Lemma pure_unm {A} w : pure (@unm A w).
Proof. intros st x st' _ H. discriminate. Qed.
Lemma pure_fuel {A} : pure (fun _ : state => @Fuel A).
Proof. intros st x st' _ H. discriminate. Qed.
Lemma pure_bind {A B} (m : M A) (k : A -> M B) : pure m -> (forall a, pure (k a)) -> pure (bind m k).
Proof.
  intros Hm Hk st b st' Hn H. unfold bind in H. destruct (m st) as [a st1| | |] eqn:E; try discriminate.
  pose proof (Hm _ _ _ Hn E) as ->. apply (Hk a _ _ _ Hn H).
Qed.
Lemma pure_get_st : pure get_st.
Proof. intros st x st' _ H. injection H as _ <-. reflexivity. Qed.
Lemma pure_assert b : pure (assert b).
Proof. unfold assert. destruct b; [apply pure_ret|apply pure_fail]. Qed.
Lemma pure_require b e : pure (require b e).
Proof. unfold require. destruct b; [apply pure_ret|apply pure_fail]. Qed.
Lemma pure_of_opt {A} (o : option A) e : pure (of_opt o e).
Proof. unfold of_opt. destruct o; [apply pure_ret|apply pure_fail]. Qed.
Lemma pure_mapM {A B} (f : A -> M B) l : Forall (fun x => pure (f x)) l -> pure (mapM f l).
Proof.
  induction 1 as [|x l Hx Hl IH]; cbn [mapM]; [apply pure_ret|].
  apply pure_bind; [exact Hx|intros y]. apply pure_bind; [exact IH|intros ys; apply pure_ret].
Qed.
Lemma pure_mapM_all {A B} (f : A -> M B) l : (forall x, pure (f x)) -> pure (mapM f l).
Proof. intros H. apply pure_mapM. apply Forall_forall. intros x _. apply H. Qed.
Lemma pure_env_read id n : pure (env_read id n).
Proof.
  intros st x st' _ H. unfold env_read in H.
  destruct (lookup_frame st id n); [|discriminate]. destruct (get_frame st n0); [|discriminate].
  destruct (alookup n (f_binds f)); [|discriminate]. injection H as _ <-. reflexivity.
Qed.
#[global] Hint Resolve pure_ret pure_fail pure_unm pure_fuel pure_get_st pure_assert pure_require pure_of_opt pure_env_read : pureb.

Ltac pure_step :=
  lazymatch goal with
  | |- pure (bind _ _) => apply pure_bind; [|intros ?]
  | |- pure (mapM _ _) => first [apply pure_mapM; assumption | apply pure_mapM_all; intros ?]
  | |- pure (match ?x with _ => _ end) => destruct x
  | |- pure (if ?b then _ else _) => destruct b
  | |- pure (let '(_, _) := ?x in _) => destruct x
  | |- pure _ => solve [auto with pureb]
  end.
Ltac solve_pure := repeat pure_step.



Section WithEv.
  Variable ev : val -> M val.

  Lemma pure_eval_args args : Forall (fun a => pure (ev a)) args -> pure (eval_args ev args).
  Proof. unfold eval_args. apply pure_mapM. Qed.
  Lemma pure_last_or l : pure (last_or_index_error l).
  Proof. unfold last_or_index_error. solve_pure. Qed.
  Lemma pure_arg0 l : pure (arg0 l).
  Proof. unfold arg0. solve_pure. Qed.
  Lemma pure_contains_m n : pure (contains_m n).
  Proof. unfold contains_m. solve_pure. Qed.
  Hint Resolve pure_eval_args pure_last_or pure_arg0 pure_contains_m : pureb.

  Lemma pure_signal_value_m name scope : pure (signal_value_m ev name scope).
  Proof.
    intros st a st' Hn H. unfold signal_value_m, bind, get_st in H.
    destruct (cont_signal_value (st_cont st) name scope) as [r t] eqn:E.
    destruct r as [v|n|e|]; try discriminate.
    - injection H as _ <-. reflexivity.
    - exfalso. apply (ReadOnly.no_virtual_read st name scope (proj1 Hn) n t E).
  Qed.
  Hint Resolve pure_signal_value_m : pureb.

  Lemma pure_eval_symbol n s : pure (eval_symbol ev n s).
  Proof. unfold eval_symbol. solve_pure. Qed.

  Lemma pure_py_str v : pure (py_str v). Proof. unfold py_str. solve_pure. Qed.
  Lemma pure_py_sum vs : pure (py_sum vs). Proof. unfold py_sum. solve_pure. Qed.
  Hint Resolve pure_py_str pure_py_sum : pureb.

  Section Args.
    Variable args : list val.
    Hypothesis Hargs : Forall (fun a => pure (ev a)) args.
    Hint Resolve Hargs : pureb.
    Lemma pure_ea : pure (eval_args ev args). Proof. apply pure_eval_args, Hargs. Qed.
    Hint Resolve pure_ea : pureb.

    Lemma pure_op_not : pure (op_not ev args). Proof. unfold op_not. solve_pure. Qed.
    Lemma pure_op_eq neg : pure (op_eq ev neg args). Proof. unfold op_eq. solve_pure. Qed.
    Lemma pure_op_cmp t : pure (op_cmp ev t args). Proof. unfold op_cmp. solve_pure. Qed.
    Lemma pure_op_add : pure (op_add ev args). Proof. unfold op_add. solve_pure. Qed.
    Lemma pure_op_sub : pure (op_sub ev args). Proof. unfold op_sub. solve_pure. Qed.
    Lemma pure_op_mul : pure (op_mul ev args). Proof. unfold op_mul. solve_pure. Qed.
    Lemma pure_op_div : pure (op_div ev args). Proof. unfold op_div. solve_pure. Qed.
    Lemma pure_op_exp : pure (op_exp ev args). Proof. unfold op_exp. solve_pure. Qed.
    Lemma pure_op_mod : pure (op_mod ev args). Proof. unfold op_mod. solve_pure. Qed.
    Lemma pure_op_bitwise f : pure (op_bitwise ev f args). Proof. unfold op_bitwise. solve_pure. Qed.
    Lemma pure_op_slice : pure (op_slice ev args). Proof. unfold op_slice. solve_pure. Qed.
    Lemma pure_op_do : pure (op_do ev args). Proof. unfold op_do. solve_pure. Qed.
  End Args.

  Lemma pure_and_loop args : Forall (fun a => pure (ev a)) args -> pure (and_loop ev args).
  Proof. induction 1 as [|a r Ha Hr IH]; cbn [and_loop]; solve_pure. Qed.
  Lemma pure_or_loop args : Forall (fun a => pure (ev a)) args -> pure (or_loop ev args).
  Proof. induction 1 as [|a r Ha Hr IH]; cbn [or_loop]; solve_pure. Qed.
  Lemma pure_op_and args : Forall (fun a => pure (ev a)) args -> pure (op_and ev args).
  Proof. intros H. unfold op_and. apply pure_bind; [apply pure_assert|intros _; apply pure_and_loop, H]. Qed.
  Lemma pure_op_or args : Forall (fun a => pure (ev a)) args -> pure (op_or ev args).
  Proof. intros H. unfold op_or. apply pure_bind; [apply pure_assert|intros _; apply pure_or_loop, H]. Qed.
  Lemma pure_op_if args : Forall (fun a => pure (ev a)) args -> pure (op_if ev args).
  Proof.
    intros H. unfold op_if. apply pure_bind; [apply pure_assert|intros _].
    destruct args as [|c [|t r]]; try apply pure_fail.
    inversion H as [|? ? Hc H1]; subst. inversion H1 as [|? ? Ht Hr]; subst.
    apply pure_bind; [exact Hc|intros v]. apply pure_bind; [apply pure_get_st|intros st].
    destruct (truthy st v); [exact Ht|]. destruct r as [|e [|? ?]]; try apply pure_ret.
    inversion Hr; subst. assumption.
  Qed.
End WithEv.


(** * relative evaluation restores the container exactly *)
Lemma alookup_app_notin {V} k (l1 l2 : list (string * V)) : ~ In k (map fst l1) -> alookup k (l1 +++ l2) = alookup k l2.
Proof.
  induction l1 as [|[k' v] l1 IH]; intros H; [reflexivity|]. cbn [app alookup map fst In] in *.
  destruct (String.eqb_spec k k') as [->|_]; [exfalso; apply H; left; reflexivity|]. apply IH. tauto.
Qed.
Lemma aset_app_notin {V} k (v : V) l1 l2 : ~ In k (map fst l1) -> aset k v (l1 +++ l2) = l1 +++ aset k v l2.
Proof.
  induction l1 as [|[k' v'] l1 IH]; intros H; [reflexivity|]. cbn [app aset map fst In] in *.
  destruct (String.eqb_spec k k') as [->|_]; [exfalso; apply H; left; reflexivity|]. rewrite IH by tauto. reflexivity.
Qed.

Definition moved (g : trace -> trace) (l : list (string * trace)) : list (string * trace) :=
  map (fun p => (fst p, g (snd p))) l.

Lemma restore_moved (g : trace -> trace) (Hg : forall t, set_index (g t) (tr_index t) = t) : forall l2 l1,
  NoDup (map fst (l1 +++ l2)) -> tid_ok (l1 +++ l2) ->
  restore_list (l1 +++ moved g l2) (map (fun p => (tr_tid (snd p), tr_index (snd p))) l2) = Some (l1 +++ l2).
Proof.
  induction l2 as [|[k t] r IH]; intros l1 Hn Ht; [cbn [moved map restore_list]; reflexivity|].
  cbn [moved map fst snd restore_list].
  assert (Ek : tr_tid t = k). { apply Ht. apply in_or_app. right. left. reflexivity. }
  rewrite Ek.
  assert (Hnot : ~ In k (map fst l1)).
  { rewrite map_app in Hn. cbn [map fst] in Hn. apply NoDup_remove_2 in Hn. intros X. apply Hn. apply in_or_app. left. exact X. }
  rewrite (alookup_app_notin k l1 _ Hnot). cbn [alookup]. rewrite String.eqb_refl.
  rewrite (aset_app_notin k _ l1 _ Hnot). cbn [aset]. rewrite String.eqb_refl. rewrite Hg.
  change (l1 +++ (k, t) :: map (fun p => (fst p, g (snd p))) r) with (l1 +++ [(k, t)] +++ moved g r). rewrite app_assoc.
  rewrite (IH (l1 +++ [(k, t)])); [rewrite <- app_assoc; reflexivity| |]; rewrite <- app_assoc; assumption.
Qed.

Lemma step_all_moved l n : fst (step_all l n) = moved (fun t => fst (trace_step t n)) l.
Proof.
  induction l as [|[k t] l IH]; [reflexivity|]. cbn [step_all moved map fst snd].
  destruct (trace_step t n) as [t' e] eqn:Et. destruct (step_all l n) as [r es]. cbn [fst] in *. rewrite IH. reflexivity.
Qed.

Lemma unstep t n : set_index (fst (trace_step t n)) (tr_index t) = t.
Proof. unfold trace_step. destruct ((tr_index t + n <? 0) || (tr_max t <? tr_index t + n)); destruct t; reflexivity. Qed.

Lemma restore_after_step c off c2 e : cwf c -> cont_step (cont_store c) off None = Some (c2, e) -> cont_restore c2 = Some c.
Proof.
  intros W H. apply cwf_parts in W as (Hn & Ht & Hc). unfold cont_step, cont_store in H. cbn [c_traces] in H.
  destruct (step_all (c_traces c) off) as [ts es] eqn:E. injection H as <- _.
  unfold cont_restore, with_traces. cbn [c_stack c_traces c_ntraces].
  assert (Ets : ts = moved (fun t => fst (trace_step t off)) (c_traces c)).
  { rewrite <- step_all_moved, E. reflexivity. }
  rewrite Ets. unfold cont_indices.
  pose proof (restore_moved _ (fun t => unstep t off) (c_traces c) [] Hn Ht) as R. cbn [app] in R. rewrite R. destruct c; reflexivity.
Qed.

Lemma novirt_moved st c2 off e : novirt st -> cont_step (cont_store (st_cont st)) off None = Some (c2, e) ->
  forall k t, In (k, t) (c_traces c2) -> tr_virt t = [].
Proof.
  intros Hn H k t Hin. unfold cont_step, cont_store in H. cbn [c_traces] in H.
  destruct (step_all (c_traces (st_cont st)) off) as [ts es] eqn:E. injection H as <- _. cbn [with_traces c_traces] in Hin.
  replace ts with (fst (step_all (c_traces (st_cont st)) off)) in Hin by (rewrite E; reflexivity).
  destruct (step_all_in _ _ _ _ Hin) as (t0 & Hi & ->). unfold trace_step.
  destruct ((tr_index t0 + off <? 0) || (tr_max t0 <? tr_index t0 + off)); cbn [fst tr_virt set_index]; apply (Hn _ _ Hi).
Qed.

Section Reval.
  Variable ev : val -> M val.
  Lemma pure_op_reval args : Forall (fun a => pure (ev a)) args -> pure (op_reval ev args).
  Proof.
    intros HF st a st' Hok H. unfold op_reval in H.
    apply bind_ok_inv in H as (u & s0 & E & H). unfold assert in E. destruct (Nat.eqb (List.length args) 2); [|discriminate]. injection E as _ <-.
    destruct args as [|e [|o [|? ?]]]; try discriminate.
    inversion HF as [|? ? He HF1]; subst. inversion HF1 as [|? ? Ho _]; subst.
    apply bind_ok_inv in H as (u2 & s1 & E & H). unfold assert in E.
    match type of E with (if ?b then _ else _) _ = _ => destruct b end; [|discriminate]. injection E as _ <-.
    apply bind_ok_inv in H as (ov & s2 & Eo & H). pose proof (Ho _ _ _ Hok Eo) as ->.
    destruct (int_of ov) as [off|]; [|discriminate].
    apply bind_ok_inv in H as (s3 & s4 & E & H). injection E as <- <-.
    destruct (all_in_range (c_traces (st_cont st)) off); [|injection H as _ <-; reflexivity].
    apply bind_ok_inv in H as (u3 & s5 & E & H). unfold modify in E. injection E as _ <-.
    apply bind_ok_inv in H as (ended & s6 & Es & H).
    unfold step_all_m in Es. apply bind_ok_inv in Es as (s7 & s8 & E & Es). injection E as <- <-.
    cbn [st_cont upd_cont] in Es.
    destruct (cont_step (cont_store (st_cont st)) off None) as [[c2 e2]|] eqn:Ec; [|discriminate].
    apply bind_ok_inv in Es as (u4 & s9 & E & Es). unfold modify in E. injection E as _ <-. injection Es as _ <-.
    apply bind_ok_inv in H as (r & s10 & Er & H).
    destruct Hok as [Hnv Hw].
    assert (Hok2 : okst (upd_cont (upd_cont st (cont_store (st_cont st))) c2)).
    { split.
      - intros k t Hin. cbn [st_cont upd_cont] in Hin. apply (novirt_moved st c2 off e2 Hnv Ec k t Hin).
      - cbn [st_cont upd_cont]. apply (cwf_cont_step _ _ _ _ _ Ec). apply cwf_cont_store, Hw. }
    pose proof (He _ _ _ Hok2 Er) as ->.
    apply bind_ok_inv in H as (u5 & s11 & Erm & H). injection H as _ <-.
    unfold restore_m in Erm. apply bind_ok_inv in Erm as (s12 & s13 & E & Erm). injection E as <- <-.
    cbn [st_cont upd_cont] in Erm. rewrite (restore_after_step _ _ _ _ Hw Ec) in Erm.
    unfold modify in Erm. injection Erm as _ <-. destruct st as [fr cu ar co sc gr al ge ou fs]. reflexivity.
  Qed.
End Reval.

(** * more read-only operators: scoped/grouped references, list access, predicates, conversions *)
Section More.
  Variable ev : val -> M val.
  Hint Resolve pure_eval_args pure_last_or pure_arg0 pure_contains_m pure_signal_value_m pure_py_str pure_py_sum pure_eval_symbol : pureb.

  Lemma pure_cs_text : pure cs_text. Proof. unfold cs_text, read_global. solve_pure. Qed.
  Lemma pure_read_named_signal n : pure (read_named_signal ev n). Proof. unfold read_named_signal. solve_pure. Qed.
  Lemma pure_get_array r : pure (get_array r).
  Proof. intros st a st' _ H. unfold get_array in H. destruct (nth_error (st_arrays st) r); [|discriminate]. injection H as _ <-. reflexivity. Qed.
  Hint Resolve pure_cs_text pure_read_named_signal pure_get_array : pureb.

  Lemma pure_op_resolve_scope args : pure (op_resolve_scope ev args). Proof. unfold op_resolve_scope. solve_pure. Qed.
  Lemma pure_op_resolve_group args : pure (op_resolve_group ev args). Proof. unfold op_resolve_group. solve_pure. Qed.
  Lemma pure_op_loaded_traces args : pure (op_loaded_traces args). Proof. unfold op_loaded_traces. solve_pure. Qed.

  Hypothesis Hsym : forall n s, pure (ev (VSym n s)).
  Notation allpure args := (Forall (fun a => pure (ev a)) args).

  Lemma pure_in args a : allpure args -> In a args -> pure (ev a).
  Proof. intros Hargs H. rewrite Forall_forall in Hargs. apply Hargs, H. Qed.
  (** the first operand, then a continuation that may evaluate it *)
  Lemma pure_arg0_then {B} args (k : val -> M B) : (forall a, In a args -> pure (k a)) -> pure (a <- arg0 args ;; k a).
  Proof.
    intros Hk. destruct args as [|a r]; [intros st x st' _ H; discriminate|].
    intros st x st' Hok H. apply (Hk a (or_introl eq_refl) st x st' Hok H).
  Qed.
  Lemma pure_mapM_in {A B} (f : A -> M B) l : (forall x, In x l -> pure (f x)) -> pure (mapM f l).
  Proof. intros H. apply pure_mapM. apply Forall_forall. exact H. Qed.
  (** an error translated on the way out *)
  Lemma pure_map_result {A} (m : M A) (g : res A -> res A) :
    (forall a st, g (Ok a st) = Ok a st) -> (forall r a st, g r = Ok a st -> r = Ok a st) -> pure m -> pure (fun st => g (m st)).
  Proof. intros _ Hg Hm st a st' Hok H. apply Hg in H. apply (Hm _ _ _ Hok H). Qed.
  Lemma pure_of_int_parse p : pure (of_int_parse p). Proof. unfold of_int_parse. solve_pure. Qed.
  Lemma pure_array_key v : pure (array_key v). Proof. unfold array_key. solve_pure. Qed.
  Lemma pure_key_text v : pure (key_text v). Proof. unfold key_text. solve_pure. Qed.
  Lemma pure_read_global n : pure (read_global n). Proof. unfold read_global. solve_pure. Qed.
  Hint Resolve pure_of_int_parse pure_array_key pure_key_text pure_read_global : pureb.

  Ltac inv_forall := repeat match goal with H : Forall _ (_ :: _) |- _ => apply Forall_cons_iff in H; destruct H end.
  Ltac pstep :=
    lazymatch goal with
    | |- pure (bind (arg0 _) _) => apply pure_arg0_then; intros ? ?
    | |- pure (mapM _ ?l) => first [apply pure_mapM_all; intros ?; solve [repeat pure_step] | apply pure_mapM_in; intros ? ?]
    | |- pure (ev (VSym _ _)) => apply Hsym
    | |- pure (ev _) => first [assumption | eapply pure_in; eassumption]
    | |- pure (eval_args _ _) => apply pure_eval_args; assumption
    | |- _ => pure_step
    end.
  Ltac psolve := inv_forall; repeat (pstep; inv_forall).

  Lemma pure_eval_list1 args : allpure args -> pure (eval_list1 ev args).
  Proof. intros Hargs. unfold eval_list1. psolve. Qed.
  Lemma pure_eval_array a : pure (ev a) -> pure (eval_array ev a).
  Proof. intros Ha. unfold eval_array. psolve. Qed.
  Hint Resolve pure_eval_list1 pure_eval_array : pureb.
  Lemma pure_op_quote args : pure (op_quote args).
  Proof. unfold op_quote. solve_pure. Qed.
  Lemma pure_op_get args : allpure args -> pure (ltac:(first [exact (op_get ev args) | exact (op_get args)])).
  Proof. intros Hargs. unfold op_get. psolve.
    intros st0 y st1 Hok H. destruct (ev (VSym s None) st0) as [x s1|e s1| |] eqn:E; try discriminate.
    - injection H as _ <-. apply (Hsym _ _ _ _ _ Hok E).
    - destruct e; discriminate.
  Qed.
  Lemma pure_op_is_defined args : allpure args -> pure (ltac:(first [exact (op_is_defined ev args) | exact (op_is_defined args)])).
  Proof. intros Hargs. unfold op_is_defined. psolve. Qed.
  Lemma pure_op_convert_bin args : allpure args -> pure (ltac:(first [exact (op_convert_bin ev args) | exact (op_convert_bin args)])).
  Proof. intros Hargs. unfold op_convert_bin. psolve. Qed.
  Lemma pure_op_string_to_int args : allpure args -> pure (ltac:(first [exact (op_string_to_int ev args) | exact (op_string_to_int args)])).
  Proof. intros Hargs. unfold op_string_to_int. psolve. Qed.
  Lemma pure_op_bits_to_sint args : allpure args -> pure (ltac:(first [exact (op_bits_to_sint ev args) | exact (op_bits_to_sint args)])).
  Proof. intros Hargs. unfold op_bits_to_sint. psolve. Qed.
  Lemma pure_op_symbol_to_string args : allpure args -> pure (ltac:(first [exact (op_symbol_to_string ev args) | exact (op_symbol_to_string args)])).
  Proof. intros Hargs. unfold op_symbol_to_string. psolve. Qed.
  Lemma pure_op_string_to_symbol args : allpure args -> pure (ltac:(first [exact (op_string_to_symbol ev args) | exact (op_string_to_symbol args)])).
  Proof. intros Hargs. unfold op_string_to_symbol. psolve. Qed.
  Lemma pure_op_int_to_string args : allpure args -> pure (ltac:(first [exact (op_int_to_string ev args) | exact (op_int_to_string args)])).
  Proof. intros Hargs. unfold op_int_to_string. psolve. Qed.
  Lemma pure_op_list args : allpure args -> pure (ltac:(first [exact (op_list ev args) | exact (op_list args)])).
  Proof. intros Hargs. unfold op_list. psolve. Qed.
  Lemma pure_op_first args : allpure args -> pure (ltac:(first [exact (op_first ev args) | exact (op_first args)])).
  Proof. intros Hargs. unfold op_first. psolve. Qed.
  Lemma pure_op_second args : allpure args -> pure (ltac:(first [exact (op_second ev args) | exact (op_second args)])).
  Proof. intros Hargs. unfold op_second. psolve. Qed.
  Lemma pure_op_last args : allpure args -> pure (ltac:(first [exact (op_last ev args) | exact (op_last args)])).
  Proof. intros Hargs. unfold op_last. psolve. Qed.
  Lemma pure_op_rest args : allpure args -> pure (ltac:(first [exact (op_rest ev args) | exact (op_rest args)])).
  Proof. intros Hargs. unfold op_rest. psolve. Qed.
  Lemma pure_op_in args : allpure args -> pure (ltac:(first [exact (op_in ev args) | exact (op_in args)])).
  Proof. intros Hargs. unfold op_in. psolve.
    generalize (removelast a0). intros cs. induction cs as [|c r IH]; [apply pure_ret|].
    destruct (py_in c l) as [[|]|]; [exact IH|apply pure_ret|apply pure_unm].
  Qed.
  Lemma pure_op_average args : allpure args -> pure (ltac:(first [exact (op_average ev args) | exact (op_average args)])).
  Proof. intros Hargs. unfold op_average. psolve. Qed.
  Lemma pure_op_zip args : allpure args -> pure (ltac:(first [exact (op_zip ev args) | exact (op_zip args)])).
  Proof. intros Hargs. unfold op_zip. psolve. Qed.
  Lemma pure_op_length args : allpure args -> pure (ltac:(first [exact (op_length ev args) | exact (op_length args)])).
  Proof. intros Hargs. unfold op_length. psolve. Qed.
  Lemma pure_op_range args : allpure args -> pure (ltac:(first [exact (op_range ev args) | exact (op_range args)])).
  Proof. intros Hargs. unfold op_range. psolve. Qed.
  Lemma pure_op_geta args : allpure args -> pure (ltac:(first [exact (op_geta ev args) | exact (op_geta args)])).
  Proof. intros Hargs. unfold op_geta. psolve. Qed.
  Lemma pure_op_is_signal args : allpure args -> pure (ltac:(first [exact (op_is_signal ev args) | exact (op_is_signal args)])).
  Proof. intros Hargs. unfold op_is_signal. psolve. Qed.
  Lemma pure_op_signal_width args : allpure args -> pure (ltac:(first [exact (op_signal_width ev args) | exact (op_signal_width args)])).
  Proof. intros Hargs. unfold op_signal_width. psolve. Qed.
  Lemma pure_op_groups args : allpure args -> pure (ltac:(first [exact (op_groups ev args) | exact (op_groups args)])).
  Proof. intros Hargs. unfold op_groups. psolve. Qed.
  Lemma pure_op_maxmin b args : allpure args -> pure (op_maxmin ev b args).
  Proof. intros Hargs. unfold op_maxmin. psolve. Qed.
  Lemma pure_op_all_pred p args : allpure args -> pure (op_all_pred ev p args).
  Proof. intros Hargs. unfold op_all_pred. psolve. Qed.
End More.

(** * the fragment with @ *)
(** operators added to the fragment of ReadOnly.v: relative evaluation, references through scope, group and name,
    list access, predicates, conversions, array reads; quote leaves its operand unevaluated *)
Definition roa_more (o : op) : bool :=
  match o with
  | OReval | OGet | OResolveScope | OResolveGroup | OLoadedTraces | OGroups | ODefinedP | OSignalP | OSignalWidth
  | OAtomP | OSymbolP | OStringP | OIntP | OListP
  | OConvertBin | OStringToInt | OBitsToSint | OStringToSymbol | OSymbolToString | OIntToString
  | OList | OFirst | OSecond | OLast | ORest | OIn | OMax | OMin | OAverage | OZip | OLength | ORange | OGeta => true
  | _ => false
  end.
Definition roa_op (o : op) : bool := ro_op o || roa_more o.
Fixpoint is_roa (e : val) : bool :=
  match e with
  | VInt _ | VBool _ | VStr _ | VFloat _ | VSym _ _ => true
  | VList _ [VOp OQuote; _] => true
  | VList _ (VOp o :: args) => roa_op o && forallb is_roa args
  | _ => false
  end.

Theorem roa_pure lf f : forall e, is_roa e = true -> pure (eval lf f e).
Proof.
  induction f as [|f IH]; intros e Hro; [apply pure_fuel|].
  change (eval lf (S f) e) with (eval_body lf (fun e' => eval lf f e') (fun e' p => expand lf f e' p) e).
  destruct e as [| | | | | | |w l| | | | |]; try discriminate; try apply pure_ret.
  - apply pure_eval_symbol.
  - destruct l as [|h args]; [discriminate|]. destruct h as [| | | | | |o| | | | | |]; try discriminate.
    cbn [eval_body].
    assert (Hq : o = OQuote \/ roa_op o && forallb is_roa args = true).
    { cbn [is_roa] in Hro. destruct o; auto. }
    destruct Hq as [->|Hq]; [unfold dispatch; apply pure_op_quote|]. clear Hro.
    apply andb_prop in Hq as [Ho Ha].
    assert (HF : Forall (fun a => pure (eval lf f a)) args).
    { apply Forall_forall. intros a Hin. apply IH. rewrite forallb_forall in Ha. apply Ha, Hin. }
    assert (Hs : forall n s, pure (eval lf f (VSym n s))) by (intros n s; apply IH; reflexivity).
    destruct o; try discriminate; unfold dispatch;
      first [ apply pure_op_not | apply pure_op_eq | apply pure_op_cmp | apply pure_op_and | apply pure_op_or
            | apply pure_op_if | apply pure_op_do | apply pure_op_add | apply pure_op_sub | apply pure_op_mul
            | apply pure_op_div | apply pure_op_exp | apply pure_op_mod | apply pure_op_bitwise | apply pure_op_slice
            | apply pure_op_reval | apply pure_op_resolve_scope | apply pure_op_resolve_group | apply pure_op_loaded_traces
            | apply pure_op_get | apply pure_op_groups | apply pure_op_is_defined | apply pure_op_is_signal
            | apply pure_op_signal_width | apply pure_op_all_pred | apply pure_op_convert_bin | apply pure_op_string_to_int
            | apply pure_op_bits_to_sint | apply pure_op_string_to_symbol | apply pure_op_symbol_to_string
            | apply pure_op_int_to_string | apply pure_op_list | apply pure_op_first | apply pure_op_second
            | apply pure_op_last | apply pure_op_rest | apply pure_op_in | apply pure_op_maxmin | apply pure_op_average
            | apply pure_op_zip | apply pure_op_length | apply pure_op_range | apply pure_op_geta ];
      first [exact HF | exact Hs | idtac].
Qed.

(** (find c) for conditions of the fragment with @: only "c can be evaluated at every index" remains a premise *)
Theorem find_pointwise_roa lf f tid c st0 t0 :
  tr_tid t0 = tid -> tr_virt t0 = [] -> c_ntraces (st_cont st0) = 1 -> is_roa c = true ->
  (forall j, 0 <= j <= tr_max t0 -> exists v st', eval lf f c (at_idx tid st0 t0 j) = Ok v st') ->
  forall fuel i, 0 <= i <= tr_max t0 -> (Z.to_nat (tr_max t0 - i) < fuel)%nat ->
  op_find fuel (eval lf f) [c] (at_idx tid st0 t0 i) =
  Ok (PL (map VInt (filter (truth_at (eval lf f) tid c st0 t0) (zrange_nat i (S (Z.to_nat (tr_max t0 - i))))))) (at_idx tid st0 t0 i).
Proof.
  intros Htid Hv Hn Hro Hok. apply (find_pointwise (eval lf f) tid c st0 t0 Htid).
  intros j Hj. destruct (Hok j Hj) as (v & st' & E). exists v. rewrite E. f_equal.
  apply (roa_pure lf f c Hro _ _ _) in E; [exact E|]. split.
  - intros k t [H|[]]. injection H as _ <-. exact Hv.
  - apply cwf_parts. unfold at_idx, set1, upd_cont, with_traces. simpl. repeat split.
    + constructor; [intros []|constructor].
    + intros k t [H|[]]. injection H as <- <-. exact Htid.
    + exact Hn.
Qed.
