(** LoadGen.v — a load without an id uses the id "t<number of loaded traces>", and when that id is taken the load fails
    and leaves everything as it was (C12). *)
From WalModel Require Import Eval.
Local Open Scope Z_scope.

Definition generated_id (st : state) : string := ("t" ++ dec_of_Z (zlen (c_traces (st_cont st))))%string.

Theorem load_without_id_uses_the_generated_id file st :
  load_m file None st = load_m file (Some (generated_id st)) st.
Proof. reflexivity. Qed.

Theorem generated_id_taken_fails file st :
  amem (generated_id st) (c_traces (st_cont st)) = true -> load_m file None st = Er EEval st.
Proof.
  intros H. unfold load_m, bind, get_st. fold (generated_id st). rewrite H. reflexivity.
Qed.
