(** OptRo.v — T-opt for the read-only fragment: optimize preserves every completed evaluation of every expression
    built from integer/boolean/string literals, names, + - * ** mod, comparison, logic, bitwise operators, slice, if
    and do, nested arbitrarily — the congruence step included (C08).  Floats are left out (the folded product starts
    from the integer 1, i.e. 1*f, whose equality with f in IEEE arithmetic is not proved here). *)
From WalModel Require Import Eval.
From WalModel.proofs Require Import EvalArith Balanced ReadOnly FuelMono OptProofs.
Local Open Scope Z_scope.

Lemma forall2_len {A B} (R : A -> B -> Prop) l l' : Forall2 R l l' -> List.length l' = List.length l.
Proof. induction 1 as [|a a' r r' _ _ IH]; cbn [List.length]; [reflexivity|rewrite IH; reflexivity]. Qed.

(** * congruence: the operators of the fragment use their operands only through the evaluator *)
Section Cong.
  Variables ev1 ev2 : val -> M val.
  Definition rel (a a' : val) : Prop := le (ev1 a) (ev2 a').

  Lemma le_eval_args2 args args' : Forall2 rel args args' -> le (eval_args ev1 args) (eval_args ev2 args').
  Proof.
    unfold eval_args. induction 1 as [|a a' r r' Ha Hr IH]; cbn [mapM]; [apply le_refl|].
    apply le_bind; [exact Ha|intros v]. apply le_bind; [exact IH|intros vs; apply le_refl].
  Qed.

  Section Args.
    Variables args args' : list val.
    Hypothesis H : Forall2 rel args args'.
    Lemma len_eq : List.length args' = List.length args. Proof. apply (forall2_len _ _ _ H). Qed.
    Lemma zlen_eq : zlen args' = zlen args. Proof. unfold zlen. rewrite len_eq. reflexivity. Qed.
    Lemma ea2 : le (eval_args ev1 args) (eval_args ev2 args'). Proof. apply le_eval_args2, H. Qed.
    Hint Resolve ea2 : leb.

    Lemma cong_not : le (op_not ev1 args) (op_not ev2 args'). Proof. unfold op_not. solve_le. Qed.
    Lemma cong_eq neg : le (op_eq ev1 neg args) (op_eq ev2 neg args'). Proof. unfold op_eq. solve_le. Qed.
    Lemma cong_cmp t : le (op_cmp ev1 t args) (op_cmp ev2 t args'). Proof. unfold op_cmp. rewrite len_eq. solve_le. Qed.
    Lemma cong_add : le (op_add ev1 args) (op_add ev2 args'). Proof. unfold op_add. solve_le. Qed.
    Lemma cong_sub : le (op_sub ev1 args) (op_sub ev2 args'). Proof. unfold op_sub. solve_le. Qed.
    Lemma cong_mul : le (op_mul ev1 args) (op_mul ev2 args'). Proof. unfold op_mul. solve_le. Qed.
    Lemma cong_exp : le (op_exp ev1 args) (op_exp ev2 args'). Proof. unfold op_exp. solve_le. Qed.
    Lemma cong_mod : le (op_mod ev1 args) (op_mod ev2 args'). Proof. unfold op_mod. rewrite len_eq. solve_le. Qed.
    Lemma cong_bitwise f : le (op_bitwise ev1 f args) (op_bitwise ev2 f args'). Proof. unfold op_bitwise. solve_le. Qed.
    Lemma cong_slice : le (op_slice ev1 args) (op_slice ev2 args'). Proof. unfold op_slice. rewrite zlen_eq. solve_le. Qed.
    Lemma cong_do : le (op_do ev1 args) (op_do ev2 args').
    Proof.
      unfold op_do. pose proof ea2 as E. destruct H as [|a a' r r' Ha Hr]; [apply le_refl|].
      apply le_bind; [exact E|intros; apply le_refl].
    Qed.
  End Args.

  Lemma cong_and_loop args args' : Forall2 rel args args' -> le (and_loop ev1 args) (and_loop ev2 args').
  Proof.
    induction 1 as [|a a' r r' Ha Hr IH]; cbn [and_loop]; [apply le_refl|].
    apply le_bind; [exact Ha|intros v]. apply le_bind; [apply le_refl|intros st]. destruct (truthy st v); [exact IH|apply le_refl].
  Qed.
  Lemma cong_or_loop args args' : Forall2 rel args args' -> le (or_loop ev1 args) (or_loop ev2 args').
  Proof.
    induction 1 as [|a a' r r' Ha Hr IH]; cbn [or_loop]; [apply le_refl|].
    apply le_bind; [exact Ha|intros v]. apply le_bind; [apply le_refl|intros st]. destruct (truthy st v); [apply le_refl|exact IH].
  Qed.
  Lemma cong_if args args' : Forall2 rel args args' -> le (op_if ev1 args) (op_if ev2 args').
  Proof.
    intros H. unfold op_if. rewrite (len_eq _ _ H). apply le_bind; [apply le_refl|intros _].
    destruct H as [|c c' r r' Hc Hr]; [apply le_refl|]. destruct Hr as [|t t' r2 r2' Ht Hr2]; [apply le_refl|].
    apply le_bind; [exact Hc|intros v]. apply le_bind; [apply le_refl|intros st]. destruct (truthy st v); [exact Ht|].
    destruct Hr2 as [|e e' r3 r3' He Hr3]; [apply le_refl|]. destruct Hr3; [exact He|apply le_refl].
  Qed.
End Cong.

(** * the fragment: read-only, without float literals and without division *)
Definition ron_op (o : op) : bool :=
  match o with
  | ONot | OEq | ONeq | OGt | OLt | OGe | OLe | OAnd | OOr | OIf | ODo
  | OAdd | OSub | OMul | OExp | OMod | OBor | OBand | OBxor | OSlice => true
  | _ => false
  end.
Fixpoint ron (e : val) : bool :=
  match e with
  | VInt _ | VBool _ | VStr _ | VSym _ _ => true
  | VList _ (VOp o :: args) => ron_op o && forallb ron args
  | _ => false
  end.

Lemma ron_is_ro : forall e, ron e = true -> is_ro e = true.
Proof.
  fix IH 1. intros e. destruct e as [| | | | | | |w l| | | | |]; try (intros; reflexivity); try discriminate.
  destruct l as [|h args]; [discriminate|]. destruct h as [| | | | | |o| | | | | |]; try discriminate.
  cbn [ron is_ro]. intros H. apply andb_prop in H as [Ho Ha]. apply andb_true_intro. split.
  - destruct o; try discriminate; reflexivity.
  - clear Ho. induction args as [|a r IHr]; [reflexivity|]. cbn [forallb] in *. apply andb_prop in Ha as [H1 H2].
    rewrite (IH a H1), (IHr H2). reflexivity.
Qed.

(** integer-valued numeric literals *)
Definition is_ilit (v : val) : bool := match v with VInt _ | VBool _ => true | _ => false end.
Lemma ron_numlit_ilit args : forallb ron args = true -> forallb is_num_lit args = true -> forallb is_ilit args = true.
Proof.
  induction args as [|a r IH]; [reflexivity|]. cbn [forallb]. intros H1 H2. apply andb_prop in H1 as [Ha Hr]. apply andb_prop in H2 as [Na Nr].
  rewrite (IH Hr Nr), andb_true_r. destruct a; try discriminate; reflexivity.
Qed.
Lemma ilit_as_num args : forallb is_ilit args = true -> exists zs, map_opt as_num args = Some (map NInt zs).
Proof.
  induction args as [|a r IH]; [exists []; reflexivity|]. cbn [forallb]. intros H. apply andb_prop in H as [Ha Hr].
  destruct (IH Hr) as [zs E]. destruct a; try discriminate; cbn [map_opt as_num]; rewrite E; eexists (_ :: zs); reflexivity.
Qed.
Lemma fold_add_ints : forall zs acc, fold_num' num_add' (NInt acc) (map NInt zs) = Some (NInt (fold_left Z.add zs acc)).
Proof. induction zs as [|z zs IH]; intros acc; cbn [map fold_num' fold_left num_add']; [reflexivity|apply IH]. Qed.
Lemma fold_mul_ints' : forall zs acc, fold_num' num_mul' (NInt acc) (map NInt zs) = Some (NInt (fold_left Z.mul zs acc)).
Proof. induction zs as [|z zs IH]; intros acc; cbn [map fold_num' fold_left num_mul']; [reflexivity|apply IH]. Qed.

Lemma lit_sum_ilit args v : forallb is_ilit args = true -> lit_sum args = Some v -> exists z, v = VInt z.
Proof.
  intros H. unfold lit_sum. destruct (ilit_as_num args H) as [zs E]. rewrite E.
  destruct (Nat.leb 3 (n_floats args)); [discriminate|]. rewrite fold_add_ints. intros X. injection X as <-. eexists. reflexivity.
Qed.
Lemma lit_prod_ilit args v : forallb is_ilit args = true -> lit_prod args = Some v -> exists z, v = VInt z.
Proof.
  intros H. unfold lit_prod. destruct (ilit_as_num args H) as [zs E]. rewrite E, fold_mul_ints'.
  intros X. injection X as <-. eexists. reflexivity.
Qed.

(** the pass stays inside the fragment *)
Ltac inj X := cbv beta iota in X; injection X as <-.

Lemma node_ron_if w args' e' : forallb ron args' = true -> optimize_node w OIf (VOp OIf :: args') = Some e' -> ron e' = true.
Proof.
  intros Ha. assert (Hself : ron (VList true (VOp OIf :: args')) = true) by (cbn [ron ron_op]; rewrite Ha; reflexivity).
  unfold optimize_node. cbv zeta.
  destruct args' as [|c rest]; [intros X; inj X; exact Hself|].
  cbn [forallb] in Ha. apply andb_prop in Ha as [Hc Hr].
  destruct (is_lit c); [|intros X; inj X; exact Hself].
  destruct (lit_truthy c).
  - destruct rest as [|t r]; intros X; inj X; [exact Hself|]. cbn [forallb] in Hr. apply andb_prop in Hr as [Ht _]. exact Ht.
  - destruct rest as [|t [|e r]]; intros X; inj X; try exact Hself.
    cbn [forallb] in Hr. apply andb_prop in Hr as [_ Hr]. apply andb_prop in Hr as [He _]. exact He.
Qed.
Lemma node_ron_do w args' e' : forallb ron args' = true -> optimize_node w ODo (VOp ODo :: args') = Some e' -> ron e' = true.
Proof.
  intros Ha. assert (Hself : ron (VList true (VOp ODo :: args')) = true) by (cbn [ron ron_op]; rewrite Ha; reflexivity).
  unfold optimize_node. cbv zeta. destruct args' as [|x [|y r]]; intros X; inj X; try exact Hself.
  cbn [forallb] in Ha. apply andb_prop in Ha as [Hx _]. exact Hx.
Qed.
Lemma node_ron_add w args' e' : forallb ron args' = true -> optimize_node w OAdd (VOp OAdd :: args') = Some e' -> ron e' = true.
Proof.
  intros Ha. assert (Hself : ron (VList true (VOp OAdd :: args')) = true) by (cbn [ron ron_op]; rewrite Ha; reflexivity).
  unfold optimize_node. cbv zeta. cbn [tl]. destruct (forallb is_num_lit args') eqn:En.
  - destruct (lit_sum args') as [v|] eqn:Es; [|discriminate]. intros X. inj X.
    destruct (lit_sum_ilit args' v (ron_numlit_ilit args' Ha En) Es) as [z ->]. reflexivity.
  - destruct (forallb is_str_lit args'); intros X; inj X; [reflexivity|exact Hself].
Qed.
Lemma node_ron_mul w args' e' : forallb ron args' = true -> optimize_node w OMul (VOp OMul :: args') = Some e' -> ron e' = true.
Proof.
  intros Ha. assert (Hself : ron (VList true (VOp OMul :: args')) = true) by (cbn [ron ron_op]; rewrite Ha; reflexivity).
  unfold optimize_node. cbv zeta. cbn [tl]. destruct (forallb is_num_lit args') eqn:En; [|intros X; inj X; exact Hself].
  destruct (lit_prod args') as [v|] eqn:Es; [|discriminate]. intros X. inj X.
  destruct (lit_prod_ilit args' v (ron_numlit_ilit args' Ha En) Es) as [z ->]. reflexivity.
Qed.

Lemma optimize_node_ron w o args' e' :
  ron_op o = true -> forallb ron args' = true -> optimize_node w o (VOp o :: args') = Some e' -> ron e' = true.
Proof.
  intros Ho Ha. assert (Hself : ron (VList true (VOp o :: args')) = true) by (cbn [ron]; rewrite Ho, Ha; reflexivity).
  destruct o; try discriminate Ho;
    first [ apply node_ron_if, Ha | apply node_ron_do, Ha | apply node_ron_add, Ha | apply node_ron_mul, Ha
          | (unfold optimize_node; cbv zeta; intros X; inj X; exact Hself) ].
Qed.

Lemma optimize_ron : forall e e', ron e = true -> optimize_opt e = Some e' -> ron e' = true.
Proof.
  fix IH 1. intros e e' Hr. destruct e as [| | | | | | |w l| | | | |]; try discriminate Hr;
    try (intros X; injection X as <-; exact Hr).
  destruct l as [|h args]; [discriminate Hr|]. destruct h as [| | | | | |o| | | | | |]; try discriminate Hr.
  assert (Hr0 := Hr). cbn [ron] in Hr. apply andb_prop in Hr as [Ho Ha].
  assert (Hargs : forall args', map_opt optimize_opt args = Some args' -> forallb ron args' = true).
  { clear Ho Hr0. revert Ha. induction args as [|a r IHr]; intros Ha args' E.
    - injection E as <-. reflexivity.
    - cbn [map_opt] in E. cbn [forallb] in Ha. apply andb_prop in Ha as [H1 H2].
      destruct (optimize_opt a) as [a'|] eqn:Ea; [|discriminate]. destruct (map_opt optimize_opt r) as [r'|] eqn:Er; [|discriminate].
      injection E as <-. cbn [forallb]. rewrite (IH a a' H1 Ea), (IHr H2 r' eq_refl). reflexivity. }
  cbn [optimize_opt].
  destruct o; try discriminate Ho.
  all: first
    [ (destruct w; cbv beta iota; [|intros X; injection X as <-; exact Hr0];
       destruct (map_opt optimize_opt args) as [args'|] eqn:E; [|discriminate];
       apply (optimize_node_ron _ _ _ _ Ho (Hargs _ eq_refl)))
    | (destruct w; cbv beta iota; destruct (forallb is_lit args && negb (Nat.eqb (List.length args) 0)); intros X; injection X as <-;
       first [reflexivity|exact Hr0]) ].
Qed.

Lemma le_trans {A} (a b c : M A) : le a b -> le b c -> le a c.
Proof. intros H1 H2 st x st' H. apply H2, H1, H. Qed.

(** * the folding step: with an evaluator that returns literals unchanged *)
Section Fold.
  Variable ev : val -> M val.
  Hypothesis Hlit : forall v st, is_lit v = true -> ev v st = Ok v st.

  Lemma ilit_is_lit args : forallb is_ilit args = true -> forallb is_lit args = true.
  Proof. induction args as [|a r IH]; [reflexivity|]. cbn [forallb]. intros H. apply andb_prop in H as [Ha Hr]. rewrite (IH Hr). destruct a; try discriminate; reflexivity. Qed.
  Lemma ilit_num_val args : forallb is_ilit args = true -> forallb is_num_val args = true.
  Proof. induction args as [|a r IH]; [reflexivity|]. cbn [forallb]. intros H. apply andb_prop in H as [Ha Hr]. rewrite (IH Hr). destruct a; try discriminate; reflexivity. Qed.
  Lemma fold_mul_eval : forall zs acc, fold_num num_mul (NInt acc) (map NInt zs) = Some (NInt (fold_left Z.mul zs acc)).
  Proof. induction zs as [|z zs IH]; intros acc; cbn [map fold_num fold_left num_mul]; [reflexivity|apply IH]. Qed.

  Lemma mul_ilit args v st v' st' : forallb is_ilit args = true -> lit_prod args = Some v ->
    op_mul ev args st = Ok v' st' -> v' = v /\ st' = st.
  Proof.
    intros Hi Hp H. unfold op_mul in H. apply bind_ok_inv in H as (vs & s1 & E & H).
    rewrite (eval_args_lits ev Hlit args st (ilit_is_lit args Hi)) in E. injection E as <- <-.
    rewrite (ilit_num_val args Hi) in H. cbn [assert] in H. apply bind_ok_inv in H as (u & s2 & E & H). injection E as _ <-.
    apply bind_ok_inv in H as (u2 & s3 & E & H). unfold assert in E. destruct (1 <? zlen args) eqn:El; [|discriminate]. injection E as _ <-.
    destruct (ilit_as_num args Hi) as [zs Ez]. rewrite Ez in H. unfold lit_prod in Hp. rewrite Ez, fold_mul_ints' in Hp. injection Hp as <-.
    destruct zs as [|z r]; [discriminate|]. cbn [map] in H. rewrite fold_mul_eval in H. injection H as <- <-.
    split; [|reflexivity]. cbn [fold_left val_of_num]. rewrite Z.mul_1_l. reflexivity.
  Qed.
End Fold.

Lemma node_sound lf f w o args' e' :
  ron_op o = true -> forallb ron args' = true -> optimize_node w o (VOp o :: args') = Some e' ->
  le (eval lf (S (S f)) (VList true (VOp o :: args'))) (eval lf (S (S f)) e').
Proof.
  intros Ho Ha Hn.
  set (ev := fun x : val => eval lf (S f) x).
  assert (Hlit : forall v st, is_lit v = true -> ev v st = Ok v st) by (intros; apply eval_literal; assumption).
  assert (Hup : forall x st v st', ev x st = Ok v st' -> eval lf (S (S f)) x st = Ok v st').
  { intros x st v st' H. apply (eval_fuel_monotone lf (S f) (S (S f)) x st v st' ltac:(lia) H). }
  assert (Hself : optimize_node w o (VOp o :: args') = Some (VList true (VOp o :: args')) -> e' = VList true (VOp o :: args')).
  { intros X. rewrite X in Hn. (cbv beta iota in Hn; injection Hn as <-). reflexivity. }
  change (eval lf (S (S f)) (VList true (VOp o :: args'))) with (dispatch lf ev (fun x q => expand lf (S f) x q) o args').
  destruct o; try discriminate Ho; try (rewrite (Hself eq_refl); apply le_refl).
  all: unfold optimize_node in Hn; cbv zeta in Hn; unfold dispatch.
  - (* + *)
    cbn [tl] in Hn. destruct (forallb is_num_lit args') eqn:En.
    + destruct (lit_sum args') as [v|] eqn:Es; [|discriminate]. (cbv beta iota in Hn; injection Hn as <-).
      intros st x st' H. rewrite (add_numeric_literals ev Hlit args' v st En Es) in H. injection H as <- <-.
      destruct (lit_sum_ilit args' v (ron_numlit_ilit args' Ha En) Es) as [z ->]. reflexivity.
    + destruct (forallb is_str_lit args') eqn:Est; (cbv beta iota in Hn; injection Hn as <-); [|apply le_refl].
      intros st x st' H. destruct args' as [|a r]; [discriminate En|].
      rewrite (add_string_literals ev Hlit (a :: r) st Est ltac:(discriminate)) in H. injection H as <- <-. reflexivity.
  - (* * *)
    cbn [tl] in Hn. destruct (forallb is_num_lit args') eqn:En; [|(cbv beta iota in Hn; injection Hn as <-); apply le_refl].
    destruct (lit_prod args') as [v|] eqn:Es; [|discriminate]. (cbv beta iota in Hn; injection Hn as <-).
    intros st x st' H. destruct (mul_ilit ev Hlit args' v st x st' (ron_numlit_ilit args' Ha En) Es H) as [-> ->].
    destruct (lit_prod_ilit args' v (ron_numlit_ilit args' Ha En) Es) as [z ->]. reflexivity.
  - (* if *)
    destruct args' as [|c rest]; [(cbv beta iota in Hn; injection Hn as <-); apply le_refl|].
    destruct (is_lit c) eqn:Hc; [|(cbv beta iota in Hn; injection Hn as <-); apply le_refl].
    destruct (lit_truthy c) eqn:Ht.
    + destruct rest as [|t r]; (cbv beta iota in Hn; injection Hn as <-); [apply le_refl|].
      intros st x st' H. destruct (Nat.leb (List.length r) 1) eqn:El.
      * apply Nat.leb_le in El. rewrite (if_literal_true ev Hlit c t r st Hc Ht El) in H. apply Hup, H.
      * exfalso. apply Nat.leb_gt in El. unfold op_if in H. destruct r as [|r1 [|r2 r3]]; cbn [List.length] in El; try lia.
        cbn in H. discriminate H.
    + destruct rest as [|t [|e r]]; (cbv beta iota in Hn; injection Hn as <-); try apply le_refl.
      intros st x st' H. destruct r as [|r1 r2].
      * rewrite (if_literal_false ev Hlit c t e st Hc Ht) in H. apply Hup, H.
      * exfalso. cbn in H. discriminate H.
  - (* do *)
    destruct args' as [|x0 [|y r]]; (cbv beta iota in Hn; injection Hn as <-); try apply le_refl.
    intros st x st' H. rewrite (do_single ev x0 st) in H. apply Hup, H.
Qed.

(** * T-opt for the fragment *)
Theorem optimize_sound_ro lf : forall f e e',
  ron e = true -> optimize_opt e = Some e' -> le (eval lf f e) (eval lf (S f) e').
Proof.
  induction f as [|f IH]; intros e e' Hr Ho; [apply le_fuel|].
  destruct e as [| | | | | | |w l| | | | |]; try discriminate Hr;
    try (injection Ho as <-; intros st x st' H; apply (eval_fuel_monotone lf (S f) (S (S f)) _ st x st' ltac:(lia) H)).
  destruct l as [|h args]; [discriminate Hr|]. destruct h as [| | | | | |o| | | | | |]; try discriminate Hr.
  assert (Hr0 := Hr). cbn [ron] in Hr. apply andb_prop in Hr as [Hop Ha].
  assert (Hsame : e' = VList w (VOp o :: args) -> le (eval lf (S f) (VList w (VOp o :: args))) (eval lf (S (S f)) e')).
  { intros ->. intros st x st' H. apply (eval_fuel_monotone lf (S f) (S (S f)) _ st x st' ltac:(lia) H). }
  assert (Hargs : forall args', map_opt optimize_opt args = Some args' ->
            Forall2 (rel (fun x => eval lf f x) (fun x => eval lf (S f) x)) args args' /\ forallb ron args' = true).
  { clear Hsame Hop Hr0 Ho. revert Ha. induction args as [|a r IHr]; intros Ha args' E.
    - injection E as <-. split; [constructor|reflexivity].
    - cbn [map_opt] in E. cbn [forallb] in Ha. apply andb_prop in Ha as [H1 H2].
      destruct (optimize_opt a) as [a'|] eqn:Ea; [|discriminate]. destruct (map_opt optimize_opt r) as [r'|] eqn:Er; [|discriminate].
      injection E as <-. destruct (IHr H2 r' eq_refl) as [F R]. split.
      + constructor; [apply (IH a a' H1 Ea)|exact F].
      + cbn [forallb]. rewrite (optimize_ron a a' H1 Ea), R. reflexivity. }
  cbn [optimize_opt] in Ho.
  change (eval lf (S f) (VList w (VOp o :: args))) with (dispatch lf (fun x => eval lf f x) (fun x q => expand lf f x q) o args) in *.
  destruct o; try discriminate Hop.
  all: try (match goal with |- le (dispatch _ _ _ ?o _) _ =>
    destruct w; cbv beta iota in Ho; [|injection Ho as <-; apply Hsame; reflexivity];
    destruct (map_opt optimize_opt args) as [args'|] eqn:E; [|discriminate];
    destruct (Hargs args' eq_refl) as [F R];
    eapply le_trans; [|apply (node_sound lf f _ _ args' e' Hop R Ho)];
    change (eval lf (S (S f)) (VList true (VOp o :: args'))) with (dispatch lf (fun x => eval lf (S f) x) (fun x q => expand lf (S f) x q) o args');
    unfold dispatch;
    first [ apply cong_not | apply cong_eq | apply cong_cmp | apply cong_if | apply cong_do | apply cong_add | apply cong_sub
          | apply cong_mul | apply cong_exp | apply cong_mod | apply cong_bitwise | apply cong_slice ]; exact F end).
  - (* && *)
    assert (Hfold : forallb is_lit args && negb (Nat.eqb (List.length args) 0) = true ->
                    le (dispatch lf (fun x => eval lf f x) (fun x q => expand lf f x q) OAnd args)
                       (eval lf (S (S f)) (VBool (forallb lit_truthy args)))).
    { intros Hc. apply andb_prop in Hc as [Hl Hn]. intros st x st' H. unfold dispatch in H.
      destruct args as [|a r]; [discriminate Hn|]. destruct f as [|f0].
      - unfold op_and in H. cbn in H. discriminate H.
      - rewrite (and_literals (fun x => eval lf (S f0) x) (fun v s Hv => eval_literal lf f0 v s Hv) (a :: r) st Hl ltac:(discriminate)) in H.
        injection H as <- <-. reflexivity. }
    destruct w; cbv beta iota in Ho; destruct (forallb is_lit args && negb (Nat.eqb (List.length args) 0)) eqn:Ec;
      injection Ho as <-; first [apply Hfold; reflexivity|apply Hsame; reflexivity].
  - (* || *)
    assert (Hfold : forallb is_lit args && negb (Nat.eqb (List.length args) 0) = true ->
                    le (dispatch lf (fun x => eval lf f x) (fun x q => expand lf f x q) OOr args)
                       (eval lf (S (S f)) (VBool (existsb lit_truthy args)))).
    { intros Hc. apply andb_prop in Hc as [Hl Hn]. intros st x st' H. unfold dispatch in H.
      destruct args as [|a r]; [discriminate Hn|]. destruct f as [|f0].
      - unfold op_or in H. cbn in H. discriminate H.
      - rewrite (or_literals (fun x => eval lf (S f0) x) (fun v s Hv => eval_literal lf f0 v s Hv) (a :: r) st Hl ltac:(discriminate)) in H.
        injection H as <- <-. reflexivity. }
    destruct w; cbv beta iota in Ho; destruct (forallb is_lit args && negb (Nat.eqb (List.length args) 0)) eqn:Ec;
      injection Ho as <-; first [apply Hfold; reflexivity|apply Hsame; reflexivity].
Qed.

(** in the words of the property: if the unoptimised expression completes, the optimised one completes with the
    same value and the same final state (same output, assignments, positions) *)
Corollary optimize_preserves_ro lf f e st v st' :
  ron e = true -> optimize_modelled e = true -> eval lf f e st = Ok v st' -> eval lf (S f) (optimize e) st = Ok v st'.
Proof.
  unfold optimize_modelled, optimize. intros Hr Hm H. destruct (optimize_opt e) as [e'|] eqn:E; [|discriminate].
  apply (optimize_sound_ro lf f e e' Hr E st v st' H).
Qed.

