(** GeneratedTies.v — the hand-written tables of the model equal the tables regenerated from /repo on every run
    (gen/translate.py -> Generated.v): the Operator enum values in declaration order, the special signal names,
    the trace-id separator.  An edit to any of them in /repo re-opens these obligations. *)
From WalModel Require Import Eval Generated.

Theorem operator_table_is_the_repositorys : map op_name all_ops = operator_values.
Proof. vm_compute. reflexivity. Qed.

Theorem special_signals_are_the_repositorys : special_signals = special_signals_gen.
Proof. vm_compute. reflexivity. Qed.

Theorem trace_separator_is_the_repositorys : scope_separator_gen = String "^"%char EmptyString.
Proof. reflexivity. Qed.

(** every operator has a distinct name, and the name determines the operator *)
Theorem operator_names_distinct : NoDup (map op_name all_ops).
Proof.
  assert (H : forall l : list string, (fix nd (l : list string) := match l with [] => true | x :: r => negb (existsb (String.eqb x) r) && nd r end) l = true -> NoDup l).
  { induction l as [|x r IH]; intros E; [constructor|]. apply andb_prop in E as [E1 E2]. constructor; [|apply IH, E2].
    intros Hin. apply negb_true_iff in E1. assert (X : existsb (String.eqb x) r = true).
    { apply existsb_exists. exists x. split; [exact Hin|apply String.eqb_refl]. }
    congruence. }
  apply H. vm_compute. reflexivity.
Qed.

Theorem operator_of_its_name : forall o, op_of_name (op_name o) = Some o.
Proof. destruct o; vm_compute; reflexivity. Qed.
